#!/usr/bin/env python3
"""Regenerates MANIFEST.json from the table below (one place to keep claims honest)."""
import json, os
ROOT = os.path.dirname(os.path.dirname(os.path.abspath(__file__)))
props = [json.loads(l) for l in open(os.path.join(ROOT, "properties.jsonl"))]

PROOF_NOTE = ("Trusted: Lean 4.33 kernel; axioms propext/Classical.choice/Quot.sound only (audited every run); the "
              "hand-written Lean model is tied to /repo only by this check's differential correspondence; compiled "
              "driver assumed faithful to the kernel's reading; CPython/networkx sampled, not verified. ")

CLAIMS = {
 "C01": dict(
   text=("Lean theorems for every environment (every formula behaviour, including formulas that handle their callees' failures), "
         "every state that holds only correct values (Good), every element: a top-level call that does not hit the recursion limit "
         "IN THIS CALL (LimitNotCaughtInThisCall - nothing is assumed about earlier calls: the limit flag is proved to be a ghost that "
         "no function of the mechanism reads, limit_flag_is_ghost, limit_flag_is_ghost_history; limit_not_caught_of_flag) returns exactly "
         "the specification's value Den (uncached pure evaluation), or a FormulaError carrying the specification's error, and leaves a "
         "state holding only correct values (eval_value_is_denotation_partial); conversely a pure evaluation that stays within the "
         "configured limit is what the call returns (eval_returns_denotation); two states holding only correct values give the same "
         "value - order independence (order_independent). For formulas that let DeepReferenceError propagate (DeepPropagatesEnv) or "
         "handle no failure (NoCatchEnv) NO hypothesis about the limit is needed (eval_value_is_denotation_deep_propagates_partial, "
         "eval_value_is_denotation_nocatch_partial), and after any admissible history of the thirteen-operation edit language of C02 "
         "every returned value is the specification's under the CURRENT definitions and inputs (eval_after_any_history_partial; regime "
         "WF = Ranked + NoCatchEnv + Scoped). What is excluded is exactly the known finding C01-caught-deep: a formula that CATCHES the "
         "depth error stores a value pure evaluation does not give (full_statement_fails, kernel-checked witness). Computed once: a held "
         "element of a cached cells is served without executing anything, from the top level and from inside a formula "
         "(held_never_reexecuted_top, held_never_reexecuted - unfoldings of the hit path); no element that held a value when a call "
         "started is executed during it, at any depth (held_elements_never_executed; across histories "
         "executed_again_only_after_cleared); every execution of an element of a cached cells is either rolled back or is THE execution "
         "that stores its value (every_execution_fails_or_stores - the accounting identity; 'at most once' is false with handlers, which "
         "may call a failing cells again); without handlers a returning call executes nothing twice and executes exactly the newly held "
         "elements (computed_once_nocatch) - these under Ranked (terminating programs; necessary: C08.ranked_or_limit_needed). NOT "
         "theorems, decided by the oracle only: that every name is resolved in the cells' own space (sibling cells, references, child "
         "spaces, model-level references, built-ins - the model has a flat reference table and the harness resolves names; the pure "
         "resolution layer Exec/Resolve.lean is not tied to the code), and that calls binding to the same arguments (positional, "
         "keyword, defaults, subscription, .value) denote the same element (the binding rule itself is C07's bind_iff). Tied to /repo by "
         "differential runs (eval results incl. error kind and traceback, held values with input marks, trace graph, execution log "
         "after every op) and an implementation-only oracle (fresh replica with edits only; all-uncached pure recomputation; every "
         "spelling of every element: same value, no formula re-run, no other element created)."),
   note=PROOF_NOTE + "Argument binding (inspect.Signature.bind) and Python arithmetic are exercised by the oracle, not modelled; names are resolved by the harness (two spaces S and S.Ch, cells in either, by-name reads and attribute paths Ch.r, _space.r, _space.parent.r). Formulas are interaction trees (Prog): what a formula does besides calling cells, reading references, raising and handling failures is outside; except-reraise / finally blocks are modelled in the class blocksSimple only (no handler inside such a block; the driver answers `unsupported` outside it); assignments or clears made from inside a formula are not in Prog. The suffix _partial marks a named hypothesis (here: LimitNotCaughtInThisCall, DeepPropagatesEnv, NoCatchEnv, WF), the first with its kernel-checked negation.",
   tech="Lean 4 refinement proof (memoised mechanism refines spec, induction on depth and on Prog; ghost-irrelevance of the limit flag; taint theorem for propagating depth errors; execution-log accounting) + differential correspondence"),
 "C05": dict(
   text=("Lean theorems over all formula behaviours and failure points: every top-level call - returned or failed at any depth with "
         "any kind of error, the depth limit included - leaves call stack, index stack, reference stack and roll-back list empty "
         "(failure_quiescent, unconditional, proved by a frame lemma for _eval_formula). Failure kinds raise-at-any-depth and "
         "None-where-not-allowed, every formula behaviour incl. handlers: the FormulaError carries the specification's error and every "
         "held value stays the specification's (failure_consistent_partial), later evaluations are unaffected (retry_unaffected_partial), "
         "held values and inputs are kept (held_values_kept_partial) - each under LimitNotCaughtInThisCall for the call at hand ONLY "
         "(the limit flag is a ghost, C01.limit_flag_is_ghost: an earlier depth error takes nothing out of scope). The depth-limit "
         "failure itself and every state after it are covered with NO hypothesis about the limit for formulas that handle no failure "
         "(NoCatchEnv: failure_consistent_nocatch - correct state, inputs untouched, returned values are the specification's -, "
         "retry_unaffected_nocatch, held_values_kept_nocatch, limit_history_consistent_nocatch) or whose handlers let the depth error "
         "through (DeepPropagatesEnv: failure_consistent_deep_propagates - additionally the error carried is the depth error or the "
         "specification's -, retry_unaffected_deep_propagates, limit_history_consistent_deep_propagates, "
         "within_last_limit_evaluates_deep_propagates; generic form limit_history_consistent_of). Sequences of successive failures and "
         "repairs: after ANY admissible history of the thirteen-operation edit language of C02 (calls that return, fail or are stopped "
         "by the limit, reference / formula / flag / value edits, cells created and deleted, limit changes) every held value is the "
         "specification's under the current definitions, the executor is idle and every later value is the specification's - the values "
         "of a model that never failed (successive_failures_consistent; regime C02.WF = Ranked + NoCatchEnv + Scoped, Admissible). NOT "
         "covered by any theorem: a formula that CATCHES the depth error (known finding C01-caught-deep). 'No element on the failing "
         "chain acquires a value' is proved at SPECIFICATION level (failing_elements_hold_no_value: in a state holding only correct "
         "values an element whose pure evaluation ends in an error holds nothing), not as a statement about roll-back. Chains within "
         "the limit never hit it, whatever is cached and whatever earlier calls did (below_limit_no_deep). Limit and administration: "
         "the specification does not mention the limit and held values are valid under any limit (spec_ignores_limit, "
         "held_values_valid_under_any_limit, denoteN_limit_free, denoteBody_limit_free), the limit in force is the one configured last "
         "(limit_is_last_configured), start / stop / read / clear of stack-trace sessions, get_recursion, get_error, get_traceback "
         "change nothing (admin_changes_nothing - true by definition of the model's step; its content is the correspondence), "
         "histories of evaluations, limit changes and administrative calls stay consistent (limit_history_consistent_partial and "
         "within_last_limit_evaluates_partial under LimitFree = no evaluation of the history hits the limit in force at that moment; "
         "evalTop_hit_sticky); allow_none is looked up cells > space > model (allow_none_own_setting_decides, "
         "allow_none_space_decides_when_cells_unset, allow_none_model_decides_when_unset_below, allow_none_only_if_some_level_allows: "
         "facts about the five-line resolveAllowNone). 'Does not crash the interpreter' is a CPython C-stack fact: exercised, NOT a "
         "theorem. Tied to /repo by differential runs (results, values, trace graph, stack emptiness, get_recursion read back after "
         "every op incl. administrative calls and limit changes) and an oracle using the interpreter's own traceback of the original "
         "exception, 'formulas never nest deeper than limit + 1 and a DeepReferenceError has exactly limit + 1 frames', and 'the same "
         "history without the administrative calls gives the same results and held values'; scenario families limit x chain "
         "below/at/above x admin sequence and all assignments of allow_none to cells / space / model."),
   note=PROOF_NOTE + "Theorems marked _partial assume that the recursion limit is not hit in THE CALL they speak about (LimitNotCaughtInThisCall); nothing is assumed about earlier calls. For the depth-limit failure of a formula that catches it nothing beyond failure_quiescent is proved. A recursion limit of 0 was silently reset by a stack-trace session in the original code (repaired, 51dce2e; the harness configures limits >= 1). Formulas are interaction trees; except-reraise / finally blocks only in the class blocksSimple.",
   tech="Lean 4 invariant proofs (stack discipline, soundness under failure, taint theorem for propagating depth errors, histories of limit changes) + differential correspondence"),
 "C19": dict(
   text=("Lean theorems on a model of System.new_model / rename_model / _rename_samename / close_model and the way "
         "ModelReader.read_model uses them, for all operation sequences and all names: the registry invariant after every history - "
         "each name maps to the model with that name, names unique, each model registered once (registry_inv_step, registry_inv_run, "
         "registry_maps_names); the registered models are EXACTLY the models the caller was handed (accepted new_model, successful "
         "read_model) and has not closed since, for every history (registered_iff_open_handle; step form registered_step_iff) - so "
         "creating, reading (also a failing read) or renaming under a name in use drops nothing and close removes exactly that model "
         "(never_dropped, close_removes_exactly, new_model_keeps_old); the displaced holder of a name is registered under name_BAK<k> "
         "(displaced_model_gets_backup_name). Stale handles: the model follows the repaired code (0035a5d: close of an unregistered "
         "model is a no-op, rename raises; before it a stale handle acted on the model bearing its name now). The SECOND sentence of "
         "C19 - operations on one model never change the definitions of another model, nor the values of a model holding no reference "
         "into it - has NO theorem (the registry model has neither definitions nor values): it is decided by the implementation-only "
         "oracle in c19.py (descriptions and values of the other models before / after every edit); edits through handles of closed "
         "models are skipped there. Tied to /repo by differential runs of the model driver against mx.new_model / read_model / rename "
         "/ close after every op, stale handles included (performed on the library, not answered by the harness)."),
   note=PROOF_NOTE + "Names are ASCII identifiers in the model (str.isidentifier admits more; the harness alphabet is ASCII). registry_maps_names is a projection of the invariant. The session's current model and the two namers are in the model but not compared (only the registry dict is). The harness maps exception classes to answers (KeyError -> no such model, ValueError -> invalid name).",
   tech="Lean 4 invariant proof by induction over operations + exact characterisation of the registered set + differential correspondence + implementation-only isolation oracle"),
}
EXTRA = json.load(open(os.path.join(ROOT, "tools", "claims_extra.json"))) if os.path.exists(os.path.join(ROOT, "tools", "claims_extra.json")) else {}
CLAIMS.update(EXTRA)

NA_REASON = {}
na_path = os.path.join(ROOT, "tools", "not_applicable.json")
if os.path.exists(na_path):
    NA_REASON = json.load(open(na_path))

m = {
 "version": 1,
 "setup_cmd": "cd lean && lake build MxModel mxdriver && cd .. && ./tools/build_props.sh",
 "hooks": {"guard": "MODELX_VERIF",
           "enable": "no hooks: every observable is read from Python (public API or private attributes) and faults are injected by monkey-patching inside the harness process; nothing in /repo is guarded",
           "baseline_off_cmd": "cd /repo && /venv/bin/python -m pytest -ra -q -p no:cacheprovider --timeout=900 --continue-on-collection-errors",
           "source_commits": [], "add_only": True},
 "engines": [
  {"name": "lean-mxmodel", "path": "lean/", "serves_properties": sorted(CLAIMS),
   "kind_free_text": "Lean 4 model of modelx mechanisms (MxModel/Exec, Kernels, ...), property theorems (MxModel/Props), compiled line-protocol driver (mxdriver), tables regenerated from /repo (Generated/Tables.lean)"},
  {"name": "mxh", "path": "harness/mxh/", "serves_properties": sorted(CLAIMS),
   "kind_free_text": "Python correspondence harness: generators, real-modelx runner, diff against the Lean driver, implementation-only oracles, shrinking, table translator, evidence"}],
 "checks": [], "not_applicable": [],
 "notes": "See DESIGN.md. Exit 2 = infrastructure failure (never a VIOLATION line). Fix commits in /repo are listed in known_findings.json.",
}
for p in props:
    pid = p["id"]
    if pid in CLAIMS:
        c = CLAIMS[pid]
        m["checks"].append({
            "property_id": pid, "quick_cmd": "./check %s --tier quick" % pid,
            "thorough_cmd": "./check %s --tier thorough" % pid,
            "evidence_file": "evidence/%s.json" % pid,
            "replay_cmd_template": "./check %s --replay {path}" % pid, "engine": "lean-mxmodel",
            "level_claimed": {"category": c.get("category", "proof"), "text": c["text"], "design_ref": "DESIGN.md section 5, " + pid},
            "level_note": c["note"], "technique": c["tech"]})
    else:
        m["not_applicable"].append({"property_id": pid, "reason": NA_REASON.get(pid,
            "no check is claimed yet: model, theorem and correspondence for this property are not built in the committed state (build order in DESIGN.md section 9); the technique applies, nothing is claimed until it exists")})
json.dump(m, open(os.path.join(ROOT, "MANIFEST.json"), "w"), indent=1)
print("claimed:", sorted(CLAIMS))
