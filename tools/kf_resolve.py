#!/usr/bin/env python3
"""kf_resolve.py: resolve git conflict markers in known_findings.json by keeping both sides as separate entries"""
import json, os
p = os.path.join(os.path.dirname(os.path.dirname(os.path.abspath(__file__))), "known_findings.json")
s = open(p).read()
while "<<<<<<< " in s:
    a = s.index("<<<<<<< "); a2 = s.index("\n", a) + 1
    m = s.index("=======\n", a2); b = s.index(">>>>>>> ", m); b2 = s.index("\n", b) + 1
    ours, theirs = s[a2:m], s[m + 8:b]
    s = s[:a] + ours.rstrip("\n") + "\n  },\n  {\n" + theirs + s[b2:]
open(p, "w").write(s)
d = json.load(open(p))
ids = [f["id"] + "/" + f["property"] for f in d["findings"]]
dups = sorted(set(x for x in ids if ids.count(x) > 1))
print(len(d["findings"]), "findings; duplicate ids:", dups)
