#!/bin/sh
# tools/mkbuilder.sh <ID>: a worktree of /verif on branch b-<ID> under /tmp/ag/<ID>, with a warm .lake
set -e
ID="$1"
ROOT="$(cd "$(dirname "$0")/.." && pwd)"
mkdir -p /tmp/ag
git -C "$ROOT" worktree remove --force "/tmp/ag/$ID" 2>/dev/null || true
if git -C "$ROOT" rev-parse --verify -q "b-$ID" >/dev/null; then
  git -C "$ROOT" worktree add -q "/tmp/ag/$ID" "b-$ID"
else
  git -C "$ROOT" worktree add -q -b "b-$ID" "/tmp/ag/$ID" HEAD
fi
rsync -a "$ROOT/lean/.lake" "/tmp/ag/$ID/lean/"
echo "/tmp/ag/$ID"
