#!/usr/bin/env python3
"""Seeded-change bookkeeping.

  seeded.py confirm <P> <mutX>   confirm a candidate from /tmp/mut/<P>c/MUT (mutC) or /tmp/wt/out in a scratch worktree (demo passes clean, fails
                                 mutated, 869 baseline tests pass mutated) and copy it to /verif/seeded/<P>-<mutX>/
  seeded.py run <dir> [checks..] apply seeded/<dir>/patch.diff to /repo, run the given checks (default: the property's),
                                 revert, record the outcome in seeded/<dir>/result.json
"""
import json, os, shutil, subprocess, sys, time
ROOT = os.path.dirname(os.path.dirname(os.path.abspath(__file__)))
SEEDED = os.path.join(ROOT, "seeded")


def sh(cmd, **kw):
    return subprocess.run(cmd, shell=True, capture_output=True, text=True, **kw)


def confirm(P, mut):
    letter = mut[-1].lower()
    src = "/tmp/mut/%s%s/MUT" % (P, letter) if os.path.isdir("/tmp/mut/%s%s/MUT" % (P, letter)) else "/tmp/wt/out/%s/%s" % (P, mut)
    wt = "/tmp/wt/confirm_%s_%s" % (P, mut)
    os.makedirs("/tmp/wt", exist_ok=True)
    sh("git -C /repo worktree remove --force %s" % wt)
    r = sh("git -C /repo worktree add -q %s HEAD" % wt)
    assert r.returncode == 0, r.stderr
    try:
        env = "cd %s && PYTHONPATH=%s /venv/bin/python %s/demo.py" % (wt, wt, src)
        clean = sh(env)
        ap = sh("git -C %s apply %s/patch.diff" % (wt, src))
        if ap.returncode != 0:
            print(ap.stderr)
        applied = ap.returncode == 0
        mutated = sh(env) if applied else None
        base = sh("%s/tools/baseline.py %s" % (ROOT, wt)) if applied else None
        ok = clean.returncode == 0 and applied and mutated.returncode != 0 and base.returncode == 0
        res = {"demo_on_clean_rc": clean.returncode, "patch_applies": applied,
               "demo_on_mutated_rc": mutated.returncode if mutated else None,
               "baseline_on_mutated": base.stdout.strip().split("\n")[0] if base else None, "confirmed": ok}
        print(P, mut, res)
        if ok:
            dst = os.path.join(SEEDED, "%s-%s" % (P, mut))
            os.makedirs(dst, exist_ok=True)
            # store the patch as it applies to the current /repo HEAD
            d = sh("git -C %s diff HEAD" % wt).stdout
            open(os.path.join(dst, "patch.diff"), "w").write(d)
            shutil.copy(os.path.join(src, "demo.py"), dst)
            meta = json.load(open(os.path.join(src, "meta.json")))
            meta["property"] = P
            meta["confirmation"] = dict(res, ran=[
                "scratch worktree of /repo HEAD", "demo.py on the clean tree (exit 0)", "git apply patch.diff",
                "demo.py on the mutated tree (non-zero)", "the 869 baseline tests on the mutated tree (all pass)"])
            json.dump(meta, open(os.path.join(dst, "meta.json"), "w"), indent=1)
        return ok
    finally:
        sh("git -C /repo worktree remove --force %s" % wt)


def reconfirm(name):
    """a patch that was rebased by hand: demo passes on the clean tree, fails with the patch, baseline tests pass"""
    d = os.path.join(SEEDED, name)
    wt = "/tmp/wt/reconfirm_%s" % name
    os.makedirs("/tmp/wt", exist_ok=True)
    sh("git -C /repo worktree remove --force %s" % wt)
    r = sh("git -C /repo worktree add -q --detach %s HEAD" % wt)
    assert r.returncode == 0, r.stderr
    try:
        env = "cd %s && PYTHONPATH=%s /venv/bin/python %s/demo.py" % (wt, wt, d)
        clean = sh(env)
        ap = sh("git -C %s apply %s/patch.diff" % (wt, d))
        mutated = sh(env) if ap.returncode == 0 else None
        base = sh("%s/tools/baseline.py %s" % (ROOT, wt)) if ap.returncode == 0 else None
        res = {"demo_on_clean_rc": clean.returncode, "patch_applies": ap.returncode == 0,
               "demo_on_mutated_rc": mutated.returncode if mutated else None,
               "baseline_on_mutated": base.stdout.strip().split("\n")[0] if base else None,
               "repo_head": sh("git -C /repo rev-parse --short HEAD").stdout.strip()}
        res["confirmed"] = bool(clean.returncode == 0 and mutated and mutated.returncode != 0 and base.returncode == 0)
        meta = json.load(open(os.path.join(d, "meta.json")))
        meta["reconfirmation_after_rebase"] = res
        json.dump(meta, open(os.path.join(d, "meta.json"), "w"), indent=1)
        print(name, res)
        return res["confirmed"]
    finally:
        sh("git -C /repo worktree remove --force %s" % wt)


def run(name, checks, inplace=False):
    """default: a scratch worktree of /repo HEAD with the patch applied, used through MODELX_REPO (so that /repo
    itself never moves under checks running in parallel); inplace=True applies to /repo and reverts"""
    d = os.path.join(SEEDED, name)
    meta = json.load(open(os.path.join(d, "meta.json")))
    checks = checks or [meta["property"]]
    if inplace:
        st = sh("git -C /repo status --porcelain").stdout.strip()
        assert not st, "/repo not clean: " + st
        wt = "/repo"
    else:
        wt = "/tmp/wt/seedrun_%s_%d" % (name, os.getpid())
        sh("git -C /repo worktree remove --force %s" % wt)
        r = sh("git -C /repo worktree add -q --detach %s HEAD" % wt)
        assert r.returncode == 0, r.stderr
    out = {}
    vroot = None
    try:
        r = sh("git -C %s apply %s/patch.diff" % (wt, d))
        assert r.returncode == 0, "patch does not apply to the current /repo HEAD (rebase it by hand): " + r.stderr
        # an isolated copy of /verif (with its warm .lake): Generated/Tables.lean, the driver binary and the
        # evidence files of the copy move, /verif's own do not - so runs can go in parallel with each other
        # and with checks on /repo
        vroot = ROOT
        if not inplace:
            vroot = "/tmp/wt/sv_%s_%d" % (name, os.getpid())
            r = sh("rsync -a --exclude .git --exclude replays %s/ %s/" % (ROOT, vroot))
            assert r.returncode == 0, r.stderr
        for c in checks:
            t = time.time()
            p = sh("cd %s && MODELX_REPO=%s ./check %s --tier %s" % (vroot, wt, c, os.environ.get("SEEDED_TIER", "quick")))
            lines = [l for l in p.stdout.split("\n") if l.startswith(("VIOLATION", "KNOWN", "INFRA"))]
            out[c] = {"rc": p.returncode, "lines": sorted(lines, key=lambda l: not l.startswith("VIOLATION"))[:4], "s": round(time.time() - t, 1)}
            print(name, c, out[c])
    finally:
        if inplace:
            sh("git -C /repo checkout -- .")
            sh("cd %s && git checkout -- evidence" % ROOT)
        else:
            sh("git -C /repo worktree remove --force %s" % wt)
            if vroot:
                shutil.rmtree(vroot, ignore_errors=True)
    res_path = os.path.join(d, "result.json")
    prev = json.load(open(res_path)) if os.path.exists(res_path) else {}
    prev.update(out)
    json.dump(prev, open(res_path, "w"), indent=1)
    return out


def table():
    rows = ["| change | what it breaks (one line) | check | result |", "|---|---|---|---|"]
    for name in sorted(os.listdir(SEEDED)):
        d = os.path.join(SEEDED, name)
        if not os.path.exists(os.path.join(d, "meta.json")):
            continue
        meta = json.load(open(os.path.join(d, "meta.json")))
        res = json.load(open(os.path.join(d, "result.json"))) if os.path.exists(os.path.join(d, "result.json")) else {}
        summ = meta.get("summary", "").replace("|", "/").replace("\n", " ")
        summ = summ[:150] + ("…" if len(summ) > 150 else "")
        if not res:
            rows.append("| %s | %s | – | not run |" % (name, summ))
        for c, r in sorted(res.items()):
            vio = [l for l in r["lines"] if l.startswith("VIOLATION")]
            if r["rc"] == 1 and vio:
                how = "caught, " + ("theorem/correspondence broken, no failing input" if all(
                    "no-failing-input-found" in l for l in vio) else "failing input replayed")
            elif r["rc"] == 0 and meta.get("obsolete"):
                how = "silent, correctly: the change no longer breaks the property (" + meta["obsolete"][:80] + ")"
            elif r["rc"] == 0:
                how = "MISSED" if c == meta.get("property") else "not seen by this other property's check"
            else:
                how = "infrastructure failure (rc %s)" % r["rc"]
            rows.append("| %s | %s | %s | %s |" % (name, summ, c, how))
    print("\n".join(rows))


if __name__ == "__main__":
    if sys.argv[1] == "table":
        table()
    if sys.argv[1] == "runall":
        for name in sorted(os.listdir(SEEDED)):
            if os.path.exists(os.path.join(SEEDED, name, "patch.diff")) and (len(sys.argv) < 3 or name.startswith(tuple(sys.argv[2:]))):
                try:
                    run(name, [])
                except AssertionError as e:
                    print(name, "ERROR", e)
    if sys.argv[1] == "confirm":
        sys.exit(0 if confirm(sys.argv[2], sys.argv[3]) else 1)
    if sys.argv[1] == "reconfirm":
        sys.exit(0 if reconfirm(sys.argv[2]) else 1)
    if sys.argv[1] == "run":
        run(sys.argv[2], sys.argv[3:])
