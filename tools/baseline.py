#!/usr/bin/env python3
"""baseline.py <worktree>: run the pinned test suite of /root/.vp/BASELINE.json in <worktree> (with the worktree first on
PYTHONPATH) and check that every test of `stable_pass` still passes.  Exit 0 iff all of them pass."""
import json, os, subprocess, sys, tempfile
import xml.etree.ElementTree as ET
wt = os.path.abspath(sys.argv[1])
base = json.load(open("/root/.vp/BASELINE.json"))
want = set(base["stable_pass"])
with tempfile.TemporaryDirectory() as td:
    xml = os.path.join(td, "r.xml")
    subprocess.run("cd %s && PYTHONPATH=%s /venv/bin/python -m pytest -q -p no:cacheprovider --timeout=900 "
                   "--continue-on-collection-errors --junitxml=%s modelx/tests >/dev/null 2>&1" % (wt, wt, xml), shell=True)
    passed = set()
    for tc in ET.parse(xml).getroot().iter("testcase"):
        if not any(ch.tag in ("failure", "error", "skipped") for ch in tc):
            passed.add(("%s::%s" % (tc.get("classname"), tc.get("name"))).replace(wt + "/", "/repo/"))
missing = sorted(want - passed)
print("baseline tests: %d, still passing: %d" % (len(want), len(want) - len(missing)))
for m in missing[:20]:
    print("  NOT PASSING:", m)
sys.exit(0 if not missing else 1)
