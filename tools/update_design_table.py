#!/usr/bin/env python3
"""Regenerates the seeded-change table of DESIGN.md (between the SEEDED-TABLE markers) from seeded/*/result.json."""
import os, subprocess, sys
ROOT = os.path.dirname(os.path.dirname(os.path.abspath(__file__)))
tbl = subprocess.run([sys.executable, os.path.join(ROOT, "tools", "seeded.py"), "table"], capture_output=True, text=True).stdout.strip()
p = os.path.join(ROOT, "DESIGN.md")
s = open(p).read()
a, b = "<!-- SEEDED-TABLE-BEGIN -->", "<!-- SEEDED-TABLE-END -->"
i, j = s.index(a) + len(a), s.index(b)
open(p, "w").write(s[:i] + "\n" + tbl + "\n" + s[j:])
print("rows:", tbl.count("\n") - 1)
