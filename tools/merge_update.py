#!/usr/bin/env python3
"""merge_update.py <ID>: take a builder's *updated* deliverables for property <ID> from /tmp/ag/<ID>/verif.
Copies every file that differs and belongs to the property (named in `git status` of the copy, shared harness files and
evidence/replays excluded unless given with --also), syncs corpus/<ID>/ (renames), replaces the property's entries in
known_findings.json and its claims entry."""
import json, os, shutil, subprocess, sys
P = sys.argv[1]
also = sys.argv[2:]
src, dst = "/tmp/ag/%s/verif" % P, "/verif"
SHARED = ("harness/mxh/struct_props.py", "harness/mxh/structworld.py", "harness/mxh/core.py", "harness/mxh/tables.py",
          "lean/MxModel/Generated/", "MANIFEST.json", "DESIGN.md", "tools/", "known_findings.json", "lean/Driver/Main.lean",
          "evidence/", "replays/", "lean/.lake", "deliver", "seeded/")
def committed_somewhere(path, data):
    """True when `data` is the content of `path` at /verif's HEAD or at an earlier commit: the builder's copy merely holds
    a (possibly stale) version of MY file - e.g. after an rsync - and must never overwrite the current one"""
    try:
        revs = subprocess.run(["git", "log", "--format=%H", "-n", "40", "--", path], cwd=dst, capture_output=True,
                              text=True).stdout.split()
        for r in revs:
            blob = subprocess.run(["git", "show", "%s:%s" % (r, path)], cwd=dst, capture_output=True).stdout
            if blob == data:
                return True
    except Exception:
        pass
    return False


out = subprocess.run("git status --porcelain", shell=True, cwd=src, capture_output=True, text=True).stdout
for line in out.split("\n"):
    if not line.strip():
        continue
    st, path = line[:2], line[3:]
    sp = os.path.join(src, path)
    if os.path.isfile(sp) and os.path.exists(os.path.join(dst, path)) and committed_somewhere(path, open(sp, "rb").read()):
        if open(sp, "rb").read() != open(os.path.join(dst, path), "rb").read():
            print("skipped stale copy of my own file:", path)
        continue
    if " -> " in path:
        old, path = path.split(" -> ")
        if os.path.exists(os.path.join(dst, old)):
            os.remove(os.path.join(dst, old)); print("removed", old)
    if path.startswith(SHARED) and path not in also:
        if not path.startswith(("evidence/", "replays/", "lean/.lake", "deliver", "lean/MxModel/Generated/")):
            print("skipped shared:", path)
        continue
    s, d = os.path.join(src, path), os.path.join(dst, path)
    if st.strip() == "D":
        if os.path.exists(d):
            os.remove(d); print("removed", path)
        continue
    if os.path.isdir(s):
        shutil.copytree(s, d, dirs_exist_ok=True)
    else:
        os.makedirs(os.path.dirname(d), exist_ok=True)
        shutil.copy(s, d)
    print("copied", path)
# corpus: exact sync
cs, cd = os.path.join(src, "corpus", P), os.path.join(dst, "corpus", P)
if os.path.isdir(cs):
    os.makedirs(cd, exist_ok=True)
    for f in os.listdir(cd):
        if not os.path.exists(os.path.join(cs, f)):
            os.remove(os.path.join(cd, f)); print("corpus removed", f)
    for f in os.listdir(cs):
        shutil.copy(os.path.join(cs, f), os.path.join(cd, f))
# known findings: replace the property's entries
kf_s = json.load(open(os.path.join(src, "known_findings.json")))
kf_d = json.load(open(os.path.join(dst, "known_findings.json")))
mine = [f for f in kf_s["findings"] if f["property"] == P]
ids = {f["id"] for f in mine}
keep = [f for f in kf_d["findings"] if f["property"] != P or f["id"] not in ids and f.get("status") == "fixed"]
kf_d["findings"] = keep + mine
json.dump(kf_d, open(os.path.join(dst, "known_findings.json"), "w"), indent=1)
print("known findings for", P, [(f["id"], f["status"]) for f in kf_d["findings"] if f["property"] == P])
ce = os.path.join(src, "deliver/claims_entry.json")
if os.path.exists(ce):
    extra = json.load(open(os.path.join(dst, "tools/claims_extra.json")))
    extra.update(json.load(open(ce)))
    json.dump(extra, open(os.path.join(dst, "tools/claims_extra.json"), "w"), indent=1)
    print("claims_extra updated")
if os.path.exists(os.path.join(src, "deliver/NOTES.md")):
    shutil.copy(os.path.join(src, "deliver/NOTES.md"), os.path.join(dst, "notes", "%s-builder-notes.md" % P))
for f in os.listdir(os.path.join(src, "deliver")) if os.path.isdir(os.path.join(src, "deliver")) else []:
    if f.endswith((".py", ".diff")):
        shutil.copy(os.path.join(src, "deliver", f), os.path.join(dst, "notes", "%s-%s" % (P, f)))
