"""Deferred re-raise: `except ValueError as e: <a call that fails and is handled>; raise e`.
modelx tags rolled-back frames with sys.exc_info()[1] (the exception object that propagates: e, the ValueError of c3);
the model's `Prog.reraise` continues the MOST RECENT exception (the KeyError of c2) - its traceback is [c0, c2].
Lean witness: MxModel.C17.deferred_reraise_outside_model.  Not a defect of modelx: a limitation of the model
(class `blocksSimple`; the driver refuses such programs).  Prints modelx's traceback; exits 0."""
import sys, os
sys.path.insert(0, os.environ.get("MODELX_REPO", "/repo"))
import modelx as mx

m = mx.new_model()
s = m.new_space('S')

@mx.defcells(space=s)
def c0():
    try:
        return c1()
    except ValueError as e:
        try:
            c2()
        except KeyError:
            pass
        raise e

@mx.defcells(space=s)
def c1():
    return c3()

@mx.defcells(space=s)
def c2():
    raise KeyError('k')

@mx.defcells(space=s)
def c3():
    raise ValueError('v')

try:
    c0()
except Exception as ex:
    print(type(ex).__name__)
tb = [n.obj.name for n, _ in mx.get_traceback()]
print(tb, type(mx.get_error()).__name__)
assert tb == ['c0', 'c1', 'c3'] and type(mx.get_error()).__name__ == 'ValueError'
