"""C04 (found by SERIAL while modelling the reader's add_bases phase): a model whose inheritance graph is
C3-consistent is written without error but cannot be read back.

The reader (serializer_6.ModelReader._read_model_inner) adds the bases space by space in TREE order
(phase ["add_bases"]).  The intermediate graph - the earlier spaces already have their bases, the later
ones have none yet - need not have a C3 linearisation although the final one has: C3 is not monotone under
adding the base lists in an arbitrary order.

Smallest instance (5 top-level spaces, created in this order):
    S0;  S1(S0);  S2(S1, S4);  S3(S2, S4, S0);  S4(S0)
With S4's base still missing, mro(S2) = [S2, S1, S0, S4] and S3(S2, S4, S0) asks for S4 before S0: refused.

exit 1 = the defect is present, 0 = absent.   MODELX_REPO=<path> selects a scratch tree."""
import os, sys, tempfile
sys.path.insert(0, os.environ.get("MODELX_REPO", "/repo"))
import modelx as mx

m = mx.new_model("M")
s = [m.new_space("S%d" % i) for i in range(5)]
# built in an order the API accepts
s[1].add_bases(s[0])
s[4].add_bases(s[0])
s[2].add_bases(s[1], s[4])
s[3].add_bases(s[2], s[4], s[0])
print("bases of S3 in the live model:", [b.name for b in s[3].bases])
s[0].new_cells("foo", "lambda x: x + 1")
before = s[3].foo(1)
d = tempfile.mkdtemp()
mx.write_model(m, os.path.join(d, "m"))
print("written without error; _spaces order:", list(m.spaces))
m.close()
try:
    m2 = mx.read_model(os.path.join(d, "m"))
except Exception as e:
    print("read_model raises %s: %s" % (type(e).__name__, e))
    sys.exit(1)
print("read back; S3.foo(1) =", m2.S3.foo(1), "before:", before)
sys.exit(0 if m2.S3.foo(1) == before else 1)
