"""D2 (C11, minor) - genuine defect of modelx (unchanged /repo at 8a863da):
`del B.r` for a DERIVED reference raises `ValueError: list.remove(x): x not in list` - after it deleted the
derived reference, re-derived a NEW ReferenceImpl in its place and cleared the values computed from it.

`UserSpaceImpl.del_ref` sends every name in `own_refs` (derived references live there too) to
`ReferenceManager.del_ref`; the intended refusal `elif name in self.is_derived(): raise KeyError("Derived ref ...")`
is dead (and ill-typed: `in` on a bool).  `SpaceManager.del_ref` deletes the reference and re-derives the space,
then the bookkeeping of `_valid_to_refs` fails because a derived reference was never registered.
Deleting a derived CELLS is refused up front (`ValueError: cannot delete derived`).
A raising operation changed the model: the identity of the reference object, and held values.

Run: /venv/bin/python notes/STRUCTX-repro_del_derived_ref.py   (exit 1 = defect present)
"""
import sys, os
sys.path.insert(0, os.environ.get("MODELX_REPO", "/repo"))
import modelx as mx

m = mx.new_model("M")
A = m.new_space("A"); A.r = 5
B = m.new_space("B", bases=[A])
B.new_cells("f", formula="def f(t): return r + t")
assert B.f(1) == 6
ref0 = B._impl.own_refs["r"]
held0 = dict(B.f._impl.data)
bad = 0
try:
    del B.r
    print("del B.r (derived) accepted")
    bad = 1
except Exception as e:
    print("del B.r (derived) raised %s: %s" % (type(e).__name__, e))
    if "cannot be deleted" not in str(e):
        print("DEFECT: not the refusal of a derived member (an internal error escaped)")
        bad = 1
ref1 = B._impl.own_refs.get("r")
if ref1 is not ref0:
    print("DEFECT: the refused deletion replaced the derived reference object")
    bad = 1
if dict(B.f._impl.data) != held0:
    print("DEFECT: the refused deletion discarded held values:", held0, "->", dict(B.f._impl.data))
    bad = 1
# deleting the defined reference still works and takes the derived one along
del A.r
assert "r" not in B._own_refs and "r" not in A._own_refs
sys.exit(bad)
