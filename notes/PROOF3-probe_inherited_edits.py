"""Probe (not a repro of a defect): every kind of edit of a base B that reaches a parametrised sub space S
through inheritance must discard the instances of S (C07 freshness through inheritance, the mechanism
`UOp.editInh` of Kernels/ItemSpace.lean models).  Prints one line per case; exit 1 if an instance is stale.
Honours MODELX_REPO."""
import os, sys
sys.path.insert(0, os.environ.get("MODELX_REPO", "/repo"))
import modelx as mx

bad = 0

def case(label, build, edit, probe):
    """build() -> (m, S); inst = S[1]; edit(); then S[1] must be a new implementation and probe(S[1]) the new answer"""
    global bad
    m, S = build()
    a = S[1]
    impl = a._impl
    try:
        edit(m)
    except Exception as e:
        print("%-44s edit raised %r" % (label, e)); m.close(); return
    b = S[1]
    same = b._impl is impl
    try:
        val = probe(b)
    except Exception as e:
        val = "ERR %s" % type(e).__name__
    try:
        fresh = probe_fresh(m, S)
    except Exception as e:
        fresh = "ERR %s" % type(e).__name__
    ok = (not same)
    print("%-44s same_impl=%s value=%r" % (label, same, val), "" if ok else "  <-- STALE")
    bad += (not ok)
    m.close()

def probe_fresh(m, S):
    return None

def std():
    m = mx.new_model()
    B = m.new_space("B")
    B.new_cells("f", formula="lambda x: 1")
    B.r = 5
    S = m.new_space("S", bases=B, formula="lambda i: None")
    return m, S

case("new cells in base", std, lambda m: m.B.new_cells("g", formula="lambda x: 2"), lambda s: s.g(0))
case("formula of base cells", std, lambda m: m.B.f.set_formula("lambda x: 7"), lambda s: s.f(0))
case("delete base cells", std, lambda m: m.B.cells.__delitem__("f"), lambda s: "f" in s.cells)
case("rename base cells", std, lambda m: m.B.f.rename("h"), lambda s: sorted(s.cells))
case("new ref in base", std, lambda m: setattr(m.B, "q", 3), lambda s: s.q)
case("change ref in base", std, lambda m: setattr(m.B, "r", 6), lambda s: s.r)
case("delete ref in base", std, lambda m: delattr(m.B, "r"), lambda s: hasattr(s, "r"))
case("set_cached of base cells", std, lambda m: setattr(m.B.f, "is_cached", False), lambda s: s.f.is_cached)

def two():
    m, S = std()
    B2 = m.new_space("B2"); B2.new_cells("k", formula="lambda x: 9")
    return m, S
case("add_bases to the sub space", two, lambda m: m.S.add_bases(m.B2), lambda s: s.k(0))
def two_b():
    m, S = two(); S.add_bases(m.B2); return m, S
case("remove_bases from the sub space", two_b, lambda m: m.S.remove_bases(m.B2), lambda s: "k" in s.cells)

def chain():
    m = mx.new_model()
    B = m.new_space("B"); B.new_cells("f", formula="lambda x: 1")
    Mid = m.new_space("Mid", bases=B)
    S = m.new_space("S", bases=Mid, formula="lambda i: None")
    return m, S
case("formula in base of base", chain, lambda m: m.B.f.set_formula("lambda x: 7"), lambda s: s.f(0))
case("new cells in base of base", chain, lambda m: m.B.new_cells("g", formula="lambda x: 2"), lambda s: s.g(0))
def chain2():
    m, S = chain()
    m.new_space("B2").new_cells("k", formula="lambda x: 9")
    return m, S
case("add_bases to the middle", chain2, lambda m: m.Mid.add_bases(m.B2), lambda s: s.k(0))

def redefine():
    # S derives f from B2 (later base); B (earlier) gets f: S.f is re-derived in place from B
    m = mx.new_model()
    B = m.new_space("B"); B2 = m.new_space("B2"); B2.new_cells("f", formula="lambda x: 1")
    S = m.new_space("S", bases=[B, B2], formula="lambda i: None")
    return m, S
case("new cells in an earlier base (re-derive)", redefine, lambda m: m.B.new_cells("f", formula="lambda x: 8"), lambda s: s.f(0))
def redefine2():
    m, S = redefine(); m.B.new_cells("f", formula="lambda x: 8"); return m, S
case("delete cells of the first definer (re-derive)", redefine2, lambda m: m.B.cells.__delitem__("f"), lambda s: s.f(0))

def childcase():
    # the replicated child S[1].X is a copy of S.X, which derives B.X
    m = mx.new_model()
    B = m.new_space("B"); BX = B.new_space("X"); BX.new_cells("f", formula="lambda x: 1")
    S = m.new_space("S", formula="lambda i: None")
    SX = S.new_space("X", bases=BX)
    return m, S
case("formula in the base of a child space", childcase, lambda m: m.B.X.f.set_formula("lambda x: 7"), lambda s: s.X.f(0))
case("new cells in the base of a child space", childcase, lambda m: m.B.X.new_cells("g", formula="lambda x: 2"), lambda s: s.X.g(0))
case("new ref in the base of a child space", childcase, lambda m: setattr(m.B.X, "q", 3), lambda s: s.X.q)

def override():
    # S overrides f: an edit of B.f does not change S; the instance may stay (not required to be rebuilt)
    m, S = std(); S.f.set_formula("lambda x: 100"); return m, S
m, S = override(); a = S[1]; impl = a._impl; m.B.f.set_formula("lambda x: 7")
print("%-44s same_impl=%s value=%r  (allowed: S overrides f)" % ("formula of an overridden cells", S[1]._impl is impl, S[1].f(0)))
m.close()

sys.exit(1 if bad else 0)
