"""The five behaviour-changing edits of the kernels review (serializer conditions, reader call order, a mangled tag,\nan escape removed) applied one at a time to a scratch worktree: which generated tables change / which extraction\nproblems appear.  Usage: KERNX_WT=<scratch worktree of /repo> /venv/bin/python notes/KERNX-table_mutations.py"""
import sys, os, subprocess, re
sys.path.insert(0, os.path.join(os.path.dirname(os.path.abspath(__file__)), "..", "harness"))
wt = os.environ["KERNX_WT"]   # a scratch worktree of /repo (git -C /repo worktree add --detach <dir> HEAD); files in it are edited and reset
os.environ["MODELX_REPO"] = wt
from mxh import core, tables
core.REPO = wt
base, bp = tables.extract()
def mutate(path, old, new, count=1):
    p = os.path.join(wt, path); s = open(p).read()
    assert old in s, old
    open(p, "w").write(s.replace(old, new, count))
def reset():
    subprocess.run(["git", "-C", wt, "checkout", "-q", "."], check=True)
muts = {
 "LiteralEncoder.condition isinstance": ("modelx/serialize/serializer_6.py", "return any(type(value) is t for t in cls.literal_types)", "return isinstance(value, tuple(cls.literal_types))"),
 "TupleDecoder.condition other element": ("modelx/serialize/serializer_6.py", "if node.elts[0].s == cls.DECTYPE:", "if node.elts[-1].s == cls.DECTYPE:"),
 "read_pickledata after its phase": ("modelx/serialize/serializer_6.py", "        self.read_pickledata()\n        self.instructions.execute_selected_methods([\"load_pickledata\"])\n", "        self.instructions.execute_selected_methods([\"load_pickledata\"])\n        self.read_pickledata()\n"),
 "PickleEncoder tag mangled (B3)": ("modelx/serialize/serializer_6.py", 'return "(\\"Pickle\\", %s)" % id(self.target.value)', 'return "(\\"%s\\", %s)" % ("Pikle", id(self.target.value))'),
 "escape removed": ("modelx/core/formula.py", '    "\\x0c": "\\\\x0c",\n', ''),
}
for name, (path, old, new) in muts.items():
    reset()
    mutate(path, old, new)
    t, p = tables.extract()
    changed = [k for k in t if t[k] != base.get(k)]
    newp = [m for m in p if m not in bp]
    print("%-40s changed tables: %s ; new problems: %s" % (name, changed, [(k, m[:90]) for k, m in newp]))
reset()
