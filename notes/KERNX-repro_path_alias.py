"""C18-path-alias: two IOSpecs of one model claim the same file through different spellings of its path.
IOManager keys an io by (model, pathlib.Path(path)); pathlib drops `.` but keeps `..`, so `a.csv` and
`sub/../a.csv` are different keys, the second new_pandas is not refused although a csv file holds one spec,
both specs write the same file and after write/read x holds y's data (silent loss).  The path setter
(spec.path = ...) has the same hole.

Property C18: "Two specs never claim the same file location, and on saving every live spec's value is
written to its file and read back equal."

exit 1 = defect present, exit 0 = absent.  MODELX_REPO overrides /repo.
"""
import os
import shutil
import sys
import tempfile
import warnings

sys.path.insert(0, os.environ.get("MODELX_REPO", "/repo"))
warnings.simplefilter("ignore")
import modelx as mx
import pandas as pd

bad = []
tmp = tempfile.mkdtemp(prefix="kernx_alias_")
try:
    # 1. creation
    m = mx.new_model("M")
    s = m.new_space("S")
    d1, d2 = pd.DataFrame({"a": [1]}), pd.DataFrame({"a": [2]})
    s.new_pandas("x", "a.csv", d1, file_type="csv")
    try:
        s.new_pandas("y", "sub/../a.csv", d2, file_type="csv")
        print("new_pandas('y', 'sub/../a.csv') next to 'a.csv': accepted; paths:",
              [sp.path.as_posix() for sp in m.iospecs])
        m.write(os.path.join(tmp, "M"))
        m.close()
        m2 = mx.read_model(os.path.join(tmp, "M"))
        got = m2.S.x.to_dict()
        print("x written as {'a': {0: 1}}, read back as", got)
        if got != {"a": {0: 1}}:
            bad.append("creation")
        m2.close()
    except ValueError as e:
        print("new_pandas('y', 'sub/../a.csv') next to 'a.csv' is refused:", e)
        m.close()
    # 2. path setter
    m = mx.new_model("M")
    s = m.new_space("S")
    d1, d2 = pd.DataFrame({"a": [1]}), pd.DataFrame({"a": [2]})
    s.new_pandas("x", "a.csv", d1, file_type="csv")
    s.new_pandas("y", "b.csv", d2, file_type="csv")
    try:
        m.get_spec(d2).path = "sub/../a.csv"
        paths = sorted(os.path.normpath(sp.path.as_posix()) for sp in m.iospecs)
        print("spec.path = 'sub/../a.csv' next to 'a.csv': accepted; files:", paths)
        if len(set(paths)) < len(paths):
            bad.append("path setter")
    except ValueError as e:
        print("spec.path = 'sub/../a.csv' next to 'a.csv' is refused:", e)
    m.close()
finally:
    shutil.rmtree(tmp, ignore_errors=True)
if bad:
    print("DEFECT: two specs claim one file location (%s)" % ", ".join(bad))
    sys.exit(1)
print("ok")
