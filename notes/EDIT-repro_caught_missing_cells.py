"""Replay of the Lean witness `C02.cell_create_fails_catch` on real modelx.

`Ch.c1` calls `_space.parent.c0` (a cells of ANOTHER space, through an attribute path) inside try/except and
returns -1 when that fails.  `c0` does not exist yet: `c1()` is -1.  `S.new_cells("c0")` changes the namespace of
`S`, not that of `S.Ch`; the failed call left no record (a failed callee has no node): `c1` keeps -1, while a model
to which only the edits were applied answers 5.  Variant of known finding C02-caught-failure-untracked (a handled
failure leaves no dependency record); exit status 1 = the stale value is there.
A caller in c0's OWN space (`c2`) is cleared by the namespace notification and answers 5: that is the case the
notification exists for.
"""
import sys
import os
sys.path.insert(0, os.environ.get("MODELX_REPO", "/repo"))
import modelx as mx

SRC1 = "def c1():\n    try:\n        return _space.parent.c0()\n    except AttributeError:\n        return -1\n"
SRC2 = "def c2():\n    try:\n        return c0()\n    except NameError:\n        return -1\n"


def build(create_first):
    m = mx.new_model()
    S = m.new_space("S")
    Ch = S.new_space("Ch")
    if create_first:
        S.new_cells("c0", formula="def c0(): return 5")
    c1 = Ch.new_cells("c1", formula=SRC1)
    c2 = S.new_cells("c2", formula=SRC2)
    return m, S, c1, c2


m, S, c1, c2 = build(False)
before = (c1(), c2())
S.new_cells("c0", formula="def c0(): return 5")
live = (c1(), c2())
m2, S2, f1, f2 = build(True)
fresh = (f1(), f2())
print("before creation", before, "live after creation", live, "fresh model", fresh)
sys.exit(1 if live != fresh else 0)
