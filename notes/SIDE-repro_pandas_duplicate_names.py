"""Item 13: new_cells_from_pandas(df, cells=["x", "x"]) (duplicate names) fails half-way, leaving x in the space.
C11.  exit 1 = defect present."""
import os, sys, warnings
sys.path.insert(0, os.environ.get("MODELX_REPO", "/repo"))
warnings.simplefilter("ignore")
import modelx as mx
import pandas as pd

bad = []
idx = pd.Index([1, 2], name="t")
cases = {
    "cells=['x','x']": (pd.DataFrame({"a": [1, 2], "b": [3, 4]}, index=idx), ["x", "x"]),
    "duplicate column labels": (pd.DataFrame([[1, 3], [2, 4]], index=idx, columns=["y", "y"]), None),
    "override collides with a kept column": (pd.DataFrame({"a": [1, 2], "b": [3, 4]}, index=idx), ["b"]),
}
for label, (df, names) in cases.items():
    m = mx.new_model("M")
    S = m.new_space("S")
    S.new_cells("keep", formula="def keep():\n    return 1")
    before = sorted(S.cells)
    try:
        S.new_cells_from_pandas(df, cells=names)
        print("%s: accepted -> cells %r" % (label, sorted(S.cells)))
        bad.append(label + ": accepted")
    except Exception as e:                   # noqa
        after = sorted(S.cells)
        print("%s: raised %s: %s; cells before %r, after %r" % (label, type(e).__name__, str(e)[:60], before, after))
        if after != before:
            bad.append("%s: the rejected edit left %r" % (label, sorted(set(after) - set(before))))
    m.close()
if bad:
    print("DEFECT PRESENT:", bad)
    sys.exit(1)
print("absent")
