"""C04-iospec-ref-mode: a space-level IO reference is read back with an integer as its reference mode.

Run: /venv/bin/python notes/C04X-repro_iospec_ref_mode.py   (modelx from MODELX_REPO or /repo)

RefViewEncoder writes a reference created by new_pandas / new_module / new_excel_range as
    df = ("IOSpec", <id of the value>, <id of the spec>)
and RefAssignParser.get_instruction (serializer_6.py) takes element 2 of EVERY three-element tuple in a
space for the reference mode (`refmode = decoder.elm(2)`), which is right only for
("Interface", <path>, <refmode>).  The reference comes back with refmode == <id of the spec>.
Value and behaviour are unchanged; model-level IO references take the `__setattr__` branch and are fine.
Candidate repair: notes/C04X-candidate_iospec_ref_mode.diff (869/869 baseline tests pass with it).
"""
import os
import sys
import tempfile

sys.path.insert(0, os.environ.get("MODELX_REPO", "/repo"))
import modelx as mx  # noqa: E402
import pandas as pd  # noqa: E402


def mode(owner, name):
    return owner._get_object(name, as_proxy=True).refmode


def main():
    m = mx.new_model("M")
    s = m.new_space("S")
    s.new_pandas("df", "files/df.csv", pd.DataFrame({"a": [1, 2]}), file_type="csv")
    m.new_pandas("g", "g.csv", pd.DataFrame({"a": [1, 2]}), file_type="csv")
    before = (mode(s, "df"), mode(m, "g"))
    with tempfile.TemporaryDirectory() as td:
        m.write(os.path.join(td, "model"))
        r = mx.read_model(os.path.join(td, "model"), name="R")
        after = (mode(r.S, "df"), mode(r, "g"))
    print("reference modes before writing:", before)
    print("reference modes after reading :", after)
    if before != after:
        print("PROPERTY VIOLATED: the reference mode of S.df is %r after the round trip, was %r" % (after[0], before[0]))
        return 1
    print("PROPERTY HOLDS")
    return 0


if __name__ == "__main__":
    sys.exit(main())
