"""C14-failed-load-renames-existing: a load that fails after the root source was parsed leaves
the already registered model of the same name renamed."""
import os, tempfile, warnings
import modelx as mx
warnings.simplefilter("ignore")
tmp = tempfile.mkdtemp()
m = mx.new_model("Saved"); s = m.new_space("S"); s.new_cells("f", formula="lambda x: x")
path = os.path.join(tmp, "model")
mx.write_model(m, path)
open(os.path.join(path, "S", "__init__.py"), "a").write("\ndef broken(:\n")
print("before:", list(mx.get_models()))
try:
    mx.read_model(path)
except SyntaxError as e:
    print("load failed:", type(e).__name__)
print("after :", list(mx.get_models()), "cur_model:", mx.cur_model())
