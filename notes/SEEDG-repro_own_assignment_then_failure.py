"""C05 on the UNCHANGED /repo: a formula assigns its own element and raises afterwards.

C05: "no failed element holds a value; graph nodes = held values; a retry is a fresh evaluation".
    def w(x): _space.w[x] = 42; raise ValueError
w(1) fails (FormulaError), but w holds {1: 42}, the dependency graph has no node for it, and w(1) now returns 42.
exit 1 = defect present, 0 = repaired (notes/SEEDG-candidate_own_assignment_then_failure.diff)."""
import sys
import warnings
import modelx as mx
from modelx.core.errors import FormulaError

warnings.filterwarnings("ignore")
m = mx.new_model("M")
s = m.new_space("S")
s.new_cells("w", formula="def w(x):\n    _space.w[x] = 42\n    raise ValueError('after assigning its own value')")
s.new_cells("ok", formula="def ok(x):\n    _space.ok[x] = 7\n    return 7")
try:
    s.w(1)
    print("no error?")
except FormulaError:
    pass
assert s.ok(1) == 7 and dict(s.ok) == {1: 7}
nodes = [n for n in m._impl.tracegraph.nodes if n[0] is s.w._impl]
print("w holds", dict(s.w), "graph nodes of w:", len(nodes))
try:
    again = s.w(1)
except FormulaError:
    again = "FormulaError"
print("retry:", again)
if dict(s.w) or again != "FormulaError":
    print("DEFECT: the failed element holds a value")
    sys.exit(1)
print("ok")
