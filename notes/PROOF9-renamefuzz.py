"""Stand-alone run of the rename scenarios of harness/mxh/editworld.py against the combined machine (driver layer
`edit`, line `renamespace`):  /venv/bin/python notes/PROOF9-renamefuzz.py
Honours MODELX_REPO.  Needs lean/.lake/build/bin/mxdriver."""
import sys, time, collections, json
import os
sys.path.insert(0, os.path.join(os.path.dirname(os.path.abspath(__file__)), "..", "harness"))
from mxh import core, editworld
out = core.Outcome()
t = time.time()
st = collections.Counter()
for ops in editworld.rename_scenarios():
    editworld.run_history(ops, out, st)
for ops in editworld.slot_rename_scenarios():
    editworld.run_history(ops, out, st, objrefs=True)
    st["slot_rename_scenarios"] += 1
print("time", round(time.time() - t, 1))
for k in sorted(st): print(k, st[k])
for d in out.disagreements[:4]:
    print("DISAGREE", d["layer"], d["index"]); print(" impl ", d["impl"]); print(" model", d["model"])
    print(json.dumps(d["history"])[:2500])
sys.exit(1 if out.disagreements else 0)
