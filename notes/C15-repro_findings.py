"""Stand-alone reproductions of the C15 findings on the unchanged tree (/venv/bin/python repro_findings.py).

Each case builds a tiny model with the public API, exports it, imports the package in a
subprocess in which `import modelx` raises, and prints the model's value next to the package's.
"""
import json
import os
import subprocess
import sys
import tempfile
import warnings

warnings.filterwarnings("ignore")
import modelx as mx     # noqa: E402


def exported(m, expr):
    tmp = tempfile.mkdtemp()
    try:
        m.export(os.path.join(tmp, "pkg"))
    except Exception as e:      # noqa: BLE001
        return "export raised %s: %s" % (type(e).__name__, str(e)[:60])
    code = ("import sys; sys.modules['modelx'] = None; sys.path.insert(0, %r)\n"
            "try:\n    from pkg import mx_model as r\n    print(repr(%s))\n"
            "except BaseException as e:\n    print('raised', type(e).__name__, str(e)[:70])\n" % (tmp, expr))
    return subprocess.run([sys.executable, "-c", code], capture_output=True, text=True).stdout.strip()


def show(title, m, expr):
    r = m       # noqa: F841 - used by eval
    try:
        model = repr(eval(expr))
    except Exception as e:      # noqa: BLE001
        model = "raised " + type(e).__name__
    print("%-40s %-32s model: %-12s package: %s" % (title, expr, model, exported(m, expr)))
    m.close()


# 1. child space / ItemSpace parameter named like a built-in
m = mx.new_model("F1")
s = m.new_space("S")
s.new_space("list").new_cells("v", formula="lambda: 5")
s.new_cells("a", formula="lambda: list.v()")
show("builtin-named child space", m, "r.S.a()")
m = mx.new_model("F1b")
p = m.new_space("P", formula="lambda id: None")
p.new_cells("b", formula="lambda: id * 10")
show("builtin-named ItemSpace parameter", m, "r.P[1].b()")

# 2. cells shadowed by an instance attribute
m = mx.new_model("F2")
p = m.new_space("P", formula="lambda x, y=2: None")
p.new_cells("y", formula="lambda: 55")
p.new_cells("b", formula="lambda: x + y()")
show("cells named like a parameter", m, "r.P[1].b()")
m = mx.new_model("F2b")
s = m.new_space("S")
s.new_cells("foo", formula="lambda a: a + 1")
s.new_cells("bar", formula="lambda a: foo(a) * 2")
m.foo = 100         # accepted although S.foo exists
show("cells named like a model-level ref", m, "r.S.bar(1)")

# 3. Python >= 3.12: inlined comprehensions
m = mx.new_model("F3")
s = m.new_space("S")
s.g = 7
s.new_cells("foo", formula="def foo(a):\n    f = lambda i: i + 1\n    return [g + f(i) for i in range(a)]")
show("comprehension after a lambda", m, "r.S.foo(2)")
m = mx.new_model("F3b")
s = m.new_space("S")
s.u = 3
s.new_cells("baz", formula="def baz():\n    t1 = u\n    return sum([6 for u in (1, 2)]) + t1 * 100 + u")
show("comprehension variable named like a ref", m, "r.S.baz()")

# 4. scope order: libcst (source order) vs symtable (evaluation order)
m = mx.new_model("F4")
s = m.new_space("S")
s.new_cells("beta", formula="def beta(b):\n    return (sum(b for q in (2, 3)) if (lambda j: j)(b) < 5 else 0)")
show("scopes in value and condition of if-expr", m, "r.S.beta(1)")
m = mx.new_model("F4b")
s = m.new_space("S")
s.k = 2
s.new_cells("dflt", formula="def dflt(b):\n    def inner(o, r=sum(k for i in range(2))):\n        return o + r\n"
                            "    return inner(b)")
show("generator expression in a nested default", m, "r.S.dflt(1)")

# 5. keyword argument named like a global
m = mx.new_model("F5")
s = m.new_space("S")
s.x = 3
s.new_cells("bar", formula="lambda x: x + 1")
s.new_cells("foo", formula="lambda: bar(x=x)")
show("keyword named like a global", m, "r.S.foo()")

# 6. parenthesised global name
m = mx.new_model("F6")
s = m.new_space("S")
s.g = 7
s.new_cells("foo", formula="lambda a: (g) * a")
show("parenthesised global name", m, "r.S.foo(2)")

# 7. subscription through an attribute path
m = mx.new_model("F7")
a = m.new_space("A")
a.new_space("Ch").new_cells("c1", formula="lambda x: x + 1")
a.new_cells("sub2", formula="lambda x: Ch.c1[x]")
show("Child.cells[x]", m, "r.A.sub2(2)")

# 8. references returned by the parameter formula
m = mx.new_model("F8")
p = m.new_space("P", formula="lambda x: {'refs': {'z': x * 2}}")
p.new_cells("b", formula="lambda: z + x")
show("formula returning refs", m, "r.P[1].b()")

# 9. model-level reference to a space
m = mx.new_model("F9")
b = m.new_space("B")
b.new_cells("c", formula="lambda: 1")
m.d = b
show("model-level object reference", m, "r.B.c()")
