"""Item 10: a trailing comment after a multi-line string token on a def's last line is lost in write/read.
Cosmetic.  exit 1 = present."""
import os, sys, tempfile, shutil
sys.path.insert(0, os.environ.get("MODELX_REPO", "/repo"))
import modelx as mx

src = 'def f(x):\n    return """a\nb"""  # trailing comment'
m = mx.new_model("M")
S = m.new_space("S")
S.new_cells("f", formula=src)
S.new_cells("g", formula="def g(x):\n    return x  # kept?")
d = tempfile.mkdtemp()
try:
    m.write(d + "/m")
    m2 = mx.read_model(d + "/m", name="M2")
    rows = [(n, S.cells[n].formula.source, m2.S.cells[n].formula.source, S.cells[n](1) == m2.S.cells[n](1)) for n in ("f", "g")]
finally:
    shutil.rmtree(d)
bad = False
for n, a, b, same_value in rows:
    print("%s: source equal after the round trip: %s; values equal: %s" % (n, a == b, same_value))
    if a != b:
        print("   written: %r\n   read   : %r" % (a, b))
        bad = True
m.close(); m2.close()
sys.exit(1 if bad else 0)
