"""C07-dynbase-edit-not-propagated: minimal reproduction on the unchanged tree.
A dynamic space whose base is NOT the space it hangs under survives edits of that base that
reach it only through the base's namespace / parameter formula.  Prints what is served; every
line marked STALE differs from a model built from the current definitions."""
import modelx as mx

m = mx.new_model("M")

# 1. a replicated child space: S[1].X is built from S.X
S = m.new_space("S", formula="lambda i: None")
X = S.new_space("X")
X.new_cells("q", formula="lambda x: i * 10 + x")
a = S[1]
assert a.X.q(1) == 11
del X.q                                            # the base S.X loses its cells
print("1 STALE" if "q" in S[1].X.cells else "1 ok", "S[1].X.cells =", list(S[1].X.cells),
      "(S.X.cells =", list(X.cells), ")  S[1].X.q(2) ->", S[1].X.q(2) if "q" in S[1].X.cells else None)
X.r = 5                                            # a new reference in the base
print("2 STALE" if "r" not in S[1].X.refs else "2 ok", "'r' in S[1].X.refs:", "r" in S[1].X.refs)
X.new_space("Z")                                   # a new child space in the base
print("3 STALE" if "Z" not in S[1].X.spaces else "3 ok", "S[1].X.spaces =", list(S[1].X.spaces))

# 2. an instance of another base chosen by the parameter formula
O = m.new_space("O")
O.new_cells("f", formula="lambda x: i + x")
O.new_cells("g", formula="lambda x: f(x) * 2")
T = m.new_space("T", formula="lambda i: {'base': _model.O}")
assert T[1].g(1) == 4
del O.g
print("4 STALE" if "g" in T[1].cells else "4 ok", "T[1].cells =", list(T[1].cells), " T[1].g(2) ->",
      T[1].g(2) if "g" in T[1].cells else None)
del m.O                                            # the base itself is deleted
try:
    print("5 STALE T[1].f(3) ->", T[1].f(3), "(a new T[2] fails:", end=" ")
    try:
        T[2]
    except Exception as e:
        print(type(e).__name__, ")")
except Exception as e:
    print("5 ok", type(e).__name__)

# 3. the parameter formula of a child space: S2[1].X keeps the old signature
S2 = m.new_space("S2", formula="lambda i: None")
X2 = S2.new_space("X", formula="lambda k, n=5: None")
X2.new_cells("q", formula="lambda x: n")
assert S2[1].X[2].q(0) == 5
X2.formula = "lambda k, n=6: None"
print("6 STALE" if S2[1].X[2].q(0) == 5 else "6 ok", "S2[1].X[2].q(0) ->", S2[1].X[2].q(0), "(n defaults to 6 now)")
m.close()
