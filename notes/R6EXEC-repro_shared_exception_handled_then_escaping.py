"""C17 on the unchanged tree: one evaluation handles a failure carrying exception object E and then E escapes.

    cd /repo && PYTHONPATH=/repo /venv/bin/python /verif/notes/R6EXEC-repro_shared_exception_handled_then_escaping.py

Expected (the chain executing at the escaping raise): [s1(1) line 5, r1(1) line 3]
Observed: [s1(1) 5, r1(1) 3, m1(1) 2, m0(1) 2, r0(1) 3] - the handled chain m1 -> m0 -> r0 is appended.
"""
import sys
import modelx as mx
from modelx.core.errors import FormulaError

m = mx.new_model("T")
s = m.new_space("S")
s.E0 = ValueError("one exception object")
s.new_cells("r0", formula="def r0(x):\n    y = x + 1\n    raise E0\n")
s.new_cells("r1", formula="def r1(x):\n    y = x + 1\n    raise E0\n")
s.new_cells("m0", formula="def m0(x):\n    return r0(x) + 1\n")
s.new_cells("m1", formula="def m1(x):\n    return m0(x) + 1\n")
s.new_cells("s1", formula="def s1(x):\n    try:\n        return m1(x)\n    except Exception:\n        return r1(x) + 2\n")
try:
    s.s1(1)
except FormulaError:
    pass
got = [(n.obj.name, n.args, ln) for n, ln in mx.get_traceback()]
want = [("s1", (1,), 5), ("r1", (1,), 3)]
print("get_traceback():", got)
print("executing chain:", want)
print("PROPERTY HOLDS" if got == want else "PROPERTY VIOLATED")
sys.exit(0 if got == want else 1)
