"""Item 2: an UNCACHED cells called with an unhashable argument whose formula raises: the caller gets
TypeError('unhashable type') out of get_node_repr instead of FormulaError carrying the original exception.
C05 / C17 / C09.  exit 1 = defect present, exit 0 = absent."""
import os, sys
sys.path.insert(0, os.environ.get("MODELX_REPO", "/repo"))
import modelx as mx
from modelx.core.errors import FormulaError

bad = []
m = mx.new_model("M")
S = m.new_space("S")
S.new_cells("u", formula="def u(xs):\n    if len(xs) > 2:\n        raise ValueError('boom')\n    return sum(xs)")
S.u.is_cached = False
S.new_cells("top", formula="def top(n):\n    return u(list(range(n)))")
assert S.u([1, 2]) == 3                      # unhashable arguments are accepted (C09)
assert S.top(2) == 1

for label, call in (("direct S.u([1,2,3])", lambda: S.u([1, 2, 3])), ("through cached caller S.top(3)", lambda: S.top(3))):
    try:
        call()
        bad.append(label + ": no error")
    except FormulaError as e:
        orig = mx.get_error()
        tb = mx.get_traceback()
        print(label, "-> FormulaError; get_error() =", repr(orig), "; traceback =", [(str(n.obj.name), n.args) for n, _ in tb] if tb and hasattr(tb[0][0], "obj") else tb)
        if not isinstance(orig, ValueError):
            bad.append(label + ": get_error() is %r, not the original ValueError" % (orig,))
        if "ValueError: boom" not in str(e):
            bad.append(label + ": message does not carry the original exception")
    except Exception as e:               # noqa
        print(label, "->", type(e).__name__ + ":", e, "  (expected FormulaError carrying ValueError('boom'))")
        bad.append(label + ": raised %s instead of FormulaError" % type(e).__name__)
        try:
            print("   get_error() =", repr(mx.get_error()))
            print("   get_traceback() ->", end=" ")
            print(mx.get_traceback())
        except Exception as e2:          # noqa
            print("%s: %s" % (type(e2).__name__, e2))
            bad.append(label + ": get_traceback() raised %s" % type(e2).__name__)

# later evaluations behave as if the failure had not happened
assert S.top(2) == 1 and S.u([5]) == 5
assert not m._impl.system.callstack
m.close()
if bad:
    print("DEFECT PRESENT:", bad)
    sys.exit(1)
print("absent")
