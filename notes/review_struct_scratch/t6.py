import modelx as mx
m = mx.new_model("M")
A = m.new_space("A"); K = A.new_space("K")
m.K = 99
print("A.K ->", A.K, "| 'K' in A.spaces:", "K" in A.spaces)
A.new_cells("g", formula="def g(): return K")
print("formula sees K as:", A.g())
