import modelx as mx
m = mx.new_model("M")
A = m.new_space("A")
try:
    c = A.new_cells("for")
    print("new_cells('for') ->", c, list(A.cells))
except Exception as e:
    print("raised", type(e), e)
try:
    c = A.new_cells("_x")
    print("new_cells('_x') ->", c, list(A.cells))
except Exception as e:
    print("raised", type(e), e)
try:
    c = A.new_cells("é")
    print("new_cells('é') ->", c, list(A.cells))
except Exception as e:
    print("raised", type(e), e)
try:
    s = m.new_space("é")
    print("new_space('é') ->", s)
except Exception as e:
    print("raised", type(e), e)
# set_ref reserved name
try:
    A.set_ref("cells", 1, "auto"); print("set_ref cells ok")
except Exception as e:
    print("raised", type(e), e)
try:
    A.parent2 = 1; print("ok parent2")
    A.doc2 = 1
    A.bases = 3
    print("A.bases=3 ok")
except Exception as e:
    print("raised", type(e), e)
