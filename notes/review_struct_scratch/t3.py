import modelx as mx
m = mx.new_model("M")
B = m.new_space("B"); B.new_cells("x", formula="def x(t): return t")
try:
    S = m.new_space("S", bases=[B], refs={"x": 1})
    print("accepted; S.cells", list(S.cells), "S.refs own", list(S._own_refs), "S.x ->", S.x)
    try:
        m._impl._check_sanity(); print("sanity ok")
    except Exception as e: print("sanity fails", type(e).__name__, e)
except Exception as e:
    print("raised", type(e).__name__, e)
# child space named like an inherited cells: new_space in parent whose SUB has cells
m = mx.new_model("M2")
A = m.new_space("A"); A.new_cells("x", formula="def x(t): return t")
C = m.new_space("C")
try:
    C.new_space("x"); print("C.x child created")
    C.add_bases(A); print("C.add_bases(A) accepted", list(C.cells), list(C.spaces))
except Exception as e:
    print("raised", type(e).__name__, e)
# copy of a space into a parent
m = mx.new_model("M3")
A = m.new_space("A"); A.new_cells("x", formula="def x(t): return t"); A.r = 3
B = m.new_space("B", bases=[A])
try:
    B2 = B.copy(m, "B2"); print("copy: cells", {k: v._is_derived() for k, v in B2.cells.items()}, "refs", list(B2._own_refs), "bases", B2.bases)
except Exception as e:
    print("raised", type(e).__name__, e)
