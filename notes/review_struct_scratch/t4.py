import modelx as mx
m = mx.new_model("M")
S = m.new_space("S", refs={"a": 1, "for": 2})
print("own refs", list(S._own_refs))
try:
    del S.a; print("del S.a ok", list(S._own_refs))
except Exception as e:
    print("del S.a raised", type(e).__name__, e, "; refs now", list(S._own_refs))
try:
    S.a = 5; print("S.a=5 ok", list(S._own_refs))
except Exception as e:
    print("S.a=5 raised", type(e).__name__, e, "; refs now", list(S._own_refs))
