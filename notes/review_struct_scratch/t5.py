import modelx as mx
m = mx.new_model("M")
A = m.new_space("A")
for nm in ["bases", "cells", "name", "formula", "parent", "doc"]:
    try:
        setattr(A, nm, 1); print("setattr", nm, "accepted ->", nm in A._own_refs)
    except Exception as e:
        print("setattr", nm, "raised", type(e).__name__, str(e)[:60])
for nm in ["bases", "cells"]:
    try:
        A.new_cells(nm, formula="def %s(t): return t" % nm); print("new_cells", nm, "accepted; A.%s ->" % nm, type(getattr(A, nm)).__name__)
    except Exception as e:
        print("new_cells", nm, "raised", type(e).__name__, str(e)[:60])
try:
    m.new_space("spaces"); print("new_space 'spaces' accepted; m.spaces ->", type(m.spaces).__name__)
except Exception as e:
    print("raised", type(e).__name__, e)
