import modelx as mx, sys
sys.path.insert(0, "/verif/harness")
from mxh import structworld as W, mechworld as MW
def state(m):
    return MW.impl_state(m, MW.Interner())
# 1. add_bases raising in ReferenceImpl.on_inherit after cells were derived
m = mx.new_model("M1")
O = m.new_space("O"); O.new_cells("oo", formula="def oo(t): return t")
D = m.new_space("D"); D.new_cells("f", formula="def f(t): return t+1")
D.set_ref("r", O.oo, "relative")          # no subs: accepted
S = m.new_space("S")
before = state(m)
try:
    S.add_bases(D); print("1 add_bases accepted")
except Exception as e:
    print("1 add_bases raised:", type(e).__name__, e)
after = state(m)
print("1 unchanged:", before == after); 
if before != after: print("  before:", before); print("  after: ", after)
try: print("  S.bases", S.bases, "S._direct_bases", S._direct_bases)
except Exception as e: print("  bases err", e)
# 1b. new_space with such a base
before = state(m)
try:
    m.new_space("S2", bases=[D]); print("1b accepted")
except Exception as e:
    print("1b new_space raised:", type(e).__name__, e)
after = state(m)
print("1b unchanged:", before == after)
if before != after: print("  before:", before); print("  after: ", after)
# 2. del derived ref
m = mx.new_model("M2")
A = m.new_space("A"); A.r = 5
B = m.new_space("B", bases=[A])
ref0 = B._impl.own_refs["r"]
before = state(m)
try:
    del B.r; print("2 del derived ref accepted")
except Exception as e:
    print("2 del derived ref raised:", type(e).__name__, e)
print("2 unchanged:", before == state(m), "same ref object:", ref0 is B._impl.own_refs.get("r"))
# 3. set attr on a scalar cells
m = mx.new_model("M3")
A = m.new_space("A"); A.new_cells("x", formula="def x(): return 1")
try:
    A.x = 7; print("3 A.x = 7 accepted; A.x() =", A.x())
except Exception as e:
    print("3 raised", type(e).__name__, e)
