"""Independent differential fuzzer: Struct/Mech.lean (mxdriver smech) vs modelx. Reviewer's own generator."""
import os, sys, random, subprocess, re, io, contextlib, warnings
sys.path.insert(0, "/verif/harness")
os.environ.setdefault("PYTHONHASHSEED", "0")
import modelx as mx
from mxh import structworld as W
from mxh import mechworld as MW

DRV = "/verif/lean/.lake/build/bin/mxdriver"
TOPS = ["A", "B", "C", "D", "E"]
CHILD = ["K", "x", "y"]
MEMB = ["x", "y", "z", "K"]

def src(name, v):
    return "def %s(t): return t + %d" % (name, v)

def all_paths(live):
    return [p for p, _ in W.all_spaces(live.m)]

def gen_op(rng, live):
    paths = all_paths(live)
    r = rng.random()
    def anyspace():
        return rng.choice(paths) if paths and rng.random() < 0.93 else rng.choice(TOPS)
    if not paths or r < 0.16:
        # new space
        if paths and rng.random() < 0.35:
            parent = rng.choice(paths); name = rng.choice(CHILD + TOPS[:2])
        else:
            parent = "-"; name = rng.choice(TOPS + ["x"])
        nb = rng.choice([0, 0, 1, 1, 2, 2, 3])
        bases = [rng.choice(paths) for _ in range(nb)] if paths else []
        return ("new_space", parent, name, bases)
    if r < 0.22:
        return ("del_space", anyspace())
    if r < 0.40:
        return ("new_cells", anyspace(), rng.choice(MEMB), rng.randrange(1, 5))
    if r < 0.48:
        return ("set_formula", anyspace(), rng.choice(MEMB), rng.randrange(1, 5))
    if r < 0.56:
        return ("del_name", anyspace(), rng.choice(MEMB))
    if r < 0.62:
        return ("rename_cells", anyspace(), rng.choice(MEMB), rng.choice(MEMB + ["w"]))
    if r < 0.74:
        nb = rng.choice([1, 1, 2])
        return ("add_bases", anyspace(), [rng.choice(paths) for _ in range(nb)])
    if r < 0.82:
        p = anyspace()
        try:
            cur = [W.rel(live.m, b) for b in live.space(p)._direct_bases]
        except Exception:
            cur = []
        if cur and rng.random() < 0.85:
            k = rng.choice([1, 1, 2])
            bs = rng.sample(cur, min(k, len(cur)))
        else:
            bs = [rng.choice(paths)]
        return ("remove_bases", p, bs)
    if r < 0.93:
        return ("set_ref", anyspace(), rng.choice(MEMB), rng.randrange(10, 14))
    if r < 0.97:
        return ("set_mref", rng.choice(MEMB + ["A", "B"]), rng.randrange(20, 23))
    return ("del_mref", rng.choice(MEMB + ["A"]))

def csv(xs): return ",".join(xs) if xs else "-"

def run_history(seed, n):
    rng = random.Random(seed)
    live = W.Live("M%d" % (seed % 7))
    intern = MW.Interner()
    lines = ["reset"]; expect = [None]; ops = []
    try:
        for k in range(n):
            op = gen_op(rng, live)
            kind = op[0]
            # python side
            pre_kind = None
            ds_map = None
            if kind == "del_space":
                ds_map = ["delspace", op[1]]
                try:
                    if "." in op[1]:
                        pp, nm = op[1].rsplit(".", 1); s_ = live.space(pp)
                        if nm in s_.cells: ds_map = ["delcells", pp, nm]
                        elif nm in s_.spaces: pass
                        else: ds_map = ["delref", pp, nm]
                    else:
                        if op[1] not in live.m.spaces: ds_map = ["delglobal", op[1]]
                except Exception:
                    pass
            pre_top = (kind == "del_mref" and op[1] in live.m.spaces)
            if kind == "del_name":
                try:
                    s = live.space(op[1])
                    if op[2] in s.cells: pre_kind = "cells"
                    elif op[2] in s.spaces: pre_kind = "space"
                    else: pre_kind = "ref"
                except Exception:
                    pre_kind = "ref"
            try:
                with warnings.catch_warnings():
                    warnings.simplefilter("ignore")
                    if kind == "new_cells":
                        live.space(op[1]).new_cells(op[2], formula=src(op[2], op[3]))
                    elif kind == "set_formula":
                        live.space(op[1]).cells[op[2]].formula = src(op[2], op[3])
                    elif kind == "del_name":
                        delattr(live.space(op[1]), op[2])
                    elif kind == "rename_cells":
                        live.space(op[1]).cells[op[2]].rename(op[3])
                    else:
                        res = live.apply(op)
                        if res.startswith("err"): raise RuntimeError(res)
                acc = True; err = ""
            except Exception as e:
                acc = False; err = "%s: %s" % (type(e).__name__, e)
            def cpay(p, nm):
                try: return intern(MW.cells_key(live.space(p).cells[nm]))
                except Exception: return 0
            def rpay(p, nm):
                try: return intern(MW.ref_key(live.space(p)._impl.own_refs[nm]))
                except Exception: return 0
            if kind == "new_space": f = ["newspace", op[1], op[2], csv(op[3])]
            elif kind == "del_space": f = ds_map
            elif kind == "new_cells": f = ["newcells", op[1], op[2], str(cpay(op[1], op[2]) if acc else 0)]
            elif kind == "set_formula": f = ["setformula", op[1], op[2], str(cpay(op[1], op[2]) if acc else 0)]
            elif kind == "del_name":
                if pre_kind == "cells": f = ["delcells", op[1], op[2]]
                elif pre_kind == "space": f = ["delspace", op[1] + "." + op[2]]
                else: f = ["delref", op[1], op[2]]
            elif kind == "rename_cells": f = ["rename", op[1], op[2], op[3]]
            elif kind == "add_bases": f = ["addbases", op[1], csv(op[2])]
            elif kind == "remove_bases": f = ["rmbases", op[1], csv(op[2])]
            elif kind == "set_ref": f = ["setref", op[1], op[2], str(rpay(op[1], op[2]) if acc else 0)]
            elif kind == "set_mref": f = ["setglobal", op[1]]
            elif kind == "del_mref": f = (["delspace", op[1]] if pre_top else ["delglobal", op[1]])
            ops.append((op, acc, err))
            lines.append(" ".join(f)); expect.append("acc" if acc else "rej")
            lines.append("obs"); expect.append(MW.impl_state(live.m, intern))
    finally:
        live.close()
    out = subprocess.run([DRV, "smech"], input="\n".join(lines) + "\n", capture_output=True, text=True).stdout.split("\n")
    for i, (l, e) in enumerate(zip(lines, expect)):
        if e is None: continue
        g = out[i] if i < len(out) else "<eof>"
        if g != e:
            return dict(seed=seed, at=i, line=(l if l != "obs" else "state after " + lines[i-1]), exp=e, got=g,
                        hist=lines[1:i+1:2], ops=ops[:(i+1)//2])
    return None

if __name__ == "__main__":
    lo, hi, n = int(sys.argv[1]), int(sys.argv[2]), int(sys.argv[3])
    bad = 0; cats = {}
    for seed in range(lo, hi):
        with contextlib.redirect_stderr(io.StringIO()):
            r = run_history(seed, n)
        if r:
            bad += 1
            key = r["line"].split(" ")[0] + ("/" + r["line"].split(" ")[2] if r["line"].startswith("state") else "") + ":" + r["exp"][:3] + ">" + r["got"][:3]
            cats.setdefault(key, []).append(r)
    print("histories", hi - lo, "disagreements", bad)
    for k, v in cats.items():
        print("==", k, len(v))
        r = min(v, key=lambda r: r["at"])
        print(" seed", r["seed"], "at", r["at"], r["line"]); print("  impl:", r["exp"]); print("  lean:", r["got"])
        print("  last py err:", r["ops"][-1])
        print("  hist:", " ; ".join(r["hist"]))
