import MxModel.Props.C03
import MxModel.Props.C07
import MxModel.Props.C10
import MxModel.Props.C11
import MxModel.Props.C12
import MxModel.Props.C13
open MxModel
#print axioms C03.mech_refines_derivation
#print axioms C03.mech_derived_from_first_definer
#print axioms C03.mech_derived_names_eq_derive
#print axioms C03.mech_linearisation_exists
#print axioms C03.derived_iff
#print axioms C03.derived_from_first_definer
#print axioms C03.derived_unique
#print axioms C03.linearisation_is_c3
#print axioms C03.linearisation_only_ancestors
#print axioms SM.run_inv
#print axioms SM.inv_apply
#print axioms C07.bind_iff
#print axioms C07.bind_canonical
#print axioms C07.reachable_inv
#print axioms C07.equal_keys_same_instance
#print axioms C07.different_keys_different_instances
#print axioms C07.different_spellings_different_instances
#print axioms C07.old_handle
#print axioms C07.instance_fresh
#print axioms C07.deleted_base_leaves_no_instance
#print axioms C07.edit_only_removes
#print axioms C07.fixed_witness_del_cells
#print axioms C07.chain_order
#print axioms C10.getRelative_spec
#print axioms C10.getRelative_spec_total
#print axioms C10.getRelative_unrelated
#print axioms C10.getRelative_inside
#print axioms C10.static_rebind
#print axioms C10.static_never_must_not_happen
#print axioms C10.accepted_set_ref_agrees_with_inherit
#print axioms C10.mode_stable
#print axioms C10.dynamic_rebind
#print axioms C10.dynamic_rebind_full_fails
#print axioms C10.dynamic_outside
#print axioms C10.binding_depends_on_enclosing_bases
#print axioms C11.rejected_edit_changes_nothing
#print axioms C11.reachable_has_linearisation
#print axioms C11.base_relation_acyclic
#print axioms C11.linearisation_nodup_complete
#print axioms C11.reachable_tree_wellformed
#print axioms C11.valid_name_shape
#print axioms C11.invalid_names_rejected
#print axioms C12.reachable_names_unique
#print axioms C12.reachable_containers_disjoint
#print axioms C12.kind_well_defined
#print axioms C12.code_precedence
#print axioms C12.global_may_shadow_member
#print axioms C13.no_orphan_derived
#print axioms C13.deleted_member_not_defined
#print axioms C13.deleted_member_closure
#print axioms C13.deleted_space_leaves_no_trace
#print axioms C13.delete_keeps_the_rest
