import MxModel.Props.C11
import MxModel.Props.C07
open MxModel MxModel.SM

-- (a) `rejected_edit_changes_nothing` holds for EVERY apply function: it is a fact about `step`, not about the twelve operations
def stepOf (apply : St → Op → Option St) (st : St) (op : Op) : St × Bool :=
  match apply st op with | some st' => (st', true) | none => (st, false)
theorem rejected_changes_nothing_any (apply : St → Op → Option St) (st : St) (op : Op)
    (h : (stepOf apply st op).2 = false) : (stepOf apply st op).1 = st := by
  unfold stepOf at h ⊢; cases hop : apply st op with
  | none => rfl
  | some s => rw [hop] at h; cases h

-- (b) a mechanism that refuses everything satisfies run_inv-style statements trivially
def runOf (apply : St → Op → Option St) (st : St) (ops : List Op) : St := ops.foldl (fun s op => (stepOf apply s op).1) st
theorem refuse_all_inv (ops : List Op) : Inv (runOf (fun _ _ => none) {} ops) := by
  have : ∀ st, runOf (fun _ _ => none) st ops = st := by
    induction ops with
    | nil => intro st; rfl
    | cons o os ih => intro st; simp [runOf, stepOf] at ih ⊢; exact ih st
  rw [this]; exact inv_empty

-- (c) model vs code: invalid cells name
#eval ((St.run Generated.pythonKeywords {} [.newSpace [] "A" []]).step Generated.pythonKeywords (.newCells ["A"] "for" 1)).2
-- (d) unicode identifier: Python accepts "é" (str.isidentifier), the kernel refuses
#eval Names.isValidName Generated.pythonKeywords "é"
-- (e) q not a space: tail = [] by totalisation; theorem instance is about nothing
#eval (St.run [] {} C03.diamondOps).tail ["Nope"]
#eval (St.run [] {} C03.diamondOps).mro ["Nope"]
