"""Stand-alone differential fuzz of the `smech` layer on the API vocabulary of harness/mxh/struct_api_gen.py
(constructor references, cells named after their formula / automatically, cells without parameters, interface
attribute names, `del space.name` dispatch, model-level references in the compared state).

  /venv/bin/python notes/STRUCTX-apifuzz.py [N histories] [first seed]        (MODELX_REPO selects the modelx tree)

Prints the number of compared lines, where the correspondence of a history ended early and why, and every
disagreement (exit 1 if any).  On the unchanged /repo the histories end at the first instance of a known finding
(D3 / D4); on a tree with notes/STRUCTX-candidate_*.diff applied they are compared to the end.
"""
import collections, os, random, sys
sys.path.insert(0, os.path.join(os.path.dirname(os.path.abspath(__file__)), "..", "harness"))
from mxh import core, structworld as W, struct_api_gen as api, struct_props as S
from mxh.mechworld import MechCorr
from mxh.impl import close_all

N = int(sys.argv[1]) if len(sys.argv) > 1 else 200
S0 = int(sys.argv[2]) if len(sys.argv) > 2 else 0
stats = collections.Counter()
bad = 0
for i in range(S0, S0 + N):
    rng = random.Random(i * 7919 + 13)
    close_all()
    live = W.Live("M")
    mech = MechCorr()
    ops = api.prefix(rng)
    n_ops = len(ops) + rng.randint(10, 30)
    out = core.Outcome()
    k = 0
    try:
        while k < n_ops:
            if k >= len(ops):
                ops.append(api.gen_api(rng, live))
            op = ops[k]
            if op[0] == "evalall":
                S.eval_everything(live)
                k += 1
                continue
            was = mech.alive
            mech.before(live, k, op)
            r = live.apply(op)
            mech.after(live, k, op, r)
            stats["op:" + op[0]] += 1
            stats["acc:" + op[0]] += not r.startswith("err")
            if was and not mech.alive:
                stats["ended-at:" + op[0] + ":" + str(api.trigger(live, op, r))] += 1
            if api.trigger(live, op, r) in (api.KEY_RELREF,):
                break       # the implementation's state is broken from here on
            k += 1
        mech.finish(out, lambda kk: S.hist_json(ops, kk), stats)
    finally:
        live.close()
    if out.disagreements:
        bad += 1
        d = out.disagreements[0]
        print("DISAGREEMENT seed", i, d["layer"], "impl:", d["impl"][:300], "\n   model:", d["model"][:300])
        print("   ops:", d["history"]["ops"])
        if bad >= 5:
            break
close_all()
for k_, v in sorted(stats.items()):
    print("%-50s %d" % (k_, v))
print("histories", N, "disagreements", bad)
sys.exit(1 if bad else 0)
