"""After the failure of an UNCACHED cells called with an unhashable argument (d151431 made the call itself raise FormulaError):
get_traceback() returns, but its entries cannot be displayed - repr()/str() of the ItemNode of the uncached call raises
TypeError('unhashable type') (ItemNode.__repr__ -> has_value -> CellsImpl.has_node: `key in self.data`), so
`>>> mx.get_traceback()` at the prompt (the documented use) ends in TypeError.  node.has_value() and node.value raise the same
TypeError instead of False / ValueError('Value not found').  C17 (C05's error report).  exit 1 = present, 0 = absent."""
import os, sys
sys.path.insert(0, os.environ.get("MODELX_REPO") or "/repo")
import modelx as mx
from modelx.core.errors import FormulaError

m = mx.new_model("M")
S = m.new_space("S")
S.new_cells("u", formula="def u(xs):\n    if len(xs) > 2:\n        raise ValueError('boom')\n    return sum(xs)")
S.u.is_cached = False
S.new_cells("top", formula="def top(n):\n    return u(list(range(n)))")
bad = []
for label, call in (("S.u([1, 2, 3])", lambda: S.u([1, 2, 3])), ("S.top(3)", lambda: S.top(3))):
    try:
        call()
    except FormulaError:
        pass
    tb = mx.get_traceback()
    print(label, "-> get_traceback() has", len(tb), "entries:", [(n.obj.name, n.args, ln) for n, ln in tb])
    for n, ln in tb:
        for what, f in (("repr", repr), ("has_value", lambda n: n.has_value())):
            try:
                f(n)
            except Exception as e:      # noqa: BLE001
                print("   %s of the entry %s%r raises %s: %s" % (what, n.obj.name, n.args, type(e).__name__, e))
                bad.append((label, n.obj.name, what))
    try:
        print("  ", tb)
    except TypeError as e:
        print("   print(mx.get_traceback()) raises TypeError:", e)
m.close()
if bad:
    print("DEFECT PRESENT:", bad)
    sys.exit(1)
print("absent")
