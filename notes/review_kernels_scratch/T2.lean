import MxModel.Props.C20
import MxModel.Props.C04
open MxModel.Capture MxModel.C20

-- lambda_capture_idempotent: hypotheses satisfiable (no example in Props/C20)
def lam1 : Span := ⟨s "lambda a: (a,", some ([s ""], s "   2)")⟩
example : captureLambdaText (fun _ => ({ lam := lam1 } : LamStmt).dedentS.layout) lam1.lines = lam1.lines :=
  lambda_capture_idempotent _ lam1 (by decide +kernel) (by decide +kernel) rfl (by decide +kernel)

-- the two Lean copies of quote_docstring (C04 DocQuote.quoteDocstring, C20 Capture.quoteDocstring) agree on a sample only
example : MxModel.DocQuote.quoteDocstring MxModel.C04.nastyDoc = MxModel.Capture.quoteDocstring MxModel.C04.nastyDoc := by decide +kernel

-- the tag-extraction hole: with PickleEncoder's tag not found ("") the C04 dispatch statement still holds
open MxModel.Dispatch MxModel.Generated in
example : ∀ e ∈ [("InterfaceRefEncoder", "Interface"), ("LiteralEncoder", ""), ("IOSpecEncoder", "IOSpec"),
      ("ModuleEncoder", "Module"), ("PickleEncoder", "")],
    ∃ d, selectDecoder e.2 = some d ∧ (if e.2 = "" then d.1 ∈ unconditionalClasses else d.2 = e.2) := by decide
