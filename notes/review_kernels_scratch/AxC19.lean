import MxModel.Props.C19
#print axioms MxModel.C19.registry_inv_step
#print axioms MxModel.C19.registry_inv_run
#print axioms MxModel.C19.registry_maps_names
#print axioms MxModel.C19.never_dropped
#print axioms MxModel.C19.close_removes_exactly
#print axioms MxModel.C19.new_model_keeps_old
