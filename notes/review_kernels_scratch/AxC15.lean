import MxModel.Props.C15
#print axioms MxModel.C15.rewrite_resolves_same
#print axioms MxModel.C15.refs_only_dummies_fail
#print axioms MxModel.C15.member_wins_over_builtin
#print axioms MxModel.C15.pure_builtin_stays
#print axioms MxModel.C15.non_builtin_global_rewritten
#print axioms MxModel.C15.local_names_untouched
#print axioms MxModel.C15.item_lookup_eq_modelx_partial
#print axioms MxModel.C15.item_lookup_full_statement_fails
#print axioms MxModel.C15.innermost_argument_wins
#print axioms MxModel.C15.literal_iff_exact_type
#print axioms MxModel.C15.subclass_instance_is_pickled
#print axioms MxModel.C15.nonfinite_float_is_pickled
#print axioms MxModel.C15.ref_value_faithful
#print axioms MxModel.C15.ref_value_faithful_partial
#print axioms MxModel.C15.exact_test_fails_on_nan
