import MxModel.Props.C14
import MxModel.Props.C19
import MxModel.Props.C18
open MxModel MxModel.Backup MxModel.Registry

-- C14: a failed load changes the current model (residue not covered by failed_load_registry_unchanged_partial)
example : ((newModel [] {} (some "A")).1).current = some 0 := by decide +kernel
example : (loadReg [] (newModel [] {} (some "A")).1 "B" .rootSource).current = none := by decide +kernel
example : (loadReg [] (newModel [] {} (some "A")).1 "B" .afterRename).current = none := by decide +kernel
-- namers advance too
example : (loadReg [] (newModel [] {} (some "A")).1 "B" .afterRename).modelnamer = 1 := by decide +kernel

-- C19: close / rename on a stale identity is the identity in the model
example : (keys (Registry.run [] {} [.new (some "A"), .close 0, .new (some "A"), .close 0])) = ["A"] := by decide +kernel
example : (keys (Registry.run [] {} [.new (some "B"), .new (some "C"), .close 0, .new (some "B"), .rename 0 "Z" false])) = ["C", "B"] := by decide +kernel

-- C18: operations on a closed model are no-ops in the model
open MxModel.IOSpec in
example : ((IOSpec.run [] {} [.newModel 0, .newSpace 0 1 "S", .close 0,
   .newPandas ⟨0,1⟩ "x" "a.csv" true none (.df 0)]).specs.length) = 0 := by decide +kernel
open MxModel.IOSpec in
example : IOSpec.AllClean [] {} [.newModel 0, .newSpace 0 1 "S", .close 0,
   .newPandas ⟨0,1⟩ "x" "a.csv" true none (.df 0)] := by decide +kernel
-- C18: path aliasing: two csv specs on "a.csv" and "sub/../a.csv" are 'distinct locations' for the model
open MxModel.IOSpec in
example : ((IOSpec.run [] {} [.newModel 0, .newSpace 0 1 "S",
   .newPandas ⟨0,1⟩ "x" "a.csv" true none (.df 0),
   .newPandas ⟨0,1⟩ "y" "sub/../a.csv" true none (.df 1)]).specs.map (·.path)) = ["a.csv", "sub/../a.csv"] := by decide +kernel
