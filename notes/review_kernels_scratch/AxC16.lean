import MxModel.Props.C16
#print axioms MxModel.C16.calc_blocks_partition
#print axioms MxModel.C16.calc_exactly_once
#print axioms MxModel.C16.preds_in_same_or_earlier_block
#print axioms MxModel.C16.targets_never_cleared
#print axioms MxModel.C16.cleared_are_the_nontargets
#print axioms MxModel.C16.cleared_exactly_once
#print axioms MxModel.C16.cleared_after_last_successor
#print axioms MxModel.C16.final_pasted_empty
#print axioms MxModel.C16.preds_pasted_until_needed
#print axioms MxModel.C16.run_correct
#print axioms MxModel.C16.generate_leaves_nothing
