"""Reviewer's reproductions on the real library (/venv/bin/python repro_py.py)."""
import sys, shutil; sys.path.insert(0, '/repo')
import warnings; warnings.simplefilter("ignore")
import modelx as mx, pandas as pd

def fresh():
    for m in list(mx.get_models().values()): m.close()

print("== C19: close()/rename() through a stale handle acts on the model that now bears the name")
fresh()
m1 = mx.new_model("A"); m1.close(); m2 = mx.new_model("A"); m1.close()
print("   after m1.close() twice, registry =", mx.get_models(), "(m2 was dropped)")
fresh()
m3 = mx.new_model("B"); m4 = mx.new_model("C"); m3.close(); m5 = mx.new_model("B"); m3.rename("Z")
print("   stale m3.rename('Z'):", mx.get_models(), "m5.name =", m5.name)

print("== C18: new_pandas on a closed model is accepted and leaves an io behind")
fresh()
m = mx.new_model("M"); s = m.new_space("S"); m.close()
s.new_pandas("x", "a.csv", pd.DataFrame({"a": [1]}), file_type="csv")
print("   ios:", list(mx.core.mxsys.iomanager.ios.keys()), "models:", mx.get_models())
for k in list(mx.core.mxsys.iomanager.ios): del mx.core.mxsys.iomanager.ios[k]

print("== C18: two specs on one file through different spellings of the path")
fresh(); shutil.rmtree("/tmp/ag/c18loc", ignore_errors=True)
m = mx.new_model("M"); s = m.new_space("S")
s.new_pandas("x", "a.csv", pd.DataFrame({"a": [1]}), file_type="csv")
s.new_pandas("y", "sub/../a.csv", pd.DataFrame({"a": [2]}), file_type="csv")
m.write("/tmp/ag/c18loc/M"); m.close(); m2 = mx.read_model("/tmp/ag/c18loc/M")
print("   x read back:", m2.S.x.to_dict(), "(was {'a': {0: 1}})")

print("== C16: generate_actions on a model that already holds calculated values")
fresh()
m = mx.new_model("M"); s = m.new_space("S")
s.new_cells("a", formula="lambda: 1"); s.new_cells("b", formula="lambda x: a() + x")
s.new_cells("c", formula="lambda x: b(x) + b(x-1) if x>0 else b(0)")
s.c(2)
acts = m.generate_actions([s.c.node(2)], step_size=2); m.execute_actions(acts)
print("   plan:", acts, "held:", {k: dict(v) for k, v in s.cells.items()}, "inputs of c:", s.c._impl.input_keys)
