import MxModel.Props.C18
#print axioms MxModel.C18.ioInv_of_rinv
#print axioms MxModel.C18.spec_iff_referenced_partial
#print axioms MxModel.C18.spec_iff_referenced_step
#print axioms MxModel.C18.spec_survives_partial
#print axioms MxModel.C18.rejected_creation_leaves_nothing
#print axioms MxModel.C18.locations_distinct
#print axioms MxModel.C18.close_releases_partial
#print axioms MxModel.C18.full_fails_cells_name
#print axioms MxModel.C18.full_fails_double_spec
#print axioms MxModel.C18.full_fails_del_space
#print axioms MxModel.C18.full_fails_update_onto_referenced
#print axioms MxModel.C18.close_releases_fails_double_spec
