"""Minimal reproductions of the C18 findings on the unchanged tree.  Run: /venv/bin/python repro_findings.py
Every block prints what the real code does; nothing here is asserted to be 'right'."""
import warnings; warnings.filterwarnings("ignore")
import tempfile, pandas as pd, modelx as mx

def df(i):
    d = pd.DataFrame({"a": [i, 2, 3]}); d.index.name = "k"; return d

def registered(m):
    return [(k[1].as_posix(), s.sheet) for k, io in mx.core.mxsys.iomanager.ios.items() if k[0] is m
            for s in io.specs.values()]

def fresh(name):
    m = mx.new_model(name); return m, m.new_space("S")

# C18-cells-name
m, s = fresh("A"); s.new_cells("c", formula="lambda: 1"); d = df(1)
s.new_pandas("c", "a.csv", d, file_type="csv")
print("cells-name   : refs", [n for n in s.refs if not n.startswith("_")], "iospecs", m.iospecs, "registered", registered(m))
m.close(); print("               ios after close:", [k[1].as_posix() for k in mx.core.mxsys.iomanager.ios])

# C18-double-spec
m, s = fresh("B"); d = df(2)
s.new_pandas("x", "a.csv", d, file_type="csv"); s.new_pandas("y", "b.csv", d, file_type="csv")
print("double-spec  : iospecs", len(m.iospecs), "registered", registered(m))
del s.x; del s.y
print("               after deleting both references: registered", registered(m))
m.close()

# C18-rebind-same
m, s = fresh("C"); d = df(3)
s.new_pandas("x", "a.csv", d, file_type="csv"); s.x = d
print("rebind-same  : s.x is d:", s.x is d, "iospecs", m.iospecs)
m.close()

# C18-sheet-setter
m, s = fresh("D"); d1, d2 = df(4), df(5)
s.new_pandas("x", "b.xlsx", d1, file_type="excel", sheet="s1"); s.new_pandas("y", "b.xlsx", d2, file_type="excel", sheet="s2")
m.get_spec(d2).sheet = None
print("sheet-setter : registered", registered(m))
m.close()

# C18-del-space
m, s = fresh("E"); d = df(6)
s.new_pandas("x", "a.csv", d, file_type="csv"); del m.S
print("del-space    : spaces", list(m.spaces), "iospecs", m.iospecs, "_valid_to_refs entries", len(m._impl.refmgr._valid_to_refs))
m.close()

# C18-update-onto-referenced
m, s = fresh("F"); d1, d2 = df(7), df(8)
s.new_pandas("x", "a.csv", d1, file_type="csv"); s.y = d2
m.update_pandas(d1, d2)
print("update-onto  : refs listed for d2:", [(r.parent.name, r.name) for r in m._impl.refmgr._valid_to_refs[id(d2)]], "(S.y is missing)")
del s.x
print("               after del S.x: S.y is d2:", s.y is d2, "iospecs", m.iospecs)
m.close()

# C18-sanity-global-iface
m, s = fresh("G"); m.x = s
try:
    mx.core.mxsys._check_sanity(); print("sanity       : ok")
except AssertionError:
    print("sanity       : mxsys._check_sanity() raises AssertionError after model.x = <space>")
m.close()

# C18-sheet-none-readback
m, s = fresh("H"); d = df(9)
s.new_pandas("x", "b.xlsx", d, file_type="excel", sheet="s1"); m.get_spec(d).sheet = None
with tempfile.TemporaryDirectory() as t:
    m.write(t + "/m"); m.close(); m2 = mx.read_model(t + "/m")
    print("sheet-none   : read back type", type(m2.S.x).__name__)
    m2.close()

# C18-new-pandas-refmode (needs inheritance)
m = mx.new_model("I"); z = m.new_space("Zz")
s1 = m.new_space("S1"); s2 = m.new_space("S2", bases=s1); s3 = m.new_space("S3", bases=s2)
s1.z = z; d = df(10)
s2.new_pandas("z", "a.csv", d, file_type="csv")
try:
    del s2.z
except ValueError as e:
    print("refmode      : del S2.z raises ValueError(%s);" % e, "S3.z is d:", s3.z is d, "iospecs", m.iospecs,
          "stale entry:", [(r.parent.name, r.name, r.parent.own_refs.get(r.name) is r) for r in m._impl.refmgr._valid_to_refs[id(d)]])
m.close()

# ... the same through update_pandas: refmode 'auto' becomes ('auto',)
m = mx.new_model("J"); z = m.new_space("Zz")
s1 = m.new_space("S1"); s2 = m.new_space("S2", bases=s1); s3 = m.new_space("S3", bases=s2)
s1.z = z; d, d2 = df(11), df(12)
s2.z = d; m.update_pandas(d, d2)
print("refmode (upd): refmode of S2.z after update_pandas:", s2._impl.own_refs["z"].refmode)
try:
    del s2.z
except ValueError as e:
    print("               del S2.z raises ValueError(%s)" % e)
m.close()
