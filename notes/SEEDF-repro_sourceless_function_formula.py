"""C11 on the unchanged /repo: a function without retrievable source given to an EXISTING cells raises after the inputs
were cleared / a derived cells was defined; renaming a cells created from one raises half-way.
exit 1 = defect present, 0 = absent.  MODELX_REPO selects the tree (default /repo)."""
import os, sys, warnings
sys.path.insert(0, os.environ.get("MODELX_REPO", "/repo"))
warnings.simplefilter("ignore")
import modelx as mx

ns = {}
exec("def made(x):\n    return x + 666\n", ns)
made = ns["made"]                                   # inspect.getsource(made) raises OSError


def state(m):
    return {s.name: {c.name: (c._is_derived(), dict(c), sorted(c._impl.input_keys)) for c in s.cells.values()} for s in m.spaces.values()}


bad = []
m = mx.new_model("M")
A = m.new_space("A")
A.new_cells("f", formula="def f(x): return x + 1")
A.new_cells("g", formula="def g(x): return f(x) * 2")
B = m.new_space("B", bases=A)
A.new_cells("z", formula=made)                      # accepted (with a warning): formula.source is None
assert A.z(1) == 667
for target in ("A", "B"):
    A.f[1] = 100; B.f[2] = 200; A.g(1); B.g(2)
    before = state(m)
    try:
        m.spaces[target].f.formula = made
        continue                                    # accepted, like new_cells: nothing to check
    except Exception as e:
        err = "%s: %s" % (type(e).__name__, e)
    if state(m) != before:
        bad.append("%s.f.formula = <function without source> raised %s but changed the model: %r -> %r" % (
            target, err, before[target], state(m)[target]))
try:
    A.z.rename("y")
except Exception as e:
    if A.z.name != "z" or "z" not in A.cells:
        bad.append("A.z.rename('y') raised %s: %s half-way: the cells calls itself %r, the space lists %r" % (
            type(e).__name__, e, A.z._impl.name, sorted(A.cells)))
print("\n".join(bad) if bad else "PROPERTY HOLDS")
sys.exit(1 if bad else 0)
