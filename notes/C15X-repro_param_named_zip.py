"""C15 finding C15-param-named-zip (unchanged /repo).

The generated ItemSpace `__call__(self, <parameters>)` pairs the new item's spaces with the base's spaces with
the built-in `zip`.  A space parameter NAMED `zip` (modelx accepts it; since 77f6b99 formulas that read it are
exported correctly) shadows the built-in inside `__call__`: creating any item of the exported space raises
TypeError('int' object is not callable), whatever its formulas look like.

exit 1 = the exported package differs from the model.
"""
import os
import subprocess
import sys
import tempfile

import modelx as mx

RUN = """
import sys
sys.modules['modelx'] = None
sys.path.insert(0, sys.argv[1])
from ParamZip_nomx import mx_model as m
try:
    print(m.P[3].foo())
except Exception as e:
    print("raises", type(e).__name__, e)
"""


def main():
    m = mx.new_model("ParamZip")
    p = m.new_space("P", formula=lambda zip: None)
    p.new_cells("foo", formula="lambda: 10")
    want = repr(m.P[3].foo())
    with tempfile.TemporaryDirectory() as td:
        m.export(os.path.join(td, "ParamZip_nomx"))
        got = subprocess.run([sys.executable, "-c", RUN, td], capture_output=True, text=True).stdout.strip()
    m.close()
    print("P[3].foo(): model %s, exported package %s" % (want, got))
    return 0 if want == got else 1


if __name__ == "__main__":
    sys.exit(main())
