"""C18-absolute-io-shared (design of modelx, recorded): an io under an absolute path has no model - its key is
(None, path) and there is ONE io object per path for the whole session.
 (a) read_model of a model that was written with such a spec fails while the writing model is still open
     (IOSpecUnpickler.persistent_load -> get_or_create_io returns the existing io, whose load_from is None);
 (b) spec.path = <relative> on such a spec keeps group None: (None, 'c.xlsx') is accepted next to (M, 'c.xlsx'),
     get_spec_from_value merges ios by path, model.iospecs loses a spec.
exit 1 = present.  MODELX_REPO overrides /repo."""
import os, shutil, sys, tempfile, warnings
sys.path.insert(0, os.environ.get("MODELX_REPO", "/repo"))
warnings.simplefilter("ignore")
import modelx as mx
import pandas as pd

bad = []
tmp = tempfile.mkdtemp(prefix="kernx_abs_")
iom = mx.core.mxsys.iomanager
try:
    m = mx.new_model("M")
    d = pd.DataFrame({"a": [1]})
    m.new_pandas("z", os.path.join(tmp, "M", "d.csv"), d, file_type="csv")
    m.write(os.path.join(tmp, "M"))
    try:
        m2 = mx.read_model(os.path.join(tmp, "M"), name="R")
        m2.close()
        print("(a) read back while the writer is open: ok")
    except Exception as e:
        print("(a) read_model while the writing model is open raises %s: %s" % (type(e).__name__, str(e)[:70]))
        bad.append("a")
    for mm in list(mx.get_models().values()):
        mm.close()
    m = mx.new_model("M")
    s1, s2 = m.new_space("S1"), m.new_space("S2")
    d3, d2 = pd.DataFrame({"a": [3]}), pd.DataFrame({"a": [2]})
    s1.new_pandas("x", os.path.join(tmp, "M", "c.xlsx"), d3, file_type="excel", sheet="s1")
    m.get_spec(d3).path = "c.xlsx"
    try:
        s2.new_pandas("x", "c.xlsx", d2, file_type="excel", sheet="s1")
        keys = [(getattr(g, "name", g), p.as_posix()) for g, p in iom.ios]
        print("(b) io keys:", keys, " model.iospecs:", len(m.iospecs), "specs registered: 2")
        if len(m.iospecs) != 2:
            bad.append("b")
    except ValueError as e:
        print("(b) second spec on c.xlsx/s1 refused:", e)
    m.close()
finally:
    for k_ in list(iom.ios):
        del iom.ios[k_]
    shutil.rmtree(tmp, ignore_errors=True)
if bad:
    print("PRESENT:", bad)
    sys.exit(1)
print("ok")
