"""Two defects of Space.reload() on the unchanged code (C20: a cells must compute what its captured source says).
Run: /venv/bin/python deliver/repro_c20_reload.py   (or with PYTHONPATH=<copy patched with deliver/C20-reload.patch>)
C20-reload-stale-code: lines ending in DIFFERENT; C20-reload-lambda-name: `reload 2 raised KeyError '<lambda>'`.
Exit code 1 if a defect shows."""
import sys, os, importlib, tempfile, warnings
sys.dont_write_bytecode = True
warnings.simplefilter("ignore")
import modelx as mx
tmp = tempfile.mkdtemp(prefix="c20rl"); sys.path.insert(0, tmp)
def write(path, t, stamp):
    open(path, "w").write(t); os.utime(path, (stamp, stamp))
m = mx.new_model()
BAD = []
def scenario(tag, versions, names, evaluate):
    path = os.path.join(tmp, tag + ".py")
    write(path, versions[0], 1000000000)
    mod = importlib.import_module(tag)
    sp = m.import_module(module=mod, name=tag.capitalize())
    if evaluate:
        [getattr(sp, n)(3) for n in names]
    for k, v in enumerate(versions[1:], 1):
        write(path, v, 1000000000 + 100 * k)
        try:
            sp.reload()
        except Exception as e:
            print(tag, "evaluate=%s" % evaluate, "reload %d raised" % k, type(e).__name__, e); BAD.append(tag); return
        mod = sys.modules[tag]
        for n in names:
            want = getattr(mod, n)(3)
            try: got = getattr(sp, n)(3)
            except Exception as e: got = "raised " + type(e).__name__
            print(tag, "evaluate=%s" % evaluate, "v%d" % k, n, "cells", got, "function", want, "OK" if got == want else "DIFFERENT", repr(getattr(sp, n).formula.source))
            if got != want: BAD.append(tag)
D = ["def baz(x):\n    return 3 * x\n", "def baz(x):\n    return 4 * x\n", "\n\ndef baz(x, y=2):\n    return 5 * x + y\n"]
L = ["foo = lambda x: x + 1\n", "foo = lambda x: x * 100\n", "# c\nfoo = lambda x: x - 7\n"]
scenario("defs_a", D, ["baz"], False)
scenario("defs_b", D, ["baz"], True)
scenario("lams_a", L, ["foo"], False)
scenario("lams_b", L, ["foo"], True)
# reload adding a cells
scenario("add_b", [D[0], D[1] + "def extra(x):\n    return x\n"], ["baz"], True)
sys.exit(1 if BAD else 0)
