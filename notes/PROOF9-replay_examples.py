"""PROOF9: the three example histories of Props/C02 (`Edit.rOps`, `Edit.uOps`, `Edit.sOps`) replayed on modelx.
exit 0 = modelx does what the machine does."""
import sys, warnings
warnings.simplefilter("ignore")
import modelx as mx

bad = []
def names(m):
    return sorted({n[0].get_fullname(omit_model=True) for n in m._impl.tracegraph.nodes})

# rOps: A (f = y*2, y = 1) with child A.Ch (g = y*2, y = 2), T(A); an input in A.f
m = mx.new_model()
A = m.new_space("A"); Ch = A.new_space("Ch")
A.new_cells("f", formula="lambda x=0: y * 2"); A.y = 1
Ch.new_cells("g", formula="lambda: y * 2"); Ch.y = 2
T = m.new_space("T", bases=A)
got = (A.f(), Ch.g(), T.f())
if got != (2, 4, 2): bad.append(("values", got))
A.f[1] = 7
A.rename("Z")
held = {c.fullname.split(".", 1)[1]: dict(c._impl.data) for c in (m.Z.f, m.Z.Ch.g, T.f)}
if held != {"Z.f": {}, "Z.Ch.g": {}, "T.f": {(0,): 2}}: bad.append(("held after rename", held))
if m.Z.f._impl.input_keys: bad.append(("inputs survive", m.Z.f._impl.input_keys))
if (m.Z.f(), m.Z.Ch.g()) != (2, 4): bad.append("values after")
if "A" in m.spaces: bad.append("A still there")

# uOps: A.u uncached, A.f = u(); the rename leaves no node
m = mx.new_model()
A = m.new_space("A")
A.new_cells("u", formula="lambda: 5"); A.u.is_cached = False
A.new_cells("f", formula="lambda: u()")
if A.f() != 5: bad.append("u")
before = names(m)
A.rename("Z")
after = names(m)
if before != ["A.f", "A.u"] or after != []: bad.append(("nodes", before, after))
# sOps: a slot in a renamed space: T.c = S.x through a reference to the space; the rename keeps T.c, Z.x = 5 clears it
m = mx.new_model()
m.x = 1
S = m.new_space("S"); T = m.new_space("T")
T.S = S
T.new_cells("c", formula="lambda: S.x")
if T.c() != 1: bad.append("S.x")
S.rename("Z")
if dict(T.c._impl.data) != {(): 1}: bad.append(("T.c after the rename", dict(T.c._impl.data)))
m.Z.x = 5
if dict(T.c._impl.data) != {}: bad.append(("T.c after Z.x = 5", dict(T.c._impl.data)))
if T.c() != 5: bad.append(("T.c()", T.c()))
print("disagreements:", bad)
sys.exit(1 if bad else 0)
