"""Item 7: a load that fails AFTER _data/iospecs.pickle was read leaves its io objects (with their specs) in
IOManager.ios; with an absolute-path file every later load of the (intact) model fails with 'cannot add spec'.
C14 (C18).  exit 1 = defect present, exit 0 = absent."""
import os, sys, shutil, tempfile, pathlib
sys.path.insert(0, os.environ.get("MODELX_REPO", "/repo"))
import modelx as mx
import pandas as pd
from modelx.core.system import mxsys

bad = []
tmp = pathlib.Path(tempfile.mkdtemp(prefix="side7_"))


def ios():
    return sorted((("None" if g is None else "model " + g.name if hasattr(g, "name") else repr(g)), p.name, len(io.specs))
                  for (g, p), io in mxsys.iomanager.ios.items())


class Payload:            # goes to _data/data.pickle
    def __init__(self, v):
        self.v = v


import __main__
__main__.Payload = Payload

try:
    for label, file_path in (("relative path", "data/t.csv"), ("absolute path", str(tmp / "abs" / "t.csv"))):
        m = mx.new_model("M")
        S = m.new_space("S")
        S.new_pandas("df", file_path, data=pd.DataFrame({"a": [1, 2]}), file_type="csv")
        S.obj = Payload(3)
        good = tmp / ("good_" + label.split()[0])
        m.write(good)
        m.close()
        assert ios() == [], ios()

        broken = tmp / ("broken_" + label.split()[0])
        shutil.copytree(good, broken)
        (broken / "_data" / "data.pickle").write_bytes(b"\x80\x04not a pickle")   # fails after iospecs.pickle is read
        try:
            mx.read_model(broken)
            bad.append(label + ": the damaged model was read")
        except Exception as e:                       # noqa
            print("%s: load of the damaged copy fails (%s), as it must" % (label, type(e).__name__))
        print("   models registered:", sorted(mx.get_models()), "  IOManager.ios:", ios())
        if mx.get_models():
            bad.append(label + ": half-loaded model stays registered")
        if ios():
            bad.append(label + ": the failed load left io objects behind: %r" % (ios(),))
        try:
            m2 = mx.read_model(good)
            ok = m2.S.df["a"].tolist() == [1, 2] and m2.S.obj.v == 3
            print("   later load of the intact model: ok" if ok else "   later load of the intact model: WRONG VALUES")
            if not ok:
                bad.append(label + ": later load wrong")
            m2.close()
        except Exception as e:                       # noqa
            print("   later load of the intact model -> %s: %s" % (type(e).__name__, e))
            bad.append(label + ": a later load of the intact model fails: %s: %s" % (type(e).__name__, e))
        for mm in list(mx.get_models().values()):
            mm.close()
        mxsys.iomanager.ios.clear()                  # isolate the two scenarios
finally:
    shutil.rmtree(tmp, ignore_errors=True)

if bad:
    print("DEFECT PRESENT:")
    for b in bad:
        print("  -", b)
    sys.exit(1)
print("absent")
