"""C18-closed-model-new-spec: new_pandas through the handle of a CLOSED model is accepted and its io stays
in IOManager.ios for ever (close_model released the model's specs when it was closed; a second close()
returns at once because the model is not registered any more).

Property C18: "... this holds after any sequence of creating them ... and closing" - closing a model is to
leave nothing of it in the session's IOManager.

exit 1 = defect present, exit 0 = absent.  MODELX_REPO overrides /repo.
"""
import os
import sys
import warnings

sys.path.insert(0, os.environ.get("MODELX_REPO", "/repo"))
warnings.simplefilter("ignore")
import modelx as mx
import pandas as pd

iom = mx.core.mxsys.iomanager
m = mx.new_model("M")
s = m.new_space("S")
m.close()
assert "M" not in mx.get_models()
try:
    s.new_pandas("x", "a.csv", pd.DataFrame({"a": [1]}), file_type="csv")
    accepted = True
except Exception as e:
    accepted = False
    print("new_pandas on the closed model is refused: %s: %s" % (type(e).__name__, e))
m.close()
left = [(getattr(g, "name", g), p.as_posix()) for (g, p) in iom.ios]
print("accepted:", accepted, " models:", list(mx.get_models()), " IOManager.ios after close():", left)
for k in list(iom.ios):
    del iom.ios[k]
if left:
    print("DEFECT: the IOManager holds an io of a closed model")
    sys.exit(1)
print("ok")
