"""C15 finding C15-nested-item-auto-ref (unchanged /repo; reported by the writer of seeded change C15-mutF).

`A[x]` holds a child `Ch` (its cells depends on x) and a nested parametrised space `B[y]`.  `B` has an 'auto'
reference `r` to `A.Ch` - an object OUTSIDE the inner root `B` but INSIDE the outer root `A`.

    A[1].B.get()      modelx: A[1].Ch  (the reference was re-bound when A[1] was made)      package: A[1].Ch
    A[1].B[2].get()   modelx: the STATIC A.Ch (the item B[2] is made from the static A.B,   package: A[1].Ch
                      whose reference points out of B and is kept as it is)                  (made from A[1].B)

The package is the more consistent of the two, but it is not what the model computes.  The model-level `x = 5` gives
the static `A.Ch.cv()` a value (6), so the difference is a number, not an error.

exit 1 = the exported package differs from the model.
"""
import os
import subprocess
import sys
import tempfile

import modelx as mx

RUN = """
import sys
sys.modules['modelx'] = None
sys.path.insert(0, sys.argv[1])
from NestedAuto_nomx import mx_model as m
print([m.A.B.get(), m.A(1).B.get(), m.A(1).B(2).get(), m.A.B(2).get()])
"""


def main():
    m = mx.new_model("NestedAuto")
    m.x = 5
    a = m.new_space("A", formula=lambda x: None)
    ch = a.new_space("Ch")
    ch.new_cells("cv", formula="lambda: x + 1")
    b = a.new_space("B", formula=lambda y: None)
    b.set_ref("r", ch, "auto")
    b.new_cells("get", formula="lambda: r.cv()")
    want = [m.A.B.get(), m.A(1).B.get(), m.A(1).B(2).get(), m.A.B(2).get()]
    with tempfile.TemporaryDirectory() as td:
        m.export(os.path.join(td, "NestedAuto_nomx"))
        got = subprocess.run([sys.executable, "-c", RUN, td], capture_output=True, text=True)
    m.close()
    print("            [A.B.get(), A[1].B.get(), A[1].B[2].get(), A.B[2].get()]")
    print("model      ", want)
    print("exported   ", got.stdout.strip(), got.stderr.strip()[-300:])
    return 0 if got.stdout.strip() == repr(want) else 1


if __name__ == "__main__":
    sys.exit(main())
