"""C06, recalculation option on: a former LEAF dependent of the assigned element is a cells element that lives INSIDE an
ItemSpace which the same assignment discards (the ItemSpace's parameter formula read the assigned element too).
The assignment stores the value, deletes the ItemSpace, then asks the deleted cells object for the leaf -> FormulaError
(DeletedObjectError) out of the assignment.  Lazily: A.x[0] = 5; P[1].bar(0) -> 6.
usage: python this.py [path-to-modelx-repo]    exit 1 = defect present, 0 = absent"""
import sys
sys.path.insert(0, sys.argv[1] if len(sys.argv) > 1 else "/repo")
import warnings; warnings.simplefilter("ignore")
import modelx as mx


def build():
    m = mx.new_model("M")
    A = m.new_space("A")
    A.new_cells("x", formula="lambda i: 10 * i")
    P = m.new_space("P", formula="lambda k: {'refs': {'r': A.x(0) + k}}")
    P.A = A
    P.new_cells("bar", formula="lambda t: A.x(t) + k")
    return m, A, P


def state(A, P):
    return (sorted(dict(A.x).items()), sorted(P._impl.param_spaces),
            {k: sorted(dict(v.interface.bar).items()) for k, v in sorted(P._impl.param_spaces.items())})


m, A, P = build()
assert P[1].bar(0) == 1
A.x[0] = 5
P[1].bar(0)                 # the former leaf dependents, asked for lazily: P[1] and P[1].bar(0)
lazy = state(A, P)
m.close()

mx.set_recalc(True)
try:
    m, A, P = build()
    assert P[1].bar(0) == 1
    try:
        A.x[0] = 5
        err = None
    except Exception as e:      # noqa
        err = e
    got = state(A, P)
finally:
    mx.set_recalc(False)
print("recalc on: A.x[0] = 5 ->", "returned" if err is None else "raised %s: %s" % (type(err).__name__, str(err).split("\n")[1:2]))
print("state after:", got)
print("lazy run + former leaves:", lazy)
sys.exit(0 if err is None and got == lazy else 1)
