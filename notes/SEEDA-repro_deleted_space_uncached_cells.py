"""Deleting a space that holds an UNCACHED cells leaves the values that cached cells of other
spaces computed through it (C09: the cached flag changes a result; C02: a stale value survives
an edit; C13: a dependent of a deleted object still holds a value).

BaseSpaceImpl.on_delete clears the cells of the deleted space with
`cells.clear_all_values(clear_input=True)`.  An uncached cells holds no values, so nothing is
cleared; what cached callers computed through it hangs on its key-less object node `(cells,)` in
the trace graph, and that node stays (del_cells and on_namespace_change use `model.clear_obj`,
which removes it).  A caller in the same parent is cleared by the namespace change; a caller that
reaches the cells through an object-valued reference from elsewhere is not.

Run:  MODELX_REPO=/path/to/modelx python SEEDA-repro_deleted_space_uncached_cells.py
exit 0 = property holds, 1 = violated
"""
import os
import sys
sys.path.insert(0, os.environ.get("MODELX_REPO", "/repo"))
import modelx as mx


def run(g_cached, evaluate_first, how):
    m = mx.new_model()
    C = m.new_space("C")
    X = C.new_space("X")
    X.s = 2
    X.new_cells("g", formula="def g(x): return s + x")
    X.g.is_cached = g_cached
    B = m.new_space("B")
    B.set_ref("t", X.g, "absolute")
    B.new_cells("h", formula="def h(x): return t(x) + 1")
    if evaluate_first:
        assert B.h(0) == 3
    if how == "del space":
        del C.X
    elif how == "del parent":
        del m.C
    try:
        r = B.h(0)
    except Exception as e:
        r = type(e).__name__ + "(" + type(mx.get_error()).__name__ + ")"
    m.close()
    return r


bad = 0
for how in ("del space", "del parent"):
    want = run(True, False, how)             # all cached, only the edits applied
    for g_cached in (True, False):
        for ev in (False, True):
            got = run(g_cached, ev, how)
            mark = "" if got == want else "   <-- differs from the all-cached model that only saw the edits"
            bad += got != want
            print("%-10s  g cached=%-5s  h evaluated before=%-5s  ->  B.h(0) = %s%s" % (how, g_cached, ev, got, mark))
print("PROPERTY VIOLATED" if bad else "PROPERTY HOLDS")
sys.exit(1 if bad else 0)
