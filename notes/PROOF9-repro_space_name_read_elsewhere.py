"""PROOF9 finding (C02, "renaming ... spaces"): a value computed from the NAME of a space, read from a formula
ELSEWHERE through an object-valued reference to the space (or to a space below it), survives `space.rename`.

`UserSpaceImpl.on_rename` clears the cells OF the renamed space and of the spaces below it (their formulas may read
`_space.name`), and the parent's namespace notifies.  A formula of another space that reads `S.name`, `S.fullname`,
`S.parent.name`, `repr(S)` ... (`S` a reference to the space) has no node of the renamed tree among its
predecessors and its own namespace does not change: its value stays.

exit 1 = the stale values are there (unchanged /repo ba383c1); exit 0 = repaired."""
import sys, warnings
warnings.simplefilter("ignore")
import modelx as mx


def build(evaluate):
    m = mx.new_model()
    A = m.new_space("A"); P = m.new_space("P"); Q = P.new_space("Q"); T = m.new_space("T")
    T.S = A
    T.PQ = Q
    T.new_cells("c", formula="lambda: S.name")
    T.new_cells("d", formula="lambda: S.fullname.split('.', 1)[1]")
    T.new_cells("h", formula="lambda: PQ.parent.name")
    T.new_cells("k", formula="lambda: c() + '!'")          # a dependent of the reader
    A.new_cells("n", formula="lambda: _space.name")
    T.new_cells("e", formula="lambda: S.n()")               # through a cells of the renamed space: cleared (fine)
    if evaluate:
        [c() for c in (T.c, T.d, T.h, T.k, T.e)]
    A.rename("Z")
    P.rename("R")
    return {n: T.cells[n]() for n in ("c", "d", "h", "k", "e")}


def build_del(evaluate):
    """the same with a deletion: the reader keeps the name of a space that no longer exists"""
    m = mx.new_model()
    A = m.new_space("A"); T = m.new_space("T")
    T.S = A
    T.new_cells("c", formula="lambda: S.name")
    if evaluate:
        T.c()
    del m.A
    try:
        return {"c": T.c()}
    except Exception as e:      # noqa
        return {"c": type(getattr(e, "__cause__", None) or e).__name__}


print("deletion: live", build_del(True), "edits only", build_del(False))
live, edits_only = build(True), build(False)
print("live      ", live)
print("edits only", edits_only)
stale = {n: (live[n], edits_only[n]) for n in live if live[n] != edits_only[n]}
if build_del(True) != build_del(False):
    stale["c after del m.A"] = (build_del(True), build_del(False))
print("stale     ", stale)
sys.exit(1 if stale else 0)
