"""C11 on /repo (also after 8ba4963): import_module / new_space_from_module leave the new space behind when the module
is refused (known finding C11-import-module-space-first).  Run: /venv/bin/python notes/R6C11-repro_import_module.py (exit 1 = defect)"""
import sys, os, warnings, tempfile, importlib.util
warnings.simplefilter("ignore")
sys.path.insert(0, os.environ.get("MODELX_REPO", "/repo"))
import modelx as mx

d = tempfile.mkdtemp()
p = os.path.join(d, "T.py")
open(p, "w").write("def a(x): return x\ndef k(x): return x\n")
spec = importlib.util.spec_from_file_location("T", p)
mod = importlib.util.module_from_spec(spec)
spec.loader.exec_module(mod)

m = mx.new_model("M")
S = m.new_space("S")
S.k = 3
before = sorted(m.spaces)
try:
    m.import_module(mod, bases=S)      # T derives the reference k; the function k cannot become a cells
    print("accepted")
    sys.exit(0)
except Exception as e:
    after = sorted(m.spaces)
    print("raised %s(%s); spaces %r -> %r" % (type(e).__name__, e, before, after))
    sys.exit(1 if after != before else 0)
