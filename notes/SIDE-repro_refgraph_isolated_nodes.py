"""Item 6: the reference graph keeps isolated nodes of references of a discarded ItemSpace.  exit 1 = present."""
import os, sys
sys.path.insert(0, os.environ.get("MODELX_REPO", "/repo"))
import modelx as mx

m = mx.new_model("M")
S = m.new_space("S", formula="def _f(k):\n    return {'refs': {'z': 10 * k}}")
S.new_cells("foo", formula="def foo():\n    return z")
T = m.new_space("T"); T.S = S
T.new_cells("c", formula="def c(i):\n    return S[i].z")
rg = m._impl.refgraph
n0 = rg.number_of_nodes()
for i in range(5):
    T.c(i)
n1 = rg.number_of_nodes()
S.formula = "def _f(k):\n    return {'refs': {'z': 11 * k}}"       # discards all ItemSpaces
n2, e2 = rg.number_of_nodes(), rg.number_of_edges()
iso = [n for n in rg.nodes if rg.degree(n) == 0]
print("refgraph nodes: start %d, after 5 evaluations %d, after discarding the ItemSpaces %d (edges %d); isolated: %d"
      % (n0, n1, n2, e2, len(iso)))
print("held values:", dict(T.c), " T.c(2) ->", T.c(2), "; precedents fine:", len(T.c.precedents(2)) >= 1)
m.close()
if iso:
    print("PRESENT: isolated reference nodes stay (memory only: no element, no value, no edge refers to them)")
    sys.exit(1)
print("absent")
