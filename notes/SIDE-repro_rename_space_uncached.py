"""Item 9: renaming a static space that has an UNCACHED cells leaves stale values in cached callers elsewhere.
C09/C02.  exit 1 = defect present, exit 0 = absent."""
import os, sys
sys.path.insert(0, os.environ.get("MODELX_REPO", "/repo"))
import modelx as mx


def run(cached, nested):
    m = mx.new_model("M")
    S = m.new_space("S")
    holder = S.new_space("Inner") if nested else S
    holder.new_cells("u", formula="def u():\n    return _space.fullname")
    holder.cells["u"].is_cached = cached
    T = m.new_space("T")
    T.Sref = holder
    T.new_cells("c", formula="def c():\n    return Sref.u()")
    before = T.c()
    S.rename("S2")
    after = T.c()
    fresh = holder.fullname           # what a model with only the edits applied returns
    m.close()
    return before, after, fresh


bad = []
for nested in (False, True):
    res = {}
    for cached in (True, False):
        before, after, fresh = run(cached, nested)
        res[cached] = after
        print("nested=%s u cached=%s: before rename %r, after rename T.c() -> %r, expected %r"
              % (nested, cached, before, after, fresh))
        if after != fresh:
            bad.append((nested, cached, after, fresh))
    if res[True] != res[False]:
        print("  -> the cached flag changes the result (C09)")
if bad:
    print("DEFECT PRESENT: stale value after rename:", bad)
    sys.exit(1)
print("absent")
