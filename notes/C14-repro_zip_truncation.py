"""C14-zip-reopen-error-truncates-archive: one transient OSError while ziputil re-opens the
temporary archive -> zip_model() reports success, the destination lacks _system.json."""
import io, os, tempfile, zipfile, warnings
import modelx as mx
warnings.simplefilter("ignore")
tmp = tempfile.mkdtemp()
m = mx.new_model("Saved"); s = m.new_space("S"); s.new_cells("f", formula="lambda x: x"); s.y = 1
path = os.path.join(tmp, "model.zip")
mx.zip_model(m, path)                                  # generation 1, complete
real_open, count = io.open, [0]
def flaky_open(file, mode="r", *a, **kw):
    if str(file).endswith("model.zip") and mode == "r+b":      # ZipFile(root, "a")
        count[0] += 1
        if count[0] == 2:                                       # the 3rd opening of the archive
            raise PermissionError("transient")                 # e.g. a virus scanner holding the file
    return real_open(file, mode, *a, **kw)
io.open = flaky_open
try:
    mx.zip_model(m, path)                              # generation 2: no exception
finally:
    io.open = real_open
print("members now at the destination:", zipfile.ZipFile(path).namelist())
print("members of the backup        :", zipfile.ZipFile(path + "_BAK1").namelist())
try:
    mx.read_model(path, name="Again")
except Exception as e:
    print("read_model(path) fails:", type(e).__name__, e)
