"""Observation passed on (C02's subject, not C04's): a cached value computed from `space.cells` of a space reached
through a reference survives an edit that changes that mapping.  Met while widening C04 to histories; the C04
oracle now recomputes the live values before comparing (`c04hist.drop_computed`)."""
import os
import sys
sys.path.insert(0, os.environ.get("MODELX_REPO", "/repo"))
import modelx as mx  # noqa: E402

m = mx.new_model("M")
C = m.new_space("C")
A = C.new_space("A")
B = m.new_space("B")
A.k2 = B
A.new_cells("g1", formula=lambda x: len(k2.cells))
B.add_bases(C)
print("before:", A.g1(0), "cells of B:", list(B.cells))
C.new_cells("bar", formula=lambda x: 2 * x)          # B derives bar
print("after :", A.g1(0), "cells of B:", list(B.cells), "(recomputed: %d)" % len(B.cells))
sys.exit(0 if A.g1(0) == len(B.cells) else 1)
