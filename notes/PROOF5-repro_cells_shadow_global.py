import sys
sys.path.insert(0, "/repo")
import modelx as mx
m = mx.new_model("M")
B = m.new_space("B")
B.new_cells("x", formula=lambda k: 7)
m.x = 1          # model-level reference; no check against members of spaces
S = m.new_space("S")
T = m.new_space("T")
T.S = S
T.new_cells("c", formula=lambda: S.x)
T.new_cells("d", formula=lambda: S.x + 1)
print("before", T.c(), T.d())
S.add_bases(B)
print("S.x is", S.x)
try:
    print("after c", T.c())
except Exception as e:
    print("after c fails", type(e).__name__, e)
try:
    print("after d", T.d())
except Exception as e:
    print("after d fails", type(e).__name__, e)
T.d.clear()
try:
    print("recomputed d", T.d())
except Exception as e:
    print("recomputed d fails", type(e).__name__, str(e)[:100])
