"""C15 finding C15-cells-param-named-val (unchanged /repo).

The generated cache method of a cached cells with parameters is

    def foo(self, <params>):
        if <key> in self._v_foo:
            return self._v_foo[<key>]
        else:
            val = self._f_foo(<args>)
            self._v_foo[<key>] = val
            return val

A cells PARAMETER named `val` is rebound by the first assignment, so the value is stored under a key built from the
RESULT instead of the argument: `foo(3)` = 4 is stored under 4, a later `foo(4)` is served that 4 (the model says
5), and every call with the same argument is recomputed.  Same class as the repaired `zip` parameter of spaces: a
name of the generated code that a user's parameter can bear.

exit 1 = the exported package differs from the model.
"""
import os
import subprocess
import sys
import tempfile

import modelx as mx

RUN = """
import sys
sys.modules['modelx'] = None
sys.path.insert(0, sys.argv[1])
from ValParam_nomx import mx_model as m
out = []
for a in (%s):
    try:
        out.append(m.S.foo(*a))
    except Exception as e:
        out.append('raises ' + type(e).__name__)
print(out, sorted(m.S._v_foo) if hasattr(m.S, '_v_foo') else None)
"""
CALLS = [(3,), (7,), (3,), (4,)]
CALLS2 = [(1, 2), (2, 4), (1, 2)]


def main():
    m = mx.new_model("ValParam")
    s = m.new_space("S")
    # foo(3) = 4: stored under key 4 in the package; foo(4) = 5 in the model, the package serves the cached 4
    s.new_cells("foo", formula="lambda val: val + 1")
    want = [s.foo(*a) for a in CALLS]
    with tempfile.TemporaryDirectory() as td:
        m.export(os.path.join(td, "ValParam_nomx"))
        got = subprocess.run([sys.executable, "-c", RUN % repr(CALLS)[1:-1], td], capture_output=True,
                             text=True)
    m.close()
    print("calls foo%s" % (CALLS,))
    print("model   ", want)
    print("exported", got.stdout.strip(), got.stderr.strip()[-300:])
    return 0 if got.stdout.startswith(repr(want)) else 1


if __name__ == "__main__":
    sys.exit(main())
