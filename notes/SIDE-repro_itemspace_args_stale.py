"""Item 5: values read through a reference to an ItemSpace via its argument / formula references (r.k, r.z)
when that ItemSpace is discarded and re-created with other reference values.  C02 / C07 / C13.
exit 1 = defect present, exit 0 = absent."""
import os, sys
sys.path.insert(0, os.environ.get("MODELX_REPO", "/repo"))
import modelx as mx

bad = []


def history(evaluate_before, n_edits):
    m = mx.new_model("M")
    A = m.new_space("A")
    A.new_cells("x", formula="def x():\n    return 1")
    S = m.new_space("S", formula="def _f(k):\n    return {'refs': {'z': A.x() * 100 + k}}")
    S.A = A
    S.w = 7
    S.new_cells("foo", formula="def foo():\n    return z")
    T = m.new_space("T")
    T.S = S
    T.r = S[1]                                          # a reference holding the ItemSpace
    T.new_cells("via_ref_arg", formula="def via_ref_arg():\n    return r.k")
    T.new_cells("via_ref_z", formula="def via_ref_z():\n    return r.z")
    T.new_cells("via_ref_w", formula="def via_ref_w():\n    return r.w")
    T.new_cells("via_item_z", formula="def via_item_z():\n    return S[1].z")
    T.new_cells("via_item_w", formula="def via_item_w():\n    return S[1].w")
    T.new_cells("via_item_foo", formula="def via_item_foo():\n    return S[1].foo()")
    names = ["via_ref_arg", "via_ref_z", "via_ref_w", "via_item_z", "via_item_w", "via_item_foo"]

    def obs():
        out = {}
        for n in names:
            try:
                out[n] = T.cells[n]()
            except Exception as e:                      # noqa
                out[n] = type(e).__name__
        return out
    if evaluate_before:
        obs()
    edits = [lambda: setattr(A, "x", 2),     # discards S[1] (its formula read A.x): z becomes 201
             lambda: setattr(S, "w", 8)]     # changes a reference of the base: discards S[1] again
    for e in edits[:n_edits]:
        e()
        if evaluate_before:
            last = obs()
    if not evaluate_before:
        last = obs()
    m.close()
    return last


for n_edits, what in ((1, "A.x = 2 (discards S[1])"), (2, "A.x = 2; S.w = 8 (discards S[1] twice)")):
    e = history(True, n_edits)
    f = history(False, n_edits)
    print(what)
    print("   with evaluations in between :", e)
    print("   edits only                   :", f)
    for k in f:
        if e[k] != f[k]:
            bad.append("%s / %s: %r with evaluations in between, %r with the edits only" % (what, k, e[k], f[k]))
if bad:
    print("DEFECT PRESENT:")
    for b in bad:
        print("  -", b)
    sys.exit(1)
print("absent")
