"""C15 finding C15-static-access-builtin-named-param (unchanged /repo, after 77f6b99).

A parametrised space whose parameter is named like a built-in (`int`, `id`, `max` ...).  A formula of the
space (or of a space below it) reads the name.  Evaluated on the STATIC space - `m.P.foo()`, no item -
modelx finds no parameter value in the namespace and falls through to the built-in; the exported method
reads `self.int`, which exists only on instances: AttributeError.  (With a parameter that is not named like a
built-in both sides fail - NameError / AttributeError - and nothing is compared.)

exit 1 = the exported package differs from the model.
"""
import os
import subprocess
import sys
import tempfile

import modelx as mx

RUN = """
import sys
sys.modules['modelx'] = None
sys.path.insert(0, sys.argv[1])
from StaticBi_nomx import mx_model as m
for what, f in [("P.foo()", lambda: m.P.foo()), ("P[3].foo()", lambda: m.P[3].foo()),
                ("P.Ch.bar()", lambda: m.P.Ch.bar()), ("P[3].Ch.bar()", lambda: m.P[3].Ch.bar())]:
    try:
        print(what, "->", f())
    except Exception as e:
        print(what, "-> raises", type(e).__name__, e)
"""


def main():
    m = mx.new_model("StaticBi")
    p = m.new_space("P", formula=lambda int=7: None)
    p.new_cells("foo", formula="lambda: (int, 1)")
    ch = p.new_space("Ch")
    ch.new_cells("bar", formula="lambda: [int]")
    model = [("P.foo()", repr(m.P.foo())), ("P[3].foo()", repr(m.P[3].foo())),
             ("P.Ch.bar()", repr(m.P.Ch.bar())), ("P[3].Ch.bar()", repr(m.P[3].Ch.bar()))]
    with tempfile.TemporaryDirectory() as td:
        m.export(os.path.join(td, "StaticBi_nomx"))
        out = subprocess.run([sys.executable, "-c", RUN, td], capture_output=True, text=True).stdout
    m.close()
    got = [tuple(l.split(" -> ", 1)) for l in out.strip().split("\n")]
    bad = 0
    for (what, mv), (_w, ev) in zip(model, got):
        same = mv == ev
        print("%-14s model %-28s exported %s%s" % (what, mv, ev, "" if same else "   <-- differs"))
        bad += not same
    return 1 if bad else 0


if __name__ == "__main__":
    sys.exit(main())
