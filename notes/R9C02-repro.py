"""R9C02 triage of notes/thorough/C02-193ae62b0489.json and C02-e3800687813e.json (plain modelx, self-contained).

Run:  /venv/bin/python notes/R9C02-repro.py          (modelx from /repo or $MODELX_REPO)

The two histories on a LIVE model (with the evaluations) and on an EDITS-ONLY model; prints, for both, the value
asked and the *name* of the ItemSpace in which it was computed.

Result: the two values differ by 20 because the value is a function of the ItemSpace's NAME (`__Space<n>`, template
17 of structworld reads `_space.fullname`), and <n> is the parent's running counter of ItemSpaces created so far
(`UserSpaceImpl.itemspacenamer`, core/space.py: `AutoNamer("__Space")`; `del_all_itemspaces` does not reset it).
The live model has created and discarded `__Space1`, `__Space2` before the edit, so after the edit key 0 becomes
`__Space3`; the edits-only model names it `__Space1`.  ord('3') - ord('1') = 2, times 10 = 20.  No value is stale:
recomputing the same element from scratch on the live model (clear_all, then ask again) gives the live answer again,
and a formula that does not read the auto-generated name gives the same answer on both models.
"""
import os
import sys

sys.path.insert(0, os.environ.get("MODELX_REPO", "/repo"))
import modelx as mx   # noqa: E402

NAME = "sum(map(ord, _space.fullname.split('.', 1)[1])) * 10 + x + %d"


def build(name):
    m = mx.new_model(name)
    m.u = 11
    m.r = 12
    C = m.new_space("C")
    X = C.new_space("X")
    X.new_cells("g", formula="def g(x): return " + NAME % 1)
    C.new_cells("h", formula="def h(x): return " + NAME % 2)
    C.new_cells("f", formula="def f(x): return X.g(x) + 1")
    B = m.new_space("B")
    B.set_ref("X", X, "absolute")
    B.set_ref("Y", C, "absolute")
    B.new_cells("k", formula="def k(x): return X.g(x) + 1")
    B.new_cells("f", formula="def f(x): return Y.h(x) + 1")
    D = m.new_space("D")
    D.set_ref("t", B.k, "absolute")
    D.new_cells("f", formula="def f(x): return t(x) + 1")
    return m


def all_spaces(m):
    out = []

    def walk(parent):
        for n in sorted(parent.spaces):
            out.append(parent.spaces[n])
            walk(parent.spaces[n])
    walk(m)
    return out


def evalall(m):
    """what the harness' `evalall` does: every cells of every space at 0, 1, 2; keys 0 and 1 of parametrised spaces"""
    for s in all_spaces(m):
        for c in list(s.cells.values()):
            for x in (0, 1, 2):
                try:
                    c(x)
                except Exception:
                    pass
        if s.formula is not None:
            for key in (0, 1):
                for c in list(s[key].cells.values()):
                    try:
                        c(1)
                    except Exception:
                        pass


def history(name, which, evaluate):
    m = build(name)
    if evaluate:
        evalall(m)
    if which == 1:
        P = m.C.X
        P.formula = "lambda i: None"
        if evaluate:
            evalall(m)
        P.k = 51                                    # the edit: a new reference in the parametrised space
        if evaluate:
            evalall(m)
        cells = P[0].g
    else:
        P = m.C
        P.formula = "lambda i: None"
        if evaluate:
            evalall(m)
        P.f.formula = "def f(x): return x + 1"      # the edit: a formula change in the parametrised space
        if evaluate:
            evalall(m)
        cells = P[0].h
    v = cells(1)
    item = cells.parent
    # recomputed from scratch in the same state: the same answer -> nothing stale was returned
    cells.clear_all()
    again = cells(1)
    res = (v, again, item.fullname)
    m.close()
    return res


def control(evaluate):
    """the same history 1 with a g that does NOT read the auto-generated name: live and edits-only agree"""
    m = mx.new_model("K")
    C = m.new_space("C")
    X = C.new_space("X")
    X.new_cells("g", formula="def g(x): return sum(map(ord, _space.parent.fullname.split('.', 1)[1])) * 10 + x + 1")
    if evaluate:
        evalall(m)
    X.formula = "lambda i: None"
    if evaluate:
        evalall(m)
    X.k = 51
    if evaluate:
        evalall(m)
    v = X[0].g(1)
    m.close()
    return v


if __name__ == "__main__":
    for which, what in ((1, "C.X[0].g(1)"), (2, "C[0].h(1)")):
        live = history("L", which, True)
        only = history("F", which, False)
        print("history %d  %s" % (which, what))
        print("   live model      : %d  (recomputed after clear_all: %d)  in %s" % live)
        print("   edits-only model: %d  (recomputed after clear_all: %d)  in %s" % only)
        print("   difference %d = 10 * (ord(%r) - ord(%r))" % (
            live[0] - only[0], live[2][-1], only[2][-1]))
        assert live[0] == live[1] and only[0] == only[1]
        assert live[0] - only[0] == 10 * (ord(live[2][-1]) - ord(only[2][-1]))
    print("control (g reads the PARENT's name, not the auto-generated one): live %d, edits-only %d" % (
        control(True), control(False)))
