import MxModel.Struct.Mech
open MxModel.SM

def names : List String := ["x", "y", "A", "B"]
def spaceNames : List String := ["A", "B", "C", "D", "x"]

def allNamesOf (st : St) : List String :=
  (names ++ st.spaces.flatMap (fun s => s.cells.map (·.1) ++ s.refs.map (·.1))).eraseDups

def nodupB {α} [BEq α] (l : List α) : Bool := l.eraseDups.length == l.length

def goodB (st : St) (a : Attr) (q : Path) (n : String) : Bool :=
  match st.mem a q n with
  | some m => if m.derived then
      (match st.firstDef a (st.tail q) n with
       | some (_, w) => w == m.payload
       | none => false) else true
  | none => (st.firstDef a (st.tail q) n).isNone

def wfB (st : St) : Bool :=
  nodupB st.ids && st.spaces.all (fun s => s.bases.all st.has) && st.ids.all (fun q => (st.mro q).isSome)
  && st.spaces.all (fun s => nodupB (s.cells.map (·.1)) && nodupB (s.refs.map (·.1)))

def derivB (st : St) : Bool :=
  st.ids.all (fun q => (allNamesOf st).all (fun n => goodB st .cells q n && goodB st .refs q n))

def disjB (st : St) : Bool :=
  st.ids.all (fun q => (allNamesOf st ++ st.childNames q).all (fun n =>
    let c := (st.mem .cells q n).isSome
    let r := (st.mem .refs q n).isSome
    let s := (st.childNames q).contains n
    !(c && r) && !(c && s) && !(r && s)))
  && st.globals.all (fun g => !(st.childNames []).contains g)

structure Rng where s : Nat
def Rng.next (r : Rng) : Rng × Nat :=
  let s := (r.s * 6364136223846793005 + 1442695040888963407) % 18446744073709551616
  (⟨s⟩, s / 4294967296)

def pick {α} [Inhabited α] (r : Rng) (l : List α) : Rng × α :=
  let (r, k) := r.next
  (r, l[k % l.length]!)

def pickPath (r : Rng) (st : St) : Rng × Path :=
  let (r, k) := r.next
  if k % 10 == 0 || st.ids.isEmpty then
    let (r, n) := pick r spaceNames
    (r, [n])
  else pick r st.ids

def pickPaths (r : Rng) (st : St) : Rng × List Path :=
  let (r, k) := r.next
  let n := k % 3 + (if k % 7 == 0 then 0 else 1) 
  (List.range (min n 3)).foldl (fun (r, acc) _ => let (r, p) := pickPath r st; (r, acc ++ [p])) (r, [])

def genOp (r : Rng) (st : St) : Rng × Op :=
  let (r, k) := r.next
  match k % 14 with
  | 0 | 1 =>
    let (r, k2) := r.next
    let (r, par) := if k2 % 3 == 0 then pickPath r st else (r, [])
    let (r, n) := pick r spaceNames
    let (r, bs) := pickPaths r st
    let (r, k3) := r.next
    let (r, rn) := pick r names
    let (r, k4) := r.next
    (r, .newSpace par n (if k3 % 3 == 0 then [] else bs) (if k4 % 3 == 0 then [(rn, k4 % 7)] else if k4 % 11 == 1 then [("_bad", 1)] else []))
  | 2 => let (r, p) := pickPath r st; (r, .delSpace p)
  | 3 | 4 => let (r, p) := pickPath r st; let (r, n) := pick r names; let (r, v) := r.next; (r, if v % 5 == 0 then .newCells p "_" (if v % 2 == 0 then n else "<lambda>") (v % 100) else .newCells p n n (v % 100))
  | 5 => let (r, p) := pickPath r st; let (r, n) := pick r names; let (r, v) := r.next; (r, .setFormula p n (v % 100))
  | 6 => let (r, p) := pickPath r st; let (r, n) := pick r names; (r, .delCells p n)
  | 7 => let (r, p) := pickPath r st; let (r, n) := pick r names; let (r, n2) := pick r names; (r, .renameCells p n n2)
  | 8 | 9 => let (r, p) := pickPath r st; let (r, bs) := pickPaths r st; (r, .addBases p bs)
  | 10 => let (r, p) := pickPath r st
          let (r, k2) := r.next
          let bs := st.basesOf p
          if bs.isEmpty || k2 % 5 == 0 then let (r, bs) := pickPaths r st; (r, .removeBases p bs)
          else (r, .removeBases p [bs[k2 % bs.length]!])
  | 11 => let (r, p) := pickPath r st; let (r, n) := pick r names; let (r, v) := r.next; (r, .setRef p n (v % 100))
  | 12 => let (r, p) := pickPath r st; let (r, n) := pick r names; (r, .delRef p n)
  | _ => let (r, n) := pick r names; let (r, k2) := r.next; (r, if k2 % 3 == 0 then .delGlobal n else .setGlobal n)

def kw : List String := []

partial def runOne (seed : Nat) (len : Nat) : Option (List Op × String) := Id.run do
  let mut r : Rng := ⟨seed * 7919 + 13⟩
  let mut st : St := {}
  let mut ops : List Op := []
  for i in [0:len] do
    let (r', op0) := genOp r st
    r := r'
    let op := if i < 3 then Op.newSpace [] (spaceNames[(seed + i) % 4]!) [] [] else op0
    let (st', ok) := st.step kw op
    if ok then
      ops := ops ++ [op]
      st := st'
      if !wfB st then return some (ops, "wf")
      if !derivB st then return some (ops, "deriv")
      if !disjB st then return some (ops, "disj")
  return none

def main (args : List String) : IO Unit := do
  let n := (args[0]!).toNat!
  let len := (args[1]!).toNat!
  let start := (args.getD 2 "0").toNat!
  let mut found : List String := []
  let mut cnt := 0
  for seed in [start:start+n] do
    match runOne seed len with
    | some (ops, what) =>
      if !found.contains what || cnt < 6 then
        IO.println s!"FAIL {what} seed={seed} len={ops.length}: {repr ops}"
        found := what :: found
        cnt := cnt + 1
    | none => pure ()
  IO.println s!"done {n} failures={cnt}"

def stats (seed len : Nat) : Nat × Nat := Id.run do
  let mut r : Rng := ⟨seed * 7919 + 13⟩
  let mut st : St := {}
  let mut acc := 0
  for _ in [0:len] do
    let (r', op) := genOp r st
    r := r'
    let (st', ok) := st.step kw op
    if ok then acc := acc + 1; st := st'
  return (acc, st.spaces.length)
#eval (List.range 10).map (fun s => stats s 40)
