"""D1 (C11 / C03 / C13) - genuine defect of modelx (unchanged /repo at 8a863da):
`S.add_bases(D)` raises, but S keeps derived members of D.

D defines a reference in `relative` mode whose target lies outside D (accepted by `set_ref`
because D has no sub space yet).  `SpaceUpdater.add_bases` executes the re-derivation instructions
of S; `UserSpaceImpl.on_inherit` first creates the derived cells, then the derived reference, whose
`ReferenceImpl.on_inherit` raises `ValueError: Relative reference ... out of scope`.  The copy of the
inheritance graph is dropped (S.bases == []), the derived members stay: a raising operation changed
the model (C11), S has derived members without a definer among its bases (C03, C13).
`new_space(bases=[D])` in the same situation removes the new space again and is clean.

Same class, other entry points (second part of the script): S(B1, B2), both define `r`, B2's is such a
`relative` reference (S derives r from B1, so nothing had to be bound).  Taking the first definer away -
`del B1.r`, `S.remove_bases(B1)`, `del model.B1` - re-points S.r at B2.r and raises half-way: B1.r is gone /
S and its sub space lost their derived cells / the spaces are deleted while S still lists them.

Run: /venv/bin/python notes/STRUCTX-repro_add_bases_relref_residue.py   (exit 1 = defect present)
"""
import sys, os
sys.path.insert(0, os.environ.get("MODELX_REPO", "/repo"))
import modelx as mx


def snapshot(m):
    out = {}
    for name, s in m.spaces.items():
        out[name] = (tuple(b.name for b in s.bases),
                     tuple(sorted((n, c._is_derived()) for n, c in s.cells.items())),
                     tuple(sorted((n, s._impl.own_refs[n].is_derived()) for n in s._own_refs)))
    return out


bad = 0
m = mx.new_model("M1")
O = m.new_space("O"); O.new_cells("oo", formula="def oo(t): return t")
D = m.new_space("D"); D.new_cells("f", formula="def f(t): return t + 1")
D.set_ref("r", O.oo, "relative")            # D has no sub space: accepted
S = m.new_space("S")
before = snapshot(m)
try:
    S.add_bases(D)
    print("add_bases accepted")
except ValueError as e:
    print("add_bases raised:", e)
    after = snapshot(m)
    if after != before:
        print("DEFECT: the refused add_bases changed S:", before["S"], "->", after["S"])
        bad = 1

# the same one level down: S2 already has a sub space T; T gets the residue too
S2 = m.new_space("S2"); T = m.new_space("T", bases=[S2])
before = snapshot(m)
try:
    S2.add_bases(D)
    print("add_bases (with a sub space) accepted")
except ValueError as e:
    print("add_bases (with a sub space) raised:", e)
    after = snapshot(m)
    if after != before:
        print("DEFECT: the refused add_bases changed", sorted(k for k in after if after[k] != before[k]))
        bad = 1



def second(what):
    m = mx.new_model("M_" + what)
    O = m.new_space("O"); O.new_cells("oo", formula="def oo(t): return t")
    B1 = m.new_space("B1"); B1.r = 1; B1.new_cells("g", formula="def g(t): return t")
    B2 = m.new_space("B2"); B2.set_ref("r", O.oo, "relative")
    S = m.new_space("S", bases=[B1, B2]); m.new_space("T", bases=[S])
    before = snapshot(m)
    try:
        if what == "del_ref":
            del B1.r
        elif what == "remove_bases":
            S.remove_bases(B1)
        else:
            del m.B1
        print(what, "accepted")
        return 0
    except ValueError as e:
        try:
            after = snapshot(m)
        except Exception as e2:
            print("DEFECT: the refused %s left the model in a state that cannot be described: %r" % (what, e2))
            return 1
        if after != before:
            print("DEFECT: the refused %s changed" % what, sorted(k for k in after if after[k] != before.get(k)))
            return 1
        print(what, "raised and changed nothing:", e)
        return 0


for what in ("del_ref", "remove_bases", "del_space"):
    bad |= second(what)

# an acceptable base (the target is inside D) must still be accepted and rebound
D2 = m.new_space("D2"); D2.new_cells("f", formula="def f(t): return t + 1")
D2.set_ref("r", D2.f, "relative")
S3 = m.new_space("S3"); S3.add_bases(D2)
assert S3.r is S3.f, S3.r
sys.exit(bad)
