"""Repro (plain modelx API) for known finding C15-nonfinite-float-ref.

A reference whose value is float('nan') / float('inf') / float('-inf') is of type float, which
`export_model` documents as "output as literals".  ParentTranslator.ref_value writes
pprint.pformat(value), i.e. the bare names `nan` / `inf` / `-inf`, into `_mx_assign_refs`;
importing the exported package raises NameError.

    /venv/bin/python deliver/C15-nonfinite-float-ref-repro.py [path-to-modelx-tree]

exit 1 and "PROPERTY VIOLATED" on the unchanged tree, exit 0 with the candidate patch applied.
"""
import os
import subprocess
import sys
import tempfile
import warnings

warnings.simplefilter("ignore")
sys.path.insert(0, sys.argv[1] if len(sys.argv) > 1 else os.environ.get("MODELX_REPO", "/repo"))
import modelx as mx  # noqa: E402

bad = []
for label, value in (("nan", float("nan")), ("inf", float("inf")), ("-inf", float("-inf"))):
    m = mx.new_model("M")
    s = m.new_space("A")
    s.cap = value                    # e.g. "no upper limit"
    s.new_cells("capped", formula="lambda x: min(x, cap) if cap == cap else x")
    expected = s.capped(5)
    d = tempfile.mkdtemp()
    m.export(os.path.join(d, "M_nomx"))
    m.close()
    code = ("import sys; sys.modules['modelx'] = None; sys.path.insert(0, %r); import M_nomx; "
            "print(M_nomx.mx_model.A.capped(5))" % d)
    p = subprocess.run([sys.executable, "-E", "-c", code], capture_output=True, text=True)
    got = p.stdout.strip() if p.returncode == 0 else p.stderr.strip().splitlines()[-1]
    print("cap = %-4s  model: %r   exported package: %s" % (label, expected, got))
    if p.returncode != 0 or got != repr(expected):
        bad.append(label)
if bad:
    print("PROPERTY VIOLATED for reference values", bad)
    sys.exit(1)
print("PROPERTY HOLDS")
