"""`setattr(model, name, value)` accepts names that are no names (`_x`, `1a`, `for`, `a b`, ``): Model.set_attr does
not look at the name, UserSpace.set_attr refuses the same names with ValueError.  The reference then sits in the
namespace of every space.  C11 (names clause, read for references as the checks do) / C12.
exit 1 = present, exit 0 = absent."""
import os, sys
sys.path.insert(0, os.environ.get("MODELX_REPO") or os.getcwd())
import modelx as mx

bad = []
for name in ("_x", "1a", "for", "a b", "", "x.y"):
    m = mx.new_model("M")
    S = m.new_space("S")
    try:
        setattr(S, name, 1)
        ctl = "accepted"
    except Exception as e:                   # noqa
        ctl = "refused (%s)" % type(e).__name__
    try:
        setattr(m, name, 7)
        print("setattr(model, %r, 7) accepted -> model.refs has it: %s, S's namespace has it: %s   [setattr(space, %r, 1): %s]"
              % (name, name in m.refs, name in S._impl.namespace, name, ctl))
        bad.append(name)
    except Exception as e:                   # noqa
        print("setattr(model, %r, 7) refused (%s)" % (name, type(e).__name__))
    m.close()
if bad:
    print("DEFECT PRESENT: invalid names became names of model-level references:", bad)
    sys.exit(1)
print("absent")
