"""Item 4: model.currentspace that is a DESCENDANT of a deleted space is not reset:
the session goes on acting on the orphaned space.  C13.  exit 1 = defect present, exit 0 = absent."""
import os, sys
sys.path.insert(0, os.environ.get("MODELX_REPO", "/repo"))
import modelx as mx
from modelx.core.base import null_impl  # noqa

bad = []


def scenario(label, build):
    m = mx.new_model("M")
    victim, deleter = build(m)
    mx.cur_space(victim)
    assert mx.cur_space() is victim
    deleter()
    # the old handle itself raises the deleted-object error
    try:
        victim.name
        bad.append(label + ": old handle still works")
    except Exception as e:                       # noqa
        deleted_error = type(e).__name__
    cur = m._impl.currentspace
    print("%s: model.currentspace after the deletion: %s" % (label, "None" if cur is None else "the orphaned impl of %s" % cur.name))
    try:
        got = mx.cur_space()
        print("   mx.cur_space() ->", "None" if got is None else "a handle whose _impl is the orphan: %s" % (got._impl is cur,))
    except Exception as e:                       # noqa
        print("   mx.cur_space() -> %s: %s" % (type(e).__name__, e))
    try:
        c = mx.defcells(lambda x: x)
        where = c.parent.fullname
        ok = c.parent._impl is not cur and c.parent.name in m.spaces
        print("   mx.defcells(...) created", c.fullname, "(in a fresh current space)" if ok else "(ACTING ON ORPHANED STATE)")
        if not ok:
            bad.append(label + ": defcells acted on the orphaned space")
    except Exception as e:                       # noqa
        print("   mx.defcells(...) -> %s: %s   (deleted-object error is %s)" % (type(e).__name__, str(e)[:80], deleted_error))
        bad.append(label + ": defcells raised %s" % type(e).__name__)
    if cur is not None:
        bad.append(label + ": currentspace still is the deleted space")
    m.close()


def direct(m):
    A = m.new_space("A")
    return A, lambda: m.__delattr__("A")


def descendant(m):
    A = m.new_space("A"); C = A.new_space("C"); G = C.new_space("G")
    return G, lambda: m.__delattr__("A")


def grandchild(m):
    A = m.new_space("A"); C = A.new_space("C"); G = C.new_space("G")
    return G, lambda: A.__delattr__("C")


scenario("control: the deleted space itself", direct)
scenario("descendant of the deleted space", descendant)
scenario("child of a deleted child space", grandchild)
if bad:
    print("DEFECT PRESENT:", bad)
    sys.exit(1)
print("absent")
