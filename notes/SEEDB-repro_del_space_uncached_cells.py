"""C13 (deletion is complete) fails on the unchanged /repo: deleting a SPACE that contains an
uncached cells (is_cached=False) leaves

  * the key-less node (cells_impl,) of the deleted cells in model.tracegraph, and
  * the values that other spaces computed through that cells (here R.bar(3) == 16),

because BaseSpaceImpl.on_delete clears each cells with clear_all_values(), which walks
cells.data - empty for an uncached cells.  Deleting the cells itself (del A.foo ->
on_del_cells -> model.clear_obj(cells)) is complete; with a cached cells both are complete.

Run:  PYTHONPATH=/repo /venv/bin/python notes/SEEDB-repro_del_space_uncached_cells.py
exit 1 = defect present, 0 = absent
"""
import sys
import modelx as mx


def run(cached, delete_space):
    m = mx.new_model()
    A = m.new_space("A")
    A.new_cells("foo", formula=lambda t: 5 * t)
    A.foo.is_cached = cached
    R = m.new_space("R")
    R.src = A
    R.new_cells("bar", formula=lambda t: src.foo(t) + 1)
    assert R.bar(3) == 16
    impl = A.foo._impl
    if delete_space:
        del m.A
    else:
        del A.foo
    left = [n for n in m._impl.tracegraph.nodes if n[0] is impl]
    held = dict(R.bar)
    m.close()
    return left, held


bad = 0
for cached in (True, False):
    for delete_space in (False, True):
        left, held = run(cached, delete_space)
        what = "%s cells, %s deleted" % ("cached" if cached else "uncached", "its space" if delete_space else "the cells")
        if left or held:
            bad = 1
            print("DEFECT  %s: nodes of the deleted cells left in the dependency graph: %d; R.bar still holds %r"
                  % (what, len(left), held))
        else:
            print("ok      %s" % what)
sys.exit(bad)
