"""C14 "failures leave no residue": a load that fails AFTER _data/iospecs.pickle was read leaves the file objects
(BaseSharedIO) of the half-read model in IOManager.ios.

(a) relative paths: the entries are keyed by the closed half-read model - a leak (the model object, its data) for
    the rest of the session;
(b) a model saved with an EXTERNAL file (absolute path): the entry is keyed (None, path) and keeps a spec whose
    value no reference holds; every later load of the same (now repaired) save fails with
    `ValueError: cannot add spec` until the session ends.

Run:  MODELX_REPO=/repo /venv/bin/python notes/R6IO-repro_failed_load_leaks_io.py      (exit 1 = defect present)
"""
import os
import shutil
import sys
import tempfile
import warnings

sys.path.insert(0, os.environ.get("MODELX_REPO", "/repo"))
import pandas as pd
import modelx as mx

warnings.simplefilter("ignore")
iom = mx.core.mxsys.iomanager
problems = []
tmp = os.path.realpath(tempfile.mkdtemp(prefix="leak_"))
try:
    for variant in ("relative", "absolute"):
        m = mx.new_model("Saved")
        s = m.new_space("S")
        s.new_cells("f", formula="lambda x: x")
        s.lst = [1, 2, 3]                                          # -> _data/data.pickle, read after the iospecs
        csv = "files/df.csv" if variant == "relative" else os.path.join(tmp, "ext", "df.csv")
        m.new_pandas("df", csv, pd.DataFrame({"a": [1, 2]}), file_type="csv")
        good = os.path.join(tmp, "good_" + variant)
        m.write(good)
        m.close()
        assert not iom.ios, "a closed model left file objects"
        bad = os.path.join(tmp, "bad_" + variant)
        shutil.copytree(good, bad)
        with open(os.path.join(bad, "_data", "data.pickle"), "wb") as f:
            f.write(b"garbage")                                    # a member read after the iospecs is damaged
        try:
            mx.read_model(bad)
            problems.append("%s: the damaged save loaded" % variant)
        except Exception as e:
            print("%s: load failed as it should: %s" % (variant, type(e).__name__))
        if mx.get_models():
            problems.append("%s: a model is registered after the failed load" % variant)
        left = [("None" if g is None else "closed model %r" % g.name, os.path.basename(str(p))) for g, p in iom.ios]
        if left:
            problems.append("%s: IOManager.ios after the failed load: %s" % (variant, left))
        try:
            m2 = mx.read_model(good)
            m2.close()
        except Exception as e:
            problems.append("%s: a later load of the intact save fails: %s: %s" % (variant, type(e).__name__, e))
        iom.ios.clear()
        iom.ios.inverse.clear()
finally:
    shutil.rmtree(tmp, ignore_errors=True)
if problems:
    print("RESIDUE AFTER A FAILED LOAD:")
    for p in problems:
        print("  " + p)
    sys.exit(1)
print("no residue")
