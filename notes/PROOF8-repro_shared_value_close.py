"""One object referenced from two models, its file under an ABSOLUTE path: `get_spec_from_value` of the second
model finds the first model's spec in the session-wide group None, so closing the second model (which merely
references the object) deletes the first model's IOSpec.  Predicted by lean/MxModel/Kernels/IOSession.lean
(`sharedValue`, Props/C18.lean); a variant of the recorded design finding C18-absolute-io-shared.
exit 1 = the behaviour is there, exit 0 = not."""
import os, sys, tempfile
sys.path.insert(0, os.environ.get("MODELX_REPO", "/repo"))
import modelx as mx
import pandas as pd

tmp = tempfile.mkdtemp()
a = mx.new_model("A"); sa = a.new_space("S")
df = pd.DataFrame({"x": [1, 2]})
sa.new_pandas("df", os.path.join(tmp, "ext", "df.csv"), df, file_type="csv")
b = mx.new_model("B"); sb = b.new_space("S")
sb.df = sa.df                      # the same object, no spec asked for
print("A.iospecs before:", a.iospecs, " B.iospecs:", b.iospecs)
b.close()
print("A.iospecs after closing B:", a.iospecs)
sys.exit(1 if not a.iospecs else 0)
