"""PROOF6 finding: a value read from a MODEL-LEVEL reference through a space (`S.x`, `x` not a member of `S`)
survives the deletion of that space.

`BaseSpaceImpl.on_delete` calls `clear_attr_referrers` for the space's OWN references ("Clear the values
calculated by reading the references through attribute access to this space"), not for the model-level
references that are visible through the space.  Same class as /repo 5b95fbf and cdc3def (a slot `(S, x)` that
shows the model-level `x` changes what it denotes; its recorded readers are not cleared).

In the combined machine (lean/MxModel/Edit/Machine.lean) this is the slot clause of `CoversS` for a deleted
space: `Edit.Orphaned`; the theorems carry the hypothesis `Edit.NoOrphanReaders`.

exit 1 = the stale value is held (defect present), exit 0 = cleared.
"""
import os
import sys
sys.path.insert(0, os.environ.get("MODELX_REPO", "/repo"))
import modelx as mx

m = mx.new_model("M")
m.x = 1
S = m.new_space("S")
T = m.new_space("T")
T.S = S
T.new_cells("c", formula=lambda: S.x)
T.new_cells("own", formula=lambda: S.y)
S.y = 7
assert T.c() == 1 and T.own() == 7
del m.S
held_c, held_own = dict(T.c), dict(T.own)
print("after del m.S: T.c holds", held_c, "; T.own (read S.y, an own reference of S) holds", held_own)
try:
    T.c.clear()
    print("recomputed T.c():", T.c())
except Exception as e:                                     # noqa: BLE001
    print("recomputation of T.c fails:", type(e).__name__)
sys.exit(1 if held_c else 0)
