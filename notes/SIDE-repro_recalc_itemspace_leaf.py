"""Item 8: with set_recalc(True), assigning to a cell whose leaf dependent is an ItemSpace node raises KeyError.
C06.  exit 1 = defect present, exit 0 = absent."""
import os, sys
sys.path.insert(0, os.environ.get("MODELX_REPO", "/repo"))
import modelx as mx


def build():
    m = mx.new_model("M")
    A = m.new_space("A")
    A.new_cells("x", formula="def x(i):\n    return 10 * i")
    P = m.new_space("P", formula="def _f(k):\n    return {'refs': {'r': A.x(0) + k}}")
    P.A = A
    P.new_cells("foo", formula="def foo(t):\n    return r + t")
    return m, A, P


bad = []
# lazy (reference) run
mx.set_recalc(False)
m, A, P = build()
assert P[1].foo(2) == 3
A.x[0] = 5
lazy = (sorted(P._impl.param_spaces), P[1].foo(2), dict(A.x))
m.close()

mx.set_recalc(True)
try:
    m, A, P = build()
    assert P[1].foo(2) == 3
    try:
        A.x[0] = 5
        err = None
    except Exception as e:           # noqa
        err = e
    print("recalc on: A.x[0] = 5 ->", "ok" if err is None else "%s: %s" % (type(err).__name__, err))
    if err is not None:
        bad.append("assignment raised %r" % (err,))
        print("   state after the failed assignment: A.x =", dict(A.x), " ItemSpaces:", sorted(P._impl.param_spaces))
    else:
        held = sorted(P._impl.param_spaces)
        print("   ItemSpaces held at once after the assignment:", held, "(lazy recomputation then gives", lazy[0], ")")
        if held != [(1,)]:
            bad.append("dependent ItemSpace P[1] not recomputed at once: %r" % (held,))
    got = (sorted(P._impl.param_spaces), P[1].foo(2), dict(A.x))
    print("   P[1].foo(2) ->", got[1], "lazy run gives", lazy[1])
    if got[1:] != lazy[1:]:
        bad.append("values differ from the lazy run: %r vs %r" % (got, lazy))
    m.close()
finally:
    mx.set_recalc(False)

if bad:
    print("DEFECT PRESENT:", bad)
    sys.exit(1)
print("absent")
