"""C08-cycle-after-caught-deep: a formula that catches DeepReferenceError in a non-terminating recursion leaves a CYCLIC
dependency graph (and an element that was stored while it was executing).  Variant of C01-caught-deep (same cause: a
handled depth error).  Lean witness: MxModel.C08.ranked_or_limit_needed.  Exit 1 when the graph is cyclic."""
import sys, os
sys.path.insert(0, os.environ.get("MODELX_REPO", "/repo"))
import modelx as mx
import networkx as nx

m = mx.new_model()
s = m.new_space('S')
mx.set_recursion(3)

@mx.defcells(space=s)
def c0():
    try:
        return c1()
    except Exception:
        return 0

@mx.defcells(space=s)
def c1():
    return c0()

print("c0() =", c0())
g = m._impl.tracegraph
edges = sorted((a[0].name, b[0].name) for a, b in g.edges)
print("edges", edges)
acyclic = nx.is_directed_acyclic_graph(g)
print("acyclic", acyclic)
sys.exit(0 if acyclic else 1)
