"""C08 on the UNCHANGED /repo: precedents() of an element of a cells whose formula never ran raises AttributeError.

BoundFunction.global_names reads `_is_names_updated`, which only `_refresh` sets; get_referents() (behind
get_valuerefs() / precedents()) does not go through `fresh`.  An element holding an ASSIGNED value of a cells that
was never evaluated (also: the input values of a fresh copy) therefore cannot be asked for its precedents:
    f[1] = 10;  f.precedents(1)  ->  AttributeError: 'CellsBoundFunction' object has no attribute '_is_names_updated'
preds() / succs() answer ([]).  exit 1 = defect present, 0 = repaired (notes/SEEDG-candidate_precedents_never_evaluated.diff)."""
import sys
import warnings
import modelx as mx

warnings.filterwarnings("ignore")
m = mx.new_model("M")
s = m.new_space("S")
s.y = 3
s.new_cells("f", formula="lambda x: x + y")
s.f[1] = 10
print("preds", s.f.preds(1), "succs", s.f.succs(1))
try:
    print("precedents", s.f.precedents(1))
except AttributeError as e:
    print("DEFECT: precedents(1) of an assigned element of a never-evaluated cells raised AttributeError: %s" % e)
    sys.exit(1)
print("ok")
