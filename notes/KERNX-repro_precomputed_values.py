"""C16-precomputed-values: generate_actions on a model that already holds CALCULATED values the targets depend on.
generate_actions finds the elements to plan from the ENTER entries of the stack trace; an element that has a
value is not entered, so it - and everything below it - is missing from the plan, and the `finally` clause clears
only what was entered.
 (a) the target itself was evaluated before: the plan is [] and every value stays;
 (b) only a precedent was evaluated before: the plan lacks it and what it was calculated from, and after
     execute_actions those values are still there.
Property C16: "every element the targets depend on appears in exactly one calc step", "generating the actions
leaves no calculated values behind", "[executing] leaves no other calculated value behind".
exit 1 = defect present.  MODELX_REPO overrides /repo."""
import os, sys, warnings
sys.path.insert(0, os.environ.get("MODELX_REPO", "/repo"))
warnings.simplefilter("ignore")
import modelx as mx


def build():
    for m in list(mx.get_models().values()):
        m.close()
    m = mx.new_model("M")
    s = m.new_space("S")
    s.new_cells("a", formula="lambda: 1")
    s.new_cells("b", formula="lambda x: a() + x")
    s.new_cells("c", formula="lambda x: b(x) + b(x-1) if x > 0 else b(0)")
    return m, s


def held(s):
    return sorted("%s%s" % (n, tuple(k) if isinstance(k, tuple) else (k,)) for n, c in s.cells.items()
                  for k in dict(c) if not c.is_input(*(k if isinstance(k, tuple) else (k,))))


bad = []
m, s = build()
acts = m.generate_actions([s.c.node(2)], step_size=2)
want = sorted(str(n) for a, ns in acts if a == "calc" for n in ns)
print("fresh model : %d elements planned, left after generate: %s" % (len(want), held(s)))

m, s = build()
s.c(2)
acts = m.generate_actions([s.c.node(2)], step_size=2)
got = sorted(str(n) for a, ns in acts if a == "calc" for n in ns)
left = held(s)
m.execute_actions(acts)
print("(a) c(2) held: %d elements planned, left after generate: %s, calculated values after execute: %s"
      % (len(got), left, held(s)))
if got != want or left or held(s):
    bad.append("a")

m, s = build()
s.b(1)
acts = m.generate_actions([s.c.node(2)], step_size=2)
got = sorted(str(n) for a, ns in acts if a == "calc" for n in ns)
left = held(s)
m.execute_actions(acts)
print("(b) b(1) held: %d elements planned, left after generate: %s, calculated values after execute: %s"
      % (len(got), left, held(s)))
if got != want or left or held(s):
    bad.append("b")
if not s.c.is_input(2) or s.c(2) != 5:
    bad.append("target")
m.close()
if bad:
    print("DEFECT:", bad)
    sys.exit(1)
print("ok")
