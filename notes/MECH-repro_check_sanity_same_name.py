"""C12 finding (unchanged /repo @ 8550727): the library's own consistency self-check fails on a sound model.

SpaceManager._check_sanity walks the tree of spaces with a work list that is a *dict keyed by the short name*
(`spaces.update(v.named_spaces)`): when two spaces of the same short name at different places of the tree are
pending at the same time, one replaces the other, is never visited, and `assert not nodes` fails.
Here: B.X and B.r.X (B.r is popped before B.X because it was created later).
The model itself is in order (two different spaces B.X and B.r.X); the property says the self-checks pass after
every operation.  Found by the name-clash history generator (struct_props.gen_clash) of builder MECH.
Run: /venv/bin/python notes/MECH-repro_check_sanity_same_name.py   (exit 1 = defect present)
"""
import sys, os
sys.path.insert(0, os.environ.get("MODELX_REPO", "/repo"))
import modelx as mx

m = mx.new_model("M")
B = m.new_space("B")
B.new_space("X")
r = B.new_space("r")
r.new_space("X")
try:
    mx.core.mxsys._check_sanity()
    print("self-check passes")
except AssertionError:
    import traceback
    traceback.print_exc()
    print("DEFECT: _check_sanity fails although B.X and B.r.X are two sound spaces")
    sys.exit(1)
