import MxModel.Props.C02
open MxModel MxModel.Exec MxModel.C02
def zOps : List Op := [.eval (3, []), .setValue (3, []) (.int 5), .setRef 0 (.int 9), .eval (3, [])]
#eval (run (xEnv, {}) zOps).2.data
#eval (run (xEnv, {}) zOps).2.inputs
#eval (run (xEnv, {}) (zOps.take 2)).2.rg
