import MxModel.Props.C08
open MxModel MxModel.Exec

def fibBody : Expr :=
  .ite (.lt (.param 0) (.lit 2)) (.param 0)
    (.add (.call 0 [.sub (.param 0) (.lit 1)]) (.call 0 [.sub (.param 0) (.lit 2)]))

def fibEnv : Env where
  formula := fun n => if n.1 = 0 then formulaOf (fun c => if c = 0 then some 1 else none) fibBody n.2
                      else .raise (.user kName)
  cached := fun _ => true
  allowNone := fun _ => false
  refs := fun _ => none
  maxdepth := 100

def flt (a b : Node) : Prop :=
  ∃ x y, a.2.head? = some (.int x) ∧ b.2.head? = some (.int y) ∧ x < y

theorem flt_strict : StrictOrder flt := by
  constructor
  · rintro a ⟨x, y, h1, h2, h3⟩; rw [h1] at h2; cases h2; omega
  · rintro a b c ⟨x, y, h1, h2, h3⟩ ⟨x', y', h1', h2', h3'⟩
    rw [h2] at h1'; cases h1'
    exact ⟨x, y', h1, h2', by omega⟩

theorem fib_ranked : Ranked fibEnv flt := by
  intro n
  obtain ⟨c, key⟩ := n
  by_cases hc : c = 0
  · subst hc
    cases key with
    | nil => simp [fibEnv, formulaOf, fibBody, compile, CallsBelow]
    | cons v rest =>
      cases v with
      | none => simp [fibEnv, formulaOf, fibBody, compile, arith, CallsBelow]
      | int x =>
        by_cases hx : x < 2
        · simp [fibEnv, formulaOf, fibBody, compile, arith, hx, truthy, CallsBelow]
        · simp only [fibEnv, formulaOf, fibBody, compile, compileArgs, arith, hx, truthy, CallsBelow,
            List.getElem?_cons_zero, if_true, if_false, List.length_cons, List.length_nil]
          simp only [bne_self_eq_false, Bool.false_eq_true, if_false, compile, compileArgs, arith, CallsBelow,
            List.getElem?_cons_zero, if_true, List.length_cons, List.length_nil, Nat.zero_add]
          refine ⟨⟨x - 1, x, rfl, rfl, by omega⟩, ?_⟩
          intro r
          cases r with
          | err e => simp [CallsBelow]
          | ok w =>
            simp only [CallsBelow]
            refine ⟨⟨x - 2, x, rfl, rfl, by omega⟩, ?_⟩
            intro r2
            cases r2 with
            | err e => simp [CallsBelow]
            | ok w2 => cases w <;> cases w2 <;> simp [arith, CallsBelow]
  · simp [fibEnv, hc, CallsBelow]

#eval (evalTop fibEnv (0, [.int 10]) {}).1
example (a : GNode) : ¬ C08.Path (C08.run fibEnv {} [.eval (0, [.int 10]), .set (0, [.int 3]) (.int 5), .eval (0,[.int 10])]).ge a a :=
  C08.graph_acyclic fibEnv flt flt_strict fib_ranked _ a
