import MxModel.Props.C02
open MxModel MxModel.Exec MxModel.C02

theorem wf_withCached {env : Env} {lt} (h : WF env lt) (c : CellId) (b : Bool) : WF (env.withCached c b) lt :=
  ⟨h.ranked, h.noCatch, h.scoping⟩

theorem wf_withFormula {env : Env} {lt} (h : WF env lt) (c : CellId) (f : Key → Prog)
    (h1 : ∀ k, CallsBelow lt (c, k) (f k)) (h2 : ∀ k, NoCatch (f k))
    (h3 : ∀ k, NameReadsIn (fun r => c ∈ env.observers r) (f k)) : WF (env.withFormula c f) lt := by
  refine ⟨?_, ?_, ?_⟩
  · intro n; obtain ⟨c', k⟩ := n
    by_cases hc : c' = c
    · subst hc; simp only [Env.withFormula, if_true]; exact h1 k
    · simp only [Env.withFormula, hc, if_false]; exact h.ranked (c', k)
  · intro n; obtain ⟨c', k⟩ := n
    by_cases hc : c' = c
    · subst hc; simp only [Env.withFormula, if_true]; exact h2 k
    · simp only [Env.withFormula, hc, if_false]; exact h.noCatch (c', k)
  · intro n; obtain ⟨c', k⟩ := n
    by_cases hc : c' = c
    · subst hc; simp only [Env.withFormula, if_true]; exact h3 k
    · simp only [Env.withFormula, hc, if_false]; exact h.scoping (c', k)

-- history with a flag flip and a formula edit in the middle
def f3 : Key → Prog := fun _ => .call (0, [.int 1]) (fun r => match r with | .ok v => .ret v | .err e => .reraise e)
def yOps : List Op := [.eval (3, []), .setCached 1 true, .eval (3, []), .setFormula 3 f3, .eval (3, []), .setRef 0 (.int 7), .eval (3, [])]

#eval (yOps.foldl (fun (acc : (Env × St) × List String) op =>
   let st := step acc.1 op
   (st, acc.2 ++ [match op with | .eval n => reprStr (evalTop acc.1.1 n acc.1.2).1 | _ => "edit"])) ((xEnv, {}), [])).2
#eval (run (xEnv, {}) yOps).2.data
