import MxModel.Props.C08
open MxModel MxModel.Exec
def cyCells : CellId → Option Expr
  | 0 => some (.try_ (.call 1 []) .all (.lit 0))
  | 1 => some (.call 0 [])
  | _ => none
def cyEnv : Env where
  formula := fun n => match cyCells n.1 with
    | some e => formulaOf (fun c => (cyCells c).map (fun _ => 0)) e n.2
    | none => .raise (.user kName)
  cached := fun _ => true
  allowNone := fun _ => false
  refs := fun _ => none
  maxdepth := 3
#eval (evalTop cyEnv (0, []) {}).1
#eval (evalTop cyEnv (0, []) {}).2.ge
#eval (evalTop cyEnv (0, []) {}).2.data
#eval (evalTop cyEnv (0, []) {}).2.log
