import MxModel.Props.C17
open MxModel MxModel.Exec
-- c0: try: c1() except ValueError as e: (try: c2() except KeyError: pass); raise e
def rrEnv : Env where
  formula := fun n => match n.1 with
    | 0 => .call (1, []) (fun r1 => match r1 with
        | .ok v => .ret v
        | .err e1 => .call (2, []) (fun _ => .reraise e1))
    | 1 => .call (3, []) (fun r => match r with | .ok v => .ret v | .err e => .reraise e)
    | 2 => .raise (.user kKey)
    | _ => .raise (.user kValue)
  cached := fun _ => true
  allowNone := fun _ => false
  refs := fun _ => none
  maxdepth := 10
#eval (evalTop rrEnv (0, []) {}).1
