import MxModel.Props.C17
open MxModel
#print axioms C17.traceback_is_chain
#print axioms C17.traceback_outermost_first
#print axioms C17.quiescent_between_calls
#print axioms C17.grammar_env_is_proper
