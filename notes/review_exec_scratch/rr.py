import modelx as mx
m = mx.new_model(); s = m.new_space('S')
@mx.defcells(space=s)
def c0():
    try: return c1()
    except ValueError as e:
        try: c2()
        except KeyError: pass
        raise e
@mx.defcells(space=s)
def c1(): return c3()
@mx.defcells(space=s)
def c2(): raise KeyError('k')
@mx.defcells(space=s)
def c3(): raise ValueError('v')
try: c0()
except Exception as ex: print(type(ex).__name__)
print([ (n.obj.name, l) for n,l in mx.get_traceback()], type(mx.get_error()).__name__)
