import modelx as mx
m = mx.new_model(); s = m.new_space('S')
mx.set_recursion(3) if hasattr(mx,'set_recursion') else None
@mx.defcells(space=s)
def c0():
    try: return c1()
    except Exception: return 0
@mx.defcells(space=s)
def c1(): return c0()
print(c0())
g = m._impl.tracegraph
print([(a[0].name, b[0].name) for a,b in g.edges])
import networkx as nx
print('acyclic', nx.is_directed_acyclic_graph(g))
print(c0.preds(), c1.preds())
