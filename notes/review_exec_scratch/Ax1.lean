import MxModel.Props.C01
import MxModel.Props.C02
import MxModel.Props.C05
import MxModel.Props.C06
import MxModel.Props.C08
import MxModel.Props.C09
open MxModel
#print axioms C01.eval_value_is_denotation_partial
#print axioms C01.eval_returns_denotation
#print axioms C01.order_independent
#print axioms C01.held_never_reexecuted_top
#print axioms C01.held_never_reexecuted
#print axioms C01.full_statement_fails
#print axioms C02.den_local
#print axioms C02.no_stale_after_edit
#print axioms C02.eval_keeps_certificates
#print axioms C02.certificates_sound
#print axioms C02.no_stale_after_ref_edit
#print axioms C02.no_stale_after_ref_delete
#print axioms C02.no_stale_after_formula_edit
#print axioms C02.no_stale_after_value_edit
#print axioms C02.no_stale_after_clear
#print axioms C02.reachable_ci
#print axioms C02.no_stale_value_reachable
#print axioms C02.later_answers_equal_fresh_model_partial
#print axioms C02.tableEnv_wf
#print axioms C02.full_statement_fails_catch
#print axioms C05.failure_quiescent
#print axioms C05.failure_consistent_partial
#print axioms C05.retry_unaffected_partial
#print axioms C05.failing_elements_hold_no_value
#print axioms C05.held_values_kept_partial
#print axioms C05.below_limit_no_deep
#print axioms C06.set_value_exact
#print axioms C06.clear_at_exact
#print axioms C06.input_survives_set
#print axioms C06.input_survives_clear
#print axioms C06.eval_keeps_held
#print axioms C06.assigned_value_returned
#print axioms C06.survivor_served_without_running
#print axioms C08.reachable_inv
#print axioms C08.graph_nodes_eq_held
#print axioms C08.edges_between_nodes
#print axioms C08.graph_acyclic
#print axioms C08.inputs_have_no_preds
#print axioms C08.uncached_holds_nothing
#print axioms C09.flags_irrelevant_to_values
#print axioms C09.mechanism_results_flag_independent
#print axioms C09.uncached_always_executes
#print axioms C09.flags_full_statement_fails
