import modelx as mx
m = mx.new_model(); s = m.new_space('S')
s.allow_none = True
@mx.defcells(space=s)
def a(): return None
@mx.defcells(space=s)
def b(): return 1 if a() is None else 2
print('b', b(), 'a', a())
a.allow_none = False
try: print('a after allow_none=False (live):', a())
except Exception as e: print('live raises', type(e).__name__)
print('held a:', dict(a), 'held b:', dict(b))
m2 = mx.new_model(); s2 = m2.new_space('S'); s2.allow_none=True
@mx.defcells(space=s2)
def a(): return None
a.allow_none=False
try: print('fresh:', a())
except Exception as e: print('fresh raises', type(e).__name__)
