import MxModel.Props.C05
open MxModel MxModel.Exec

-- uncaught depth-limit failure: chain of 3 under a limit admitting 2 frames
def dEnv : Env := { C05.fEnv with maxdepth := 1 }
#eval (evalTop dEnv (0, []) {}).1
#eval (evalTop dEnv (0, []) {}).2.hit
-- later healthy call in the resulting state: result and hit flag
#eval (evalTop dEnv (3, []) (evalTop dEnv (0, []) {}).2).1
#eval (evalTop dEnv (3, []) (evalTop dEnv (0, []) {}).2).2.hit
-- the failing-evaluation theorem's hypothesis `hend` is false for EVERY genuine limit failure:
example : (evalTop dEnv (0, []) {}).1 = .formulaError .deep [(0, []), (1, [])] ∧
   (evalTop dEnv (0, []) {}).2.hit = true := by decide
-- and Den can never produce a genuine .deep:  denoteN 0 has flag true
example (env : Env) (inp) (n : Node) : (denoteN env inp 0 n).2 = true := rfl
