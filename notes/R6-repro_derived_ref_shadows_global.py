"""Side finding (on the UNCHANGED code): a model-level reference read through
an attribute path ``S.x`` is not invalidated when ``S.add_bases(B)`` makes S
derive a reference ``x`` that shadows the model-level one.

History (edits E*, evaluations Q*):

  E1  m.x = 1                         model-level reference
  E2  spaces S (empty) and B with its own reference  B.x = 5
  E3  space T with a reference ``S`` to the space S and a cells
      ``c() = S.x``                   (reads x through an attribute path)
  Q1  T.c()                           -> 1  (S.x resolves to the model-level x)
  E4  S.add_bases(B)                  S now derives x = 5, shadowing m.x
  Q2  T.c()                           must be 5

The live model performs E1..E4 with Q1 in between, the fresh model performs
only E1..E4.  C02 says Q2 answers the same on both.
"""
import sys
import warnings

import modelx as mx

warnings.filterwarnings("ignore")


def build(name, with_queries):
    m = mx.new_model(name)
    m.x = 1                                         # E1
    S = m.new_space("S")                            # E2
    B = m.new_space("B")
    B.x = 5
    T = m.new_space("T")                            # E3
    T.S = S
    T.new_cells("c", formula=lambda: S.x)

    log = []
    if with_queries:
        log.append(T.c())                           # Q1

    S.add_bases(B)                                  # E4
    return m, log


def main():
    print("modelx from", mx.__file__)
    live, log = build("Live", with_queries=True)
    fresh, _ = build("Fresh", with_queries=False)

    live_value = live.T.c()                         # Q2
    fresh_value = fresh.T.c()
    print("earlier answers on the live model:", log)
    print("S.x after add_bases: live %r, fresh %r" % (live.S.x, fresh.S.x))
    print("T.c() live  :", live_value)
    print("T.c() fresh :", fresh_value)

    live.close()
    fresh.close()

    if live_value == fresh_value:
        print("SAME")
        return 0
    else:
        print("DIFFERENT: T.c() kept the value read from the model-level "
              "reference although S.x is the derived reference now")
        return 1


if __name__ == "__main__":
    sys.exit(main())
