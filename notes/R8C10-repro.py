"""R8C10: the shrunk history of the thorough-tier disagreement of C10 (layer relhist:derived, seed 0), on the real code.
    /venv/bin/python notes/R8C10-repro.py        (modelx from MODELX_REPO or /repo)
A DEFINED cells Base.foo that references hold is deleted; Base derives the name from Sub, so a NEW Base.foo appears
under the same path.  Every reference that held the deleted cells - the definer's (Base.rb absolute, Base.rc auto) and
the ones Sub.Gr derives from them - holds the dead object afterwards (invalid interface, DeletedObjectError when used:
the behaviour b4ff488 chose); none is bound to the new occupant of the path.  Exit 0 = that is what happens."""
import os, sys
sys.path.insert(0, os.environ.get("MODELX_REPO", "/repo"))
import modelx as mx

m = mx.new_model("M")
Sub = m.new_space("Sub")
Sub.new_cells("foo", formula=lambda x: 5)
Base = m.new_space("Base", bases=Sub)
Base.foo.formula = lambda x: 2              # Base.foo becomes DEFINED (overrides the one derived from Sub)
Base.set_ref("rb", Base.foo, "absolute")
Base.set_ref("rc", Base.foo, "auto")
Gr = Sub.new_space("Gr", bases=Base)
old = Base.foo
assert Gr.rb is old and Gr.rc is Gr.foo and Gr.foo is not old
Base.new_cells("call_rb", formula="lambda: rb(1)")     # derived into Gr too
Base.new_cells("call_rc", formula="lambda: rc(1)")
print("before: Base.call_rb()=%r Base.call_rc()=%r Gr.call_rb()=%r Gr.call_rc()=%r" % (
    Base.call_rb(), Base.call_rc(), Gr.call_rb(), Gr.call_rc()))

del Base.foo
new = Base.foo
print("after del Base.foo: a NEW Base.foo (derived=%s, value %r) under the old path; the old handle valid=%s" % (
    new._impl.is_derived(), new(1), old._is_valid()))
ok = new is not old and not old._is_valid()
for sp in (Base, Gr):
    for n in ("rb", "rc"):
        r = sp._impl.own_refs[n]
        v = r.interface
        print("  %-10s mode=%-8s derived=%-5s valid=%-5s is-the-deleted-object=%-5s is-the-new-Base.foo=%s" % (
            sp.fullname[2:] + "." + n, r.refmode, r.is_derived(), v._is_valid(), v is old, v is new))
        ok = ok and (v is old) and not v._is_valid()
        c = getattr(sp, "call_" + n)
        try:
            print("      %s() = %r" % (c.fullname, c()))
            ok = False
        except Exception as e:
            inner = getattr(e, "__cause__", None) or e
            print("      %s() raises %s / %s" % (c.fullname, type(e).__name__, type(inner).__name__))
print("Gr.foo still the same live object, now derived from Sub.foo through Base:", Gr.foo._is_valid(), Gr.foo(1))
sys.exit(0 if ok else 1)
