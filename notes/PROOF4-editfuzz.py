"""Stand-alone differential fuzz of the combined machine (driver layer `edit`) against modelx:
  /venv/bin/python notes/PROOF4-editfuzz.py [seed] [number of random histories]
runs the 252 scenarios and N random histories of harness/mxh/editworld.py (held elements, evaluation results and
accept / refuse compared after every operation).  Honours MODELX_REPO.  Needs lean/.lake/build/bin/mxdriver."""
import sys, time, collections
import os
sys.path.insert(0, os.path.join(os.path.dirname(os.path.abspath(__file__)), "..", "harness"))
from mxh import core, editworld
class Ctx:
    tier = "quick"
    def __init__(self, seed): self.seed = seed
    def n(self, a, b): return int(sys.argv[2]) if len(sys.argv) > 2 else a
    def rng(self, *k):
        import random
        return random.Random(repr((self.seed,) + k))
out = core.Outcome()
t = time.time()
st = editworld.run_family(Ctx(int(sys.argv[1]) if len(sys.argv) > 1 else 0), out)
print("time", round(time.time() - t, 1))
for k in sorted(st): print(k, st[k])
for d in out.disagreements[:3]:
    print("DISAGREE", d["layer"], d["index"]); print(" impl ", d["impl"]); print(" model", d["model"])
    import json; print(json.dumps(d["history"])[:3000])
