"""Observation (not a defect of the property as stated): with mx.set_recalc(True) the former leaf dependents are
recomputed in the iteration order of a Python set of (CellsImpl, key) nodes (TraceGraph.get_startnodes_from ->
nx.descendants).  When one recomputation FAILS, the error comes out of the assignment and the targets that come
later in that order are not recomputed - which ones is not determined by the program.  The Lean model
(St.setValueRecalc) takes the order of its own graph search; the C06 correspondence stops comparing a history at a
failing recalculating assignment with more than one target.

Scenario = C06.kV / kU of lean/MxModel/Props/C06.lean: c0 = 1, c6 = c0() + 100, c5 = 1 if c0() < 5 else raise.
Prints how often c6() holds a value after `c0 = 9` raised.  Exit code 0 always; run with
  /venv/bin/python notes/PROOF2-repro_recalc_order.py
"""
import sys, os
sys.path.insert(0, os.environ.get("MODELX_REPO", "/repo"))
import modelx as mx

held = not_held = 0
for i in range(40):
    m = mx.new_model()
    s = m.new_space("S")
    # vary the allocation pattern so that object addresses (the default hash of CellsImpl) differ
    junk = [object() for _ in range(i * 7)]
    s.new_cells("c0", formula="lambda: 1")
    names = ["c6", "c5"] if i % 2 else ["c5", "c6"]
    for nm in names:
        if nm == "c6":
            s.new_cells("c6", formula="lambda: c0() + 100")
        else:
            s.new_cells("c5", formula="def c5():\n    if c0() < 5:\n        return 1\n    raise ValueError('x')")
    s.c6(); s.c5()
    mx.set_recalc(True)
    try:
        s.c0 = 9
        raised = False
    except Exception:
        raised = True
    finally:
        mx.set_recalc(False)
    assert raised, "the failing recomputation must raise out of the assignment"
    assert dict(s.c0) == {(): 9} and s.c0.is_input(), "the assignment is made all the same"
    assert dict(s.c5) == {}
    if dict(s.c6) == {(): 109}:
        held += 1
    else:
        assert dict(s.c6) == {}
        not_held += 1
    m.close()
print("c6() recomputed before the failure: %d times; not evaluated: %d times" % (held, not_held))
