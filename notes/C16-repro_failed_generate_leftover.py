"""Known finding C16-failed-generate-leftover (unchanged tree).
generate_actions on a target whose evaluation raises leaves the partial results of that
target behind: its `finally` only clears nodes recorded for targets evaluated completely."""
import sys, warnings
sys.path.insert(0, "/repo")
warnings.simplefilter("ignore")
import modelx as mx

m = mx.new_model()
s = m.new_space("S")
s.new_cells("a", formula="def a():\n    return 1")
s.new_cells("t", formula="def t():\n    return a() // 0")
try:
    m.generate_actions([s.t.node()], step_size=2)
except Exception as e:
    print("raised", type(e).__name__)
print("left behind:", dict(s.a))          # {(): 1}  -- expected {}
assert dict(s.a) == {}, "generate_actions left a calculated value behind"
