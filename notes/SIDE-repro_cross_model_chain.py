"""Item 1: cross-model call chains (a reference in model M1 to a cells of model M2).  Not documented / not tested
by modelx.  exit 1 = behaviour present."""
import os, sys
sys.path.insert(0, os.environ.get("MODELX_REPO", "/repo"))
import modelx as mx

bad = []
# (a) caller in M1 fails after its callee in M2 completed
m2 = mx.new_model("M2"); C = m2.new_space("S").new_cells("C", formula="def C(x):\n    return x")
m1 = mx.new_model("M1"); S1 = m1.new_space("S"); S1.C = C
A = S1.new_cells("A", formula="def A(x):\n    return C(x) / 0")
try:
    A(1)
except Exception as e:                           # noqa
    pass
g2 = [(n[0].get_repr(fullname=True), n[1]) for n in m2._impl.tracegraph.nodes]
print("(a) M1.S.A(1) failed; nodes in M2's trace graph:", g2, " A holds:", dict(A))
try:
    C.clear()
    print("    C.clear() ok")
except Exception as e:                           # noqa
    print("    C.clear() -> %s: %r" % (type(e).__name__, e))
    bad.append("a: C.clear() raised %s" % type(e).__name__)
m1.close(); m2.close()

# (b) B computes through a reference into A, drops the reference, recomputes; then A is edited
ma = mx.new_model("MA"); X = ma.new_space("S").new_cells("X", formula="def X(x):\n    return x")
mb = mx.new_model("MB"); SB = mb.new_space("S"); SB.X = X
Y = SB.new_cells("Y", formula="def Y(x):\n    return X(x) + 1")
Y(1)
del SB.X
SB.new_cells("X", formula="def X(x):\n    return 10 * x")
print("(b) MB.S.Y(1) after dropping the reference into MA:", Y(1), "; MA's trace graph:",
      [(n[0].get_repr(fullname=True), n[1]) for n in ma._impl.tracegraph.nodes])
try:
    X[1] = 5
    print("    MA: X[1] = 5 ok; MB.S.Y(1) =", Y(1))
    if Y(1) != 11:
        bad.append("b: an edit of MA changed a value of MB, which holds no reference into MA")
except Exception as e:                           # noqa
    print("    MA: X[1] = 5 -> %s: %r" % (type(e).__name__, e))
    bad.append("b: edit of MA raised %s" % type(e).__name__)
ma.close(); mb.close()
if bad:
    print("BEHAVIOUR PRESENT:", bad)
    sys.exit(1)
print("absent")
