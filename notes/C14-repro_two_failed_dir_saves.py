"""C14-failed-dir-save-then-save: two directory saves in a row fail while writing ->
the last complete copy is at _BAK2; path and _BAK1 are partial trees."""
import os, pathlib, tempfile, warnings
import modelx as mx
warnings.simplefilter("ignore")
tmp = tempfile.mkdtemp()
m = mx.new_model("Saved"); s = m.new_space("S"); s.new_cells("f", formula="lambda x: x"); s.y = 1
path = os.path.join(tmp, "model")
mx.write_model(m, path)                                # complete
real_open = pathlib.Path.open
def failing_open(self, mode="r", *a, **kw):
    if "w" in mode and self.name == "__init__.py" and self.parent.name == "S":
        raise OSError("disk full")
    return real_open(self, mode, *a, **kw)
pathlib.Path.open = failing_open
for i in (1, 2):
    try:
        mx.write_model(m, path)
    except OSError as e:
        print("save", i, "failed:", e)
pathlib.Path.open = real_open
for p in sorted(os.listdir(tmp)):
    print(p, sorted(os.listdir(os.path.join(tmp, p))))
