#!/venv/bin/python
"""Replays the `decide` examples of the combined machine (Props/C02, C13, C09 last sections;
Proofs/EditMachineExamples.lean) on the real modelx.  Exit 0 = modelx does what the Lean examples say.
Honours MODELX_REPO."""
import os, sys
sys.path.insert(0, os.environ.get("MODELX_REPO", "/repo"))
import modelx as mx

bad = []


def held(m):
    rows = []
    for s in m.spaces.values():
        for c in s.cells.values():
            for k, v in c._impl.data.items():
                rows.append("%s.%s%r=%r" % (s.name, c.name, k, v))
    return sorted(rows)


def expect(what, got, want):
    print(("ok   " if got == want else "FAIL ") + what, got)
    if got != want:
        bad.append(what)


# --- eOps (C02): Base.f = y * 2, Base.y = 1, Sub(Base).y = 10
m = mx.new_model("E")
Base = m.new_space("Base")
Base.new_cells("f", formula="def f(): return y * 2")
Base.y = 1
Sub = m.new_space("Sub", bases=Base)
Sub.y = 10
expect("Sub.f()", Sub.f(), 20)
expect("Base.f()", Base.f(), 2)
expect("held", held(m), ["Base.f()=2", "Sub.f()=20"])
Base.f.formula = "def f(): return y * 3"
expect("held after redefining Base.f", held(m), [])
expect("Sub.f() again", Sub.f(), 30)
m.close()

# --- a reference edit in the base reaches the sub space that derives the reference
m = mx.new_model("E2")
Base = m.new_space("Base")
Base.new_cells("f", formula="def f(): return y * 2")
Base.y = 1
Sub2 = m.new_space("Sub2", bases=Base)
expect("Sub2.f()", Sub2.f(), 2)
Base.y = 5
expect("held after Base.y = 5", held(m), [])
expect("Sub2.f() again", Sub2.f(), 10)
m.close()

# --- dOps (C13)
m = mx.new_model("D")
Base = m.new_space("Base")
Base.new_cells("f", formula="def f(): return y * 2")
Base.y = 1
Sub = m.new_space("Sub", bases=Base)
expect("Sub.f()", Sub.f(), 2)
del Base.f
expect("Sub has no f", "f" in Sub.cells, False)
expect("held after del Base.f", held(m), [])
Base.new_cells("f", formula="def f(): return y * 3")
expect("Sub.f() after re-creation", Sub.f(), 3)
del m.Base
expect("Sub has no f after del Base", "f" in Sub.cells, False)
expect("held after del model.Base", held(m), [])
m.close()

# --- fOps (C09): the flag is part of the definition
m = mx.new_model("F")
Base = m.new_space("Base")
Base.new_cells("f", formula="def f(): return y * 2")
Base.y = 1
Sub = m.new_space("Sub", bases=Base)
expect("Sub.f()", Sub.f(), 2)
Base.f.formula = "def f(): return y * 3"
Base.f.is_cached = False
expect("derived Sub.f is uncached", Sub.f.is_cached, False)
expect("held after the flag edit", held(m), [])
expect("Sub.f() uncached", Sub.f(), 3)
expect("nothing held", held(m), [])
Base.f.is_cached = True
expect("Sub.f() cached again", Sub.f(), 3)
expect("held", held(m), ["Sub.f()=3"])
m.close()

sys.exit(1 if bad else 0)
