import modelx as mx, sys
bad=[]
m = mx.new_model("M")
A = m.new_space("A"); A.new_cells("foo", formula="lambda: 'A'")
B = m.new_space("B"); B.new_cells("foo", formula="lambda: 'B'")
S = m.new_space("S", bases=[A, B], formula="lambda i: None")
T = m.new_space("T", formula="lambda i: {'base': _model.S}")
h = S[1]; ht = T[1]
assert (S.foo(), S[1].foo(), T[1].foo()) == ('A','A','A')
S.remove_bases(A)
got = (S.foo(), S[1].foo(), T[1].foo())
if got != ('B','B','B'): bad.append(("remove_bases", got))
S.add_bases(A)   # A comes after B now
A.foo.formula = "lambda: 'A2'"
del B.foo
got = (S.foo(), S[1].foo(), T[1].foo())
if got != ('A2','A2','A2'): bad.append(("del first definer", got))
print("PROPERTY VIOLATED" if bad else "PROPERTY HOLDS", bad)
sys.exit(1 if bad else 0)
