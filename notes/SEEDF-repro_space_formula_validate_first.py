"""C11 on the unchanged /repo: a refused formula of a parametrised space discards the old formula and the ItemSpaces.
exit 1 = defect present, 0 = absent.  MODELX_REPO selects the tree (default /repo)."""
import os, sys, warnings
sys.path.insert(0, os.environ.get("MODELX_REPO", "/repo"))
warnings.simplefilter("ignore")
import modelx as mx

PAIR = (lambda i: None, lambda i: {"refs": {"k": i}})        # two lambda expressions on one line: modelx refuses either object

m = mx.new_model("M")
P = m.new_space("P", formula="lambda i: None")
P.new_cells("h", formula="lambda x: x + i")
assert P[1].h(2) == 3 and P[2].h(2) == 4
bad = []
for what, f in (("lambda object next to another on its line", PAIR[0]), ("builtin", len), ("int", 3), ("malformed source", "lambda i: (")):
    before = (P.formula.source if P.formula is not None else None, sorted(P._impl.param_spaces))
    try:
        P.formula = f
        print("accepted:", what)
        P.formula = "lambda i: None"; P[1].h(2); P[2].h(2)
        continue
    except Exception as e:
        err = type(e).__name__
    after = (P.formula.source if P.formula is not None else None, sorted(P._impl.param_spaces))
    if before != after:
        bad.append("P.formula = <%s> raised %s but changed the space: formula %r -> %r, ItemSpaces %r -> %r" % (
            what, err, before[0], after[0], before[1], after[1]))
        P.formula = "lambda i: None"; P[1].h(2); P[2].h(2)
print("\n".join(bad) if bad else "PROPERTY HOLDS: a refused space formula changes nothing")
sys.exit(1 if bad else 0)
