"""del_defined_space of a space that is a base: a sub space further down loses its C3 MRO.

Mechanism model `St.delSpace` (lean/MxModel/Struct/Mech.lean, before builder MECH) had NO guard and
returned a state in which space E has no linearisation.  The real code (after fix 75ec125) checks
the MRO of every sub space first and raises before anything is changed.
=> modelling error (the model did not follow 75ec125 for del_defined_space), not a defect of modelx.
Run: /venv/bin/python notes/MECH-repro_delspace_mro.py
"""
import sys, os
sys.path.insert(0, os.environ.get("MODELX_REPO", "/repo"))
import modelx as mx

m = mx.new_model("M")
X = m.new_space("X"); y = m.new_space("y"); c = m.new_space("c")
B1 = m.new_space("B1", bases=[X, y]); B2 = m.new_space("B2", bases=[c, X])
D = m.new_space("D", bases=[B1, B2]); F = m.new_space("F", bases=[c, y])
E = m.new_space("E", bases=[D, F])
X.new_cells("f", formula=lambda: 1)
def desc():
    return {s.name: ([b.name for b in s.bases], sorted(s.cells)) for s in m.spaces.values()}
before = desc()
print("before", before)
try:
    del m.X
    print("ACCEPTED", desc())
    res = "accepted"
except Exception as e:
    print("REFUSED", type(e).__name__, e)
    res = "refused"
after = desc()
print("unchanged:", before == after)
assert res == "refused" and before == after
