"""Differential fuzz of the mechanism model (driver layer `smech`) against the real modelx with a generator
that concentrates on what the refinement proof (builder MECH) found fragile: few names shared between cells,
references, child spaces and model-level references; nested spaces; deletion of spaces that are bases.
Reuses the correspondence of the C03 check (harness/mxh/mechworld.py): accept/refuse and the whole
structural state after every edit.

Run from the worktree root:  /venv/bin/python notes/MECH-difffuzz.py [n_histories] [length] [seed]
"""
import sys, os, random, json
ROOT = os.path.dirname(os.path.dirname(os.path.abspath(__file__)))
sys.path.insert(0, os.path.join(ROOT, "harness"))
from mxh import core, structworld as W          # noqa: E402
from mxh.mechworld import MechCorr             # noqa: E402

KNOWN_SKIP = os.environ.get("MECH_SKIP_KNOWN", "0") == "1"     # the finding is repaired (8550727)
NAMES = ["x", "y", "A", "B"]
SPACES = ["A", "B", "C", "D", "x"]


def paths(live):
    return [p for p, _ in W.all_spaces(live.m)]


def gen_op(rng, live):
    ps = paths(live)

    def path():
        if not ps or rng.random() < 0.07:
            return rng.choice(SPACES)
        return rng.choice(ps)

    def some_paths():
        return [path() for _ in range(rng.choice([0, 1, 1, 1, 2, 2, 3]))]
    k = rng.randrange(15)
    if k <= 1:
        parent = "-" if rng.random() < 0.6 or not ps else path()
        return ("new_space", parent, rng.choice(SPACES), some_paths() if rng.random() < 0.7 else [])
    if k == 2:
        # `del parent.name` deletes whatever bears the name: only names that are spaces (or nothing) are `delspace`
        p = path()
        if not live.has_space(p):
            par, _, nm = p.rpartition(".")
            try:
                holder = live.space(par) if par else live.m
                if nm in holder._impl.namespace:
                    return gen_op(rng, live)
            except Exception:
                pass
        return ("del_space", p)
    if k <= 4:
        return ("new_cells", path(), rng.choice(NAMES), (0, rng.randint(1, 5), "a", "r", "c"))
    if k == 5:
        return ("set_formula", path(), rng.choice(NAMES), (0, rng.randint(1, 5), "a", "r", "c"))
    if k == 6:
        return ("del_cells", path(), rng.choice(NAMES))
    if k == 7:
        return ("rename_cells", path(), rng.choice(NAMES), rng.choice(NAMES))
    if k <= 9:
        return ("add_bases", path(), some_paths())
    if k == 10:
        p = path()
        try:
            bs = [W.rel(live.m, b) for b in live.space(p)._direct_bases]
        except Exception:
            bs = []
        if bs and rng.random() < 0.8:
            return ("remove_bases", p, [rng.choice(bs)])
        return ("remove_bases", p, some_paths())
    if k <= 12:
        p, nm = path(), rng.choice(NAMES)
        if KNOWN_SKIP:
            # finding MECH-ref-vs-child-space: `p.nm = v` with a child space `nm` of p and a model-level reference `nm`
            try:
                if nm in live.space(p).spaces and nm in live.m.refs and nm not in live.space(p)._own_refs:
                    return gen_op(rng, live)
            except Exception:
                pass
        return ("set_ref", p, nm, rng.randint(1, 9))
    if k == 13:
        # `del space.name` deletes a cells / child space of that name first: only `delref` when it is neither
        p, nm = path(), rng.choice(NAMES)
        try:
            sp = live.space(p)
            if nm in sp.cells or nm in sp.spaces:
                return gen_op(rng, live)
        except Exception:
            pass
        return ("del_ref", p, nm)
    n = rng.choice(NAMES)
    if rng.random() < 0.7:
        return ("set_mref", n, rng.randint(1, 9))
    if n in live.m.spaces:          # `del model.name` would delete the space
        return gen_op(rng, live)
    return ("del_mref", n)


class Out:
    def __init__(self):
        self.dis = []

    def disagree(self, history, index, impl, model, layer=None):
        self.dis.append(dict(history=history, index=index, impl=impl, model=model, layer=layer))


def main():
    n = int(sys.argv[1]) if len(sys.argv) > 1 else 200
    length = int(sys.argv[2]) if len(sys.argv) > 2 else 25
    seed = int(sys.argv[3]) if len(sys.argv) > 3 else 0
    bad = 0
    compared = 0
    accepted = 0
    for h in range(n):
        rng = random.Random(seed * 1000003 + h)
        live = W.Live("M%d" % h)
        mech = MechCorr()
        ops = []
        try:
            for k in range(length):
                if k < 3:
                    op = ("new_space", "-", SPACES[(h + k) % 4], [])
                else:
                    op = gen_op(rng, live)
                ops.append(op)
                mech.before(live, k, op)
                r = live.apply(op)
                accepted += not r.startswith("err")
                mech.after(live, k, op, r)
            out = Out()
            mech.finish(out, lambda kk: ops[:kk + 1])
            compared += mech.compared
            if out.dis:
                bad += 1
                d = out.dis[0]
                print("DISAGREE seed=%d hist=%d layer=%s\n  impl =%s\n  model=%s\n  ops=%s" % (
                    seed, h, d["layer"], d["impl"], d["model"], json.dumps(d["history"])))
                if bad >= 5:
                    break
        finally:
            live.close()
    print("histories=%d accepted_ops=%d compared_lines=%d disagreements=%d" % (n, accepted, compared, bad))
    sys.exit(1 if bad else 0)


main()
