"""C02M repro: a value computed after a formula handled the AttributeError of a reference that
does not exist (read through an attribute path) is not invalidated when the reference is created.
get_attr raises before anything is pushed on the reference stack, so nothing records the dependency
on the ABSENCE of the name; creating the reference notifies only the namespace of the space that
owns it (the reader lives elsewhere).  Same class as C02-caught-failure-untracked (a handled
failure leaves no dependency), with a reference read instead of a callee."""
import sys, os
sys.path.insert(0, os.environ.get("MODELX_REPO", "/repo"))
import modelx as mx

m = mx.new_model("M")
S = m.new_space("S")
Ch = S.new_space("Ch")
S.new_cells("c0", formula="""def c0():
    try:
        return Ch.r2
    except AttributeError:
        return -1
""")
print("before:", S.c0())          # -1
Ch.r2 = 5
live = S.c0()
m2 = mx.new_model("F")
S2 = m2.new_space("S"); Ch2 = S2.new_space("Ch")
S2.new_cells("c0", formula=S.c0.formula.source)
Ch2.r2 = 5
fresh = S2.c0()
print("live:", live, "fresh:", fresh)
print("STALE" if live != fresh else "ok")
