"""Minimal reproductions of the C04 findings on the unchanged tree.
Run: /venv/bin/python notes/C04-repro_c04.py   (prints one line per finding; exit code 0)

State after the /repo repairs: C04-lambda-uncached and C04-lambda-empty-doc (2afb524), C04-doc-quote,
C04-doc-backslash and C04-doc-cr (2b72506) print "same" (fixed); the other seven still print "DIFFERS"."""
import os
import sys
import tempfile
import warnings

sys.path.insert(0, os.environ.get("MODELX_REPO", "/repo"))
warnings.filterwarnings("ignore")
import modelx as mx  # noqa: E402

DIV = "# " + "-" * 75


def roundtrip(build, check):
    m = mx.new_model("R")
    build(m)
    before = check(m)
    with tempfile.TemporaryDirectory() as d:
        m.write(os.path.join(d, "w"))
        m.close()
        try:
            m2 = mx.read_model(os.path.join(d, "w"), name="R")
        except Exception as e:
            for mm in list(mx.get_models().values()):
                mm.close()
            return before, "read_model raised %s: %s" % (type(e).__name__, str(e).splitlines()[0][:70])
        after = check(m2)
        m2.close()
    return before, after


def show(key, before, after):
    print("%-28s before=%r  after=%r  %s" % (key, before, after, "DIFFERS" if before != after else "same"))


# C04-lambda-uncached
def b(m):
    m.new_space("S").new_cells("f", formula="lambda x: x", is_cached=False)
show("C04-lambda-uncached", *roundtrip(b, lambda m: m.S.f.is_cached))

# C04-lambda-empty-doc
def b(m):
    m.new_space("S").new_cells("f", formula="lambda x: x").set_doc("")
show("C04-lambda-empty-doc", *roundtrip(b, lambda m: m.S.f.doc))

# C04-refmode-noninterface
def b(m):
    m.new_space("S").set_ref("k", 3, "absolute")
show("C04-refmode-noninterface", *roundtrip(b, lambda m: m.S._get_object("k", as_proxy=True).refmode))

# C04-derived-input
def b(m):
    a = m.new_space("A"); a.new_cells("f", formula="lambda x: x")
    s = m.new_space("S", bases=a); s.f[1] = 77
show("C04-derived-input", *roundtrip(b, lambda m: dict(m.S.f)))

# C04-def-text-outside-node
def b(m):
    m.new_space("S").new_cells("f", formula="# why\ndef f(x):\n    return x\n    # note")
show("C04-def-text-outside-node", *roundtrip(b, lambda m: m.S.f.formula.source))

# C04-doc-quote / C04-doc-backslash / C04-doc-cr
for key, doc in (("C04-doc-quote", 'say "hi"'), ("C04-doc-quote", 'a"""b'), ("C04-doc-backslash", "C:\\new\\table"),
                 ("C04-doc-backslash", "ends with \\"), ("C04-doc-cr", "a\r\nb")):
    def b(m, doc=doc):
        m.new_space("S").doc = doc
    show(key, *roundtrip(b, lambda m: m.S.doc))

# C04-doc-section-marker
def b(m):
    s = m.new_space("S"); s.allow_none = True; s.doc = "x\n" + DIV + "\n# Cells\ny"
show("C04-doc-section-marker", *roundtrip(b, lambda m: m.S.allow_none))

# C04-ref-override-order (sub space created before its base)
def b(m):
    s = m.new_space("Sub"); base = m.new_space("Base"); s.k = 1; base.k = 2; s.add_bases(base)
show("C04-ref-override-order", *roundtrip(b, lambda m: (m.Sub.k, m.Base.k)))

# ... and with two bases defining the name
def b(m):
    b1 = m.new_space("B1"); b2 = m.new_space("B2"); b1.k = 1; b2.k = 2; m.new_space("Sub", bases=[b1, b2])
show("C04-ref-override-order", *roundtrip(b, lambda m: (m.Sub.k, m.B1.k, m.B2.k)))

# C04-relref-override-order
def b(m):
    z = m.new_space("Z"); base = m.new_space("Base"); s = m.new_space("Sub")
    base.set_ref("k", z, "relative"); s.k = 2; s.add_bases(base)
show("C04-relref-override-order", *roundtrip(b, lambda m: (repr(m.Base.k), m.Sub.k)))

# C04-derived-member-stale (root cause is in the live model: C03)
def b(m):
    a = m.new_space("A"); m.new_space("S", bases=a); a.new_cells("f", formula="lambda x: x").allow_none = True
show("C04-derived-member-stale", *roundtrip(b, lambda m: (m.A.f.allow_none, m.S.f.allow_none)))
