"""Minimal reproductions of the C20 findings on the unchanged /repo (run: /venv/bin/python repro_findings.py)."""
import sys
import warnings
sys.path.insert(0, "/repo")
warnings.filterwarnings("ignore")
import modelx as mx

m = mx.new_model()
s = m.new_space()


def show(title, fn):
    try:
        print("%-34s -> %r" % (title, fn()))
    except Exception as e:   # noqa
        print("%-34s -> raises %s: %s" % (title, type(e).__name__, str(e).split("\n")[0][:70]))


# C20-doc-unescaped
c = s.new_cells(formula="def a(x):\n    return x\n")
show("doc = 'ends with \"'", lambda: setattr(c, "doc", 'ends with "'))
show("doc = 'has \"\"\" inside'", lambda: setattr(c, "doc", 'has """ inside'))
c.doc = "back\\nslash"
show("doc = r'back\\nslash' reads", lambda: c.doc)
c.doc = "cr\rhere"
show("doc = 'cr\\rhere' reads", lambda: c.doc)

# C20-doc-oneline
c = s.new_cells(formula="def b(x): return x\n")
show("set_doc on `def b(x): return x`", lambda: c.set_doc("doc"))

# C20-doc-compound-literal
c = s.new_cells(formula="def c1(x):\n    'a' 'b'\n    return x\n")
c.doc = "doc"
show("'a' 'b' docstring, doc='doc' reads", lambda: c.doc)
c = s.new_cells(formula="def c2(x):\n    ('a')\n    return x\n")
show("('a') docstring, doc='doc'", lambda: setattr(c, "doc", "doc"))

# C20-dedent-in-string
src = "    def d(x):\n        return '''a\n        b'''\n"
ns = {}
exec("if 1:\n" + src, ns)
c = s.new_cells(formula=src)
show("indented def, multi-line string", lambda: (ns["d"](1), c(1)))
src = "def e(x):\n    return '''a\n   \nb'''\n"
ns = {}
exec(src, ns)
c = s.new_cells(formula=src)
show("whitespace-only line in a string", lambda: (ns["e"](1), c(1)))
c = s.new_cells(formula="def f(x):\n    return x\n")
c.doc = "a\n   \nb"
show("doc = 'a\\n   \\nb' reads", lambda: c.doc)


class K:
    def meth(x):
        return """a
        b"""


c = s.new_cells(name="g", formula=K.meth)
show("function object from a class", lambda: (K.meth(1), c(1)))

# C20-underindented-continuation
show("indented def, continuation at col 2",
     lambda: s.new_cells(formula="    def h(x):\n        return [\n  x]\n"))
m.close()
