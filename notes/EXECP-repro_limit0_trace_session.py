"""set_recursion(0) followed by a stack-trace session: start_stacktrace()/stop_stacktrace() rebuild the CallStack with
`maxdepth=self.callstack.maxdepth`; CallStack.__init__ tests `if maxdepth:` so the limit 0 is replaced by the default
(100000).  For every limit >= 1 a session keeps the limit (C05: administrative calls change nothing).  Exit 1 when the
limit changed."""
import sys, os
sys.path.insert(0, os.environ.get("MODELX_REPO", "/repo"))
import warnings
warnings.simplefilter("ignore")
import modelx as mx

mx.set_recursion(0)
before = mx.get_recursion()
mx.start_stacktrace()
inside = mx.get_recursion()
mx.stop_stacktrace()
after = mx.get_recursion()
print(before, inside, after)
sys.exit(0 if before == inside == after else 1)
