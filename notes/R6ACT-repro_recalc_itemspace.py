import sys; sys.path.insert(0,'/repo')
import warnings; warnings.simplefilter("ignore")
import modelx as mx
m = mx.new_model()
s = m.new_space("S")
@mx.defcells(space=s)
def a(): return 1
def params(i): return {"refs": {"k": _space.parent.a() + i}}
c = s.new_space("C", formula=params)
@mx.defcells(space=c)
def f(): return k * 10
print(s.C[1].f())
mx.set_recalc(True)
try:
    s.a = 5
    print("assigned; C[1].f =", s.C[1].f())
except Exception as e:
    print("raised", type(e).__name__, repr(e))
finally:
    mx.set_recalc(False)
print("a() =", s.a(), "is_input", s.a.is_input(), "C[1].f =", s.C[1].f())
