"""C11 on the unchanged /repo: multi-column pandas imports refused half-way (known findings
C11-batch-cells-pandas-unchecked-name and C11-batch-space-pandas-space-first).
Run: /venv/bin/python notes/R6C11-repro_batch_pandas.py   (exit 1 = the defects are there)"""
import sys, warnings
warnings.simplefilter("ignore")
sys.path.insert(0, __import__("os").environ.get("MODELX_REPO", "/repo"))
import modelx as mx, pandas as pd


def build():
    m = mx.new_model("M")
    S = m.new_space("S")
    S.new_cells("foo", formula="def foo(x): return x")
    Sub = m.new_space("Sub", bases=S)
    Sub.q = 5
    return m


def members(m):
    return {s.name: (sorted(s.cells), sorted(s.spaces)) for s in m.spaces.values()}


idx = pd.Index([0, 1, 2], name="x")
df = pd.DataFrame({"a": [1, 2, 3], "b": [4, 5, 6]}, index=idx)
bad = 0
for label, call in [
    ("new_cells_from_pandas, a name given twice", lambda m: m.S.new_cells_from_pandas(df, cells=["x", "x"])),
    ("new_cells_from_pandas, 2nd name is a reference of a sub space", lambda m: m.S.new_cells_from_pandas(df, cells=["x", "q"])),
    ("new_space_from_pandas, invalid column label", lambda m: m.new_space_from_pandas(
        pd.DataFrame({"a": [1, 2, 3], "1q": [4, 5, 6]}, index=idx), space="T")),
    ("new_space_from_pandas, column named like a sibling of the new space", lambda m: m.new_space_from_pandas(
        pd.DataFrame({"a": [1, 2, 3], "S": [4, 5, 6]}, index=idx), space="T")),
    ("new_space_from_pandas, a name given twice", lambda m: m.new_space_from_pandas(df, space="T", cells=["x", "x"])),
]:
    m = build()
    before = members(m)
    try:
        call(m)
        print(label, ": accepted")
    except Exception as e:
        after = members(m)
        if after != before:
            bad += 1
            print("%s: raised %s(%s) but the model changed: %r -> %r" % (label, type(e).__name__, e, before, after))
        else:
            print(label, ": refused, nothing changed")
    m.close()
sys.exit(1 if bad else 0)
