"""D4 (C12, C11) - genuine defect of modelx (unchanged /repo at 8a863da), found while modelling what
`new_cells` does with an invalid explicit name (review B4):

`SpaceManager.new_cells(space, name, formula)` checks the name it was GIVEN (`_can_add(space, name, CellsImpl)`),
but `CellsImpl.__init__` names the cells differently when that name is not a valid one (None, "for", "_x", ...):
after the formula (`def foo(x): ...` -> foo) or, failing that, automatically (`Cells1`, ...; the auto-namer looks at
the namespace of the space only).  The name the cells really gets is never checked:
(a) `S.new_cells(formula="def foo(x): ...")` is accepted when S has a reference foo, a child space foo - the name
    then denotes two things (C12) - or a cells foo, which is silently replaced (the old object stays alive, detached);
(b) the same in a base when a SUB space uses the name: the sub space gets a derived cells next to its reference;
(c) an auto-generated name that a sub space uses for a reference or child space.
(`defcells` passes the name of the function explicitly, so the decorator path is checked.)

Run: /venv/bin/python notes/STRUCTX-repro_new_cells_unchecked_name.py   (exit 1 = defect present)
"""
import sys, os
sys.path.insert(0, os.environ.get("MODELX_REPO", "/repo"))
import modelx as mx

SRC = "def foo(x): return x"
bad = 0


def clash(s):
    c, r, ch = set(s.cells), set(s._own_refs), set(s.spaces)
    return sorted((c & r) | (c & ch) | (r & ch))


def attempt(label, space, look, **kw):
    global bad
    try:
        c = space.new_cells(**kw)
        both = clash(look)
        print("%s: accepted as %s; clash in %s: %s" % (label, c.name, look.name, both))
        if both:
            print("DEFECT %s: the name(s) %s denote two members of %s" % (label, both, look.name))
            bad = 1
    except ValueError as e:
        print("%s: refused (%s)" % (label, e))


m = mx.new_model("M")
S1 = m.new_space("S1"); S1.foo = 1
attempt("(a) reference in the space", S1, S1, formula=SRC)
S2 = m.new_space("S2"); S2.new_space("foo")
attempt("(a) child space in the space", S2, S2, formula=SRC)
S3 = m.new_space("S3"); old = S3.new_cells("foo", formula="def foo(x): return 2 * x")
try:
    S3.new_cells(formula=SRC)
    if S3.cells["foo"] is not old:
        print("DEFECT (a): an existing cells foo was silently replaced by new_cells(formula=...)")
        bad = 1
except ValueError as e:
    print("(a) existing cells: refused (%s)" % e)
A = m.new_space("A"); B = m.new_space("B", bases=[A]); B.foo = 1
attempt("(b) reference in a sub space", A, B, formula=SRC)


def foo(x):
    return x


A1 = m.new_space("A1"); B1 = m.new_space("B1", bases=[A1]); B1.foo = 1
attempt("(b) function object, reference in a sub space", A1, B1, formula=foo)
A0 = m.new_space("A0"); B0 = m.new_space("B0", bases=[A0]); B0.new_space("foo")
attempt("(b) function object, child space in a sub space", A0, B0, formula=foo)
A2 = m.new_space("A2"); B2 = m.new_space("B2", bases=[A2]); B2.foo = 1
attempt("(b) invalid explicit name, reference in a sub space", A2, B2, name="for", formula=SRC)
A3 = m.new_space("A3"); B3 = m.new_space("B3", bases=[A3]); B3.Cells1 = 1
attempt("(c) auto-generated name, reference in a sub space", A3, B3, name="for")
A4 = m.new_space("A4"); B4 = m.new_space("B4", bases=[A4]); B4.new_space("Cells1")
attempt("(c) auto-generated name, no name at all, child space in a sub space", A4, B4)

# what must keep working: unnamed cells are named after the formula / automatically
F = m.new_space("F")
assert F.new_cells(formula=SRC).name == "foo"
assert F.new_cells().name == "Cells1" and F.new_cells(name="for").name == "Cells2"
assert F.new_cells(formula="lambda x: x").name == "Cells3"
sys.exit(bad)
