"""C11: new_cells_from_module / import_funcs stopped half-way (finding C11-batch-cells-module-half-way, repaired by /repo
8ba4963; the import_module part is notes/R6C11-repro_import_module.py).
Run: /venv/bin/python notes/R6C11-repro_batch_module.py   (exit 1 = defect; 0 on /repo since 8ba4963)"""
import sys, os, types, warnings, tempfile, importlib.util
warnings.simplefilter("ignore")
sys.path.insert(0, os.environ.get("MODELX_REPO", "/repo"))
import modelx as mx

d = tempfile.mkdtemp()


def module(name, src):
    p = os.path.join(d, name + ".py")
    open(p, "w").write(src)
    spec = importlib.util.spec_from_file_location(name, p)
    mod = importlib.util.module_from_spec(spec)
    spec.loader.exec_module(mod)
    return mod


def build():
    m = mx.new_model("M")
    S = m.new_space("S")
    S.new_cells("foo", formula="def foo(x): return x")
    S.k = 3
    S.new_space("child")
    Sub = m.new_space("Sub", bases=S)
    Sub.q = 5
    return m


def members(m):
    return {s.name: (sorted(s.cells), sorted(s.spaces)) for s in m.spaces.values()}


bad = 0
for label, call in [
    ("a function named like a reference", lambda m: m.S.new_cells_from_module(module("m1", "def a(x): return x\ndef k(x): return x\n"))),
    ("a function named like a child space", lambda m: m.S.import_funcs(module("m2", "def a(x): return x\ndef child(x): return x\n"))),
    ("a function named like a reference of a sub space", lambda m: m.S.new_cells_from_module(module("m3", "def a(x): return x\ndef q(x): return x\n"))),
    ("two lambdas on a line", lambda m: m.S.new_cells_from_module(module("m4", "def a(x): return x\nb = lambda x: x; c = lambda x: 2 * x\n"))),
]:
    m = build()
    before = members(m)
    try:
        call(m)
        print(label, ": accepted")
    except Exception as e:
        after = members(m)
        if after != before:
            bad += 1
            print("%s: raised %s(%s) but the model changed: %r -> %r" % (label, type(e).__name__, e, before, after))
        else:
            print(label, ": refused, nothing changed")
    m.close()
sys.exit(1 if bad else 0)
