"""Item 3: an ItemSpace construction that fails part-way leaves residue (phantom __SpaceN in named_itemspaces,
an entry in base._dynamic_subs, an old handle re-attached to the half-built instance) and later unrelated
edits fail.  C05 / C07 / C13 / C12.  exit 1 = defect present, exit 0 = absent."""
import os, sys
sys.path.insert(0, os.environ.get("MODELX_REPO", "/repo"))
import modelx as mx

bad = []


def state(S):
    i = S._impl
    return {"named_itemspaces": sorted(i.named_itemspaces), "param_spaces": sorted(i.param_spaces),
            "dynamic_subs": len(i._dynamic_subs), "dir_has_phantom": [n for n in dir(S) if n.startswith("__Space")],
            "itemspaces_view": len(S.itemspaces) if hasattr(S, "itemspaces") else None}


def later_edits(label, m, S):
    """after the failure(s): unrelated edits and evaluations must behave normally"""
    for what, f in (("S.new_cells('later')", lambda: S.new_cells("later", formula="def later():\n    return 1")),
                    ("S.q = 3", lambda: setattr(S, "q", 3)),
                    ("S[3].foo(1)", lambda: S[3].foo(1)),
                    ("model self-check", lambda: m._impl.spmgr._check_sanity() if hasattr(m._impl.spmgr, "_check_sanity") else None)):
        try:
            f()
        except Exception as e:               # noqa
            print("   later %s -> %s: %s" % (what, type(e).__name__, str(e)[:100]))
            bad.append("%s: later %s raised %s" % (label, what, type(e).__name__))


# ---- (a) malformed refs: {'refs': 5}
m = mx.new_model("M")
S = m.new_space("S", formula="def _f(k):\n    return {'refs': bad_refs} if k in fail_for else None")
S.bad_refs = 5
S.fail_for = (1,)
S.new_cells("foo", formula="def foo(t):\n    return k * t")
assert S[2].foo(3) == 6
before = state(S)
for n in range(3):
    try:
        S[1]
        bad.append("a: S[1] did not fail")
    except Exception as e:                   # noqa
        err = type(e).__name__
after = state(S)
print("(a) refs=5: three failed S[1] (%s)\n   before %s\n   after  %s" % (err, before, after))
if after != before:
    bad.append("a: failed constructions left residue: %r" % ({k: (before[k], after[k]) for k in before if before[k] != after[k]},))
later_edits("a", m, S)
m.close()

# ---- (b) an old handle and a failing re-creation
m = mx.new_model("M")
S = m.new_space("S", formula="def _f(k):\n    return {'refs': extra}")
S.extra = {"z": 10}
S.new_cells("foo", formula="def foo(t):\n    return k * t + z")
h = S[1]
assert h.foo(2) == 12
S.extra = 5                                  # discards S[1]; the formula now returns malformed refs
try:
    h.foo
    bad.append("b: handle to the discarded ItemSpace still works before the re-creation")
except Exception as e:                       # noqa
    deleted = type(e).__name__
try:
    S[1]
    bad.append("b: S[1] did not fail")
except Exception as e:                       # noqa
    pass
try:
    cells = sorted(h.cells)
    print("(b) after the failed re-creation the old handle h ANSWERS: h.cells = %s, h._impl in param_spaces: %s"
          % (cells, h._impl in S._impl.param_spaces.values()))
    bad.append("b: old handle denotes the half-built instance (neither the deleted-object error nor a re-created instance)")
except Exception as e:                       # noqa
    print("(b) old handle after the failed re-creation ->", type(e).__name__, "(deleted-object error is %s)" % deleted)
    if type(e).__name__ != deleted:
        bad.append("b: old handle raises %s" % type(e).__name__)
print("   state:", state(S))
if state(S)["named_itemspaces"] or state(S)["dynamic_subs"]:
    bad.append("b: residue %r" % (state(S),))
try:
    S.extra = {"z": 1}
    usable = True
except Exception as e:                       # noqa
    print("   later S.extra = {'z': 1} -> %s: %s;  'extra' in S.refs now: %s  (the space cannot be edited any more)"
          % (type(e).__name__, e, "extra" in S.refs))
    bad.append("b: a later reference assignment raised %s half-way" % type(e).__name__)
    usable = False
if usable:
    later_edits("b", m, S)
    try:
        v = S[1].foo(2)
        if v != 3:
            bad.append("b: S[1].foo(2) = %r after repair of the formula, expected 3" % (v,))
    except Exception as e:                   # noqa
        bad.append("b: S[1] after the repair raised %s" % type(e).__name__)
        print("   S[1] after the repair ->", type(e).__name__, e)
m.close()

# ---- (c) the construction fails at its very end: a relative reference of the base points out of its tree
m = mx.new_model("M")
T = m.new_space("T")
T.new_cells("c", formula="def c():\n    return 1")
S = m.new_space("S", formula="def _f(k):\n    return None")
S.new_space("Ch")
S.new_cells("foo", formula="def foo(t):\n    return k * t")
S.set_ref("r", T.c, "relative")
for n in range(2):
    try:
        S[1]
        bad.append("c: S[1] did not fail")
    except Exception as e:                   # noqa
        pass
st = state(S)
st["dynamic_subs_of_child"] = len(S.Ch._impl._dynamic_subs)
print("(c) relative reference out of the tree: two failed S[1]\n   state:", st)
if st["named_itemspaces"] or st["dynamic_subs"] or st["dynamic_subs_of_child"]:
    bad.append("c: residue %r" % (st,))
del S.r
later_edits("c", m, S)
m.close()

if bad:
    print("DEFECT PRESENT:")
    for b in bad:
        print("  -", b)
    sys.exit(1)
print("absent")
