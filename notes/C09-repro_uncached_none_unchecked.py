import modelx as mx
from modelx.core.errors import NoneReturnedError
for flag in (True, False):
    m = mx.new_model(); S = m.new_space("S"); m.NoneReturnedError = NoneReturnedError
    S.new_cells("c0", formula="def c0(): return None", is_cached=flag)
    S.new_cells("c1", formula="def c1():\n    try:\n        return c0()\n    except NoneReturnedError:\n        return 7")
    try:
        print("c0 cached" if flag else "c0 uncached", "-> c1() =", S.c1())
    except Exception as e:
        print("c0 cached" if flag else "c0 uncached", "-> raised", type(e).__name__, type(mx.get_error()).__name__)
    m.close()
