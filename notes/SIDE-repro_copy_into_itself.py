"""Item 12: S.copy(S, "T") - copying a space into itself - never terminates.  exit 1 = defect present."""
import os, sys, signal
sys.path.insert(0, os.environ.get("MODELX_REPO", "/repo"))
import modelx as mx


class Timeout(Exception):
    pass


def on_alarm(*a):
    raise Timeout()


signal.signal(signal.SIGALRM, on_alarm)
m = mx.new_model("M")
S = m.new_space("S")
S.new_cells("c", formula="def c():\n    return 1")
S.new_space("Ch")
signal.alarm(5)
try:
    S.copy(S, "T")
    signal.alarm(0)
    depth, sp = 0, S
    while "T" in sp.spaces and depth < 50:
        sp = sp.spaces["T"]; depth += 1
    print("S.copy(S, 'T') returned; nesting depth of T:", depth, "; S.T has", sorted(S.T.spaces), sorted(S.T.cells))
    ok = depth == 1
except Timeout:
    depth, sp = 0, S
    try:
        while "T" in sp.spaces and depth < 10000:
            sp = sp.spaces["T"]; depth += 1
    except Exception:                        # noqa
        pass
    print("S.copy(S, 'T') did not return within 5 s; S.T.T.T... nested %d deep so far" % depth)
    ok = False
except Exception as e:                       # noqa
    signal.alarm(0)
    print("S.copy(S, 'T') refused: %s: %s; spaces of S: %r" % (type(e).__name__, e, sorted(S.spaces)))
    ok = sorted(S.spaces) == ["Ch"]
if not ok:
    print("DEFECT PRESENT")
    sys.exit(1)
print("absent")
