"""C11 on the unchanged /repo: Space.copy leaves the copy behind (known finding C11-copy-space-cells-named-like-global).
Run: /venv/bin/python notes/R6C11-repro_copy_space.py   (exit 1 = defect)"""
import sys, os, warnings
warnings.simplefilter("ignore")
sys.path.insert(0, os.environ.get("MODELX_REPO", "/repo"))
import modelx as mx

m = mx.new_model("M")
A = m.new_space("A")
A.new_cells("x", formula="def x(t): return t")
m.x = 3          # accepted although A has a cells x (a cells x after the reference would be refused)
before = sorted(m.spaces)
try:
    A.copy(m, "T")
    print("accepted")
    sys.exit(0)
except Exception as e:
    after = sorted(m.spaces)
    print("raised %s(%s); spaces %r -> %r" % (type(e).__name__, e, before, after))
    sys.exit(1 if after != before else 0)
