"""Replays the `decide` examples of the PROOF2 theorems on the real modelx (exit 1 on any difference).
  A  lean/MxModel/Props/C01.lean  rEnv : equal spellings = same element, computed once
  B  lean/MxModel/Props/C03.lean  vOps : derived cells read the sub space's names (S1.f() = 20, S2.f() = 2)
  C  lean/MxModel/Props/C06.lean  kEnv : recalculation option (kS, kT)
Run: /venv/bin/python notes/PROOF2-replay_examples.py
"""
import sys, os
sys.path.insert(0, os.environ.get("MODELX_REPO", "/repo"))
import modelx as mx

bad = []
def expect(what, got, want):
    if got != want:
        bad.append("%s: modelx %r, Lean example %r" % (what, got, want))

# ---- A
m = mx.new_model(); s = m.new_space("S")
runs = []
s.count = runs.append
s.new_cells("rate", formula="def rate(t, base=100, step=10):\n    count(1)\n    return t * base + step")
s.new_cells("c1", formula="lambda: rate(3, 200)")
s.new_cells("c2", formula="lambda: rate(3, step=10, base=200)")
s.new_cells("c3", formula="lambda: rate(base=200, t=3)")
s.new_cells("c4", formula="lambda: rate(3, nosuch=1)")
expect("A c1,c2,c3", (s.c1(), s.c2(), s.c3()), (610, 610, 610))
expect("A executions of rate", len(runs), 1)
expect("A cache entries of rate", dict(s.rate), {(3, 200, 10): 610})
try:
    s.c4(); r = "returned"
except Exception as e:
    r = type(mx.get_error()).__name__
expect("A unbound spelling", r, "TypeError")
expect("A rate not called by c4", len(runs), 1)
m2 = mx.new_model(); s2 = m2.new_space("S"); runs2 = []
s2.count = runs2.append
s2.new_cells("rate", formula="def rate(t, base=100, step=10):\n    count(1)\n    return t * base + step")
expect("A top-level spellings", (s2.rate(3, 200), s2.rate(3, step=10, base=200), s2.rate(base=200, t=3),
                                 s2.rate[3, 200, 10], len(runs2)), (610, 610, 610, 610, 1))
try:
    s2.rate(3, t=4); r = "returned"
except TypeError:
    r = "TypeError"
expect("A top-level unbound", (r, len(runs2)), ("TypeError", 1))

# ---- B
m3 = mx.new_model()
B = m3.new_space("B"); B.new_cells("f", formula="lambda: y * 2"); B.y = 1
S1 = m3.new_space("S1", bases=B); S1.y = 10
S2 = m3.new_space("S2", bases=B)
expect("B values", (B.f(), S1.f(), S2.f()), (2, 20, 2))
expect("B derived", (S1.f._is_derived(), S2.f._is_derived(), S1.f.formula.source == B.f.formula.source), (True, True, True))

# ---- C
def k_model():
    m = mx.new_model(); s = m.new_space("S")
    s.new_cells("c0", formula="lambda: 1")
    s.new_cells("c1", formula="lambda: c0() * 10")
    s.new_cells("c2", formula="lambda: c1() + 1 if c0() < 5 else 0")
    s.new_cells("c3", formula="lambda: c1() + 100")
    s.new_cells("c4", formula="lambda: 7")
    return m, s
m4, s = k_model()
s.c2(); s.c3(); s.c4()
mx.set_recalc(True)
try:
    s.c0 = 2
finally:
    mx.set_recalc(False)
expect("C kS", (dict(s.c1), dict(s.c2), dict(s.c3), dict(s.c4), s.c0.is_input()),
       ({(): 20}, {(): 21}, {(): 120}, {(): 7}, True))
m5, s = k_model()
s.c2()
mx.set_recalc(True)
try:
    s.c0 = 9
finally:
    mx.set_recalc(False)
expect("C kT (former non-leaf dependent c1 not recomputed)", (dict(s.c2), dict(s.c1)), ({(): 0}, {}))

for b in bad:
    print("DIFFERENCE", b)
print("replayed examples A, B, C: %s" % ("all as in the Lean examples" if not bad else "%d differences" % len(bad)))
sys.exit(1 if bad else 0)
