"""D3 (C12, C11) - genuine defects of modelx (unchanged /repo at 8a863da) on the path
`new_space(name, bases=..., refs={...})` (references handed to the constructor of the space):

(a) C12: `m.new_space("S", bases=[B], refs={"x": 1})` with a cells `B.x` is accepted; S then has the derived
    cells x AND the own reference x.  `UserSpaceImpl.__init__` puts the constructor refs straight into
    `_own_refs`; `_check_name_conflict(mro)` runs before the space exists and never sees them.
(b) C11: `refs={"for": 2}` / `{"_y": 3}` are accepted: reference names are not checked with is_valid_name
    (every other way of creating a reference checks it).
(c) C11: `del S.a` for a constructor-supplied reference raises AssertionError AFTER deleting the reference:
    constructor refs are never registered in `ReferenceManager._valid_to_refs` (`assert refs` in `del_ref`).

Run: /venv/bin/python notes/STRUCTX-repro_new_space_ctor_refs.py   (exit 1 = defect present)
"""
import sys, os
sys.path.insert(0, os.environ.get("MODELX_REPO", "/repo"))
import modelx as mx

bad = 0
m = mx.new_model("M")
B = m.new_space("B"); B.new_cells("x", formula="def x(t): return t")
try:
    S = m.new_space("S", bases=[B], refs={"x": 1})
    both = set(S.cells) & set(S._own_refs)
    print("(a) accepted: cells", list(S.cells), "own refs", list(S._own_refs))
    if both:
        print("DEFECT (a): in S the name(s) %s denote a cells and a reference" % sorted(both))
        bad = 1
except (ValueError, NameError) as e:
    print("(a) refused:", type(e).__name__, e)
    if "S" in m.spaces:
        print("DEFECT (a): the refused new_space left the space behind")
        bad = 1

for badname in ("for", "_y", "1a"):
    try:
        T = m.new_space("T_" + badname.strip("_"), refs={badname: 2})
        print("DEFECT (b): a reference named %r was created: %s" % (badname, list(T._own_refs)))
        bad = 1
    except ValueError as e:
        print("(b) refused:", e)

U = m.new_space("U", refs={"a": 1, "b": 2})
try:
    del U.a
    print("(c) del U.a accepted; own refs", list(U._own_refs))
    if "a" in U._own_refs:
        bad = 1
except AssertionError as e:
    print("DEFECT (c): del U.a raised AssertionError; own refs now", list(U._own_refs))
    bad = 1
U.b = 5; U.a = 6
assert (U.a, U.b) == (6, 5)
del U.b
m._impl._check_sanity()

# still accepted: an own reference that overrides an inherited reference / shadows a model-level one
m.g = 1
B.r = 3
V = m.new_space("V", bases=[B], refs={"r": 4, "g": 5})
assert (V.r, V.g) == (4, 5) and not V._impl.own_refs["r"].is_derived()
sys.exit(bad)
