"""C09 (seen through C02's known finding C02-caught-failure-untracked): the cached flag of a cells whose formula
CATCHES the failure of a callee changes a result after an edit that makes the callee succeed.

    g(x): fails for x == 2            k(x): try g(x) except TypeError: -3
    evaluate k(2) -> -3   (g(2) failed, was rolled back, has no node: no dependency of k(2) on g is recorded)
    redefine g            (clears g's nodes and their dependents: k(2) is not among them)
    evaluate k(2)         k cached: still -3 (stale);  k uncached: 10 (runs again)

Exit 1 when the two assignments of the flag of k disagree (they do on /repo HEAD), 0 otherwise.
"""
import sys
import modelx as mx

G = "def g(x):\n    if x == 2:\n        raise TypeError('outside the domain')\n    return x"
K = "def k(x):\n    try:\n        return g(x)\n    except TypeError:\n        return -3"


def run(name, k_cached):
    m = mx.new_model(name)
    s = m.new_space("S")
    s.new_cells("g", formula=G)
    s.new_cells("k", formula=K, is_cached=k_cached)
    out = [s.k(2)]
    s.g.formula = "lambda x: x + 8"
    out.append(s.k(2))
    m.close()
    return out


a, b = run("Cached", True), run("Uncached", False)
print("k cached:  ", a)
print("k uncached:", b)
if a != b:
    print("PROPERTY VIOLATED: the cached flag of k changes k(2) after g was redefined")
    sys.exit(1)
print("PROPERTY HOLDS")
