"""Two defects of formula capture found by the C20 check after the repairs 2b72506 / 35c2f08.
Run:  /venv/bin/python deliver/repro_c20_new_findings.py            (against /repo)
      PYTHONPATH=<patched copy> /venv/bin/python deliver/repro_c20_new_findings.py
Candidate repair for both: deliver/C20-line-boundaries-and-token-end.patch (modelx/core/formula.py only;
modelx/tests/core/formula and modelx/tests/core/cells pass with it: 122 passed, 1 skipped).
Exit code 1 if a defect shows, 0 otherwise."""
import sys
import modelx as mx

bad = 0
m = mx.new_model()
s = m.new_space()

print("-- C20-splitlines-in-body: line boundaries of str.splitlines() that are no line boundaries for Python")
cases = {
    "form feed in a triple-quoted string": "def f(x):\n    t = '''a\x0cb'''\n    return t\n",
    "U+2028 in a one-line string": "def f(x):\n    return 'a\u2028b'\n",
    "form feed in a comment": "def f(x):\n    # page\x0cbreak\n    return 'ab'\n",
    "U+0085 in the docstring": "def f(x):\n    '''a\x85b'''\n    return 'ab'\n",
}
for what, src in cases.items():
    ns = {}
    exec(compile(src, "<reference>", "exec"), ns)
    ref, refdoc = ns["f"](1), ns["f"].__doc__
    try:
        c = s.new_cells(name="f", formula=src)
        got, doc = c(1), c.doc
        ok = got == ref and doc == refdoc
        print("  %-40s function %r doc %r | cells %r doc %r | %s" % (what, ref, refdoc, got, doc, "ok" if ok else "DIFFERENT"))
        del s.cells["f"]
    except SyntaxError as e:
        ok = False
        print("  %-40s function %r | new_cells raised %s: %s" % (what, ref, type(e).__name__, e))
    bad += not ok

print("-- C20-multiline-token-endcol: python %s" % sys.version.split()[0])
src = "def f(x):\n    '''\u00e9\n    second line'''\n    return x\n"
c = s.new_cells(name="g", formula=src)
try:
    c.set_doc("doc")
    ok = c.doc == "doc" and c(3) == 3
    print("  set_doc on a multi-line docstring with a non-ASCII first line: %r %s" % (c.formula.source, "ok" if ok else "DAMAGED"))
except SyntaxError as e:
    ok = False
    from modelx.core.formula import replace_docstring
    print("  set_doc raised SyntaxError: %s; replace_docstring returns %r" % (e, replace_docstring(src, "doc")))
bad += not ok
sys.exit(1 if bad else 0)
