"""C08 on the UNCHANGED /repo: a reference read as `_model.<name>` is not among the precedents.

C08: "precedents() additionally contains every reference whose value the element's own formula read by name or by
attribute path".  A model-level reference read by name (`g`) is listed (get_valuerefs), read through a space
(`_space.g`, `Other.g`) it is listed (BaseSpaceImpl.get_attr records the read), read through the model (`_model.g`) it
is not: ModelImpl.get_attr returns the value without recording anything.  No stale value follows from it (every change
of a model-level reference clears all spaces), only precedents() / the reference graph are incomplete.

exit 1 = the defect is there, 0 = repaired (notes/SEEDG-candidate_model_attr_read.diff)."""
import sys
import warnings
import modelx as mx
from modelx.core.reference import ReferenceNode

warnings.filterwarnings("ignore")
m = mx.new_model("M")
m.g = 5
s = m.new_space("S")
s.new_cells("by_name", formula="lambda: g + 1")
s.new_cells("by_space", formula="lambda: _space.g + 1")
s.new_cells("by_model", formula="lambda: _model.g + 1")
bad = []
for nm in ("by_name", "by_space", "by_model"):
    c = s.cells[nm]
    assert c() == 6
    refs = sorted(p.obj.name for p in c.precedents() if isinstance(p, ReferenceNode))
    print("%-9s precedents (references): %s" % (nm, refs))
    if "g" not in refs:
        bad.append(nm)
m.g = 7
assert [s.cells[n]() for n in ("by_name", "by_space", "by_model")] == [8, 8, 8]   # values follow the edit
m.close()
if bad:
    print("DEFECT: the formula read the reference g, precedents() does not list it: %s" % bad)
    sys.exit(1)
print("ok")
