"""C05 on the UNCHANGED /repo: the same exception OBJECT raised by two successive evaluations.

C05: "a failing top-level call raises FormulaError carrying the original exception".  The second evaluation raises
IndexError (pop from an empty deque, ErrorStack.__init__): the exception object still carries the traceback entries of
the first evaluation, ErrorStack pops one rolled-back node per formula frame it sees in the traceback.
exit 1 = defect present, 0 = repaired (notes/SEEDG-candidate_shared_exception_object.diff)."""
import sys
import warnings
import modelx as mx
from modelx.core.errors import FormulaError

warnings.filterwarnings("ignore")
m = mx.new_model("M")
s = m.new_space("S")
m.E = ValueError("one exception object")
s.new_cells("a", formula="def a(x):\n    raise E")
s.new_cells("b", formula="def b(x):\n    return a(x) + 1")
bad = []
for i in (1, 2, 3):
    try:
        s.b(i)
    except FormulaError:
        tb = [(n.obj.name, n.args) for n, _ in mx.get_traceback()]
        print(i, "FormulaError, traceback", tb)
        if mx.get_error() is not m.E or tb != [("b", (i,)), ("a", (i,))]:
            bad.append((i, "wrong report", tb))
    except BaseException as e:
        print(i, type(e).__name__, e)
        bad.append((i, type(e).__name__))
ex = mx.core.mxsys.executor
assert not ex.callstack and not ex.refstack and not ex.is_executing and not dict(s.a) and not dict(s.b)
if bad:
    print("DEFECT:", bad)
    sys.exit(1)
print("ok")
