import modelx as mx
m = mx.new_model("M2")
P = m.new_space("P"); P.new_cells("f", formula="lambda x: x"); P.f[1] = 10
print("orig:", P.f.succs(1), P.f.preds(1))
P2 = P.copy(m, "P2")
for what in ("succs","preds","precedents"):
    try: print("copy", what, getattr(P2.f, what)(1))
    except Exception as e: print("copy", what, "raised", type(e).__name__, e)
# new_cells with data? other routes that construct cells with data: read_model? new_space_from...? 
import tempfile, os
d = tempfile.mkdtemp()
m.write(os.path.join(d, "mm"))
m3 = mx.read_model(os.path.join(d, "mm"), name="M3")
print("read:", dict(m3.P.f), sorted(str(n) for n in m3.tracegraph.nodes))
try: print(m3.P.f.succs(1))
except Exception as e: print("read succs raised", type(e).__name__)
