"""Item 11: UserSpace.rename accepts invalid names.  C11 (last clause).  exit 1 = defect present."""
import os, sys
sys.path.insert(0, os.environ.get("MODELX_REPO", "/repo"))
import modelx as mx

bad = []
for name in ("_x", "1a", "for", "a b", "", "x.y"):
    m = mx.new_model("M")
    S = m.new_space("S")
    S.new_cells("c", formula="def c():\n    return 1")
    try:
        m.new_space(name)
        ctl = "accepted"
    except Exception as e:                   # noqa
        ctl = "refused (%s)" % type(e).__name__
    try:
        S.rename(name)
        print("S.rename(%r) accepted -> spaces %r   [new_space(%r): %s]" % (name, sorted(m.spaces), name, ctl))
        bad.append(name)
    except Exception as e:                   # noqa
        print("S.rename(%r) refused (%s); spaces %r" % (name, type(e).__name__, sorted(m.spaces)))
        if sorted(m.spaces) != ["S"]:
            bad.append(name + " (refused but changed)")
    m.close()
if bad:
    print("DEFECT PRESENT: invalid names became names of a user-created space:", bad)
    sys.exit(1)
print("absent")
