"""C14 finding: ziputil.copy_file's GH82 retry loop re-opens the archive after a failed close().

A zip save adds the IO data files of a model (module sources, pandas / Excel files) to the temporary
archive with ziputil.copy_file (file -> archive branch): up to three attempts of

    with zipfile.ZipFile(root_dst, mode="a") as zip_dst:
        zip_dst.write(src, arc_dst)

where a PermissionError makes the loop wait and try again.  If the PermissionError comes out of the
*close* of the ZipFile (the central directory is written there), the archive on disk has lost its
central directory: opening in mode "a" seeks to the old directory and overwrites it with the new member;
close() writes the new one.  The retry's ZipFile(root_dst, "a") then finds no end-of-central-directory
record, treats the file as "not a zip file, just append" and starts a *new* archive behind the old bytes.
The save carries on, reports success and moves an archive into place that holds only the members written
from then on (here: the IO file alone, not even _system.json).  read_model cannot load it.

The previous save is intact at <path>_BAK1, so the "last good save" clause of C14 holds; "a zip
destination never holds a partially written archive" and "reported success => complete" do not.

Run: /venv/bin/python notes/C14X-repro_copyfile_retry_after_failed_close.py   (exit 1 = defect present)
"""
import os, sys, shutil, tempfile, time, zipfile, warnings
import modelx as mx

warnings.simplefilter("ignore")
tmp = tempfile.mkdtemp(prefix="c14x_repro_")
try:
    src = os.path.join(tmp, "helper_src.py")
    open(src, "w").write("def twice(x):\n    return 2 * x\n")
    m = mx.new_model("Demo")
    s = m.new_space("S")
    m.new_module("helper", "lib/helper.py", src)
    s.new_cells("f", formula="lambda x: helper.twice(x)")
    path = os.path.join(tmp, "demo.zip")
    m.zip(path)                                    # generation 1, complete
    want = sorted(zipfile.ZipFile(path).namelist())

    # generation 2: the first close() of the archive after ZipFile.write (= inside copy_file) fails
    # once with PermissionError while writing the central directory
    state = {"wrote": False, "failed": False}
    orig_write, orig_end = zipfile.ZipFile.write, zipfile.ZipFile._write_end_record

    def write(self, *a, **k):
        state["wrote"] = True
        return orig_write(self, *a, **k)

    def end_record(self):
        if state["wrote"] and not state["failed"]:
            state["failed"] = True
            raise PermissionError(13, "Permission denied (injected, once)")
        return orig_end(self)

    zipfile.ZipFile.write, zipfile.ZipFile._write_end_record = write, end_record
    sleep, time.sleep = time.sleep, (lambda s: None)
    raised = None
    try:
        m.zip(path)
    except Exception as e:
        raised = e
    finally:
        zipfile.ZipFile.write, zipfile.ZipFile._write_end_record = orig_write, orig_end
        time.sleep = sleep
    assert state["failed"], "fault point not reached"
    got = sorted(zipfile.ZipFile(path).namelist()) if os.path.exists(path) else None
    print("save raised:", repr(raised))
    print("members wanted:", want)
    print("members at the destination:", got)
    bad = raised is None and got != want
    if bad:
        try:
            mx.read_model(path, name="Back")
            print("(loads)")
        except Exception as e:
            print("read_model(destination) ->", type(e).__name__, e)
        print("DEFECT: the save reported success and the destination holds an incomplete archive")
    else:
        print("ok: the save %s" % ("raised, destination untouched" if raised else "is complete"))
    sys.exit(1 if bad else 0)
finally:
    shutil.rmtree(tmp, ignore_errors=True)
