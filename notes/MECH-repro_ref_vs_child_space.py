"""C12 finding (genuine defect of modelx, unchanged /repo at 87e96f6):
a space gets an own reference `x` although it has a child space `x`, when a model-level
reference `x` exists.

UserSpaceImpl.set_attr: `name in self.refs` is true through the model-level reference, so
`new_ref` is called; `new_ref` looks the name up with `_find_name_in_subs(space, name)`
(skip_self=False -> the space itself comes first; its namespace resolves `x` to the model-level
reference because references precede child spaces in the namespace chain), and the loop added by
985e24b checks cells / child spaces of the SUB spaces only (skip_self=True).
Afterwards `A.x` denotes two things (own reference 5 and child space A.x).

Found by builder MECH: the mechanism model (Struct/Mech.lean `St.setRef`) refuses this edit
(`kindOf p name = some .space`), the code accepts it; disjointness "own references vs child
spaces" is an invariant of the model and not of the code.
Run: /venv/bin/python notes/MECH-repro_ref_vs_child_space.py   (exit 1 = defect present)
"""
import sys, os
sys.path.insert(0, os.environ.get("MODELX_REPO", "/repo"))
import modelx as mx

m = mx.new_model("M")
A = m.new_space("A")
A.new_space("x")
m.x = 1
try:
    A.x = 5
    accepted = True
except ValueError as e:
    accepted = False
    print("refused:", e)
refs, childs = list(A._own_refs), list(A.named_spaces)
print("accepted" if accepted else "refused", "own_refs", refs, "child spaces", childs)
both = set(refs) & set(childs)
if both:
    print("DEFECT: name(s) denote a reference and a child space of A:", sorted(both))
    sys.exit(1)
