import MxModel.Props.C02
#print axioms MxModel.C02.machine_keeps_ci
#print axioms MxModel.C02.live_equals_edits_only
#print axioms MxModel.C02.clearing_covers_every_change
#print axioms MxModel.C02.no_stale_value_after_any_structural_history
