import MxModel.Edit.Machine
open MxModel MxModel.Exec MxModel.Edit

def mulK (k : Int) : Option Val → SProg
  | some (.int v) => .ret (.int (v * k))
  | some .none => .raise (.user 3)
  | none => .raise (.user 4)

def eP : Params where
  srcOf := fun v _ => match v with
    | 0 => SProg.readN "y" (mulK 2) (.raise (.user 3)) (.raise (.user 4))
    | _ => SProg.readN "y" (mulK 3) (.raise (.user 3)) (.raise (.user 4))
  valOf := fun v => .int v
  flagOf := fun _ => true
  anOf := fun _ => false
  maxdepth := 50
  kw := []

def eOps : List Op := [
  .struct (.newSpace [] "Base" [] []),
  .struct (.newCells ["Base"] "f" "f" 0),
  .struct (.setRef ["Base"] "y" 1),
  .struct (.newSpace [] "Sub" [["Base"]] []),
  .struct (.setRef ["Sub"] "y" 10),
  .eval ["Sub"] "f" [],
  .eval ["Base"] "f" [],
  .struct (.setFormula ["Base"] "f" 1),
  .eval ["Sub"] "f" []]

#eval (run eP {} (eOps.take 7)).ex.data
#eval (run eP {} (eOps.take 8)).ex.data
#eval (run eP {} eOps).ex.data
#eval (run eP {} eOps).tabs
#eval answer eP (run eP {} eOps) ["Sub"] "f" []
#eval (List.range 10).map (fun k => stepCovered eP (run eP {} (eOps.take k)) (eOps.getD k (.clear [] "")))
