-- Root of the `MxModel` library (model files only; proofs live in MxModel.Proofs / MxModel.Props).
import MxModel.Kernels.Names
import MxModel.Kernels.Registry
