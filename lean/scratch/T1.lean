import MxModel.Struct.Mech
open MxModel.SM

def ops1 : List Op := [
  .newSpace [] "X" [], .newSpace [] "y" [], .newSpace [] "c" [],
  .newSpace [] "B1" [["X"],["y"]], .newSpace [] "B2" [["c"],["X"]],
  .newSpace [] "D" [["B1"],["B2"]], .newSpace [] "F" [["c"],["y"]],
  .newSpace [] "E" [["D"],["F"]]]

def kw0 : List String := []
#eval (St.run kw0 {} ops1).ids.map (fun q => (q, (St.run kw0 {} ops1).mro q))
#eval let st := (St.run kw0 {} (ops1 ++ [.delSpace ["X"]])); st.ids.map (fun q => (q, st.mro q))
