import MxModel.Kernels.Backup
import MxModel.Generated.Tables
/-! Line-protocol driver for the backup/save/load model (C14). -/
namespace Driver.Backup
open MxModel.Backup MxModel.Registry

def kw : List String := MxModel.Generated.pythonKeywords
def maxOn : Nat := MxModel.Generated.defaultMaxBackups

structure St where
  fs : FS := FS.empty
  /-- the state before the last `save` (for `back`) -/
  prev : FS := FS.empty
  sess : Session := {}

def showKind : Kind → String
  | .dir => "dir"
  | .zip => "zip"

def showSlot : Slot → String
  | .absent => "-"
  | .good k g => s!"good:{showKind k}:{g}"
  | .part k g => s!"part:{showKind k}:{g}"

def slotName (i : Nat) : String := if i = 0 then "P" else s!"B{i}"

def showFs (fs : FS) : String :=
  " ".intercalate ((List.range (max (maxOn + 2) 5)).map (fun i => s!"{slotName i}={showSlot (fs i)}"))

def showPrim : Prim → String
  | .rm i l => s!"rm{i}" ++ (if l then "!" else "")
  | .rename i => s!"mv{i}"
  | .mkroot _ => "mkroot"
  | .write _ l => if l then "W" else "w"
  | .tmp .plain => "t"
  | .tmp .create => "c"
  | .tmp .reopen => "r"
  | .tmp .guarded => "p"
  | .tmp .guardedClose => "q"
  | .move _ => "move"
  | .moveBroken _ => "move!"

/-- run-length compression of the token list -/
def compress (ts : List String) : List String :=
  let groups := ts.foldl (fun (acc : List (String × Nat)) t =>
    match acc with
    | (u, n) :: rest => if u == t then (u, n + 1) :: rest else (t, 1) :: acc
    | [] => [(t, 1)]) []
  groups.reverse.map (fun e => if e.2 = 1 then e.1 else s!"{e.1}*{e.2}")

def showReg (r : Reg) : String :=
  let ms := r.models.map (fun e => s!"{e.1}:{e.2.id}:{e.2.name}")
  "reg " ++ " ".intercalate ms

def b01 (b : Bool) : String := if b then "1" else "0"

def showSess (s : Session) : String :=
  showReg s.reg ++ s!" | flags={b01 s.serializing},{b01 s.ioSerializing}"

def parseKind (s : String) : Option Kind :=
  if s = "dir" then some .dir else if s = "zip" then some .zip else none

def parseTmp (c : Char) : Option TmpKind :=
  if c = 't' then some TmpKind.plain else if c = 'c' then some .create
  else if c = 'r' then some .reopen else if c = 'p' then some .guarded
  else if c = 'q' then some .guardedClose else none

/-- zip format: the operations before the move -/
def parsePre (s : String) : List TmpKind := s.toList.filterMap parseTmp

/-- directory format: the operations after `make_root` but the last (`w`: below the path) -/
def parseBody (s : String) : List (Option TmpKind) :=
  s.toList.filterMap (fun c => if c = 'w' then some none else (parseTmp c).map some)

/-- `os1` / `osP` / `perm1` / `permP`: error class, transient or persistent -/
def parsePolicy (s : String) : Option Policy :=
  if s = "os1" then some { exc := .os, persist := false }
  else if s = "osP" then some { exc := .os, persist := true }
  else if s = "perm1" then some { exc := .perm, persist := false }
  else if s = "permP" then some { exc := .perm, persist := true }
  else none

def parseLoadFail (s : String) : Option LoadFail :=
  if s = "nowhere" then some .nowhere else if s = "beforeNew" then some .beforeNew
  else if s = "rootSource" then some .rootSource else if s = "afterRename" then some .afterRename
  else none

def parseSavePhase (s : String) : Option SavePhase :=
  if s = "rotation" then some .rotation else if s = "beforeFlags" then some .beforeFlags
  else if s = "body" then some .body else if s = "cleanup" then some .cleanup
  else if s = "nowhere" then some .nowhere else none

def step (st : St) (line : String) : St × String :=
  match (line.splitOn " ").filter (· ≠ "") with
  | ["reset"] => ({}, "ok")
  | ["save", b, kind, g, nrm, n1, n2, k, pol] =>
    match parseKind kind, g.toNat?, nrm.toNat?, n2.toNat?, parsePolicy pol with
    | some kd, some g, some nrm, some n2, some pol =>
      let mb := if b = "B" then maxOn else 0
      let sv : Save := { kind := kd, g := g, nrm := nrm, body := parseBody n1,
                         pre := parsePre n1, n2 := n2, pol := pol }
      let pl := plan mb sv st.fs
      let kk := match k.toNat? with | some k => k | none => pl.length
      let r := save mb sv kk st.fs
      ({ st with fs := r.1, prev := st.fs },
        (if r.2 then "ok" else "fail") ++ s!" len={pl.length} plan=" ++
          ",".intercalate (compress (pl.map showPrim)) ++ " | " ++ showFs r.1)
    | _, _, _, _, _ => (st, "bad-op")
  | ["back"] => ({ st with fs := st.prev }, "ok")
  | ["obs"] => (st, showFs st.fs)
  | ["newmodel", n] =>
    match newModel kw st.sess.reg (some n) with
    | (r', .ok i) => ({ st with sess := { st.sess with reg := r' } }, s!"ok {i}")
    | (r', .error _) => ({ st with sess := { st.sess with reg := r' } }, "err")
  | ["closemodel", i] =>
    match i.toNat? with
    | some i => ({ st with sess := { st.sess with reg := (close st.sess.reg i).1 } }, "ok")
    | none => (st, "bad-op")
  | ["load", n, f] =>
    match parseLoadFail f with
    | some f =>
      let s' := sessLoad kw st.sess n f
      ({ st with sess := s' }, showSess s')
    | none => (st, "bad-op")
  | ["sess-save", ph] =>
    match parseSavePhase ph with
    | some ph =>
      let s' := sessSave st.sess ph
      ({ st with sess := s' }, showSess s')
    | none => (st, "bad-op")
  | ["sess"] => (st, showSess st.sess)
  | _ => (st, "bad-op")

partial def loop (h : IO.FS.Stream) (out : IO.FS.Stream) (st : St) : IO Unit := do
  let line ← h.getLine
  if line.isEmpty then return ()
  let (st', o) := step st (line.trimAscii.toString)
  out.putStrLn o
  loop h out st'

def main : IO Unit := do
  loop (← IO.getStdin) (← IO.getStdout) {}

end Driver.Backup
