import MxModel.Kernels.IOSession
/-! Line-protocol driver for the session-level IOSpec model (C19 / C14 / C18).

    reset | newmodel | close M | newspec M NAME PATH 0|1 SHEET VAL | bind M NAME VAL | unbind M NAME
    load 0|1 ITEM;ITEM;…|-     (ITEM = NAME,PATH,0|1,SHEET,VAL,0|1)
    closeMutG M | loadMutG …   (the seeded variants, for the harness's self test only)
    obs

`PATH` is `A:<name>` (absolute) or `R:<name>` (relative); `SHEET = -` is `None`; the flag after the path
says whether the file can hold several specs (a workbook).  Answers: `ok`, `ok <model>`, `err <kind>`.
`obs`: for every model ever created (open or closed) its `iospecs`, each as
`<group>:<path>#<sheet>{names bound to the value}`, sorted; then the keys of `IOManager.ios` with the number
of specs of each file, sorted. -/
namespace Driver.IOSession
open MxModel.IOSession

def parsePath? (s : String) : Option Path :=
  if s.startsWith "A:" then some ⟨true, (s.drop 2).toString⟩
  else if s.startsWith "R:" then some ⟨false, (s.drop 2).toString⟩
  else none

def showPath (p : Path) : String := (if p.abs then "A:" else "R:") ++ p.name

def parseSheet (s : String) : Option String := if s = "-" then none else some s
def showSheet : Option String → String
  | none => "-"
  | some s => s

def showGroup : Option Nat → String
  | none => "-"
  | some g => toString g

def parseBool? (s : String) : Option Bool :=
  if s = "1" then some true else if s = "0" then some false else none

def showAns : Ans → String
  | .ok => "ok"
  | .model m => s!"ok {m}"
  | .closedModel => "err closedModel"
  | .cannotAdd => "err cannotAdd"
  | .noSuchRef => "err noSuchRef"
  | .noSuchModel => "err noSuchModel"
  | .loadFailed => "err loadFailed"
  | .outOfDomain => "err outOfDomain"

def insertSorted (s : String) : List String → List String
  | [] => [s]
  | a :: rest => if s ≤ a then s :: a :: rest else a :: insertSorted s rest

def sortStrings (l : List String) : List String := l.foldl (fun acc s => insertSorted s acc) []

def showFound (st : St) (m : Nat) (f : Found) : String :=
  let names := sortStrings ((st.refs.filter (fun r => r.model == m && r.val == f.spec.val)).map (·.name))
  s!"{showGroup f.group}:{showPath f.path}#{showSheet f.spec.sheet}" ++ "{" ++ ",".intercalate names ++ "}"

def observe (st : St) : String :=
  let ms := List.range st.nextModel
  let specs := ms.map (fun m =>
    s!"m{m}=[" ++ " ".intercalate (sortStrings ((specsOf st m).map (showFound st m))) ++ "]")
  let keys := sortStrings (st.ios.map (fun io => s!"{showGroup io.group}:{showPath io.path}#{io.specs.length}"))
  " ".intercalate specs ++ " | ios=[" ++ " ".intercalate keys ++ "]"

def parseItem? (s : String) : Option Item :=
  match s.splitOn "," with
  | [n, p, mu, sh, v, b] => do
    some ⟨n, ← parsePath? p, ← parseBool? mu, parseSheet sh, ← v.toNat?, ← parseBool? b⟩
  | _ => none

def parseItems? (s : String) : Option (List Item) :=
  if s = "-" then some [] else (s.splitOn ";").mapM parseItem?

def parseOp (toks : List String) : Option Op :=
  match toks with
  | ["newmodel"] => some .newModel
  | ["close", m] => m.toNat?.map .close
  | ["newspec", m, n, p, mu, sh, v] => do
    some (.newSpec (← m.toNat?) n (← parsePath? p) (← parseBool? mu) (parseSheet sh) (← v.toNat?))
  | ["bind", m, n, v] => do some (.bind (← m.toNat?) n (← v.toNat?))
  | ["unbind", m, n] => do some (.unbind (← m.toNat?) n)
  | ["load", ok, items] => do some (.load (← parseItems? items) (← parseBool? ok))
  | _ => none

/-- a failed load whose clean-up is the seeded one (C14-mutG) -/
def loadMutG (st : St) (items : List Item) : St :=
  let m := st.nextModel
  let st1 := { st with opened := st.opened ++ [m], nextModel := m + 1 }
  match readSpecs st1 m items [] with
  | (st2, _, all) => cleanupMutG (bindItems st2 m (if all then items else [])) m

def stepLine (st : St) (line : String) : St × String :=
  match (line.splitOn " ").filter (· ≠ "") with
  | ["reset"] => ({}, "ok")
  | ["obs"] => (st, observe st)
  | ["closeMutG", m] =>
    (match m.toNat? with
     | some m => (closeModelMutG st m, "ok")
     | none => (st, "bad-op"))
  | ["loadMutG", items] =>
    (match parseItems? items with
     | some items => (loadMutG st items, "err loadFailed")
     | none => (st, "bad-op"))
  | toks =>
    match parseOp toks with
    | none => (st, "bad-op")
    | some op => let r := stepR st op; (r.1, showAns r.2)

partial def loop (h : IO.FS.Stream) (out : IO.FS.Stream) (st : St) : IO Unit := do
  let line ← h.getLine
  if line.isEmpty then return ()
  let (st', o) := stepLine st (line.trimAscii.toString)
  out.putStrLn o
  loop h out st'

def main : IO Unit := do
  loop (← IO.getStdin) (← IO.getStdout) {}

end Driver.IOSession
