import MxModel.Kernels.RelativeHist
/-! Line-protocol driver for the reference state machine (C10 over histories, `Kernels/RelativeHist.lean`):
one operation per line (`acc` / `rej`), `refs` prints every derived reference of every space, `dirty` the
spaces whose enclosing linearisations changed since they were derived. -/
namespace Driver.RelHist
open MxModel.Relative MxModel.RelHist

def decPath (s : String) : Path := if s = "-" then [] else s.splitOn "."
def encPath (p : Path) : String := if p = [] then "-" else ".".intercalate p
def csv (s : String) : List String := if s = "-" then [] else (s.splitOn ",").filter (· ≠ "")
def sorted (xs : List String) : List String := (xs.toArray.qsort (· < ·)).toList

def decMode (s : String) : Option Mode :=
  match s with
  | "auto" => some .auto
  | "relative" => some .relative
  | "absolute" => some .absolute
  | _ => none

def showMode : Mode → String
  | .auto => "auto"
  | .relative => "relative"
  | .absolute => "absolute"

def decTarget (kind v : String) : Option Target :=
  match kind with
  | "obj" => some (.obj (decPath v))
  | "plain" => some (.plain (v.toInt?.getD 0))
  | _ => none

/-- the flag of a reference that holds no object is not shown (it means nothing); an object that was
deleted since (a cells a space no longer derives) is seen as an invalid interface, like a null object -/
def showRef (st : RState) (q : Path) (n : String) (r : DRef) : String :=
  match r.binding.target with
  | .obj p =>
    if st.exist p then s!"{encPath q}.{n} {showMode r.mode} obj:{encPath p} {if r.binding.isRelative then "R" else "A"}"
    else s!"{encPath q}.{n} {showMode r.mode} null {if r.binding.isRelative then "R" else "A"}"
  | .null => s!"{encPath q}.{n} {showMode r.mode} null {if r.binding.isRelative then "R" else "A"}"
  | .plain v => s!"{encPath q}.{n} {showMode r.mode} plain:{v} -"

def showRefs (st : RState) : String :=
  " | ".intercalate (sorted (st.ids.flatMap (fun q => st.names.filterMap (fun n =>
    match st.ref q n with
    | some ⟨false, r⟩ => some (showRef st q n r)
    | _ => none))))

def parseOp (toks : List String) : Option ROp :=
  match toks with
  | ["newspace", parent, name, bases, cells] => some (.newSpace (decPath parent) name ((csv bases).map decPath) (csv cells))
  | ["newcells", p, c] => some (.newCells (decPath p) c)
  | ["delcells", p, c] => some (.delCells (decPath p) c)
  | ["setref", p, n, kind, v, m] =>
    match decTarget kind v, decMode m with
    | some t, some m => some (.setRef (decPath p) n t m)
    | _, _ => none
  | ["delref", p, n] => some (.delRef (decPath p) n)
  | ["addbase", p, b] => some (.addBase (decPath p) (decPath b))
  | ["rmbase", p, b] => some (.removeBase (decPath p) (decPath b))
  | _ => none

def step (st : RState) (line : String) : RState × String :=
  match (line.splitOn " ").filter (· ≠ "") with
  | ["reset"] => ({}, "ok")
  | ["refs"] => (st, showRefs st)
  | ["dirty"] => (st, ",".intercalate (sorted ((st.ids.filter st.dirty).map encPath)))
  | toks =>
    match parseOp toks with
    | none => (st, "bad-op")
    | some op =>
      match st.apply op with
      | some st' => (st', "acc")
      | none => (st, "rej")

partial def loop (h out : IO.FS.Stream) (st : RState) : IO Unit := do
  let line ← h.getLine
  if line.isEmpty then return ()
  let (st', o) := step st (line.trimAscii.toString)
  out.putStrLn o
  loop h out st'

def main : IO Unit := do loop (← IO.getStdin) (← IO.getStdout) {}

end Driver.RelHist
