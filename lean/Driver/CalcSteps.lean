import MxModel.Kernels.CalcSteps
/-!
Line-protocol driver for the calc-steps kernel (C16).

* `plan <size> ; <ordered> ; <targets> ; <p>n edges>`
    → `<actions> ; pasted=<final pasted> ; topo=<0|1> ; nodup=<0|1>`
* `gen <fuel> ; <n:p,p preds> ; <user inputs> ; <targets> ; <pre>`
    → `calculated=<executions while tracing> ; extra=<planned from the graph, sorted> ; <held sorted>/<inputs sorted>`
    (state left behind);
    the elements of `<pre>` are evaluated, in that order, before `generate_actions` is modelled
* `exec <fuel> ; <n:p,p preds> ; <actions>`
    → after every action `<held sorted>/<inputs sorted>`, joined by `|`, then ` ; log=<executions>`
* `execfrom <fuel> ; <n:p,p preds> ; <user inputs> ; <pre> ; <actions>`
    → the same from the cache that holds the user inputs and the values of `<pre>` (evaluated first);
    the log lists the executions of the actions only

* `vexecfrom <fuel> ; <n:p,p preds> ; <user inputs n=v> ; <pre> ; <n=base,mod:callee,callee formulas> ; <actions>`
    → the VALUED cache (`executeV`-style, one action at a time) from the cache that holds the user inputs with their
    values and the values of `<pre>`: after every action the held values `<n=v …>` sorted by element, joined by `|`.
    Values are numbers or `N` (None).  The evaluation function is the harness' formula shape: start from `base`, for
    every call in source order `r = (r*3 + nz(value of the callee)) % 1000003` (`nz`: None ↦ 5), `None` when `mod ≠ 0`
    and `mod ∣ r`; the callee's value is looked up among the values of the precedents (`f` reads nothing else); a
    callee WITHOUT a value poisons the result (`999999999`).

Actions are written `calc 0 1|paste 1 0|clear`.
-/
namespace Driver.CalcSteps
open MxModel.CalcSteps

/-- tokens of a section; an empty section is written `-` -/
def toks (s : String) : List String := (s.splitOn " ").filter (fun t => t ≠ "" ∧ t ≠ "-")

def nats (s : String) : Option (List Nat) := (toks s).mapM String.toNat?

def showNodes (ns : List Nat) : String := " ".intercalate (ns.map toString)

def showAction : Action → String
  | .doCalc ns => ("calc " ++ showNodes ns).trimAsciiEnd.toString
  | .doPaste ns => ("paste " ++ showNodes ns).trimAsciiEnd.toString
  | .doClear ns => ("clear " ++ showNodes ns).trimAsciiEnd.toString

def parseAction (s : String) : Option Action :=
  match (s.splitOn " ").filter (· ≠ "") with
  | "calc" :: r => (r.mapM String.toNat?).map .doCalc
  | "paste" :: r => (r.mapM String.toNat?).map .doPaste
  | "clear" :: r => (r.mapM String.toNat?).map .doClear
  | _ => none

def parseEdge (s : String) : Option (Nat × Nat) :=
  match s.splitOn ">" with
  | [a, b] => do some ((← a.toNat?), (← b.toNat?))
  | _ => none

def parsePreds (s : String) : Option (Nat × List Nat) :=
  match s.splitOn ":" with
  | [a, b] => do
    let n ← a.toNat?
    let ps ← ((b.splitOn ",").filter (· ≠ "")).mapM String.toNat?
    some (n, ps)
  | _ => none

def sortNat (xs : List Nat) : List Nat := (xs.toArray.qsort (· < ·)).toList

def b2s (b : Bool) : String := if b then "1" else "0"

def doPlan (size : Nat) (ordered targets : List Nat) (edges : List (Nat × Nat)) : String :=
  let succs : Node → List Node := fun n => (edges.filter (·.1 == n)).map (·.2)
  if size = 0 ∧ ordered ≠ [] then "diverges"
  else
    let acts := calcSteps ordered succs targets size
    let fp := finalPasted ordered succs targets size
    "|".intercalate (acts.map showAction) ++ " ; pasted=" ++ showNodes fp
      ++ " ; topo=" ++ b2s (isTopo succs ordered) ++ " ; nodup=" ++ b2s (decide ordered.Nodup)

def predFn (preds : List (Nat × List Nat)) : Node → List Node := fun n =>
  match preds.find? (·.1 == n) with | some e => e.2 | none => []

def doExec (fuel : Nat) (preds : List (Nat × List Nat)) (acts : List Action) : String :=
  let pf : Node → List Node := predFn preds
  let step := fun (acc : Cache × List String) (a : Action) =>
    let c := execAction pf fuel acc.1 a
    (c, acc.2 ++ [showNodes (sortNat c.held) ++ "/" ++ showNodes (sortNat c.inputs)])
  let r := acts.foldl step (({} : Cache), [])
  "|".intercalate r.2 ++ " ; log=" ++ showNodes r.1.log

/-- the user inputs, then the direct evaluation of `pre` -/
def startCache (fuel : Nat) (pf : Node → List Node) (inputs pre : List Nat) : Cache :=
  pre.foldl (fun c n => evalNode pf fuel n c) { held := inputs, inputs := inputs }

def doExecFrom (fuel : Nat) (preds : List (Nat × List Nat)) (inputs pre : List Nat) (acts : List Action) :
    String :=
  let pf : Node → List Node := predFn preds
  let c0 := startCache fuel pf inputs pre
  let step := fun (acc : Cache × List String) (a : Action) =>
    let c := execAction pf fuel acc.1 a
    (c, acc.2 ++ [showNodes (sortNat c.held) ++ "/" ++ showNodes (sortNat c.inputs)])
  let r := acts.foldl step (c0, [])
  "|".intercalate r.2 ++ " ; log=" ++ showNodes (r.1.log.drop c0.log.length)

def doGen (fuel : Nat) (preds : List (Nat × List Nat)) (inputs targets pre : List Nat) : String :=
  let c0 : Cache := startCache fuel (predFn preds) inputs pre
  let c := generateLeaves (predFn preds) fuel targets c0
  "calculated=" ++ showNodes (calculated (predFn preds) fuel targets c0) ++ " ; extra="
    ++ showNodes (sortNat (preHeld (predFn preds) fuel targets c0)) ++ " ; "
    ++ showNodes (sortNat c.held) ++ "/" ++ showNodes (sortNat c.inputs)

/-! ### the valued cache -/

structure Spec where
  base : Nat
  noneMod : Nat
  calls : List Nat

def poison : Nat := 999999999

/-- the harness' formula shape as an evaluation function that reads the precedents' values only -/
def valF (specs : List (Nat × Spec)) (pf : Node → List Node) : Node → List (Option (Option Nat)) → Option Nat :=
  fun n vs =>
    match specs.find? (·.1 == n) with
    | none => some poison
    | some (_, sp) =>
      let env := (pf n).zip vs
      let r := sp.calls.foldl (fun (r : Option Nat) c =>
        match r, env.find? (·.1 == c) with
        | some r, some (_, some v) => some ((r * 3 + (match v with | some x => x | none => 5)) % 1000003)
        | _, _ => none) (some sp.base)
      match r with
      | none => some poison
      | some r => if sp.noneMod ≠ 0 ∧ r % sp.noneMod = 0 then none else some r

def parseVal (s : String) : Option (Option Nat) := if s = "N" then some none else s.toNat?.map some

def parseInput (s : String) : Option (Nat × Option Nat) :=
  match s.splitOn "=" with
  | [a, b] => do some ((← a.toNat?), (← parseVal b))
  | _ => none

def parseSpec (s : String) : Option (Nat × Spec) :=
  match s.splitOn "=" with
  | [a, b] =>
    match b.splitOn ":" with
    | [hd, cs] =>
      match hd.splitOn "," with
      | [ba, mo] => do
        let calls ← ((cs.splitOn ",").filter (· ≠ "")).mapM String.toNat?
        some ((← a.toNat?), { base := (← ba.toNat?), noneMod := (← mo.toNat?), calls := calls })
      | _ => none
    | _ => none
  | _ => none

def showVal : Option Nat → String
  | none => "N"
  | some x => toString x

def showData (d : List (Nat × Option Nat)) : String :=
  " ".intercalate ((d.toArray.qsort (fun a b => a.1 < b.1)).toList.map (fun e => toString e.1 ++ "=" ++ showVal e.2))

def doVExecFrom (fuel : Nat) (preds : List (Nat × List Nat)) (inputs : List (Nat × Option Nat)) (pre : List Nat)
    (specs : List (Nat × Spec)) (acts : List Action) : String :=
  let pf : Node → List Node := predFn preds
  let f := valF specs pf
  let c0 : VCache (Option Nat) :=
    pre.foldl (fun c n => evalNodeV f pf fuel n c) { data := inputs, inputs := inputs.map (·.1) }
  let step := fun (acc : VCache (Option Nat) × List String) (a : Action) =>
    let c := execActionV f pf fuel acc.1 a
    (c, acc.2 ++ [showData c.data])
  let r := acts.foldl step (c0, [])
  "|".intercalate r.2

def step (line : String) : String :=
  match line.splitOn " ; " with
  | [h, p, i, t, sp, x] =>
    match (h.splitOn " ").filter (· ≠ "") with
    | ["vexecfrom", f] =>
      match f.toNat?, (toks p).mapM parsePreds, (toks i).mapM parseInput, nats t, (toks sp).mapM parseSpec,
          ((x.splitOn "|").filter (fun t => t ≠ "" ∧ t ≠ "-")).mapM parseAction with
      | some f, some p, some i, some t, some sp, some a => doVExecFrom f p i t sp a
      | _, _, _, _, _, _ => "bad-op"
    | _ => "bad-op"
  | [h, p, i, t, x] =>
    match (h.splitOn " ").filter (· ≠ "") with
    | ["gen", f] =>
      match f.toNat?, (toks p).mapM parsePreds, nats i, nats t, nats x with
      | some f, some p, some i, some t, some x => doGen f p i t x
      | _, _, _, _, _ => "bad-op"
    | ["execfrom", f] =>
      match f.toNat?, (toks p).mapM parsePreds, nats i, nats t,
          ((x.splitOn "|").filter (fun t => t ≠ "" ∧ t ≠ "-")).mapM parseAction with
      | some f, some p, some i, some t, some a => doExecFrom f p i t a
      | _, _, _, _, _ => "bad-op"
    | _ => "bad-op"
  | [h, o, t, e] =>
    match (h.splitOn " ").filter (· ≠ "") with
    | ["plan", z] =>
      match z.toNat?, nats o, nats t, (toks e).mapM parseEdge with
      | some z, some o, some t, some e => doPlan z o t e
      | _, _, _, _ => "bad-op"
    | _ => "bad-op"
  | [h, p, a] =>
    match (h.splitOn " ").filter (· ≠ "") with
    | ["exec", f] =>
      match f.toNat?, (toks p).mapM parsePreds,
          ((a.splitOn "|").filter (fun t => t ≠ "" ∧ t ≠ "-")).mapM parseAction with
      | some f, some p, some a => doExec f p a
      | _, _, _ => "bad-op"
    | _ => "bad-op"
  | _ => "bad-op"

partial def loop (h : IO.FS.Stream) (out : IO.FS.Stream) : IO Unit := do
  let line ← h.getLine
  if line.isEmpty then return ()
  out.putStrLn (step (line.trimAscii.toString))
  loop h out

def main : IO Unit := do
  loop (← IO.getStdin) (← IO.getStdout)

end Driver.CalcSteps
