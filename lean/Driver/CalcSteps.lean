import MxModel.Kernels.CalcSteps
/-!
Line-protocol driver for the calc-steps kernel (C16).

* `plan <size> ; <ordered> ; <targets> ; <p>n edges>`
    → `<actions> ; pasted=<final pasted> ; topo=<0|1> ; nodup=<0|1>`
* `gen <fuel> ; <n:p,p preds> ; <user inputs> ; <targets> ; -`
    → `calculated=<executions while tracing> ; <held sorted>/<inputs sorted>` (state left behind)
* `exec <fuel> ; <n:p,p preds> ; <actions>`
    → after every action `<held sorted>/<inputs sorted>`, joined by `|`, then ` ; log=<executions>`

Actions are written `calc 0 1|paste 1 0|clear`.
-/
namespace Driver.CalcSteps
open MxModel.CalcSteps

/-- tokens of a section; an empty section is written `-` -/
def toks (s : String) : List String := (s.splitOn " ").filter (fun t => t ≠ "" ∧ t ≠ "-")

def nats (s : String) : Option (List Nat) := (toks s).mapM String.toNat?

def showNodes (ns : List Nat) : String := " ".intercalate (ns.map toString)

def showAction : Action → String
  | .doCalc ns => ("calc " ++ showNodes ns).trimAsciiEnd.toString
  | .doPaste ns => ("paste " ++ showNodes ns).trimAsciiEnd.toString
  | .doClear ns => ("clear " ++ showNodes ns).trimAsciiEnd.toString

def parseAction (s : String) : Option Action :=
  match (s.splitOn " ").filter (· ≠ "") with
  | "calc" :: r => (r.mapM String.toNat?).map .doCalc
  | "paste" :: r => (r.mapM String.toNat?).map .doPaste
  | "clear" :: r => (r.mapM String.toNat?).map .doClear
  | _ => none

def parseEdge (s : String) : Option (Nat × Nat) :=
  match s.splitOn ">" with
  | [a, b] => do some ((← a.toNat?), (← b.toNat?))
  | _ => none

def parsePreds (s : String) : Option (Nat × List Nat) :=
  match s.splitOn ":" with
  | [a, b] => do
    let n ← a.toNat?
    let ps ← ((b.splitOn ",").filter (· ≠ "")).mapM String.toNat?
    some (n, ps)
  | _ => none

def sortNat (xs : List Nat) : List Nat := (xs.toArray.qsort (· < ·)).toList

def b2s (b : Bool) : String := if b then "1" else "0"

def doPlan (size : Nat) (ordered targets : List Nat) (edges : List (Nat × Nat)) : String :=
  let succs : Node → List Node := fun n => (edges.filter (·.1 == n)).map (·.2)
  if size = 0 ∧ ordered ≠ [] then "diverges"
  else
    let acts := calcSteps ordered succs targets size
    let fp := finalPasted ordered succs targets size
    "|".intercalate (acts.map showAction) ++ " ; pasted=" ++ showNodes fp
      ++ " ; topo=" ++ b2s (isTopo succs ordered) ++ " ; nodup=" ++ b2s (decide ordered.Nodup)

def predFn (preds : List (Nat × List Nat)) : Node → List Node := fun n =>
  match preds.find? (·.1 == n) with | some e => e.2 | none => []

def doExec (fuel : Nat) (preds : List (Nat × List Nat)) (acts : List Action) : String :=
  let pf : Node → List Node := predFn preds
  let step := fun (acc : Cache × List String) (a : Action) =>
    let c := execAction pf fuel acc.1 a
    (c, acc.2 ++ [showNodes (sortNat c.held) ++ "/" ++ showNodes (sortNat c.inputs)])
  let r := acts.foldl step (({} : Cache), [])
  "|".intercalate r.2 ++ " ; log=" ++ showNodes r.1.log

def doGen (fuel : Nat) (preds : List (Nat × List Nat)) (inputs targets : List Nat) : String :=
  let c0 : Cache := { held := inputs, inputs := inputs }
  let c := generateLeaves (predFn preds) fuel targets c0
  "calculated=" ++ showNodes (calculated (predFn preds) fuel targets c0) ++ " ; "
    ++ showNodes (sortNat c.held) ++ "/" ++ showNodes (sortNat c.inputs)

def step (line : String) : String :=
  match line.splitOn " ; " with
  | [h, p, i, t, _] =>
    match (h.splitOn " ").filter (· ≠ "") with
    | ["gen", f] =>
      match f.toNat?, (toks p).mapM parsePreds, nats i, nats t with
      | some f, some p, some i, some t => doGen f p i t
      | _, _, _, _ => "bad-op"
    | _ => "bad-op"
  | [h, o, t, e] =>
    match (h.splitOn " ").filter (· ≠ "") with
    | ["plan", z] =>
      match z.toNat?, nats o, nats t, (toks e).mapM parseEdge with
      | some z, some o, some t, some e => doPlan z o t e
      | _, _, _, _ => "bad-op"
    | _ => "bad-op"
  | [h, p, a] =>
    match (h.splitOn " ").filter (· ≠ "") with
    | ["exec", f] =>
      match f.toNat?, (toks p).mapM parsePreds,
          ((a.splitOn "|").filter (fun t => t ≠ "" ∧ t ≠ "-")).mapM parseAction with
      | some f, some p, some a => doExec f p a
      | _, _, _ => "bad-op"
    | _ => "bad-op"
  | _ => "bad-op"

partial def loop (h : IO.FS.Stream) (out : IO.FS.Stream) : IO Unit := do
  let line ← h.getLine
  if line.isEmpty then return ()
  out.putStrLn (step (line.trimAscii.toString))
  loop h out

def main : IO Unit := do
  loop (← IO.getStdin) (← IO.getStdout)

end Driver.CalcSteps
