import MxModel.Kernels.CalcSteps
/-!
Line-protocol driver for the calc-steps kernel (C16).

* `plan <size> ; <ordered> ; <targets> ; <p>n edges>`
    → `<actions> ; pasted=<final pasted> ; topo=<0|1> ; nodup=<0|1>`
* `gen <fuel> ; <n:p,p preds> ; <user inputs> ; <targets> ; <pre>`
    → `calculated=<executions while tracing> ; extra=<planned from the graph, sorted> ; <held sorted>/<inputs sorted>`
    (state left behind);
    the elements of `<pre>` are evaluated, in that order, before `generate_actions` is modelled
* `exec <fuel> ; <n:p,p preds> ; <actions>`
    → after every action `<held sorted>/<inputs sorted>`, joined by `|`, then ` ; log=<executions>`
* `execfrom <fuel> ; <n:p,p preds> ; <user inputs> ; <pre> ; <actions>`
    → the same from the cache that holds the user inputs and the values of `<pre>` (evaluated first);
    the log lists the executions of the actions only

Actions are written `calc 0 1|paste 1 0|clear`.
-/
namespace Driver.CalcSteps
open MxModel.CalcSteps

/-- tokens of a section; an empty section is written `-` -/
def toks (s : String) : List String := (s.splitOn " ").filter (fun t => t ≠ "" ∧ t ≠ "-")

def nats (s : String) : Option (List Nat) := (toks s).mapM String.toNat?

def showNodes (ns : List Nat) : String := " ".intercalate (ns.map toString)

def showAction : Action → String
  | .doCalc ns => ("calc " ++ showNodes ns).trimAsciiEnd.toString
  | .doPaste ns => ("paste " ++ showNodes ns).trimAsciiEnd.toString
  | .doClear ns => ("clear " ++ showNodes ns).trimAsciiEnd.toString

def parseAction (s : String) : Option Action :=
  match (s.splitOn " ").filter (· ≠ "") with
  | "calc" :: r => (r.mapM String.toNat?).map .doCalc
  | "paste" :: r => (r.mapM String.toNat?).map .doPaste
  | "clear" :: r => (r.mapM String.toNat?).map .doClear
  | _ => none

def parseEdge (s : String) : Option (Nat × Nat) :=
  match s.splitOn ">" with
  | [a, b] => do some ((← a.toNat?), (← b.toNat?))
  | _ => none

def parsePreds (s : String) : Option (Nat × List Nat) :=
  match s.splitOn ":" with
  | [a, b] => do
    let n ← a.toNat?
    let ps ← ((b.splitOn ",").filter (· ≠ "")).mapM String.toNat?
    some (n, ps)
  | _ => none

def sortNat (xs : List Nat) : List Nat := (xs.toArray.qsort (· < ·)).toList

def b2s (b : Bool) : String := if b then "1" else "0"

def doPlan (size : Nat) (ordered targets : List Nat) (edges : List (Nat × Nat)) : String :=
  let succs : Node → List Node := fun n => (edges.filter (·.1 == n)).map (·.2)
  if size = 0 ∧ ordered ≠ [] then "diverges"
  else
    let acts := calcSteps ordered succs targets size
    let fp := finalPasted ordered succs targets size
    "|".intercalate (acts.map showAction) ++ " ; pasted=" ++ showNodes fp
      ++ " ; topo=" ++ b2s (isTopo succs ordered) ++ " ; nodup=" ++ b2s (decide ordered.Nodup)

def predFn (preds : List (Nat × List Nat)) : Node → List Node := fun n =>
  match preds.find? (·.1 == n) with | some e => e.2 | none => []

def doExec (fuel : Nat) (preds : List (Nat × List Nat)) (acts : List Action) : String :=
  let pf : Node → List Node := predFn preds
  let step := fun (acc : Cache × List String) (a : Action) =>
    let c := execAction pf fuel acc.1 a
    (c, acc.2 ++ [showNodes (sortNat c.held) ++ "/" ++ showNodes (sortNat c.inputs)])
  let r := acts.foldl step (({} : Cache), [])
  "|".intercalate r.2 ++ " ; log=" ++ showNodes r.1.log

/-- the user inputs, then the direct evaluation of `pre` -/
def startCache (fuel : Nat) (pf : Node → List Node) (inputs pre : List Nat) : Cache :=
  pre.foldl (fun c n => evalNode pf fuel n c) { held := inputs, inputs := inputs }

def doExecFrom (fuel : Nat) (preds : List (Nat × List Nat)) (inputs pre : List Nat) (acts : List Action) :
    String :=
  let pf : Node → List Node := predFn preds
  let c0 := startCache fuel pf inputs pre
  let step := fun (acc : Cache × List String) (a : Action) =>
    let c := execAction pf fuel acc.1 a
    (c, acc.2 ++ [showNodes (sortNat c.held) ++ "/" ++ showNodes (sortNat c.inputs)])
  let r := acts.foldl step (c0, [])
  "|".intercalate r.2 ++ " ; log=" ++ showNodes (r.1.log.drop c0.log.length)

def doGen (fuel : Nat) (preds : List (Nat × List Nat)) (inputs targets pre : List Nat) : String :=
  let c0 : Cache := startCache fuel (predFn preds) inputs pre
  let c := generateLeaves (predFn preds) fuel targets c0
  "calculated=" ++ showNodes (calculated (predFn preds) fuel targets c0) ++ " ; extra="
    ++ showNodes (sortNat (preHeld (predFn preds) fuel targets c0)) ++ " ; "
    ++ showNodes (sortNat c.held) ++ "/" ++ showNodes (sortNat c.inputs)

def step (line : String) : String :=
  match line.splitOn " ; " with
  | [h, p, i, t, x] =>
    match (h.splitOn " ").filter (· ≠ "") with
    | ["gen", f] =>
      match f.toNat?, (toks p).mapM parsePreds, nats i, nats t, nats x with
      | some f, some p, some i, some t, some x => doGen f p i t x
      | _, _, _, _, _ => "bad-op"
    | ["execfrom", f] =>
      match f.toNat?, (toks p).mapM parsePreds, nats i, nats t,
          ((x.splitOn "|").filter (fun t => t ≠ "" ∧ t ≠ "-")).mapM parseAction with
      | some f, some p, some i, some t, some a => doExecFrom f p i t a
      | _, _, _, _, _ => "bad-op"
    | _ => "bad-op"
  | [h, o, t, e] =>
    match (h.splitOn " ").filter (· ≠ "") with
    | ["plan", z] =>
      match z.toNat?, nats o, nats t, (toks e).mapM parseEdge with
      | some z, some o, some t, some e => doPlan z o t e
      | _, _, _, _ => "bad-op"
    | _ => "bad-op"
  | [h, p, a] =>
    match (h.splitOn " ").filter (· ≠ "") with
    | ["exec", f] =>
      match f.toNat?, (toks p).mapM parsePreds,
          ((a.splitOn "|").filter (fun t => t ≠ "" ∧ t ≠ "-")).mapM parseAction with
      | some f, some p, some a => doExec f p a
      | _, _, _ => "bad-op"
    | _ => "bad-op"
  | _ => "bad-op"

partial def loop (h : IO.FS.Stream) (out : IO.FS.Stream) : IO Unit := do
  let line ← h.getLine
  if line.isEmpty then return ()
  out.putStrLn (step (line.trimAscii.toString))
  loop h out

def main : IO Unit := do
  loop (← IO.getStdin) (← IO.getStdout)

end Driver.CalcSteps
