import MxModel.Kernels.ItemSpace
import MxModel.Generated.Tables
/-! Line-protocol driver for the ItemSpace model (C07): `mxdriver items`.

Tokens are separated by blanks; `-` is the empty list / none.
* paths `S.X.Z`; signatures `i,j=2`; argument lists `1,2`; keywords `j=2,i=1`
* chains: segments separated by `;` – `c:<args>:<kw>` (call / subscription), `n:<name>` (child)
* `space P sig sel` (new) | `param P sig sel` | `delspace P` | `edit kind P`
* `item R chain` | `clearat R chain args kw` | `delitem R chain key` | `clearitems R chain` | `clearall R chain`
* `obs` – every reachable live dynamic space: `path|dkey|h<interface>|<base path>` in table order
* `bind sig args kw` – the kernel alone
* `ref name allargs own dynbase global` – lookup through the reference chain of `Generated.mxDynRefsOrder`
  (`allargs`: maps separated by `|`, innermost first; maps `a=1,b=2`)
-/
namespace Driver.ItemSpace
open MxModel.ItemSpace

def csv (s : String) : List String := if s = "-" then [] else (s.splitOn ",").filter (· ≠ "")
def pathOf (s : String) : Path := if s = "-" then [] else s.splitOn "."
def showPath (p : Path) : String := if p = [] then "-" else ".".intercalate p

def intOf (s : String) : Val := s.toInt?.getD 0
def valsOf (s : String) : List Val := (csv s).map intOf

def kwOf (s : String) : KwArgs :=
  (csv s).filterMap (fun e => match e.splitOn "=" with
    | [k, v] => some (k, intOf v)
    | _ => none)

def sigOf (s : String) : Option Sig :=
  if s = "-" then none
  else some ((s.splitOn ",").filter (· ≠ "") |>.map (fun e => match e.splitOn "=" with
    | [k, v] => ⟨k, some (intOf v)⟩
    | _ => ⟨e, none⟩))

def selOf (s : String) : Option Path := if s = "-" then none else some (pathOf s)

def segOf (s : String) : Option ChainSeg :=
  match s.splitOn ":" with
  | ["c", a, k] => some (.call (valsOf a) (kwOf k))
  | ["n", n] => some (.child n)
  | _ => none

def chainOf (s : String) : List ChainSeg :=
  if s = "-" then [] else (s.splitOn ";").filterMap segOf

def showVals (k : List Val) : String := ",".intercalate (k.map toString)

def showSeg : Seg → String
  | .key k => "<" ++ showVals k ++ ">"
  | .name n => "." ++ n

def showDKey (d : DKey) : String := "".intercalate (d.map showSeg)

def pathOfId (w : World) (i : SId) : String :=
  match findId w.defs i with
  | some d => showPath d.path
  | none => "?"

def showRes (w : World) : WalkRes → String
  | .at a => "ok " ++ pathOfId w a.root ++ showDKey a.dkey
  | .typeError => "err Type"
  | .keyError => "err Key"
  | .formulaError => "err Formula"
  | .attributeError => "err Attribute"

def showObs (w : World) : String :=
  let es := w.tbl.live.filter (fun e => (findId w.defs e.addr.root).isSome)
  "obs " ++ " ".intercalate (es.map (fun e =>
    s!"{pathOfId w e.addr.root}{showDKey e.addr.dkey}|h{e.handle}|{pathOfId w e.base}"))

def kindOf : String → Option EditKind
  | "newcells" => some .newCells
  | "setformula" => some .setFormula
  | "renamecells" => some .renameCells
  | "delcells" => some .delCells
  | "newchild" => some .newChild
  | "delchild" => some .delChild
  | "newref" => some .newRef
  | "delref" => some .delRef
  | "changeref" => some .changeRef
  | "setparam" => some .setParamFormula
  | "modelref" => some .modelRef
  | _ => none

def mapOf (s : String) : RefMap := kwOf s

def step (w : World) (line : String) : World × String :=
  let op (o : Op) : World × String := let r := MxModel.ItemSpace.step w o; (r.1, showRes r.1 r.2)
  match (line.splitOn " ").filter (· ≠ "") with
  | ["reset"] => ({}, "ok")
  | ["space", p, sg, sl] => op (.newSpace (pathOf p) (sigOf sg) (selOf sl))
  | ["param", p, sg, sl] => op (.setParam (pathOf p) (sigOf sg) (selOf sl))
  | ["delspace", p] =>
    -- the path is printed from the definitions before the deletion
    let r := MxModel.ItemSpace.step w (.delSpace (pathOf p))
    (r.1, match r.2 with | .at _ => "ok" | e => showRes w e)
  | ["edit", k, p] =>
    match kindOf k with
    | some kd => op (.edit kd (pathOf p))
    | none => (w, "bad-op")
  | ["item", r, c] => op (.item (pathOf r) (chainOf c))
  | ["clearat", r, c, a, k] => op (.clearAt (pathOf r) (chainOf c) (valsOf a) (kwOf k))
  | ["delitem", r, c, k] => op (.delItem (pathOf r) (chainOf c) (valsOf k))
  | ["clearitems", r, c] => op (.clearItems (pathOf r) (chainOf c))
  | ["clearall", r, c] => op (.clearAll (pathOf r) (chainOf c))
  | ["obs"] => (w, showObs w)
  | ["bind", sg, a, k] =>
    match sigOf sg with
    | none => (w, "err Attribute")
    | some sig =>
      match bindArgs sig (valsOf a) (kwOf k) with
      | some key => (w, "ok " ++ showVals key)
      | none => (w, "err Type")
  | ["ref", x, aa, own, dyn, glob] =>
    let argmaps := if aa = "-" then [] else (aa.splitOn "|").map mapOf
    let chain := refChain MxModel.Generated.mxDynRefsOrder MxModel.Generated.mxAllargsOrder argmaps (mapOf own) [] (mapOf dyn) (mapOf glob)
    match chainFind chain x with
    | some v => (w, s!"ok {v}")
    | none => (w, "err Name")
  | _ => (w, "bad-op")

partial def loop (h out : IO.FS.Stream) (w : World) : IO Unit := do
  let line ← h.getLine
  if line.isEmpty then return ()
  let (w', o) := step w (line.trimAscii.toString)
  out.putStrLn o
  loop h out w'

def main : IO Unit := do loop (← IO.getStdin) (← IO.getStdout) {}

end Driver.ItemSpace
