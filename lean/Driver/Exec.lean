import MxModel.Exec.Mech
import MxModel.Exec.Expr
import MxModel.Exec.Spelled
import Driver.Sexp
/-! Line-protocol driver for the Exec layer (executor, cache, graphs). -/
namespace Driver.Exec
open MxModel.Exec Driver

structure CellDef where
  cached : Bool
  allowNone : Option Bool        -- the cells' own setting (`None` = look it up in the space)
  nparams : Nat
  /-- default values of the last `defaults.length` parameters (from the `sig` line of the id) -/
  defaults : List Val := []
  body : Expr

structure World where
  cells : List (CellId × CellDef) := []
  refs : List (RefId × Val) := []
  maxdepth : Nat := 1000
  anSpace : Option Bool := none  -- `space.allow_none`
  anModel : Bool := false        -- `model.allow_none`
  st : St := {}
  /-- the space each cells / reference lives in (default 0) -/
  cellSpace : List (CellId × Nat) := []
  refSpace : List (RefId × Nat) := []
  /-- the most recent `eval`: the element and the state it started from (for `obs handled`) -/
  lastEval : Option (Node × St) := none
  /-- a stack-trace session is active -/
  tracing : Bool := false
  /-- declared signatures: number of parameters and the default values of the last ones.  The
  signature of a cells id is fixed for the whole history (as its space is); formulas are read with
  the table in hand, so `sig` lines come before any formula -/
  sigs : List (CellId × Nat × List Val) := []
  /-- `System._recalc_dependents` (`mx.set_recalc`) -/
  recalc : Bool := false

def World.cell? (w : World) (c : CellId) : Option CellDef :=
  (w.cells.find? (·.1 == c)).map (·.2)

def World.dfltOf (w : World) (c : CellId) : List Val :=
  match w.sigs.find? (·.1 == c) with | some e => e.2.2 | none => []

/-- a `cell` / `newcell` line agrees with the declared signature of the id -/
def World.sigOk (w : World) (c : CellId) (np : Nat) : Bool :=
  match w.sigs.find? (·.1 == c) with | some e => e.2.1 == np | none => true

def World.spaceOfCell (w : World) (c : CellId) : Nat :=
  match w.cellSpace.find? (·.1 == c) with | some e => e.2 | none => 0

def World.spaceOfRef (w : World) (r : RefId) : Nat :=
  match w.refSpace.find? (·.1 == r) with | some e => e.2 | none => 0

/-- the id was given a space (`space cell`): a cells of that name may exist, or not (deleted, not
created yet); `w.cells` holds the definitions of the cells that exist -/
def World.declared (w : World) (c : CellId) : Bool := w.cellSpace.any (·.1 == c)

/-- for the formula of a cells in space `k`: a declared cells that does not exist, and whether the
formula spells it through an attribute path (it lives in the other space) -/
def World.deadFor (w : World) (k : Nat) (c : CellId) : Option Bool :=
  if (w.cell? c).isNone && w.declared c then some (w.spaceOfCell c != k) else none

def World.env (w : World) : Env where
  formula := fun n => match w.cell? n.1 with
    | some d => formulaOf (fun c => match w.cell? c with
          | some d' => some d'.nparams
          | none => if w.declared c then some 0 else none)
        (scopeExpr (fun r => w.spaceOfRef r == w.spaceOfCell n.1)
          (deadExpr (w.deadFor (w.spaceOfCell n.1)) d.body)) n.2
    | none => .raise (.user kName)
  alive := fun c => (w.cell? c).isSome
  siblings := fun c => ((w.cells.map (·.1)).filter (fun c' => w.spaceOfCell c' == w.spaceOfCell c)).reverse
  cached := fun c => match w.cell? c with | some d => d.cached | none => true
  allowNone := fun c => match w.cell? c with
    | some d => resolveAllowNone d.allowNone w.anSpace w.anModel
    | none => false
  refs := fun r => (w.refs.find? (·.1 == r)).map (·.2)
  maxdepth := w.maxdepth
  observers := fun r => ((w.cells.map (·.1)).filter (fun c => w.spaceOfCell c == w.spaceOfRef r)).reverse

def showVal : Val → String
  | .int i => toString i
  | .none => "N"

def showKey (k : Key) : String := ",".intercalate (k.map showVal)
def showNode (n : Node) : String := s!"{n.1}[{showKey n.2}]"
def showG : GNode → String
  | .elem n => showNode n
  | .obj c => s!"{c}*"

def showErr : Err → String
  | .user 0 => "Value" | .user 1 => "Key" | .user 2 => "ZeroDiv" | .user 3 => "Type"
  | .user 4 => "Name" | .user 5 => "Attribute" | .user 6 => "KeyboardInterrupt" | .user k => s!"User{k}"
  | .deep => "Deep" | .noneRet => "NoneReturned"

def sorted (xs : List String) : List String := (xs.toArray.qsort (· < ·)).toList

def parseKey (toks : List String) : Option Key := toks.mapM parseVal?

/-- `k<i>=<v>`: a keyword argument for parameter `i` -/
def parseKwArg? (t : String) : Option (Nat × Val) :=
  if t.startsWith "k" then
    match (t.drop 1).toString.splitOn "=" with
    | [i, v] => do
      let i ← i.toNat?
      let v ← parseVal? v
      some (i, v)
    | _ => none
  else none

/-- the arguments of a top-level request as they are spelled: positional values, then keyword arguments -/
def parseSpelled : List String → Option (List Val × List (Nat × Val))
  | [] => some ([], [])
  | t :: ts =>
    match parseKwArg? t with
    | some kv => do
      let kws ← ts.mapM parseKwArg?
      some ([], kv :: kws)
    | none => do
      let v ← parseVal? t
      let (ps, kws) ← parseSpelled ts
      some (v :: ps, kws)

/-- the element a spelling denotes for cells `d` (`get_node`), or `none` = `TypeError` -/
def CellDef.bind (d : CellDef) (sp : List Val × List (Nat × Val)) : Option Key :=
  bindKey d.nparams d.defaults sp.1 sp.2

def obs (w : World) (what : String) : World × String :=
  let s := w.st
  match what with
  | "values" =>
    let items := s.data.map (fun e =>
      s!"{showNode e.1}={showVal e.2}{if s.inputs.contains e.1 then "I" else "C"}")
    (w, "values " ++ " ".intercalate (sorted items))
  | "graph" =>
    let ns := sorted (s.gn.map showG)
    let es := sorted (s.ge.map (fun e => s!"{showG e.1}>{showG e.2}"))
    (w, "graph nodes " ++ " ".intercalate ns ++ " edges " ++ " ".intercalate es)
  | "refgraph" =>
    let es := sorted (s.rg.map (fun e => s!"r{e.1}>{showNode e.2}"))
    (w, "refgraph " ++ " ".intercalate es)
  | "log" =>
    ({ w with st := { s with log := [] } }, "log " ++ " ".intercalate (s.log.reverse.map showNode))
  | "tb" =>
    let e := match s.lastErr with | some e => showErr e | none => "-"
    (w, s!"tb {e} " ++ " ".intercalate (s.lastTb.map showNode))
  | "maxdepth" => (w, s!"maxdepth {w.env.maxdepth}")
  | "quiescent" =>
    (w, s!"q stack={s.stack.length} idx={s.idx.length} refstack={s.refstack.length}")
  | "handled" =>
    -- measurement for the harness' coverage report, not an observable of the implementation: the roll-back
    -- list of the most recent top-level evaluation just before `_start_exec` consumes it – entries in all,
    -- entries of exceptions other than the last one raised (failures that formulas handled themselves, when
    -- the evaluation failed), number of such exceptions
    match w.lastEval with
    | none => (w, "handled 0 0 0")
    | some (n, s0) =>
      match (if w.env.cached n.1 then lookup s0.data n else none) with
      | some _ => (w, "handled 0 0 0")
      | none =>
        let p := runN w.env (w.env.maxdepth + 1) n s0
        let other := p.2.rolledback.filter (fun x => x.2 != p.2.curExc)
        (w, s!"handled {p.2.rolledback.length} {other.length} {(other.map (·.2)).eraseDups.length}")
  | _ => (w, "bad-op")

def parseAdmin? : String → Option Admin
  | "start" => some .startTrace | "stop" => some .stopTrace | "get" => some .getTrace
  | "clear" => some .clearTrace | "tracestack" => some .traceStack | "getrecursion" => some .getRecursion
  | "geterror" => some .getError | "gettraceback" => some .getTraceback | "setsame" => some .setRecursionSame
  | _ => none

def step (w : World) (line : String) : World × String :=
  match tokenize line with
  | ["reset"] => ({}, "ok")
  | ["admin", what] => match parseAdmin? what with
    | some a =>
      if a.refused w.tracing then (w, "err Runtime") else
      ({ w with st := w.st.admin a, tracing := a.tracing w.tracing },
       if a == .getRecursion then s!"ok {w.env.maxdepth}" else "ok")
    | none => (w, "bad-op")
  | ["recalc", b] => ({ w with recalc := b = "on" }, "ok")
  | ["maxdepth", n] => match n.toNat? with
    | some n => ({ w with maxdepth := n }, "ok")
    | none => (w, "bad-op")
  | "sig" :: id :: np :: dflt =>
    match id.toNat?, np.toNat?, parseKey dflt with
    | some id, some np, some dflt =>
      if np < dflt.length then (w, "bad-op") else
      ({ w with sigs := (id, np, dflt) :: w.sigs.filter (·.1 != id) }, "ok")
    | _, _, _ => (w, "bad-op")
  | "cell" :: id :: cached :: an :: np :: body =>
    match id.toNat?, np.toNat?, parseExprWith w.dfltOf body with
    | some id, some np, some (e, []) =>
      if !blocksSimple e then (w, "unsupported: a try inside an except/finally block") else
      if !w.sigOk id np then (w, "unsupported: the signature of an id is fixed") else
      let d : CellDef := { cached := cached = "1", allowNone := (if an = "n" then none else some (an = "1")), nparams := np,
                           defaults := w.dfltOf id, body := e }
      ({ w with cells := (id, d) :: w.cells.filter (·.1 != id) }, "ok")
    | _, _, _ => (w, "bad-op")
  | ["allownone", "space", v] => ({ w with anSpace := if v = "n" then none else some (v = "1") }, "ok")
  | ["allownone", "model", v] => ({ w with anModel := v = "1" }, "ok")
  | ["ref", id, v] =>
    match id.toNat?, parseVal? v with
    | some id, some v => ({ w with refs := (id, v) :: w.refs.filter (·.1 != id) }, "ok")
    | _, _ => (w, "bad-op")
  | "eval" :: id :: args =>
    match id.toNat?, parseSpelled args with
    | some id, some sp =>
      match w.cell? id with
      | none => (w, if w.declared id then "err Deleted" else "err Name")
      | some d =>
        -- `evalSpelled`: bind (`get_node`), then `evalTop` of the bound element
        match evalSpelled w.env id d.nparams d.defaults sp.1 sp.2 w.st with
        | (.typeError, _) => (w, "err Type")
        | (.res r, st') =>
        let le := match d.bind sp with | some key => some ((id, key), w.st) | none => w.lastEval
        match r with
        | .ok v => ({ w with st := st', lastEval := le }, "ok " ++ showVal v)
        | .formulaError e tb =>
          ({ w with st := st', lastEval := le },
           s!"err Formula {showErr e} tb=" ++ ",".intercalate (tb.map showNode))
    | _, _ => (w, "bad-op")
  | "set" :: id :: rest =>
    match id.toNat?, rest.reverse with
    | some id, v :: "=" :: revargs =>
      match parseVal? v, parseKey revargs.reverse with
      | some v, some args =>
        match w.cell? id with
        | none => (w, if w.declared id then "err Deleted" else "err Name")
        | some d =>
          if !d.cached then (w, "err Value") else
          -- `cells[args] = v`: the subscript is bound like positional arguments (`set_value`: `get_node`)
          match d.bind (args, []) with
          | none => (w, "err Type")
          | some key =>
          if w.recalc then
            -- recalculation option on: the former leaf dependents are evaluated at once
            let (st', r) := w.st.setValueRecalc w.env (id, key) v
            ({ w with st := st' }, match r with
              | .ok => "ok" | .refused _ => "err NoneReturned" | .failed _ _ _ => "err Formula")
          else
          let (st', e) := w.st.setValue w.env (id, key) v
          ({ w with st := st' }, match e with | none => "ok" | some _ => "err NoneReturned")
      | _, _ => (w, "bad-op")
    | _, _ => (w, "bad-op")
  | "clearat" :: id :: args =>
    match id.toNat?, parseSpelled args with
    | some id, some sp =>
      match w.cell? id with
      | none => (w, if w.declared id then "err Deleted" else "err Name")
      | some d =>
        -- `cells.clear_at(*args, **kwargs)`: `get_node` first
        match d.bind sp with
        | none => (w, "err Type")
        | some key => ({ w with st := w.st.clearValueAt (id, key) true }, "ok")
    | _, _ => (w, "bad-op")
  | "delcell" :: [id] =>
    -- `del space.c`: the clearing under the old definitions, then the cells is gone
    match id.toNat? with
    | some id =>
      match w.cell? id with
      | none => (w, "err Key")
      | some _ => ({ w with st := w.st.delCell w.env id, cells := w.cells.filter (·.1 != id) }, "ok")
    | none => (w, "bad-op")
  | "newcell" :: id :: cached :: an :: np :: body =>
    -- `space.new_cells(name, formula, is_cached)` (+ `allow_none`, which clears nothing)
    match id.toNat?, np.toNat?, parseExprWith w.dfltOf body with
    | some id, some np, some (e, []) =>
      if !blocksSimple e then (w, "unsupported: a try inside an except/finally block") else
      if !w.sigOk id np then (w, "unsupported: the signature of an id is fixed") else
      match w.cell? id with
      | some _ => (w, "err Value")
      | none =>
        let d : CellDef := { cached := cached = "1", allowNone := (if an = "n" then none else some (an = "1")), nparams := np,
                             defaults := w.dfltOf id, body := e }
        ({ w with st := w.st.newCell w.env id, cells := (id, d) :: w.cells }, "ok")
    | _, _, _ => (w, "bad-op")
  | ["space", "cell", id, k] => match id.toNat?, k.toNat? with
    | some id, some k => ({ w with cellSpace := (id, k) :: w.cellSpace.filter (·.1 != id) }, "ok")
    | _, _ => (w, "bad-op")
  | ["space", "ref", id, k] => match id.toNat?, k.toNat? with
    | some id, some k => ({ w with refSpace := (id, k) :: w.refSpace.filter (·.1 != id) }, "ok")
    | _, _ => (w, "bad-op")
  | ["setref", id, v] =>
    -- `space.r = v` from outside any formula: the clearing, then the new binding
    match id.toNat?, parseVal? v with
    | some id, some v =>
      ({ w with st := w.st.setRef w.env id, refs := (id, v) :: w.refs.filter (·.1 != id) }, "ok")
    | _, _ => (w, "bad-op")
  | ["delref", id] =>
    match id.toNat? with
    | some id =>
      if (w.env.refs id).isNone then (w, "err Key") else
      ({ w with st := w.st.delRef w.env id, refs := w.refs.filter (·.1 != id) }, "ok")
    | none => (w, "bad-op")
  | "setformula" :: id :: body =>
    match id.toNat?, parseExprWith w.dfltOf body with
    | some id, some (e, []) =>
      if !blocksSimple e then (w, "unsupported: a try inside an except/finally block") else
      match w.cell? id with
      | none => (w, if w.declared id then "err Deleted" else "err Name")
      | some d =>
        ({ w with st := w.st.setFormula id,
                  cells := w.cells.map (fun x => if x.1 == id then (id, { d with body := e }) else x) }, "ok")
    | _, _ => (w, "bad-op")
  | ["setcached", id, b] =>
    match id.toNat? with
    | some id =>
      match w.cell? id with
      | none => (w, if w.declared id then "err Deleted" else "err Name")
      | some d =>
        -- the setter of `Cells.is_cached` returns at once when the flag already has that value
        if d.cached == (b = "1") then (w, "ok") else
        ({ w with st := w.st.setFormula id,
                  cells := w.cells.map (fun x => if x.1 == id then (id, { d with cached := b = "1" }) else x) }, "ok")
    | none => (w, "bad-op")
  | ["clear", id] => match id.toNat? with
    | some id =>
      if (w.cell? id).isNone && w.declared id then (w, "err Deleted") else
      ({ w with st := w.st.clearAllValues id false }, "ok")
    | none => (w, "bad-op")
  | ["clearall", id] => match id.toNat? with
    | some id =>
      if (w.cell? id).isNone && w.declared id then (w, "err Deleted") else
      ({ w with st := w.st.clearAllValues id true }, "ok")
    | none => (w, "bad-op")
  | ["obs", what] => obs w what
  | _ => (w, "bad-op")

partial def loop (h out : IO.FS.Stream) (w : World) : IO Unit := do
  let line ← h.getLine
  if line.isEmpty then return ()
  let (w', o) := step w (line.trimAscii.toString)
  out.putStrLn o
  loop h out w'

def main : IO Unit := do
  loop (← IO.getStdin) (← IO.getStdout) {}

end Driver.Exec
