import MxModel.Kernels.PathCodec
import MxModel.Kernels.DocQuote
import MxModel.Kernels.SaveFiles
/-! Line-protocol driver for the two C04 codecs (`mxdriver codec`): ops `a2r r2a a2rt r2at` (relative
addresses), `quote lex read doc sj` (documentation strings), `saves` (a history of writes to one path by
file name: `saves <fmt>:<max_backups>:<name>;<name>…|…` → the slots after every write,
`<slot>=<kind>[<name>@<write>;…]`).

Strings travel as decimal code points joined by `,` (`-` = empty string); tuple elements as
`s:<string>` (a name) or `k:<string>` (an argument tuple, opaque), joined by `;` (`()` = empty
tuple). -/
namespace Driver.Codec
open MxModel.PathCodec MxModel.DocQuote

def decStr (s : String) : Option (List Char) :=
  if s = "-" then some []
  else (s.splitOn ",").mapM (fun t => t.toNat?.map Char.ofNat)

def encStr (cs : List Char) : String :=
  if cs.isEmpty then "-" else ",".intercalate (cs.map (fun c => toString c.toNat))

def decElem (s : String) : Option Elem :=
  match s.splitOn ":" with
  | ["s", v] => (decStr v).map Elem.str
  | ["k", v] => (decStr v).map Elem.key
  | _ => none

def decTuple (s : String) : Option (List Elem) :=
  if s = "()" then some [] else (s.splitOn ";").mapM decElem

def encElem : Elem → String
  | .str v => "s:" ++ encStr v
  | .key v => "k:" ++ encStr v

def encTuple (t : List Elem) : String :=
  if t.isEmpty then "()" else ";".intercalate (t.map encElem)

/-! the save step by file name -/
open MxModel.SaveFiles in
def decWrite (s : String) : Option Write :=
  match s.splitOn ":" with
  | [f, mb, ns] => do
    let k ← if f = "dir" then some Kind.dir else if f = "zip" then some Kind.zip else none
    let maxB ← mb.toNat?
    let names ← if ns = "." then some [] else (ns.splitOn ";").mapM (fun t => (decStr t).map String.ofList)
    some ⟨k, maxB, names⟩
  | _ => none

open MxModel.SaveFiles in
def showNode (i : Nat) : Node → Option String
  | .absent => none
  | .node k es =>
    some (toString i ++ "=" ++ (match k with | .dir => "dir" | .zip => "zip") ++ "[" ++
      ";".intercalate (es.map (fun e => encStr e.1.toList ++ "@" ++ toString e.2)) ++ "]")

open MxModel.SaveFiles in
def showFS (fs : FS) : String :=
  " ".intercalate ((List.range 8).filterMap (fun i => showNode i (fs i)))

open MxModel.SaveFiles in
def stepSaves (arg : String) : String :=
  match (arg.splitOn "|").mapM decWrite with
  | none => "bad-op"
  | some ws =>
    "ok " ++ " | ".intercalate ((run ws).map (fun o => match o with | none => "err" | some fs => showFS fs))

def step (line : String) : String :=
  match (line.splitOn " ").filter (· ≠ "") with
  | ["a2r", t, ns] =>
    match decStr t, decStr ns with
    | some t, some ns => "ok " ++ encStr (absToRel t ns)
    | _, _ => "bad-op"
  | ["r2a", t, ns] =>
    match decStr t, decStr ns with
    | some t, some ns => "ok " ++ encStr (relToAbs t ns)
    | _, _ => "bad-op"
  | ["a2rt", t, ns] =>
    match decTuple t, decTuple ns with
    | some t, some ns => "ok " ++ encTuple (absToRelTuple t ns)
    | _, _ => "bad-op"
  | ["r2at", t, ns] =>
    match decTuple t, decTuple ns with
    | some t, some ns =>
      match relToAbsTuple t ns with
      | .ok r => "ok " ++ encTuple r
      | .error .index => "err Index"
      | .error .value => "err Value"
    | _, _ => "bad-op"
  | ["quote", d] =>
    -- quote_docstring(d)
    match decStr d with
    | none => "bad-op"
    | some doc => "ok " ++ encStr (quoteDocstring doc)
  | ["lex", d] =>
    -- the first token of the text as a triple-quoted literal: body between the quotes, rest
    match decStr d with
    | none => "bad-op"
    | some text =>
      match lexLit text with
      | none => "unterminated"
      | some (body, r) => "ok " ++ encStr body ++ " " ++ encStr r
  | ["read", d] =>
    -- the text as exactly one triple-quoted literal: its value
    match decStr d with
    | none => "bad-op"
    | some text =>
      match lexLit text with
      | some (body, []) =>
        if usesNamed body then "unsupported"
        else match dec .text body with
          | none => "unreadable"
          | some v => "ok " ++ encStr v
      | _ => "unreadable"
  | ["doc", d] =>
    -- write, then read
    match decStr d with
    | none => "bad-op"
    | some doc =>
      match readLiteral (quoteDocstring doc) with
      | none => "unreadable"
      | some v => if v = doc then "same" else "changed " ++ encStr v
  | ["saves", arg] => stepSaves arg
  | ["sj", d] =>
    -- "\n".join(text.splitlines())
    match decStr d with
    | none => "bad-op"
    | some text => "ok " ++ encStr (splitJoin false text)
  | _ => "bad-op"

partial def loop (h : IO.FS.Stream) (out : IO.FS.Stream) : IO Unit := do
  let line ← h.getLine
  if line.isEmpty then return ()
  out.putStrLn (step (line.trimAscii.toString))
  loop h out

def main : IO Unit := do
  loop (← IO.getStdin) (← IO.getStdout)

end Driver.Codec
