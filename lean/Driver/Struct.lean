import MxModel.Struct.Derive
/-! Line-protocol driver for the structural spec (C3 linearisation, derivation from scratch). -/
namespace Driver.Struct
open MxModel.C3 MxModel.Struct

structure SpaceRec where
  path : String
  bases : List String
  cells : List String
  refs : List String

structure World where
  spaces : List SpaceRec := []

def World.find (w : World) (p : String) : Option SpaceRec := w.spaces.find? (·.path == p)
def World.bases (w : World) (p : String) : List String := match w.find p with | some s => s.bases | none => []
def World.cells (w : World) (p : String) : List String := match w.find p with | some s => s.cells | none => []
def World.refs (w : World) (p : String) : List String := match w.find p with | some s => s.refs | none => []

def csv (s : String) : List String := if s = "-" then [] else (s.splitOn ",").filter (· ≠ "")
def sorted (xs : List String) : List String := (xs.toArray.qsort (· < ·)).toList

def step (w : World) (line : String) : World × String :=
  match (line.splitOn " ").filter (· ≠ "") with
  | ["reset"] => ({}, "ok")
  | ["space", p, b, c, r] =>
    ({ w with spaces := w.spaces.filter (·.path != p) ++ [{ path := p, bases := csv b, cells := csv c, refs := csv r }] }, "ok")
  | ["mro", p] =>
    match mro w.bases (w.spaces.length + 1) p with
    | some l => (w, "mro " ++ " ".intercalate l)
    | none => (w, "mro-none")
  | ["derived", p] =>
    match mro w.bases (w.spaces.length + 1) p with
    | none => (w, "derived-none")
    | some l =>
      let dc := derive l.tail w.cells (w.cells p)
      let dr := derive l.tail w.refs (w.refs p)
      let f := fun (xs : List (String × String)) => " ".intercalate (sorted (xs.map (fun e => s!"{e.1}<{e.2}")))
      (w, "derived cells " ++ f dc ++ " refs " ++ f dr)
  | _ => (w, "bad-op")

partial def loop (h out : IO.FS.Stream) (w : World) : IO Unit := do
  let line ← h.getLine
  if line.isEmpty then return ()
  let (w', o) := step w (line.trimAscii.toString)
  out.putStrLn o
  out.flush      -- the harness may keep one driver process and talk to it interactively
  loop h out w'

def main : IO Unit := do loop (← IO.getStdin) (← IO.getStdout) {}

end Driver.Struct
