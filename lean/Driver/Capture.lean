import MxModel.Kernels.Capture
/-! Line-protocol driver for the formula-capture model (C20).

Every input line is a list of TAB-separated fields; a field is a text in which backslash,
newline and TAB are written `\\`, `\n`, `\t`.  A list of lines is one field: every line
followed by a newline.  One output line per input line, same escaping. -/
namespace Driver.Capture
open MxModel.Capture

def hexDigit (n : Nat) : Char :=
  if n < 10 then Char.ofNat (48 + n) else Char.ofNat (87 + n)

def unesc : List Char → List Char
  | '\\' :: 'n' :: cs => '\n' :: unesc cs
  | '\\' :: 't' :: cs => '\t' :: unesc cs
  | '\\' :: 'r' :: cs => '\r' :: unesc cs
  | '\\' :: '\\' :: cs => '\\' :: unesc cs
  | '\\' :: 'u' :: a :: b :: c :: d :: cs =>
    match hexNum 0 [a, b, c, d] with
    | some n => Char.ofNat n :: unesc cs
    | none => '\\' :: 'u' :: a :: b :: c :: d :: unesc cs
  | c :: cs => c :: unesc cs
  | [] => []

/-- control characters and the Unicode line separators travel as `\uXXXX` -/
def needsU (c : Char) : Bool :=
  c.toNat < 32 || (127 ≤ c.toNat && c.toNat < 160) || c.toNat == 0x2028 || c.toNat == 0x2029

def esc : List Char → List Char
  | [] => []
  | '\n' :: cs => '\\' :: 'n' :: esc cs
  | '\t' :: cs => '\\' :: 't' :: esc cs
  | '\r' :: cs => '\\' :: 'r' :: esc cs
  | '\\' :: cs => '\\' :: '\\' :: esc cs
  | c :: cs =>
    if needsU c then
      let n := c.toNat
      '\\' :: 'u' :: hexDigit (n / 4096 % 16) :: hexDigit (n / 256 % 16) :: hexDigit (n / 16 % 16)
        :: hexDigit (n % 16) :: esc cs
    else c :: esc cs

/-- split at newlines; the part after the last newline is dropped if empty -/
def splitNl (cs : List Char) : Text :=
  let rec go (cur : List Char) : List Char → Text
    | [] => if cur.isEmpty then [] else [cur.reverse]
    | '\n' :: r => cur.reverse :: go [] r
    | c :: r => go (c :: cur) r
  go [] cs

def fieldText (f : String) : Text := splitNl (unesc f.toList)
def fieldLine (f : String) : Line := unesc f.toList

/-- a documentation text as it arrives -/
def docText (f : String) : List Char := unesc f.toList

def joinNl (t : Text) : List Char :=
  match t with
  | [] => []
  | [l] => l
  | l :: r => l ++ '\n' :: joinNl r

def withNl (t : Text) : List Char := (t.map (· ++ ['\n'])).flatten

def str (cs : List Char) : String := String.ofList (esc cs)

def parseDef (fs : List String) : Option FuncDef :=
  match fs with
  | [pre, lead, decos, gap, defkw, name, sig, kind, sm, cmts, ind, hasdoc, opn, txt, cls, after,
     rest, trail, pnames] =>
    let doc : Option DocLit :=
      if hasdoc = "1" then
        some { opn := fieldLine opn, txt := spanOf (fieldText txt), cls := fieldLine cls }
      else none
    let body : Body :=
      if kind = "inline" then .inline doc (fieldLine after)
      else .block (fieldText sm) (fieldText cmts) (fieldLine ind) doc (fieldLine after)
        (fieldText rest)
    some { pre := fieldLine pre, lead := fieldText lead, decos := fieldText decos,
           gap := fieldText gap, defkw := fieldLine defkw, name := fieldLine name,
           sig := fieldLine sig, body := body, trail := fieldText trail,
           pnames := fieldText pnames }
  | _ => none

def parseLam (fs : List String) : Option LamStmt :=
  match fs with
  | [pre, lead, pfx, lam, sfx, trail, pnames] =>
    some { pre := fieldLine pre, lead := fieldText lead, pfx := fieldLine pfx,
           lam := spanOf (fieldText lam), sfx := fieldLine sfx, trail := fieldText trail,
           pnames := fieldText pnames }
  | _ => none

def showLayout (l : Layout) : String :=
  let d := match l.decos with | none => "-" | some (a, b) => s!"{a},{b}"
  let p := l.doc
  s!"decos={d} name={l.nameLine},{l.nameBeg},{l.nameEnd} doc={p.compound},{p.hasDoc},{p.sLine},{p.sCol},{p.eLine},{p.eCol} indent=" ++ str p.indent

def showLamPos (p : LamPos) : String := s!"lam={p.sLine},{p.sCol},{p.eLine},{p.eCol}"

def spanText (s : Span) : List Char := joinNl s.lines

/-- the source text of a docstring literal -/
def litText (d : DocLit) : List Char :=
  match d.txt.more with
  | none => d.opn ++ d.txt.first ++ d.cls
  | some (mid, last) => joinNl ((d.opn ++ d.txt.first) :: (mid ++ [last ++ d.cls]))

/-- the docstring: for a literal written by `replace_docstring` the value the model's lexer
reads (`=`); for any other literal of the grammar its source text (`~`; its value is CPython's
business: the harness evaluates it) -/
def docOf : Formula → Option (List Char) → String
  | .fn f, _ =>
    match f.body.docLit with
    | none => "%none"
    | some d =>
      match d.value with
      | some v => "=" ++ str v
      | none => "~" ++ str (litText d)
  | .lam _ _, ldoc =>
    match ldoc with
    | none => "%none"
    | some d => "=" ++ str d

def srcOf : Formula → List Char
  | .fn f => withNl (render f)
  | .lam l _ => joinNl l

def paramsOf : Formula → List Line
  | .fn f => f.pnames
  | .lam _ p => p

def showEntry (e : Entry) : String :=
  "src=" ++ str (srcOf e.formula) ++ "\tparams=" ++ str ((paramsOf e.formula |>.map (· ++ [','])).flatten)
    ++ "\tdoc" ++ docOf e.formula e.ldoc ++ "\tderived=" ++ (if e.derived then "1" else "0")

structure St where
  chain : List Entry := []
  name : Line := []

def tabs (fs : List String) : String := "\t".intercalate fs

def step (st : St) (line : String) : St × String :=
  match line.splitOn "\t" with
  | ["reset"] => ({}, "ok")
  | "render" :: "def" :: fs =>
    match parseDef fs with
    | some f => (st, "text\t" ++ str (withNl (render f)) ++ "\twf=" ++ toString f.wf)
    | none => (st, "bad-op")
  | "render" :: "lam" :: fs =>
    match parseLam fs with
    | some s => (st, "text\t" ++ str (withNl s.render) ++ "\twf=" ++ toString s.wf)
    | none => (st, "bad-op")
  | "layout" :: "def" :: fs =>
    -- what the parser is expected to report for the dedented text (what modelx parses first)
    match parseDef fs with
    | some f => (st, showLayout (layoutOf (dedentS f)))
    | none => (st, "bad-op")
  | "layout" :: "lam" :: mode :: fs =>
    match parseLam fs with
    | some s => (st, showLamPos (if mode = "obj" then s.layout else s.dedentS.layout))
    | none => (st, "bad-op")
  | "new" :: "def" :: nm :: fs =>
    match parseDef fs with
    | some f =>
      let n := if nm = "%none" then f.name else fieldLine nm
      ({ chain := [{ derived := false, formula := .fn (captureS f (some n)) }], name := n }, "ok")
    | none => (st, "bad-op")
  | "new" :: "lam" :: mode :: nm :: fs =>
    match parseLam fs with
    | some s =>
      let src := if mode = "obj" then s.rawLam else s.lam.norm.lines
      ({ chain := [{ derived := false, formula := .lam src s.pnames }], name := fieldLine nm }, "ok")
    | none => (st, "bad-op")
  | ["sub", "derived"] =>
    match st.chain.getLast? with
    | some e => ({ st with chain := st.chain ++ [{ e with derived := true, ldoc := none }] }, "ok")
    | none => (st, "bad-op")
  | "sub" :: "override" :: "def" :: fs =>
    match parseDef fs, st.chain.getLast? with
    | some f, some e =>
      let e' : Entry := { e with derived := true, ldoc := none }
      let ch := st.chain ++ [e']
      ({ st with chain := setFormulaChain (ch.length - 1) (.fn (captureS f (some st.name))) none ch },
        "ok")
    | _, _ => (st, "bad-op")
  | "sub" :: "override" :: "lam" :: fs =>
    match parseLam fs, st.chain.getLast? with
    | some s, some e =>
      let e' : Entry := { e with derived := true, ldoc := none }
      let ch := st.chain ++ [e']
      ({ st with chain := setFormulaChain (ch.length - 1) (.lam s.lam.norm.lines s.pnames) none ch },
        "ok")
    | _, _ => (st, "bad-op")
  | ["rename", m] =>
    let n := fieldLine m
    ({ chain := renameChain n none st.chain, name := n }, "ok")
  | ["setdoc", idx, ii, doc] =>
    match idx.toNat?, st.chain[idx.toNat?.getD 0]? with
    | some i, some e =>
      let d := docText doc
      match e.formula with
      | .lam l p =>
        ({ st with chain := setFormulaChain i (.lam l p) (some (some d)) st.chain }, "ok")
      | .fn g =>
        ({ st with chain := setFormulaChain i (.fn (setDocS g d (ii = "1"))) none st.chain }, "ok")
    | _, _ => (st, "bad-op")
  | ["quote", doc] =>
    -- `quote_docstring(doc)`, what the model's lexer reads back from it, and the hypothesis of `doc_inert`
    let d := docText doc
    let back := match readBack (quoteDocstring d) with
      | some v => "=" ++ str v
      | none => "%none"
    (st, "quoted=" ++ str (quoteDocstring d) ++ "\tback" ++ back ++ s!"\tclean={NoWsOnlyMiddle d}")
  | ["obs"] => (st, " ;; ".intercalate (st.chain.map showEntry))
  | _ => (st, "bad-op")

partial def loop (h : IO.FS.Stream) (out : IO.FS.Stream) (st : St) : IO Unit := do
  let line ← h.getLine
  if line.isEmpty then return ()
  let l := if line.endsWith "\n" then (line.dropEnd 1).toString else line
  let (st', o) := step st l
  out.putStrLn o
  loop h out st'

def main : IO Unit := do
  loop (← IO.getStdin) (← IO.getStdout) {}

end Driver.Capture
