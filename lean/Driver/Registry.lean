import MxModel.Kernels.Registry
import MxModel.Generated.Tables
/-! Line-protocol driver for the registry model (C19). -/
namespace Driver.Registry
open MxModel.Registry

def decName (s : String) : String := if s = "%empty" then "" else s

def showReg (r : Reg) : String :=
  let ms := r.models.map (fun e => s!"{e.1}:{e.2.id}:{e.2.name}")
  let cur := match r.current with | some i => toString i | none => "-"
  "reg " ++ " ".intercalate ms ++ " | cur=" ++ cur

def showRej : Rej → String
  | .invalidName => "err invalidName"
  | .noSuchModel => "err noSuchModel"

def kw : List String := MxModel.Generated.pythonKeywords

def step (r : Reg) (line : String) : Reg × String :=
  match (line.splitOn " ").filter (· ≠ "") with
  | ["reset"] => ({}, "ok")
  | ["new", n] =>
    let name := if n = "-" then none else some (decName n)
    match newModel kw r name with
    | (r', .ok i) => (r', s!"ok {i}")
    | (r', .error e) => (r', showRej e)
  | ["rename", i, n, ro] =>
    match i.toNat? with
    | some i =>
      match rename kw r i (decName n) (ro = "1") with
      | (r', .ok _) => (r', "ok")
      | (r', .error e) => (r', showRej e)
    | none => (r, "bad-op")
  | ["close", i] =>
    match i.toNat? with
    | some i =>
      match close r i with
      | (r', .ok _) => (r', "ok")
      | (r', .error e) => (r', showRej e)
    | none => (r, "bad-op")
  | ["read", n, f] =>
    match readModel kw r (decName n) (f = "1") with
    | (r', .ok i) => (r', s!"ok {i}")
    | (r', .error e) => (r', showRej e)
  | ["obs"] => (r, showReg r)
  | _ => (r, "bad-op")

partial def loop (h : IO.FS.Stream) (out : IO.FS.Stream) (r : Reg) : IO Unit := do
  let line ← h.getLine
  if line.isEmpty then return ()
  let (r', o) := step r (line.trimAscii.toString)
  out.putStrLn o
  loop h out r'

def main : IO Unit := do
  loop (← IO.getStdin) (← IO.getStdout) {}

end Driver.Registry
