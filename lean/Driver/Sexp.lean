import MxModel.Exec.Expr
/-! S-expression reader for `Expr` (driver only; not used by any theorem). -/
namespace Driver
open MxModel.Exec

def tokenize (s : String) : List String :=
  let s := (s.replace "(" " ( ").replace ")" " ) "
  (s.splitOn " ").filter (· ≠ "")

def parseInt? (s : String) : Option Int :=
  if s.startsWith "-" then (s.drop 1).toString.toNat?.map (fun n => - (n : Int))
  else s.toNat?.map (fun n => (n : Int))

def parseVal? (s : String) : Option Val :=
  if s = "N" then some .none else (parseInt? s).map .int

def parseCatch? (s : String) : Option Catch :=
  match s with
  | "all" => some .all
  | "deep" => some .deep
  | "noneret" => some .noneRet
  | _ => if s.startsWith "k" then (s.drop 1).toString.toNat?.map .user else none

/-- `-` or `2,1`: the parameters (by index) the keyword arguments of a call are for -/
def parseKws? (s : String) : Option (List Nat) :=
  if s = "-" then some [] else (s.splitOn ",").mapM (·.toNat?)

mutual
/-- `dflt c`: the default values of the last parameters of cells `c`, from the signatures the program
declares (`sig` lines, sent before any formula); a call of a cells that has defaults is read as
`Expr.callK`, which carries them -/
partial def parseExprWith (dflt : CellId → List Val) : List String → Option (Expr × List String)
  | "N" :: rest => some (.none, rest)
  | "(" :: "lit" :: i :: ")" :: rest => (parseInt? i).map (fun v => (.lit v, rest))
  | "(" :: "p" :: i :: ")" :: rest => i.toNat?.map (fun v => (.param v, rest))
  | "(" :: "rn" :: i :: ")" :: rest => i.toNat?.map (fun v => (.readN v, rest))
  | "(" :: "ra" :: i :: ")" :: rest => i.toNat?.map (fun v => (.readA v, rest))
  | "(" :: "raise" :: i :: ")" :: rest => i.toNat?.map (fun v => (.raise v, rest))
  | "(" :: "add" :: rest => bin dflt .add rest
  | "(" :: "sub" :: rest => bin dflt .sub rest
  | "(" :: "mul" :: rest => bin dflt .mul rest
  | "(" :: "lt" :: rest => bin dflt .lt rest
  | "(" :: "if" :: rest => do
      let (c, r1) ← parseExprWith dflt rest
      let (a, r2) ← parseExprWith dflt r1
      let (b, r3) ← parseExprWith dflt r2
      match r3 with
      | ")" :: r4 => some (.ite c a b, r4)
      | _ => none
  | "(" :: "try" :: rest => do
      let (a, r1) ← parseExprWith dflt rest
      match r1 with
      | c :: r2 => do
        let c ← parseCatch? c
        let (b, r3) ← parseExprWith dflt r2
        match r3 with
        | ")" :: r4 => some (.try_ a c b, r4)
        | _ => none
      | _ => none
  | "(" :: "tryre" :: rest => do
      let (a, r1) ← parseExprWith dflt rest
      match r1 with
      | c :: r2 => do
        let c ← parseCatch? c
        let (b, r3) ← parseExprWith dflt r2
        match r3 with
        | ")" :: r4 => some (.tryRe a c b, r4)
        | _ => none
      | _ => none
  | "(" :: "tryfin" :: rest => bin dflt .tryFin rest
  -- `(via <kind> e)`: `e` evaluated inside an extra plain Python frame of the same formula (generator
  -- expression, comprehension, lambda, nested def).  Value, calls, their order and errors are those of
  -- `e`; the model has no frames, so the reader drops the wrapper (what differs is the rendered Python:
  -- line numbers of tracebacks, which the C17 oracle compares on the implementation)
  | "(" :: "via" :: _kind :: rest => do
      let (a, r1) ← parseExprWith dflt rest
      match r1 with
      | ")" :: r2 => some (a, r2)
      | _ => none
  | "(" :: "call" :: c :: rest => do
      let c ← c.toNat?
      let (args, r1) ← parseArgs dflt rest
      match dflt c with
      | [] => some (.call c args, r1)
      | d => some (.callK c args args.length [] d, r1)
  | "(" :: "callk" :: c :: npos :: kws :: rest => do
      let c ← c.toNat?
      let npos ← npos.toNat?
      let kws ← parseKws? kws
      let (args, r1) ← parseArgs dflt rest
      if args.length = npos + kws.length then some (.callK c args npos kws (dflt c), r1) else none
  | _ => none
partial def bin (dflt : CellId → List Val) (f : Expr → Expr → Expr) (rest : List String) : Option (Expr × List String) := do
  let (a, r1) ← parseExprWith dflt rest
  let (b, r2) ← parseExprWith dflt r1
  match r2 with
  | ")" :: r3 => some (f a b, r3)
  | _ => none
partial def parseArgs (dflt : CellId → List Val) : List String → Option (List Expr × List String)
  | ")" :: rest => some ([], rest)
  | toks => do
    let (a, r1) ← parseExprWith dflt toks
    let (as, r2) ← parseArgs dflt r1
    some (a :: as, r2)
end

def parseExpr : List String → Option (Expr × List String) := parseExprWith (fun _ => [])

end Driver
