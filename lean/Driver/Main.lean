import Driver.Registry
import Driver.Exec
import Driver.ItemSpace
import Driver.Relative
import Driver.RelHist
import Driver.Export
import Driver.Codec
import Driver.IOSpec
import Driver.IOSession
import Driver.Capture
import Driver.Backup
import Driver.CalcSteps
import Driver.Struct
import Driver.SMech
import Driver.Serial
import Driver.Edit
/-! `mxdriver <layer>`: reads one operation per line on stdin, prints one observation per line. -/
def main (args : List String) : IO UInt32 := do
  match args with
  | ["registry"] => Driver.Registry.main; return 0
  | ["exec"] => Driver.Exec.main; return 0
  | ["items"] => Driver.ItemSpace.main; return 0
  | ["relative"] => Driver.Relative.main; return 0
  | ["relhist"] => Driver.RelHist.main; return 0
  | ["export"] => Driver.Export.main; return 0
  | ["codec"] => Driver.Codec.main; return 0
  | ["iospec"] => Driver.IOSpec.main; return 0
  | ["iosession"] => Driver.IOSession.main; return 0
  | ["capture"] => Driver.Capture.main; return 0
  | ["backup"] => Driver.Backup.main; return 0
  | ["calcsteps"] => Driver.CalcSteps.main; return 0
  | ["struct"] => Driver.Struct.main; return 0
  | ["smech"] => Driver.SMech.main; return 0
  | ["serial"] => Driver.Serial.main; return 0
  | ["edit"] => Driver.Edit.main; return 0
  | _ => IO.eprintln "usage: mxdriver <layer>"; return 2
