import MxModel.Kernels.C3
import MxModel.Kernels.Relative
/-! Line-protocol driver for relative references (C10): a world of spaces (direct bases, member
names) and decision queries against `MxModel.Relative`. -/
namespace Driver.Relative
open MxModel.Relative

structure SpaceRec where
  path : Path
  bases : List Path
  members : List String

structure World where
  spaces : List SpaceRec := []

def World.find (w : World) (p : Path) : Option SpaceRec := w.spaces.find? (·.path == p)
def World.bases (w : World) (p : Path) : List Path := match w.find p with | some s => s.bases | none => []

/-- `model.get_impl_from_name(p)` finds something: a space, or a member of a space -/
def World.exist (w : World) (p : Path) : Bool :=
  (w.find p).isSome ||
    (match p.getLast?, w.find p.dropLast with
     | some n, some s => s.members.contains n
     | _, _ => false)

/-- `SpaceGraph.get_mro`; a name that is no node has no in-edges: `[node]` -/
def World.mroOf (w : World) (p : Path) : List Path :=
  match MxModel.C3.mro w.bases (w.spaces.length + 1) p with
  | some l => l
  | none => [p]

def decPath (s : String) : Path := if s = "-" then [] else s.splitOn "."
def encPath (p : Path) : String := if p = [] then "-" else ".".intercalate p
def csv (s : String) : List String := if s = "-" then [] else (s.splitOn ",").filter (· ≠ "")

def decMode (s : String) : Option Mode :=
  match s with
  | "auto" => some .auto
  | "relative" => some .relative
  | "absolute" => some .absolute
  | _ => none

def decTarget (kind v : String) : Option Target :=
  match kind with
  | "obj" => some (.obj (decPath v))
  | "null" => some .null
  | "plain" => some (.plain (v.toInt?.getD 0))
  | _ => none

def showTarget : Target → String
  | .obj p => "obj:" ++ encPath p
  | .null => "null"
  | .plain v => s!"plain:{v}"

def showFlag (b : Bool) : String := if b then "R" else "A"

def showOutcome : Outcome → String
  | .bound b => s!"bound {showTarget b.target} {showFlag b.isRelative}"
  | .reject => "reject"
  | .mustNotHappen => "mnh"

def showDRef : Option DRef → String
  | some r => s!"bound {showTarget r.binding.target} {showFlag r.binding.isRelative}"
  | none => "mnh"

def showRel : RelResult → String
  | .none => "none"
  | .some p => "some " ++ encPath p
  | .mustNotHappen => "mnh"

def showWrap : WrapResult → String
  | .dyn rel => "dyn " ++ encPath rel
  | .missing => "missing"
  | .keep => "keep"
  | .reject => "reject"
  | .mustNotHappen => "mnh"

def step (w : World) (line : String) : World × String :=
  match (line.splitOn " ").filter (· ≠ "") with
  | ["reset"] => ({}, "ok")
  | ["space", p, b, m] =>
    let p := decPath p
    ({ w with spaces := w.spaces.filter (·.path != p) ++
        [{ path := p, bases := (csv b).map decPath, members := csv m }] }, "ok")
  | ["mro", p] => (w, "mro " ++ " ".intercalate ((w.mroOf (decPath p)).map encPath))
  | ["rel", s, b, v] => (w, showRel (getRelative w.mroOf (decPath s) (decPath b) (decPath v)))
  | ["inherit", m, s, d, k, v, f] =>
    match decMode m, decTarget k v with
    | some m, some t =>
      (w, showOutcome (onInherit w.mroOf w.exist m (decPath s) (decPath d) t ⟨.plain 0, f = "R"⟩))
    | _, _ => (w, "bad-op")
  | ["newref", m, s, d, k, v] =>
    match decMode m, decTarget k v with
    | some m, some t => (w, showDRef (newRefSub w.mroOf w.exist m (decPath s) (decPath d) t))
    | _, _ => (w, "bad-op")
  | ["changeref", m, s, d, k, v] =>
    match decMode m, decTarget k v with
    | some m, some t => (w, showDRef (changeRefSub w.mroOf w.exist m (decPath s) (decPath d) t))
    | _, _ => (w, "bad-op")
  | ["refloop", chg, m, d, k, v, subs] =>
    match decMode m, decTarget k v with
    | some m, some t =>
      (w, " | ".intercalate ((refLoop w.mroOf w.exist (chg = "1") m (decPath d) t
        ((csv subs).map decPath)).map showDRef))
    | _, _ => (w, "bad-op")
  | ["check", m, s, d, k, v] =>
    match decMode m, decTarget k v with
    | some m, some t => (w, if checkSubRelref w.mroOf m (decPath s) (decPath d) t then "raise" else "ok")
    | _, _ => (w, "bad-op")
  | ["wrap", root, owner, m, f, d, k, v] =>
    match decMode m, decTarget k v with
    | some m, some t =>
      let root := decPath root
      (w, showWrap (wrapImpl (fun rel => w.exist (root ++ rel)) root (decPath owner)
        ⟨m, f = "R", d = "1", t⟩))
    | _, _ => (w, "bad-op")
  | _ => (w, "bad-op")

partial def loop (h out : IO.FS.Stream) (w : World) : IO Unit := do
  let line ← h.getLine
  if line.isEmpty then return ()
  let (w', o) := step w (line.trimAscii.toString)
  out.putStrLn o
  out.flush      -- the harness keeps one driver process and talks to it interactively
  loop h out w'

def main : IO Unit := do loop (← IO.getStdin) (← IO.getStdout) {}

end Driver.Relative
