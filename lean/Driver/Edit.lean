import MxModel.Edit.MachineRename
import MxModel.Exec.Expr
import MxModel.Generated.Tables
/-! Line-protocol driver for the combined machine (`MxModel/Edit/Machine.lean`): structural edits and
value-layer operations in one history; `obs` prints the held elements with their values and input
marks, by `(space, cells, key)`.

Cells definitions are sent as `def <payload> <cached> <template> <k> <a> <r>`: the formula templates of
`harness/mxh/structworld.py` that read references and call cells BY NAME (0, 1, 2, 5, 6, 7, 8, 12, 13, 14)
as source behaviours (`SProg`); reference values as `rval <payload> <int>`. -/
namespace Driver.Edit
open MxModel MxModel.Exec MxModel.Edit

def kw : List String := MxModel.Generated.pythonKeywords

structure CDef where
  cached : Bool
  templ : Nat
  k : Int
  a : String
  r : String

structure World where
  defs : List (Nat × CDef) := []
  rvals : List (Nat × Int) := []
  w : W := {}

def tyErr : SProg := .raise (.user kType)
def nmErr : SProg := .raise (.user kName)

/-- what the formula does with the result of a call: a value goes on, a failure propagates -/
def onRes (f : Int → SProg) : Res → SProg
  | .ok (.int v) => f v
  | .ok .none => tyErr
  | .err e => .reraise e

/-- `name(arg)`: a cells is called; anything else that bears the name is not callable -/
def callName (a : String) (arg : Int) (f : Int → SProg) : SProg :=
  SProg.callN a [.int arg] (onRes f) (fun _ => tyErr) nmErr

/-- `name` used as a number: a reference holding an integer; a cells object is no number -/
def readName (r : String) (f : Int → SProg) : SProg :=
  SProg.readN r (fun o => match o with
    | some (.int v) => f v
    | some .none => tyErr
    | none => nmErr) tyErr nmErr

def ret (i : Int) : SProg := .ret (.int i)

def atErr : SProg := .raise (.user 5)

/-- `S.r` / `_space.r` used as a number: the attribute slot, read `byAttr` (recorded in the reference
graph); nothing of the name there: `AttributeError` -/
def readAttr (sp r : String) (f : Int → SProg) : SProg :=
  .name (sp ++ "." ++ r) (fun b => match b with
    | some (.ref rid) => .read true rid (fun o => match o with
      | some (.int v) => f v
      | some .none => tyErr
      | none => atErr)
    | _ => atErr)

def templSrc (d : CDef) (key : Key) : SProg :=
  match key with
  | [.int x] =>
    match d.templ with
    | 0 => ret (x + d.k)
    | 1 => callName d.a x (fun v => ret (v * 2 + d.k))
    | 2 => readName d.r (fun v => ret (v + x))
    -- `{c}.{r} + x`: `a` carries the path of the space the name `{c}` denotes
    | 3 => readAttr d.a d.r (fun v => ret (v + x))
    | 16 => readAttr "_space" d.r (fun v => ret (v + x))
    | 5 => if x > 0 then callName d.a (x - 1) (fun v => ret (v + 1)) else ret d.k
    | 6 => readName d.r (fun v => ret (x * d.k + v))
    | 7 => readName "u" (fun v => ret (v + x))
    | 8 =>
      -- try: return a(x) / except (NameError, AttributeError, TypeError): return -k
      let handler : Err → SProg := fun e =>
        match e with
        | .user 3 => ret (-d.k) | .user 4 => ret (-d.k) | .user 5 => ret (-d.k)
        | e => .reraise e
      SProg.callN d.a [.int x]
        (fun res => match res with
          | .ok v => .ret v
          | .err e => handler e)
        (fun _ => ret (-d.k)) (ret (-d.k))
    | 12 => callName d.a x (fun v => readName d.r (fun w => ret (v + w)))
    | 13 => if x == d.k % 3 then tyErr else callName d.a x (fun v => ret (v + d.k))
    | 14 => if x == d.k % 3 then tyErr else readName d.r (fun v => ret (v + x))
    | _ => .raise (.user kValue)
  | _ => tyErr

def World.params (wd : World) : Params where
  srcOf := fun v key =>
    match wd.defs.find? (·.1 == v) with
    | some e => templSrc e.2 key
    | none => .raise (.user kValue)
  valOf := fun v =>
    match wd.rvals.find? (·.1 == v) with
    | some e => .int e.2
    | none => .none
  flagOf := fun v =>
    match wd.defs.find? (·.1 == v) with
    | some e => e.2.cached
    | none => true
  anOf := fun _ => false
  maxdepth := 60
  kw := kw

def pathOf (s : String) : Path := if s = "-" then [] else (s.splitOn ".").filter (· ≠ "")
def csv (s : String) : List String := if s = "-" then [] else (s.splitOn ",").filter (· ≠ "")
def showPath (p : Path) : String := ".".intercalate p
def sorted (xs : List String) : List String := (xs.toArray.qsort (· < ·)).toList

def showVal : Val → String
  | .int i => toString i
  | .none => "N"

def showErr : Err → String
  | .user 0 => "Value" | .user 1 => "Key" | .user 2 => "ZeroDiv" | .user 3 => "Type"
  | .user 4 => "Name" | .user 5 => "Attribute" | .user k => s!"User{k}"
  | .deep => "Deep" | .noneRet => "NoneReturned"

/-- the held elements: `space.cells(key)=value` + `I` (assigned) / `C` (computed) -/
def showHeld (w : W) : String :=
  ",".intercalate (sorted (w.ex.data.map (fun e =>
    let who := match w.tabs.cellOf e.1.1 with
      | some (q, n) => s!"{showPath q}.{n}"
      | none => s!"?{e.1.1}"
    let mark := if w.ex.inputs.contains e.1 then "I" else "C"
    s!"{who}({",".intercalate (e.1.2.map showVal)})={showVal e.2}{mark}")))

def refsOf (s : String) : Option (List (String × Nat)) :=
  (csv s).mapM (fun e => match e.splitOn "=" with
    | [k, v] => v.toNat?.map (fun v => (k, v))
    | _ => none)

def parseStruct (toks : List String) : Option SM.Op :=
  match toks with
  | ["newspace", parent, name, bases] => some (.newSpace (pathOf parent) name ((csv bases).map pathOf) [])
  | ["newspace", parent, name, bases, refs] =>
    (refsOf refs).map (fun rs => .newSpace (pathOf parent) name ((csv bases).map pathOf) rs)
  | ["delspace", p] => some (.delSpace (pathOf p))
  | ["newcells", p, name, fname, v] => v.toNat?.map (fun v => .newCells (pathOf p) name fname v)
  | ["setformula", p, name, v] => v.toNat?.map (fun v => .setFormula (pathOf p) name v)
  | ["delcells", p, name] => some (.delCells (pathOf p) name)
  | ["rename", p, old, new] => some (.renameCells (pathOf p) old new)
  | ["addbases", p, bs] => some (.addBases (pathOf p) ((csv bs).map pathOf))
  | ["rmbases", p, bs] => some (.removeBases (pathOf p) ((csv bs).map pathOf))
  | ["setref", p, name, v] => v.toNat?.map (fun v => .setRef (pathOf p) name v)
  | ["delref", p, name] => some (.delRef (pathOf p) name)
  | _ => none

def stepLine (wd : World) (line : String) : World × String :=
  let P := wd.params
  match (line.splitOn " ").filter (· ≠ "") with
  | ["reset"] => ({}, "ok")
  | ["obs"] => (wd, showHeld wd.w)
  | ["def", v, cached, templ, k, a, r] =>
    match v.toNat?, templ.toNat?, k.toInt? with
    | some v, some t, some k =>
      ({ wd with defs := (v, { cached := cached != "0", templ := t, k := k, a := a, r := r }) ::
          wd.defs.filter (·.1 != v) }, "ok")
    | _, _, _ => (wd, "bad-op")
  | ["slot", p, x] =>
    -- declare the attribute slot `(p, x)` (before anything reads through it)
    let e := (pathOf p, x)
    let t := wd.w.tabs
    if t.slots.contains e then (wd, "ok")
    else
      let t' : Tabs := { t with slots := t.slots ++ [e], rtab := if t.rtab.contains e then t.rtab else t.rtab ++ [e] }
      let w' : W := { wd.w with tabs := t' }
      ({ wd with w := w' }, "ok")
  | ["setglobal", x, v] =>
    match v.toNat? with
    | some v =>
      let acc := (wd.w.sm.apply kw (.setGlobal x)).isSome
      let cov := stepCoveredG P wd.w (.setGlobal x v)
      ({ wd with w := stepG P wd.w (.setGlobal x v) }, (if acc then "acc" else "rej") ++ (if cov then "" else " UNCOVERED"))
    | none => (wd, "bad-op")
  | ["delglobal", x] =>
    let acc := (wd.w.sm.apply kw (.delGlobal x)).isSome
    let cov := stepCoveredG P wd.w (.delGlobal x)
    ({ wd with w := stepG P wd.w (.delGlobal x) }, (if acc then "acc" else "rej") ++ (if cov then "" else " UNCOVERED"))
  | ["renamespace", p, new] =>
    -- `space.rename(new)`: `stepR` (declared slots keep their spelling: `Tabs.spell`)
    let acc := match wd.w.sm.renameSpace kw (pathOf p) new with
      | .ok _ => true
      | .error _ => false
    let cov := stepCoveredR P wd.w (.renameSpace (pathOf p) new)
    ({ wd with w := stepR P wd.w (.renameSpace (pathOf p) new) },
      (if acc then "acc" else "rej") ++ (if cov then "" else " UNCOVERED"))
  | ["nodes"] =>
    -- the cells that have a node in the trace graph (`space.cells`, sorted, without repetition)
    (wd, ",".intercalate (sorted ((wd.w.ex.gn.map (fun g =>
      match wd.w.tabs.cellOf g.cell with
      | some (q, n) => s!"{showPath q}.{n}"
      | none => s!"?{g.cell}")).eraseDups)))
  | ["rval", v, i] =>
    match v.toNat?, i.toInt? with
    | some v, some i => ({ wd with rvals := (v, i) :: wd.rvals.filter (·.1 != v) }, "ok")
    | _, _ => (wd, "bad-op")
  | ["eval", p, name, x] =>
    match x.toInt? with
    | some x =>
      let op := Op.eval (pathOf p) name [.int x]
      let res := match answer P wd.w (pathOf p) name [.int x] with
        | some (.ok v) => s!"ok {showVal v}"
        | some (.formulaError e _) => s!"err {showErr e}"
        | none => "nocell"
      ({ wd with w := MxModel.Edit.step P wd.w op }, res)
    | none => (wd, "bad-op")
  | ["setvalue", p, name, x, v] =>
    match x.toInt?, v.toInt? with
    | some x, some v => ({ wd with w := MxModel.Edit.step P wd.w (.setValue (pathOf p) name [.int x] (.int v)) }, "ok")
    | _, _ => (wd, "bad-op")
  | ["clearat", p, name, x] =>
    match x.toInt? with
    | some x => ({ wd with w := MxModel.Edit.step P wd.w (.clearAt (pathOf p) name [.int x]) }, "ok")
    | none => (wd, "bad-op")
  | ["clear", p, name] => ({ wd with w := MxModel.Edit.step P wd.w (.clear (pathOf p) name) }, "ok")
  | ["clearall", p, name] => ({ wd with w := MxModel.Edit.step P wd.w (.clearAll (pathOf p) name) }, "ok")
  | toks =>
    match parseStruct toks with
    | none => (wd, "bad-op")
    | some o =>
      let acc := (wd.w.sm.apply kw o).isSome
      -- the decidable coverage check of the step (`C02.machine_keeps_ci_partial`)
      let cov := stepCoveredG P wd.w (.op (.struct o))
      ({ wd with w := stepG P wd.w (.op (.struct o)) }, (if acc then "acc" else "rej") ++ (if cov then "" else " UNCOVERED"))

partial def loop (h out : IO.FS.Stream) (wd : World) : IO Unit := do
  let line ← h.getLine
  if line.isEmpty then return ()
  let (wd', o) := stepLine wd (line.trimAscii.toString)
  out.putStrLn o
  out.flush      -- the harness keeps one driver process and talks to it after every operation
  loop h out wd'

def main : IO Unit := do loop (← IO.getStdin) (← IO.getStdout) {}

end Driver.Edit
