import MxModel.Struct.Mech
import MxModel.Struct.MechRename
import MxModel.Struct.MechBatch
import MxModel.Generated.Tables
/-! Line-protocol driver for the incremental mechanism model of `SpaceManager` / `SpaceUpdater`
(`MxModel/Struct/Mech.lean`): one edit per line, `acc` / `rej` per edit, `obs` prints the whole state. -/
namespace Driver.SMech
open MxModel.SM

def kw : List String := MxModel.Generated.pythonKeywords

def pathOf (s : String) : Path := if s = "-" then [] else (s.splitOn ".").filter (· ≠ "")
def csv (s : String) : List String := if s = "-" then [] else (s.splitOn ",").filter (· ≠ "")
def showPath (p : Path) : String := if p.isEmpty then "-" else ".".intercalate p
def sorted (xs : List String) : List String := (xs.toArray.qsort (· < ·)).toList

def showMembers (ms : Members) : String :=
  ",".intercalate (sorted (ms.map (fun e => s!"{e.1}:{if e.2.derived then "d" else "o"}:{e.2.payload}")))

def showSpace (st : St) (s : Space) : String :=
  let mro := match st.mro s.id with
    | some l => " ".intercalate (l.tail.map showPath)
    | none => "NONE"
  s!"{showPath s.id} bases={",".intercalate (s.bases.map showPath)} mro={mro} cells={showMembers s.cells} refs={showMembers s.refs}"

/-- every space, then the model-level references -/
def showState (st : St) : String :=
  " | ".intercalate (sorted (st.spaces.map (showSpace st))) ++ " || globals=" ++ ",".intercalate (sorted st.globals)

/-- `k=3,m=4` -/
def refsOf (s : String) : Option (List (String × Nat)) :=
  (csv s).mapM (fun e => match e.splitOn "=" with
    | [k, v] => v.toNat?.map (fun v => (k, v))
    | _ => none)

def parseOp (toks : List String) : Option Op :=
  match toks with
  | ["newspace", parent, name, bases] => some (.newSpace (pathOf parent) name ((csv bases).map pathOf) [])
  | ["newspace", parent, name, bases, refs] =>
    (refsOf refs).map (fun rs => .newSpace (pathOf parent) name ((csv bases).map pathOf) rs)
  | ["delspace", p] => some (.delSpace (pathOf p))
  | ["newcells", p, name, v] => v.toNat?.map (fun v => .newCells (pathOf p) name name v)
  -- the name given (anything that is not a valid name when none was given) and the name of the formula
  | ["newcells", p, name, fname, v] => v.toNat?.map (fun v => .newCells (pathOf p) name fname v)
  | ["setformula", p, name, v] => v.toNat?.map (fun v => .setFormula (pathOf p) name v)
  | ["delcells", p, name] => some (.delCells (pathOf p) name)
  | ["rename", p, old, new] => some (.renameCells (pathOf p) old new)
  | ["addbases", p, bs] => some (.addBases (pathOf p) ((csv bs).map pathOf))
  | ["rmbases", p, bs] => some (.removeBases (pathOf p) ((csv bs).map pathOf))
  | ["setref", p, name, v] => v.toNat?.map (fun v => .setRef (pathOf p) name v)
  | ["delref", p, name] => some (.delRef (pathOf p) name)
  | ["setglobal", name] => some (.setGlobal name)
  | ["delglobal", name] => some (.delGlobal name)
  | _ => none

def step (st : St) (line : String) : St × String :=
  match (line.splitOn " ").filter (· ≠ "") with
  | ["reset"] => ({}, "ok")
  | ["obs"] => (st, showState st)
  -- `space.rename(name)`: not a constructor of `Op` (`Struct/MechRename.lean`, histories `OpR`)
  | ["renamespace", p, new] =>
    let r := st.stepR kw (.renameSpace (pathOf p) new)
    (r.1, if r.2 then "acc" else "rej")
  -- one call that creates several cells (`Struct/MechBatch.lean`): `n1=v1,n2=v2` are the names and payloads
  | ["cellsbatch", p, es] =>
    match refsOf es with
    | none => (st, "bad-op")
    | some es => let r := st.batchStep kw (pathOf p) es; (r.1, if r.2 then "acc" else "rej")
  | ["modulebatch", p, es] =>
    match refsOf es with
    | none => (st, "bad-op")
    | some es => let r := st.moduleStep kw (pathOf p) es; (r.1, if r.2 then "acc" else "rej")
  | ["spacebatch", parent, name, es] =>
    match refsOf es with
    | none => (st, "bad-op")
    | some es => let r := st.newSpaceBatchStep kw (pathOf parent) name es; (r.1, if r.2 then "acc" else "rej")
  | ["spacemodule", parent, name, bases, es] =>
    match refsOf es with
    | none => (st, "bad-op")
    | some es =>
      let r := st.newSpaceModule kw (pathOf parent) name ((csv bases).map pathOf) es
      (r.1, if r.2 then "acc" else "rej")
  | ["spacemodulechecked", parent, name, bases, es] =>
    match refsOf es with
    | none => (st, "bad-op")
    | some es =>
      let r := st.newSpaceModuleCheckedStep kw (pathOf parent) name ((csv bases).map pathOf) es
      (r.1, if r.2 then "acc" else "rej")
  | toks =>
    match parseOp toks with
    | none => (st, "bad-op")
    | some op =>
      let r := st.step kw op
      (r.1, if r.2 then "acc" else "rej")

partial def loop (h out : IO.FS.Stream) (st : St) : IO Unit := do
  let line ← h.getLine
  if line.isEmpty then return ()
  let (st', o) := step st (line.trimAscii.toString)
  out.putStrLn o
  out.flush      -- the harness keeps one driver process (every history starts with `reset`)
  loop h out st'

def main : IO Unit := do loop (← IO.getStdin) (← IO.getStdout) {}

end Driver.SMech
