import MxModel.Kernels.SerialWF
/-! Line-protocol driver for the statement-level model of the serializer (`mxdriver serial`).

Ops (one per line, one answer line each):
* `write <mdesc>`  → `ok <dir>`: the files `Serial.write` produces for the description;
* `read <dir>`     → `ok <mdesc>` | `err <Err>`: `Serial.read` on a listing of files;
* `hk <mdesc>`     → `ok wf=<b> refmode=<b> derived=<b> deftext=<b> marker=<b> bases=<b> refover=<b> relref=<b>`:
  well-formedness and the seven hypotheses of `Hk` (which recorded finding a description triggers).

S-expressions; a string is its code points in decimal joined by `,` (`-` = the empty string); ids are
digit strings.  Grammar: see `harness/mxh/serialworld.py`. -/
namespace Driver.Serial
open MxModel.Serial MxModel.PathCodec

inductive Sexp where
  | atom (s : String)
  | list (l : List Sexp)
deriving Inhabited

def tokens (s : String) : List String :=
  let s := (s.replace "(" " ( ").replace ")" " ) "
  (s.splitOn " ").filter (· ≠ "")

mutual
partial def parseSexp : List String → Option (Sexp × List String)
  | "(" :: rest => do
    let (l, r) ← parseList rest
    some (.list l, r)
  | ")" :: _ => none
  | t :: rest => some (.atom t, rest)
  | [] => none
partial def parseList : List String → Option (List Sexp × List String)
  | ")" :: rest => some ([], rest)
  | toks => do
    let (a, r1) ← parseSexp toks
    let (as, r2) ← parseList r1
    some (a :: as, r2)
end

def decStr (s : String) : Option (List Char) :=
  if s = "-" then some []
  else (s.splitOn ",").mapM (fun t => t.toNat?.map Char.ofNat)

def encStr (cs : List Char) : String :=
  if cs.isEmpty then "-" else ",".intercalate (cs.map (fun c => toString c.toNat))

def str? : Sexp → Option (List Char)
  | .atom s => decStr s
  | _ => none

def id? : Sexp → Option Id
  | .atom s => some s.toList
  | _ => none

def optBool? : Sexp → Option (Option Bool)
  | .atom "T" => some (some true)
  | .atom "F" => some (some false)
  | .atom "N" => some none
  | _ => none

def bool? : Sexp → Option Bool
  | .atom "T" => some true
  | .atom "F" => some false
  | _ => none

def optStr? : Sexp → Option (Option Text)
  | .atom "N" => some none
  | .list [.atom "d", s] => (str? s).map some
  | _ => none

def elem? : Sexp → Option Elem
  | .list [.atom "s", s] => (str? s).map Elem.str
  | .list [.atom "k", s] => (id? s).map Elem.key
  | _ => none

def path? : Sexp → Option MxModel.Serial.Path
  | .list (.atom "p" :: ns) => ns.mapM str?
  | _ => none

def formula? : Sexp → Option (Option Formula)
  | .atom "N" => some none
  | .list [.atom "lam", t] => (str? t).map (fun t => some (.lambda t))
  | .list [.atom "def", s, n] => do
    let s ← str? s
    let n ← str? n
    some (some (.defn s n))
  | _ => none

def refVal? : Sexp → Option RefVal
  | .list [.atom "lit", t] => (str? t).map .literal
  | .list [.atom "pk", i] => (id? i).map .pickled
  | .list [.atom "if", p] => (path? p).map .interface
  | .list [.atom "mod", n] => (str? n).map .module
  | .list [.atom "io", v, s] => do
    let v ← id? v
    let s ← id? s
    some (.iospec v s)
  | _ => none

def mode? : Sexp → Option Mode
  | .atom "auto" => some .auto
  | .atom "absolute" => some .absolute
  | .atom "relative" => some .relative
  | _ => none

def entry? : Sexp → Option (Id × Id)
  | .list [.atom "e", k, v] => do
    let k ← id? k
    let v ← id? v
    some (k, v)
  | _ => none

def cells? : Sexp → Option CellsD
  | .list [.atom "cell", n, f, a, c, d, .list (.atom "inputs" :: es)] => do
    let n ← str? n
    let f ← formula? f
    let f ← f
    let a ← optBool? a
    let c ← bool? c
    let d ← optStr? d
    let es ← es.mapM entry?
    some ⟨n, f, a, c, d, es⟩
  | _ => none

def ref? : Sexp → Option RefD
  | .list [.atom "ref", n, v, m] => do
    let n ← str? n
    let v ← refVal? v
    let m ← mode? m
    some ⟨n, v, m⟩
  | _ => none

def mref? : Sexp → Option (Name × RefVal)
  | .list [.atom "ref", n, v] => do
    let n ← str? n
    let v ← refVal? v
    some (n, v)
  | _ => none

def dyn? : Sexp → Option DynInput
  | .list [.atom "di", .list (.atom "addr" :: es), k, v] => do
    let es ← es.mapM elem?
    let k ← id? k
    let v ← id? v
    some ⟨es, k, v⟩
  | _ => none

def dinp? : Sexp → Option (Name × List (Id × Id))
  | .list (.atom "c" :: n :: es) => do
    let n ← str? n
    let es ← es.mapM entry?
    some (n, es)
  | _ => none

partial def space? : Sexp → Option SpaceD
  | .list [.atom "space", n, d, a, f, .list (.atom "bases" :: bs), .list (.atom "cells" :: cs),
           .list (.atom "refs" :: rs), .list (.atom "dyn" :: ds), .list (.atom "dinp" :: dis),
           .list (.atom "spaces" :: ss)] => do
    let n ← str? n
    let d ← optStr? d
    let a ← optBool? a
    let f ← formula? f
    let bs ← bs.mapM path?
    let cs ← cs.mapM cells?
    let rs ← rs.mapM ref?
    let ds ← ds.mapM dyn?
    let dis ← dis.mapM dinp?
    let ss ← ss.mapM space?
    some (.mk ⟨n, d, a, f, bs, cs, rs, ds, dis⟩ ss)
  | _ => none

def mdesc? : Sexp → Option MDesc
  | .list [.atom "model", n, d, a, .list (.atom "refs" :: rs), .list (.atom "spaces" :: ss)] => do
    let n ← str? n
    let d ← optStr? d
    let a ← bool? a
    let rs ← rs.mapM mref?
    let ss ← ss.mapM space?
    some ⟨n, d, a, rs, ss⟩
  | _ => none

/-! printing -/

def pList (tag : String) (items : List String) : String :=
  "(" ++ " ".intercalate (tag :: items) ++ ")"

def pOptBool : Option Bool → String
  | some true => "T"
  | some false => "F"
  | none => "N"

def pBool (b : Bool) : String := if b then "T" else "F"

def pOptStr : Option Text → String
  | none => "N"
  | some d => pList "d" [encStr d]

def pId (i : Id) : String := if i.isEmpty then "?" else String.ofList i

def pElem : Elem → String
  | .str s => pList "s" [encStr s]
  | .key k => pList "k" [pId k]

def pPath (p : MxModel.Serial.Path) : String := pList "p" (p.map encStr)

def pFormula : Option Formula → String
  | none => "N"
  | some (.lambda t) => pList "lam" [encStr t]
  | some (.defn s n) => pList "def" [encStr s, encStr n]

def pRefVal : RefVal → String
  | .literal t => pList "lit" [encStr t]
  | .pickled i => pList "pk" [pId i]
  | .interface p => pList "if" [pPath p]
  | .module n => pList "mod" [encStr n]
  | .iospec v s => pList "io" [pId v, pId s]

def pMode : Mode → String
  | .auto => "auto"
  | .absolute => "absolute"
  | .relative => "relative"

def pEntry (e : Id × Id) : String := pList "e" [pId e.1, pId e.2]

def pCells (c : CellsD) : String :=
  pList "cell" [encStr c.name, pFormula (some c.formula), pOptBool c.allowNone, pBool c.isCached, pOptStr c.doc,
    pList "inputs" (c.inputs.map pEntry)]

partial def pSpace : SpaceD → String
  | .mk i cs =>
    pList "space" [encStr i.name, pOptStr i.doc, pOptBool i.allowNone, pFormula i.formula,
      pList "bases" (i.bases.map pPath), pList "cells" (i.cells.map pCells),
      pList "refs" (i.refs.map (fun r => pList "ref" [encStr r.name, pRefVal r.val, pMode r.mode])),
      pList "dyn" (i.dynInputs.map (fun d => pList "di" [pList "addr" (d.addr.map pElem), pId d.key, pId d.val])),
      pList "dinp" (i.derivedInputs.map (fun d => pList "c" (encStr d.1 :: d.2.map pEntry))),
      pList "spaces" (cs.map pSpace)]

def pMDesc (m : MDesc) : String :=
  pList "model" [encStr m.name, pOptStr m.doc, pBool m.allowNone,
    pList "refs" (m.refs.map (fun r => pList "ref" [encStr r.1, pRefVal r.2])),
    pList "spaces" (m.spaces.map pSpace)]

/-! files -/

def targ? : Sexp → Option TArg
  | .list [.atom "s", s] => (str? s).map .str
  | .list [.atom "n", s] => (id? s).map .num
  | .list (.atom "t" :: es) => (es.mapM elem?).map .tup
  | _ => none

def rhs? : Sexp → Option Rhs
  | .list [.atom "text", t] => (str? t).map .text
  | .list [.atom "str", t] => (str? t).map .str
  | .list (.atom "names" :: ns) => (ns.mapM str?).map .names
  | .list (.atom "tagged" :: t :: as) => do
    let t ← str? t
    let as ← as.mapM targ?
    some (.tagged t as)
  | _ => none

def sec? : Sexp → Option Sec
  | .atom "default" => some .default
  | .atom "cells" => some .cells
  | .atom "refs" => some .refs
  | _ => none

def stmt? : Sexp → Option Stmt
  | .list [.atom "doc", t] => (str? t).map .doc
  | .list [.atom "import"] => some .importFrom
  | .list [.atom "assign", n, r] => do
    let n ← str? n
    let r ← rhs? r
    some (.assign n r)
  | .list [.atom "def", n, t] => do
    let n ← str? n
    let t ← str? t
    some (.funcDef n t)
  | .list [.atom "marker", s] => (sec? s).map .marker
  | _ => none

def dline? : Sexp → Option (List Elem × Id × Id)
  | .list [.atom "l", .list (.atom "t" :: es), k, v] => do
    let es ← es.mapM elem?
    let k ← id? k
    let v ← id? v
    some (es, k, v)
  | _ => none

def dataFile? : Sexp → Option DataFile
  | .list (.atom "cd" :: es) => (es.mapM entry?).map .cellsData
  | .list (.atom "dyn" :: ls) => (ls.mapM dline?).map .dynInputs
  | .list (.atom "pk" :: is) => (is.mapM id?).map .pickle
  | .list (.atom "ios" :: is) => (is.mapM id?).map .iospecs
  | _ => none

def dentry? : Sexp → Option (Name × DataFile)
  | .list [.atom "f", n, d] => do
    let n ← str? n
    let d ← dataFile? d
    some (n, d)
  | _ => none

def init? : Sexp → Option (Option (List Stmt))
  | .atom "N" => some none
  | .list (.atom "init" :: ss) => (ss.mapM stmt?).map some
  | _ => none

partial def dir? : Sexp → Option Dir
  | .list [.atom "dir", n, i, .list (.atom "data" :: ds), .list (.atom "other" :: os),
           .list (.atom "subs" :: ss)] => do
    let n ← str? n
    let i ← init? i
    let ds ← ds.mapM dentry?
    let os ← os.mapM str?
    let ss ← ss.mapM dir?
    some (.mk n i ds os ss)
  | _ => none

def pTArg : TArg → String
  | .str s => pList "s" [encStr s]
  | .num n => pList "n" [pId n]
  | .tup es => pList "t" (es.map pElem)

def pRhs : Rhs → String
  | .text t => pList "text" [encStr t]
  | .str s => pList "str" [encStr s]
  | .names ns => pList "names" (ns.map encStr)
  | .tagged t as => pList "tagged" (encStr t :: as.map pTArg)

def pSec : Sec → String
  | .default => "default"
  | .cells => "cells"
  | .refs => "refs"

def pStmt : Stmt → String
  | .doc t => pList "doc" [encStr t]
  | .importFrom => "(import)"
  | .assign n r => pList "assign" [encStr n, pRhs r]
  | .funcDef n t => pList "def" [encStr n, encStr t]
  | .marker s => pList "marker" [pSec s]

def pDataFile : DataFile → String
  | .cellsData es => pList "cd" (es.map pEntry)
  | .dynInputs ls => pList "dyn" (ls.map (fun l => pList "l" [pList "t" (l.1.map pElem), pId l.2.1, pId l.2.2]))
  | .pickle is => pList "pk" (is.map pId)
  | .iospecs is => pList "ios" (is.map pId)

partial def pDir : Dir → String
  | .mk n i ds os ss =>
    pList "dir" [encStr n,
      (match i with | none => "N" | some st => pList "init" (st.map pStmt)),
      pList "data" (ds.map (fun d => pList "f" [encStr d.1, pDataFile d.2])),
      pList "other" (os.map encStr), pList "subs" (ss.map pDir)]

def errName (e : Err) : String := (reprStr e).replace "MxModel.Serial.Err." ""

def b01 (b : Bool) : String := if b then "1" else "0"

def step (line : String) : String :=
  match tokens line with
  | "write" :: rest =>
    match parseSexp rest with
    | some (sx, []) =>
      match mdesc? sx with
      | some m => "ok " ++ pDir (write m)
      | none => "bad-op"
    | _ => "bad-op"
  | "read" :: rest =>
    match parseSexp rest with
    | some (sx, []) =>
      match dir? sx with
      | some d =>
        match read d with
        | .ok m => "ok " ++ pMDesc m
        | .error e => "err " ++ errName e
      | none => "bad-op"
    | _ => "bad-op"
  | "hk" :: rest =>
    match parseSexp rest with
    | some (sx, []) =>
      match mdesc? sx with
      | some m =>
        "ok wf=" ++ b01 (wellFormed m) ++ " refmode=" ++ b01 (refModesWritten m) ++
          " derived=" ++ b01 (noDerivedInputs m) ++ " deftext=" ++ b01 (defTextIsNode m) ++
          " marker=" ++ b01 (noMarkerInText m) ++ " bases=" ++ b01 (noBasesOrderConflict m) ++
          " refover=" ++ b01 (noRefOverrideOrder m) ++ " relref=" ++ b01 (noRelRefOverrideOrder m)
      | none => "bad-op"
    | _ => "bad-op"
  | _ => "bad-op"

partial def loop (h : IO.FS.Stream) (out : IO.FS.Stream) : IO Unit := do
  let line ← h.getLine
  if line.isEmpty then return ()
  out.putStrLn (step (line.trimAscii.toString))
  loop h out

def main : IO Unit := do
  loop (← IO.getStdin) (← IO.getStdout)

end Driver.Serial
