import MxModel.Kernels.Export
import MxModel.Generated.Tables
/-! Line-protocol driver for the export decision model (C15).

    rw <name> cells=a,b refs=c spaces=d params=e
        -> `<self|bare> <exported target> <modelx target>`   (name global in the formula)
    look <name> g=u:3,x:9 | p=x,y;a=2,10;r=y:7;c=foo | p=x;a=1;r=;c=
        levels INNERMOST FIRST, `a=-` for a level that is not called
        -> `exp=<res> mx=<res>`,  res = `val N` | `cells` | `unbound`
    rwo <name> f=c:j;c:n;t:a,b cells=.. refs=.. spaces=.. params=..
        one OCCURRENCE of a name; `f=` the scopes around it, innermost first, up to the first one with a symbol
        table: `c:<loop variables>` an inlined comprehension, `t:<names not global there>` a scope with a table
        -> `self` | `bare`
    rsv <name> bound=x,y cells=.. refs=.. spaces=.. params=..
        a global name read where only the parameters `bound` have values (static access to parametrised levels)
        -> `exp=<member|builtin|unbound> mx=<member|builtin|unbound>`
    rcp <mode>     (none | absolute | auto | relative)
        -> `base` | `inside` | `unknown`: the form of the statement `_mx_copy_refs` has for such a reference
    refval ty=<exact type> bases=<b1,b2> iface=0|1 valid=0|1 mod=0|1 io=0|1 fin=0|1
        -> `path` | `none` | `literal` | `module` | `io` | `pickle`   (ParentTranslator.ref_value)
-/
namespace Driver.Export
open MxModel.Export MxModel

def names (s : String) : List String := (s.splitOn ",").filter (· ≠ "")

def field (pre : String) (parts : List String) : String :=
  match parts.find? (fun p => p.startsWith pre) with
  | some p => (p.drop pre.length).toString
  | none => ""

def env (s : String) : Env :=
  (names s).filterMap fun kv =>
    match kv.splitOn ":" with
    | [k, v] => v.toInt?.map fun i => (k, i)
    | _ => none

def showTarget : Target → String
  | .member => "member" | .builtin => "builtin" | .unbound => "unbound"

def showRes : Res → String
  | .val v => s!"val {v}" | .cells => "cells" | .unbound => "unbound"

def showEmit : Emit → String
  | .path => "path" | .noneLit => "none" | .literal => "literal" | .importModule => "module"
  | .ioData => "io" | .pickle => "pickle"

def level (s : String) : Level :=
  let parts := (s.splitOn ";").map (fun p => p.trimAscii.toString)
  let a := field "a=" parts
  { sp := { params := names (field "p=" parts), ownRefs := env (field "r=" parts),
            cells := names (field "c=" parts) },
    args := if a = "-" then none else some ((names a).filterMap String.toInt?) }

def step (line : String) : String :=
  match (line.splitOn " ").filter (· ≠ "") with
  | "rw" :: n :: rest =>
    let t : SpaceNames := { cells := names (field "cells=" rest), refs := names (field "refs=" rest),
                            spaces := names (field "spaces=" rest), params := names (field "params=" rest) }
    let b := Generated.pythonBuiltins
    let r := shouldReplace Generated.exportReplaceOrder Generated.exportDummyFor b t .global n
    (if r then "self " else "bare ") ++
      showTarget (exportedResolve Generated.exportReplaceOrder Generated.exportDummyFor b t n) ++ " " ++
      showTarget (mxResolve b t n)
  | "rwo" :: n :: rest =>
    let t : SpaceNames := { cells := names (field "cells=" rest), refs := names (field "refs=" rest),
                            spaces := names (field "spaces=" rest), params := names (field "params=" rest) }
    let fs : List Frame := ((field "f=" rest).splitOn ";").filterMap fun fr =>
      if fr.startsWith "c:" then some (Frame.comp (names (fr.drop 2).toString))
      else if fr.startsWith "t:" then some (Frame.table (names (fr.drop 2).toString))
      else none
    if shouldReplaceAt Generated.exportReplaceOrder Generated.exportDummyFor Generated.pythonBuiltins t fs n
    then "self" else "bare"
  | "rsv" :: n :: rest =>
    let t : SpaceNames := { cells := names (field "cells=" rest), refs := names (field "refs=" rest),
                            spaces := names (field "spaces=" rest), params := names (field "params=" rest) }
    let bound := names (field "bound=" rest)
    "exp=" ++ showTarget (exportedResolveAt Generated.exportReplaceOrder Generated.exportDummyFor
        Generated.exportStaticFallbackFor Generated.exportStaticFallbackUnless Generated.pythonBuiltins t bound n) ++
      " mx=" ++ showTarget (mxResolveAt Generated.pythonBuiltins t bound n)
  | "rcp" :: mode :: _ =>
    match refCopyAction Generated.exportRefCopyRule mode with
    | some a => a
    | none => "unknown"
  | "refval" :: rest =>
    let v : PyVal := { ty := field "ty=" rest, bases := names (field "bases=" rest),
                       iface := field "iface=" rest = "1", valid := field "valid=" rest = "1",
                       sysmod := field "mod=" rest = "1", iospec := field "io=" rest = "1",
                       finite := field "fin=" rest ≠ "0" }
    showEmit (refValue Generated.exportLiteralTest Generated.exportLiteralTypes v Generated.exportRefValueOrder)
  | "look" :: n :: _ =>
    match line.splitOn " | " with
    | head :: lvs =>
      let g := env (field "g=" ((head.splitOn " ").filter (· ≠ "")))
      let lv := lvs.map level
      "exp=" ++ showRes (exportedLookup Generated.exportCallLoop g lv n) ++ " mx=" ++
        showRes (mxLookup Generated.mxNamespaceOrder Generated.mxDynRefsOrder Generated.mxAllargsOrder g lv n)
    | _ => "bad-op"
  | _ => "bad-op"

partial def loop (h : IO.FS.Stream) (out : IO.FS.Stream) : IO Unit := do
  let line ← h.getLine
  if line.isEmpty then return ()
  out.putStrLn (step (line.trimAscii.toString))
  loop h out

def main : IO Unit := do
  loop (← IO.getStdin) (← IO.getStdout)

end Driver.Export
