import MxModel.Kernels.IOSpec
import MxModel.Kernels.IOKeys
import MxModel.Generated.Tables
/-! Line-protocol driver for the IOSpec model (C18).

    reset | newmodel M | newspace M S NAME | newcells M S NAME 0|1
    newpandas M S NAME PATH csv|xl SHEET VAL | bind M S NAME VAL | del M S NAME
    newspacerefs M S NAME N1=VAL,N2=VAL,…|-   (new_space(NAME, refs=…))   copyspace M SRC S NAME   (SRC.copy(model, NAME))
    update M OLD NEW | sheet M VAL SHEET | setpath M VAL PATH | delspec M VAL | close M | obs

`S = 0` is the model itself; `SHEET = -` is `None`; `VAL` is `d<i>` (pandas), `p<i>` (other
object) or `i<i>` (Interface).  Every operation answers `ok` or `err <kind>`, followed by
` trig=<names>` when the state before the operation meets one of the trigger predicates.

The registry of file objects (`Kernels/IOKeys.lean`, relative AND absolute paths) has its own state
and its own commands on the same layer:

    kclaim M PATH → `existing ID` | `created ID`      kmove ID PATH → `ok` | `refused` | `noSuchIo`
    kdrop ID → `ok`      kobs → the keys `G:PATH#ID` in registry order (`G` = `-` for the session-wide group) -/
namespace Driver.IOSpec
open MxModel.IOSpec

def kw : List String := MxModel.Generated.pythonKeywords

def parseVal? (s : String) : Option Val :=
  let n := (s.drop 1).toString.toNat?
  if s.startsWith "d" then n.map .df
  else if s.startsWith "p" then n.map .plain
  else if s.startsWith "i" then n.map .iface
  else none

def showVal : Val → String
  | .df i => s!"d{i}"
  | .plain i => s!"p{i}"
  | .iface i => s!"i{i}"

def parseSheet (s : String) : Option String := if s = "-" then none else some s
def showSheet : Option String → String
  | none => "-"
  | some s => s

def showRej : Rej → String
  | .key => "key" | .value => "value" | .attribute => "attribute" | .assertion => "assertion"
  | .index => "index" | .type => "type" | .dead => "dead" | .outOfDomain => "outOfDomain"

def showSpec (σ : Spec) : String := s!"{showVal σ.val}:{σ.path}:{showSheet σ.sheet}"

def showRefIn (st : St) (r : Ref) : String :=
  let live := st.refs.contains r
  s!"{r.owner.space}.{r.name}" ++ (if live then "" else "!stale")

def dedup {α} [DecidableEq α] : List α → List α
  | [] => []
  | a :: rest => a :: (dedup rest).filter (· ≠ a)

def observe (st : St) : String :=
  let ms := st.models ++ st.closed.reverse        -- closed models go on living through their handles
  let specs := ms.map (fun m =>
    match rmSpecs st m with
    | .ok l => s!"{m}=[" ++ ",".intercalate (l.map showSpec) ++ "]"
    | .error _ => s!"{m}=ERR")
  let refs := ms.map (fun m =>
    s!"{m}=[" ++ ",".intercalate ((st.refs.filter (fun r => r.owner.model = m)).map
      (fun r => s!"{r.owner.space}.{r.name}={showVal r.val}")) ++ "]")
  let v2r := ms.map (fun m =>
    s!"{m}=[" ++ ",".intercalate ((st.v2r.filter (fun e => e.1.1 = m)).map
      (fun e => showVal e.1.2 ++ ":(" ++ "+".intercalate (e.2.map (showRefIn st)) ++ ")")) ++ "]")
  let keys := dedup (st.specs.map (fun σ => (σ.group, σ.path)))
  let ios := keys.map (fun k =>
    s!"{k.1}:{k.2}(" ++ "+".intercalate ((ioSpecs st.specs k.1 k.2).map
      (fun σ => showVal σ.val ++ ":" ++ showSheet σ.sheet ++ (if σ.csv then ":csv" else ":xl"))) ++ ")")
  "specs " ++ " ".intercalate specs ++ " ; refs " ++ " ".intercalate refs ++
  " ; v2r " ++ " ".intercalate v2r ++ " ; ios " ++ " ".intercalate ios

def trigNames (st : St) (op : Op) : List String :=
  (if trigCellsName st op then ["cells-name"] else []) ++
  (if trigDoubleSpec st op then ["double-spec"] else []) ++
  (if trigDirtyDelete st op then ["del-space"] else []) ++
  (if trigUpdateOnto st op then ["update-onto-referenced"] else [])

def parseOp (toks : List String) : Option Op :=
  match toks with
  | ["newmodel", m] => m.toNat?.map .newModel
  | ["newspace", m, s, name] => do some (.newSpace (← m.toNat?) (← s.toNat?) name)
  | ["newcells", m, s, name, sc] => do some (.newCells ⟨← m.toNat?, ← s.toNat?⟩ name (sc = "1"))
  | ["newpandas", m, s, name, path, ft, sheet, v] => do
    some (.newPandas ⟨← m.toNat?, ← s.toNat?⟩ name path (ft = "csv") (parseSheet sheet) (← parseVal? v))
  | ["bind", m, s, name, v] => do some (.bind ⟨← m.toNat?, ← s.toNat?⟩ name (← parseVal? v))
  | ["del", m, s, name] => do some (.del ⟨← m.toNat?, ← s.toNat?⟩ name)
  | ["update", m, old, new] => do some (.update (← m.toNat?) (← parseVal? old) (← parseVal? new))
  | ["sheet", m, v, sheet] => do some (.setSheet (← m.toNat?) (← parseVal? v) (parseSheet sheet))
  | ["setpath", m, v, path] => do some (.setPath (← m.toNat?) (← parseVal? v) path)
  | ["delspec", m, v] => do some (.delSpec (← m.toNat?) (← parseVal? v))
  | ["close", m] => m.toNat?.map .close
  | _ => none

def showAns : MxModel.IOKeys.Ans → String
  | .existing i => s!"existing {i}"
  | .created i => s!"created {i}"
  | .ok => "ok"
  | .refused => "refused"
  | .noSuchIo => "noSuchIo"

def showKey (io : MxModel.IOKeys.Io) : String :=
  (match io.group with | some g => toString g | none => "-") ++ ":" ++ io.path ++ "#" ++ toString io.id

/-- the commands of the registry of file objects -/
def keyLine (ks : MxModel.IOKeys.St) (toks : List String) : Option (MxModel.IOKeys.St × String) :=
  match toks with
  | ["kclaim", m, path] => m.toNat?.map (fun m =>
      let r := MxModel.IOKeys.stepR ks (.claim m path); (r.1, showAns r.2))
  | ["kmove", i, path] => i.toNat?.map (fun i =>
      let r := MxModel.IOKeys.stepR ks (.move i path); (r.1, showAns r.2))
  | ["kdrop", i] => i.toNat?.map (fun i =>
      let r := MxModel.IOKeys.stepR ks (.drop i); (r.1, showAns r.2))
  | ["kobs"] => some (ks, " ".intercalate (ks.ios.map showKey))
  | _ => none

def parseBinding? (s : String) : Option (String × Val) :=
  match s.splitOn "=" with
  | [n, v] => (parseVal? v).map (fun v => (n, v))
  | _ => none

def parseBindings? (s : String) : Option (List (String × Val)) :=
  if s = "-" then some [] else (s.splitOn ",").mapM parseBinding?

def showRes : Res → St × String
  | (st', .ok ()) => (st', "ok")
  | (st', .error e) => (st', "err " ++ showRej e)

/-- composites (`Kernels/IOSpec.lean`, last section): a space created with references, a copy of a space -/
def compositeLine (st : St) (toks : List String) : Option (St × String) :=
  match toks with
  | ["newspacerefs", m, s, name, bs] => do
    some (showRes (runGuarded kw st (newSpaceRefsOps (← m.toNat?) (← s.toNat?) name (← parseBindings? bs))))
  | ["copyspace", m, src, s, name] => do
    some (showRes (copySpace kw st (← m.toNat?) (← src.toNat?) (← s.toNat?) name))
  | _ => none

def stepLine (st : St) (line : String) : St × String :=
  match (line.splitOn " ").filter (· ≠ "") with
  | ["reset"] => ({}, "ok")
  | ["obs"] => (st, observe st)
  | toks =>
    match compositeLine st toks with
    | some r => r
    | none =>
    match parseOp toks with
    | none => (st, "bad-op")
    | some op =>
      let tr := trigNames st op
      let suffix := if tr.isEmpty then "" else " trig=" ++ ",".intercalate tr
      match stepR kw st op with
      | (st', .ok ()) => (st', "ok" ++ suffix)
      | (st', .error e) => (st', "err " ++ showRej e ++ suffix)

partial def loop (h : IO.FS.Stream) (out : IO.FS.Stream) (st : St) (ks : MxModel.IOKeys.St) : IO Unit := do
  let line ← h.getLine
  if line.isEmpty then return ()
  let toks := (line.trimAscii.toString.splitOn " ").filter (· ≠ "")
  match keyLine ks toks with
  | some (ks', o) =>
    out.putStrLn o
    loop h out st ks'
  | none =>
    let (st', o) := stepLine st (line.trimAscii.toString)
    out.putStrLn o
    loop h out st' (if toks = ["reset"] then {} else ks)

def main : IO Unit := do
  loop (← IO.getStdin) (← IO.getStdout) {} {}

end Driver.IOSpec
