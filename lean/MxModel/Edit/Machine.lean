import MxModel.Struct.Mech
import MxModel.Exec.Mech
import MxModel.Exec.Resolve
/-!
# The combined machine: structure AND values

`Struct/Mech.lean` (`MxModel.SM`) says what every structural operation does to the member tables;
`Exec/Mech.lean` says what evaluations and clearings do to the cache and the two graphs.  This file
is their product, with the notification network of `modelx/core` reduced to its net effect:

* the state `W` is a structural state `sm`, an executor state `ex`, and the allocation of cells /
  reference identities (`Tabs`): every cells member `(space, name)` – defined or derived – is a cells
  of its own, every reference member a reference of its own (a derived cells of a sub space is a
  different object from the cells it is derived from, with its own values);
* the definitions the executor sees (`envOf`) are read off the structural state: the formula of the
  cells member `(q, x)` is the SOURCE its entry carries (`Params.srcOf payload`; for a derived member
  the payload of its first definer: `CellsImpl.on_inherit` takes the base's `Formula`) RESOLVED IN THE
  NAMESPACE OF `q` (`Exec/Resolve.lean`; `CellsBoundFunction` builds the function over
  `space.namespace`); flags likewise (`on_inherit` copies `is_cached` and `allow_none`); a reference
  member has the value its entry carries;
* a structural operation first applies `SM.St.apply`, then performs on `ex` the clearing the CODE
  performs for it (`clearing`), in the code's order, with the flags of the cells as they were.

Where each clearing was read (modelx/core, the unchanged tree):

* `LazyEvalDict.set_item / del_item / rename_item` (base.py) end in `notify()`; the observers of
  `space._cells`, of `space._own_refs` (through the chain `space._refs`) and of `space._named_spaces`
  are `space._namespace` (`BaseSpaceImpl.__init__`), whose observers are the cells of THAT space
  (`CellsImpl.__init__`: `BaseNamespaceReferrer.__init__(self, space._namespace)`) – and the space
  itself / its dynamic spaces, which are not in this model.  `CellsImpl.on_namespace_change`:
  cached → `clear_all_values(clear_input=False)`, uncached → `clear_obj(self)`: `Clear.ns`.
  (`LazyEval.notify` passes only fresh observers on; a namespace that is stale has notified since
  its cells last evaluated, so the short cut removes nothing: the model notifies always.)
* `CellsImpl.on_inherit` / `on_set_property` / `on_rename`, `UserSpaceImpl.on_del_cells`:
  `model.clear_obj(cells)`: `Clear.obj`.
* `ReferenceImpl.on_inherit`: `clear_attr_referrers(self)`, then `container.notify()`;
  `UserSpaceImpl.on_del_ref` / `on_change_ref` / `RefDict.del_item`: `clear_attr_referrers`: `Clear.attr`.
* `BaseSpaceImpl.on_delete` (a space is deleted): per cells `clear_all_values(clear_input=True)` and
  for an uncached cells `clear_obj`: `Clear.del`; per reference `clear_attr_referrers`.
* `UserSpaceImpl.on_inherit(updater, bases, attr)` – one space, one kind of member: a name some base
  defines and the space lacks is created (`set_item`: notification); a DERIVED member the space has
  and some base defines is re-inherited (`on_inherit`: `clear_obj` / `clear_attr_referrers` + notify)
  WHETHER OR NOT ITS DEFINER CHANGED; a derived member no base defines any more is deleted
  (`on_del_cells` / `on_del_ref`); defined members are only re-ordered (plain `dict` operations: no
  notification).  Which names are created / deleted depends on the definitions only, so it can be
  read off the states before and after: `inheritCells`, `inheritRefs`.
* `SpaceManager.new_cells`, `set_cells_property`, `new_ref`, `change_ref`, `del_cells`, `del_ref`,
  `rename_cells` (model.py): the sub spaces walked and what is done to each; `update_subs`,
  `SpaceUpdater.add_bases / remove_bases / del_defined_space / new_space`: `_update_derived_space`
  for every walked space, then `_update_derived_refs` for each.

Model-level references (`ModelImpl.new_ref / change_ref / del_ref`, model.py; PROOF5):

* `model._global_refs` is the last map of EVERY space's `_refs` chain (`UserSpaceImpl._init_refs`), so
  `set_item` / `del_item` on it notify every space's namespace: every cells of every space
  (`globalClearing`); `del_ref` and `RefDict.del_item` call `clear_attr_referrers(ref)` first.
* a reference is identified by the ATTRIBUTE SLOT `(space, name)` it is reached through: the slot
  denotes the space's own / derived reference of the name if there is one, otherwise (no cells of the
  name) the model-level reference of the name (`refPay`).  A bare name `x` in space `q` is bound to the
  slot `(q, x)`; `S.x` / `_space.x` in a source (a name with dots, `qualOf`) is bound to the slot
  `(S, x)` when it is DECLARED (`Tabs.slots`, fixed for a run: the binding of an attribute path does
  not depend on the state; what changes is the value of the slot) and is read `byAttr`.  The
  reference graph of the model is keyed by slots; the code's by the `ReferenceImpl` reached:
  `clear_attr_referrers(model-level x)` = the readers of every slot that denotes it (`globalAttr`).
* a reference member that is created where a model-level reference of its name is visible SHADOWS it:
  `on_create_ref` (space.py, own references, derived ones created by `SpaceManager.new_ref` /
  `change_ref`) and `UserSpaceImpl.on_inherit` (a reference derived through a change of bases; /repo
  5b95fbf) call `clear_attr_referrers(global_refs[name])`: `shadowClears`; so does the cells branch of
  `on_inherit` for a DERIVED CELLS that hides a model-level reference (/repo cdc3def): `shadowedCells`.

Not in the machine: object-valued references (the reference `S` of `S.x` itself), parametrised spaces
(`clear_subs_rootitems`), attribute paths to CELLS of other spaces at source level, `_model.x`.
-/
namespace MxModel.Edit
open MxModel.Exec

abbrev Path := SM.Path

/-! ## identities -/

/-- the allocation of identities: cells member `(space, name)` ↦ its index in `ctab`, reference member
likewise in `rtab`.  A member that is deleted and created again gets the identity back – nothing of
a deleted cells is held (`C13.dead_cells_have_nothing`). -/
structure Tabs where
  ctab : List (Path × String) := []
  rtab : List (Path × String) := []
  /-- the attribute slots `(space, name)` the sources read through (`S.x`, `_space.x`): declared up
  front (`W.init`), never changed -/
  slots : List (Path × String) := []
  /-- the values (payloads) of the model-level references (`SM.St.globals` keeps their names) -/
  gv : List (String × Nat) := []
  /-- how a declared slot is SPELLED by path: `(current path of the slot's space, the path it was declared
  under)`; no entry: the current path.  Only `space.rename` adds entries (`Edit/MachineRename.lean`): a formula
  that spells `S.x` reaches the slot through an object-valued reference to the space, which follows the OBJECT
  through a rename -/
  spell : List (Path × Path) := []
deriving Repr

def Tabs.cid (t : Tabs) (q : Path) (n : String) : CellId := t.ctab.idxOf (q, n)
def Tabs.rid (t : Tabs) (q : Path) (x : String) : RefId := t.rtab.idxOf (q, x)
def Tabs.cellOf (t : Tabs) (c : CellId) : Option (Path × String) := t.ctab[c]?
def Tabs.refOf (t : Tabs) (r : RefId) : Option (Path × String) := t.rtab[r]?

/-- append the entries of `l` that the table lacks -/
def addAll (tab l : List (Path × String)) : List (Path × String) :=
  l.foldl (fun t e => if t.contains e then t else t ++ [e]) tab

def cellMembers (st : SM.St) : List (Path × String) :=
  st.spaces.flatMap (fun s => s.cells.map (fun e => (s.id, e.1)))

def refMembers (st : SM.St) : List (Path × String) :=
  st.spaces.flatMap (fun s => s.refs.map (fun e => (s.id, e.1)))

/-- the slots through which a model-level reference can be seen: every space × every model-level name -/
def globalSlots (st : SM.St) : List (Path × String) :=
  st.ids.flatMap (fun q => st.globals.map (fun x => (q, x)))

/-- every member of `st` and every slot of a model-level reference gets an identity (those it has are kept) -/
def Tabs.grow (t : Tabs) (st : SM.St) : Tabs :=
  { t with ctab := addAll t.ctab (cellMembers st), rtab := addAll (addAll t.rtab (refMembers st)) (globalSlots st) }

/-! ## the definitions the executor sees -/

/-- what a payload stands for: the source of a formula with its flags / the value of a reference -/
structure Params where
  srcOf : Nat → Key → SProg
  valOf : Nat → Val
  /-- `is_cached` of the definition -/
  flagOf : Nat → Bool
  /-- `allow_none` of the definition, resolved cells → space → model -/
  anOf : Nat → Bool
  maxdepth : Nat
  /-- Python's keywords (`Names.isValidName`) -/
  kw : List String

/-- the container `a` of space `q` (empty when there is no such space) -/
def conts (st : SM.St) (a : SM.Attr) (q : Path) : SM.Members :=
  match st.find q with
  | some s => s.get a
  | none => []

/-- the cells of space `q`: the observers of its namespace -/
def cellsOf (t : Tabs) (st : SM.St) (q : Path) : List CellId :=
  (conts st .cells q).map (fun e => t.cid q e.1)

def refsOf (t : Tabs) (st : SM.St) (q : Path) : List RefId :=
  (conts st .refs q).map (fun e => t.rid q e.1)

/-- the path by which the slots of the space that is NOW at `q` are spelled (`Tabs.spell`) -/
def spellOf (sp : List (Path × Path)) (q : Path) : Path :=
  match sp.find? (fun e => e.1 == q) with
  | some e => e.2
  | none => q

/-- is `x` a spelling, in a formula of space `q`, of the attribute path to the slot `e`: `S.x` (`S` the
path of the space from the model, with dots) or `_space.x` for the space of the formula -/
def spelled (sp : List (Path × Path)) (q : Path) (e : Path × String) (x : String) : Bool :=
  x == ".".intercalate (spellOf sp e.1) ++ "." ++ e.2 || (e.1 == q && x == "_space." ++ e.2)

/-- the DECLARED slot the name `x` spells in space `q` (no slot declared: every name is a plain name) -/
def qualOf (t : Tabs) (q : Path) (x : String) : Option (Path × String) :=
  t.slots.find? (fun e => spelled t.spell q e x)

/-- the payload of the model-level reference `x` -/
def gpay (t : Tabs) (st : SM.St) (x : String) : Option Nat :=
  if st.globals.contains x then (t.gv.find? (fun e => e.1 == x)).map (·.2) else none

/-- what the attribute slot `(q, x)` denotes as a reference: the own / derived reference of `q`,
otherwise – `q` a space without a cells of the name – the model-level reference (the chain
`[own_refs, sys_refs, model._global_refs]` behind the cells in `space.namespace`) -/
def refPay (t : Tabs) (st : SM.St) (q : Path) (x : String) : Option Nat :=
  match st.mem .refs q x with
  | some m => some m.payload
  | none => if st.has q && (st.mem .cells q x).isNone then gpay t st x else none

/-- the namespace of `q` as the value layer sees it (plain names): cells (own and derived), then references (own and
derived, then model-level: both are the slot `(q, x)`), a child space of the name otherwise (no value).
The chain of maps of `BaseSpaceImpl.__init__` (`Struct/MechNamespace.lean`, `SM.nsOf`).  A name with dots:
the declared slot. -/
def nsPlain (t : Tabs) (st : SM.St) (q : Path) : Ns := fun x =>
  if (st.mem .cells q x).isSome then some (.cell (t.cid q x))
  else if st.globals.contains x then some (.ref (t.rid q x))
  else if (st.childNames q).contains x then none
  else if (st.mem .refs q x).isSome then some (.ref (t.rid q x))
  else none

/-- the binding of an attribute path: the declared slot -/
def slotBinding (t : Tabs) (e : Path × String) : Option Binding :=
  some (.ref (t.rid e.1 e.2))

def nsAt (t : Tabs) (st : SM.St) (q : Path) : Ns := fun x =>
  match qualOf t q x with
  | some e => slotBinding t e
  | none => nsPlain t st q x

/-- the member entry a cells identity stands for: space, name, entry -/
def cellInfo (t : Tabs) (st : SM.St) (c : CellId) : Option (Path × String × SM.Member) :=
  match t.cellOf c with
  | some (q, x) => if t.cid q x == c then (st.mem .cells q x).map (fun m => (q, x, m)) else none
  | none => none

def envOf (P : Params) (t : Tabs) (st : SM.St) : Env where
  formula := fun n =>
    match cellInfo t st n.1 with
    | some (q, _, m) => resolve (nsAt t st q) (P.srcOf m.payload n.2)
    | none => .raise errDead
  cached := fun c =>
    match cellInfo t st c with
    | some (_, _, m) => P.flagOf m.payload
    | none => false
  allowNone := fun c =>
    match cellInfo t st c with
    | some (_, _, m) => P.anOf m.payload
    | none => false
  refs := fun r =>
    match t.refOf r with
    | some (q, x) => if t.rid q x == r then (refPay t st q x).map P.valOf else none
    | none => none
  maxdepth := P.maxdepth
  observers := fun r =>
    match t.refOf r with
    | some (q, _) => cellsOf t st q
    | none => []
  alive := fun c => (cellInfo t st c).isSome
  siblings := fun c =>
    match t.cellOf c with
    | some (q, _) => cellsOf t st q
    | none => []

/-! ## the clearing primitives -/

inductive Clear
  /-- `TraceManager.clear_obj(cells)` -/
  | obj (c : CellId)
  /-- a namespace notifies the cells observing it -/
  | ns (L : List CellId)
  /-- `TraceManager.clear_attr_referrers(ref)` -/
  | attr (r : RefId)
  /-- `BaseSpaceImpl.on_delete`, one cells: `clear_all_values(clear_input=True)`; uncached: `clear_obj` -/
  | del (c : CellId)
deriving DecidableEq, Repr

def doClear (env : Env) (s : Exec.St) : Clear → Exec.St
  | .obj c => s.clearObj c
  | .ns L => s.notifyAll env L
  | .attr r => s.clearAttrReferrers r
  | .del c => if env.cached c then s.clearAllValues c true else (s.clearAllValues c true).clearObj c

def doClears (env : Env) (s : Exec.St) (cl : List Clear) : Exec.St := cl.foldl (doClear env) s

/-! ## the clearing of each structural operation -/

def derivedNames (ms : SM.Members) : List String :=
  ms.filterMap (fun e => if e.2.derived then some e.1 else none)

/-- the two containers have the same names -/
def sameKeys (xs ys : SM.Members) : Bool :=
  xs.all (fun e => (SM.mget ys e.1).isSome) && ys.all (fun e => (SM.mget xs e.1).isSome)

/-- `UserSpaceImpl.on_inherit(updater, bases, "cells")` of space `q`: every derived cells is
re-inherited or deleted (`clear_obj` either way); a name appearing in or vanishing from the container
notifies the namespace -/
def inheritCells (t : Tabs) (st st' : SM.St) (q : Path) : List Clear :=
  (derivedNames (conts st .cells q)).map (fun n => Clear.obj (t.cid q n)) ++
  (if sameKeys (conts st .cells q) (conts st' .cells q) then [] else [Clear.ns (cellsOf t st q)])

/-- `UserSpaceImpl.on_inherit(updater, bases, "own_refs")` of space `q`: every derived reference is
re-inherited (`clear_attr_referrers`, `container.notify()`) or deleted (`on_del_ref`); a new one is
put into the container (notification) -/
def inheritRefs (t : Tabs) (st st' : SM.St) (q : Path) : List Clear :=
  (derivedNames (conts st .refs q)).map (fun x => Clear.attr (t.rid q x)) ++
  (if (derivedNames (conts st .refs q)).isEmpty && sameKeys (conts st .refs q) (conts st' .refs q) then []
   else [Clear.ns (cellsOf t st q)])

/-- `_update_derived_space` for every walked space, then `_update_derived_refs` for each -/
def updateClears (t : Tabs) (st st' : SM.St) (ds : List Path) : List Clear :=
  ds.flatMap (inheritCells t st st') ++ ds.flatMap (inheritRefs t st st')

/-- is `p` the first definer of `name` along the linearisation of `q` (in `st`) -/
def firstIs (st : SM.St) (a : SM.Attr) (q : Path) (name : String) (p : Path) : Bool :=
  match st.firstDef a (st.tail q) name with
  | some (b, _) => b == p
  | none => false

/-- `UserSpaceImpl.on_change_ref`: `on_del_ref` (`del_item`: `clear_attr_referrers`, notification;
`clear_attr_referrers`), `on_create_ref` (`set_item`: notification), `clear_attr_referrers` -/
def changeRefClears (t : Tabs) (st : SM.St) (q : Path) (name : String) : List Clear :=
  [.attr (t.rid q name), .ns (cellsOf t st q), .attr (t.rid q name), .ns (cellsOf t st q),
   .attr (t.rid q name)]

/-- the name a new cells gets (`SM.St.newCellsNamed`) -/
def actualName (kw : List String) (st : SM.St) (p : Path) (name fname : String) : String :=
  if Names.isValidName kw name then name
  else if Names.isValidName kw fname then fname
  else Names.cand "" "Cells" (st.autoCells p)

/-- the spaces `del_defined_space` re-derives -/
def delSpaceUpdated (st : SM.St) (p : Path) : List Path :=
  let removed := st.ids.filter (SM.isPrefix p)
  (removed.flatMap st.subs).eraseDups.filter (fun q => !removed.contains q)

/-- the clearing modelx performs for the accepted structural operation `op` that takes `st` to `st'` -/
def clearing (kw : List String) (t : Tabs) (st st' : SM.St) : SM.Op → List Clear
  | .newCells p name fname _ =>
    -- `UserCellsImpl.__init__`: `space._cells.set_item`; per sub space: a derived cells whose first
    -- definer is the new cells now: `on_inherit`; no cells of the name: a derived one is put into the
    -- container (`set_item`); a cells defined there or derived from a base that comes first: nothing
    let nm := actualName kw st p name fname
    Clear.ns (cellsOf t st p) ::
      (st.subs p).flatMap (fun q =>
        match st.mem .cells q nm with
        | some m => if m.derived && firstIs st' .cells q nm p then [Clear.obj (t.cid q nm)] else []
        | none => [Clear.ns (cellsOf t st q)])
  | .setFormula p name _ =>
    -- `set_cells_property`: the cells itself (`on_set_property`) and its derived copies
    -- (`on_inherit`): `clear_obj` each; sub spaces that override or derive from another base: nothing
    Clear.obj (t.cid p name) ::
      (st.subs p).flatMap (fun q =>
        match st.mem .cells q name with
        | some m => if m.derived && firstIs st' .cells q name p then [Clear.obj (t.cid q name)] else []
        | none => [])
  | .setRef p name _ =>
    if (st.mem .refs p name).isSome then
      -- `change_ref`
      changeRefClears t st p name ++
        (st.subs p).flatMap (fun q =>
          match st.mem .refs q name with
          | some m => if m.derived && firstIs st' .refs q name p then changeRefClears t st q name else []
          | none => [])
    else
      -- `new_ref`: `on_create_ref` (`set_item`); per sub space as for `new_cells`, a re-inherited
      -- reference: `ReferenceImpl.on_inherit` (`clear_attr_referrers`, `container.notify()`)
      Clear.ns (cellsOf t st p) ::
        (st.subs p).flatMap (fun q =>
          match st.mem .refs q name with
          | some m =>
            if m.derived && firstIs st' .refs q name p then [Clear.attr (t.rid q name), Clear.ns (cellsOf t st q)]
            else []
          | none => [Clear.ns (cellsOf t st q)])
  | .delCells p name =>
    -- `on_del_cells`: `clear_obj`, `del_item`; then `update_subs(space, skip_self=False)`
    Clear.obj (t.cid p name) :: Clear.ns (cellsOf t st p) :: updateClears t st st' (p :: st.subs p)
  | .delRef p name =>
    -- `on_del_ref`: `del_item` (`clear_attr_referrers`, notification), `clear_attr_referrers`
    Clear.attr (t.rid p name) :: Clear.ns (cellsOf t st p) :: Clear.attr (t.rid p name) ::
      updateClears t st st' (p :: st.subs p)
  | .addBases p _ => updateClears t st st' (p :: st'.subs p)
  | .removeBases p _ => updateClears t st st' (p :: st.subs p)
  | .newSpace parent _ _ _ =>
    -- `container.set_item(name, space)`: the namespace of the parent notifies; the new space has no
    -- cells that could hold anything
    [Clear.ns (cellsOf t st parent)]
  | .delSpace p =>
    -- per removed space `parent.on_del_space(name)`: `named_spaces.del_item` (the parent's namespace
    -- notifies), `space.on_delete()`; then the sub spaces outside the tree are re-derived
    ((st.ids.filter (SM.isPrefix p)).flatMap (fun r =>
        Clear.ns (cellsOf t st r.dropLast) :: ((cellsOf t st r).map Clear.del ++ (refsOf t st r).map Clear.attr))) ++
      updateClears t st st' (delSpaceUpdated st p)
  | .renameCells p old _ =>
    -- per target `on_del_cells(old)` or `on_rename(new)`: `clear_obj`, then `del_item` / `rename_item`;
    -- then `update_subs(space)`
    ((p :: st.subs p).filter (fun q =>
        match st.mem .cells q old with
        | none => false
        | some m => q == p || !m.derived || firstIs st .cells q old p)).flatMap
      (fun q => [Clear.obj (t.cid q old), Clear.ns (cellsOf t st q)]) ++
      updateClears t st st' (st.subs p)
  | .setGlobal _ => []
  | .delGlobal _ => []

/-- `clear_attr_referrers(model-level reference x)`: the readers of every slot that denotes it -/
def globalAttr (t : Tabs) (st : SM.St) (x : String) : List Clear :=
  (t.rtab.filter (fun e => e.2 == x && (st.mem .refs e.1 x).isNone && (st.mem .cells e.1 x).isNone)).map
    (fun e => Clear.attr (t.rid e.1 x))

/-- the reference members of `st'` that `st` lacks although a model-level reference of their name
exists: they start to shadow it -/
def shadowed (st st' : SM.St) (derivedOnly : Bool) : List String :=
  ((refMembers st').filter (fun e =>
    (st.mem .refs e.1 e.2).isNone && st.globals.contains e.2 &&
      (!derivedOnly || (match st'.mem .refs e.1 e.2 with | some m => m.derived | none => false)))).map (·.2)

/-- the cells members of `st'` that `st` lacks although a model-level reference of their name exists: a
cells DERIVED into a space hides the model-level reference that was seen through the space
(`UserSpaceImpl.on_inherit`, cells branch; /repo cdc3def).  (A cells cannot be CREATED under the name of a
model-level reference: `_can_add` refuses; the cells was there before the reference.) -/
def shadowedCells (st st' : SM.St) : List String :=
  ((cellMembers st').filter (fun e => (st.mem .cells e.1 e.2).isNone && st.globals.contains e.2)).map (·.2)

/-- `BaseSpaceImpl.on_delete` (/repo 40cbe69), per deleted space: `clear_attr_referrers` of every model-level
reference whose name no own reference and no cells of the space hides – it may have been read through
attribute access to the space (ALL attribute-path readers of that reference go, through whatever space) -/
def orphanClears (t : Tabs) (st : SM.St) (p : Path) : List Clear :=
  (st.ids.filter (SM.isPrefix p)).flatMap (fun r =>
    (st.globals.filter (fun x => (st.mem .refs r x).isNone && (st.mem .cells r x).isNone)).flatMap (globalAttr t st))

/-- `if name in self.model.global_refs: clear_attr_referrers(global_refs[name])` of `on_create_ref`
(every `space.x = v`: `new_ref` and `change_ref` both end in `on_create_ref` of the space itself, and of
the sub spaces that get or re-get the reference) and of `UserSpaceImpl.on_inherit` (a reference derived
through bases: `add_bases`, `remove_bases`, `del`, `new_space(bases=…)`; the references handed to the
constructor of a new space are put into the container without it – nothing can have been read through a
space that did not exist) -/
def shadowClears (t : Tabs) (st st' : SM.St) : SM.Op → List Clear
  | .setRef _ name _ => if st.globals.contains name then globalAttr t st name else []
  | .newSpace _ _ _ _ => (shadowed st st' true ++ shadowedCells st st').flatMap (globalAttr t st)
  | .delSpace p => (shadowed st st' false ++ shadowedCells st st').flatMap (globalAttr t st) ++ orphanClears t st p
  | _ => (shadowed st st' false ++ shadowedCells st st').flatMap (globalAttr t st)

/-- the whole clearing of an accepted structural operation -/
def clearingG (kw : List String) (t : Tabs) (st st' : SM.St) (o : SM.Op) : List Clear :=
  clearing kw t st st' o ++ shadowClears t st st' o

/-- `model.x = v` / `del model.x`: `ModelImpl.del_ref` (`clear_attr_referrers`, `RefDict.del_item`:
`clear_attr_referrers`, notification) when the reference exists, `new_ref` (`set_item`: notification)
when it is set; the observers of `model._global_refs` are the `_refs` chains of ALL spaces -/
def globalClearing (t : Tabs) (st : SM.St) (x : String) : List Clear :=
  (if st.globals.contains x then globalAttr t st x ++ globalAttr t st x else []) ++
    st.ids.map (fun q => Clear.ns (cellsOf t st q))

/-- the structural operations of the machine as `struct` (model-level references carry a value: they
are the operations `setGlobal` / `delGlobal` of `Op`) -/
def supported : SM.Op → Bool
  | .setGlobal _ => false
  | .delGlobal _ => false
  | _ => true

/-! ## the machine -/

structure W where
  sm : SM.St := {}
  ex : Exec.St := {}
  tabs : Tabs := {}
deriving Repr

inductive Op
  /-- a structural edit (`SM.Op`) -/
  | struct (o : SM.Op)
  /-- `space.cells[name](*key)` -/
  | eval (q : Path) (n : String) (key : Key)
  /-- `space.cells[name][key] = v` -/
  | setValue (q : Path) (n : String) (key : Key) (v : Val)
  | clearAt (q : Path) (n : String) (key : Key)
  /-- `cells.clear()` -/
  | clear (q : Path) (n : String)
  /-- `cells.clear_all()` -/
  | clearAll (q : Path) (n : String)

/-- the machine before anything happens, with the declared attribute slots -/
def W.init (slots : List (Path × String)) : W := { tabs := { rtab := slots, slots := slots } }

def setGv (gv : List (String × Nat)) (x : String) (v : Nat) : List (String × Nat) :=
  gv.filter (fun e => e.1 != x) ++ [(x, v)]

def W.env (P : Params) (w : W) : Env := envOf P w.tabs w.sm

/-- one operation.  A refused structural operation and a value operation on a cells that does not
exist change nothing.  An accepted structural operation: the new members get identities, the clearing
is performed under the definitions (flags) in force, then the definitions are the new ones. -/
def step (P : Params) (w : W) : Op → W
  | .struct o =>
    if supported o then
      match w.sm.apply P.kw o with
      | none => w
      | some st' =>
        let t' := w.tabs.grow st'
        { sm := st', tabs := t', ex := doClears (envOf P t' w.sm) w.ex (clearing P.kw t' w.sm st' o) }
    else w
  | .eval q n key =>
    if (w.sm.mem .cells q n).isSome then { w with ex := (evalTop (w.env P) (w.tabs.cid q n, key) w.ex).2 } else w
  | .setValue q n key v =>
    if (w.sm.mem .cells q n).isSome && (w.env P).cached (w.tabs.cid q n) then
      { w with ex := (w.ex.setValue (w.env P) (w.tabs.cid q n, key) v).1 }
    else w
  | .clearAt q n key => { w with ex := w.ex.clearValueAt (w.tabs.cid q n, key) true }
  | .clear q n => { w with ex := w.ex.clearAllValues (w.tabs.cid q n) false }
  | .clearAll q n => { w with ex := w.ex.clearAllValues (w.tabs.cid q n) true }

def run (P : Params) (w : W) (ops : List Op) : W := ops.foldl (step P) w

/-- what a top-level call answers in state `w` -/
def answer (P : Params) (w : W) (q : Path) (n : String) (key : Key) : Option TopRes :=
  if (w.sm.mem .cells q n).isSome then some (evalTop (w.env P) (w.tabs.cid q n, key) w.ex).1 else none

/-! ## coverage: does the clearing reach every definition that changed?

Decidable on the two structural states and the clearing list.  `Proofs/EditMachine*.lean`: a covered
step keeps the certificate invariant (`machine_keeps_ci_partial`), and the clearing of the member
edits IS covering in every reachable state (`clearing_covers`). -/

/-- the cells is notified, or all its nodes are removed -/
def touchedBy (cl : List Clear) (c : CellId) : Bool :=
  cl.any (fun k => match k with
    | .ns L => L.contains c
    | .obj c' => c' == c
    | .del c' => c' == c
    | .attr _ => false)

/-- all nodes of the cells are removed -/
def clearedBy (cl : List Clear) (c : CellId) : Bool :=
  cl.any (fun k => match k with
    | .obj c' => c' == c
    | .del c' => c' == c
    | _ => false)

/-- the names that could be bound in the namespace of `q` -/
def nsNames (st : SM.St) (q : Path) : List String :=
  (conts st .cells q).map (·.1) ++ (conts st .refs q).map (·.1) ++ st.childNames q

def sameNs (t : Tabs) (st st' : SM.St) (q : Path) : Bool :=
  (nsNames st q ++ nsNames st' q ++ st.globals ++ st'.globals).all (fun x =>
    (qualOf t q x).isSome || nsAt t st q x == nsAt t st' q x)

def covered (t : Tabs) (st st' : SM.St) (cl : List Clear) : Bool :=
  (st.ids ++ st'.ids).all (fun q =>
    -- a changed namespace notifies the cells of the space
    (sameNs t st st' q || (cellsOf t st q).all (touchedBy cl)) &&
    -- a cells whose entry changes (new definer, new formula, deleted) is cleared as an object
    (conts st .cells q).all (fun e => st'.mem .cells q e.1 == st.mem .cells q e.1 || clearedBy cl (t.cid q e.1)) &&
    -- a reference whose entry changes (created, new value, deleted): the cells of its space are
    -- notified and, if it existed, its recorded readers are cleared
    ((conts st .refs q).map (·.1) ++ (conts st' .refs q).map (·.1)).all (fun x =>
      st'.mem .refs q x == st.mem .refs q x ||
        ((cellsOf t st q).all (touchedBy cl) &&
          ((st.mem .refs q x).isNone || cl.contains (Clear.attr (t.rid q x))))) &&
    -- a slot that denotes another reference / value than before (a reference starts or stops shadowing
    -- the model-level one, ...)
    (st.globals ++ st'.globals).all (fun x =>
      -- (a space that is deleted: `on_delete` clears the readers of the model-level references seen through it)
      refPay t st' q x == refPay t st q x ||
        ((cellsOf t st q).all (touchedBy cl) &&
          ((refPay t st q x).isNone || cl.contains (Clear.attr (t.rid q x))))))

/-- a model-level reference is set or deleted: every cells is notified, and every slot that denoted it
is reader-free -/
def coveredGlobal (t : Tabs) (st : SM.St) (x : String) (cl : List Clear) : Bool :=
  st.ids.all (fun q =>
    (cellsOf t st q).all (touchedBy cl) &&
      ((refPay t st q x).isNone || (st.mem .refs q x).isSome || cl.contains (Clear.attr (t.rid q x))))

/-- is the step `op` from `w` one whose clearing covers what changed (value-layer operations, refused
operations: yes) -/
def stepCovered (P : Params) (w : W) : Op → Bool
  | .struct o =>
    if supported o then
      match w.sm.apply P.kw o with
      | none => true
      | some st' => covered (w.tabs.grow st') w.sm st' (clearing P.kw (w.tabs.grow st') w.sm st' o)
    else true
  | _ => true

/-! ## the machine with model-level references

`step` / `Op` is the machine the theorems of `Proofs/EditMachineRun.lean` speak about: in a state
without model-level references `clearingG = clearing`.  `stepG` adds `model.x = v` / `del model.x`
and the clearing of shadowed model-level references; it is what the driver layer `edit` runs and
compares with modelx, evaluating `stepCoveredG` at every step.  Its theorems (coverage from `SM.Inv`,
`stepG_cig`, `runG_cig`, `runG_sim`): `Proofs/EditMachineGlobals*.lean`, stated in `Props/C02.lean`. -/

inductive OpG
  | op (o : Op)
  /-- `model.x = v` (`ModelImpl.set_attr`): `SM.Op.setGlobal` with the value; an existing reference is
  deleted and created (`ModelImpl.change_ref`) -/
  | setGlobal (x : String) (v : Nat)
  /-- `del model.x` -/
  | delGlobal (x : String)

def stepG (P : Params) (w : W) : OpG → W
  | .op (.struct o) =>
    if supported o then
      match w.sm.apply P.kw o with
      | none => w
      | some st' =>
        let t' := w.tabs.grow st'
        { sm := st', tabs := t', ex := doClears (envOf P t' w.sm) w.ex (clearingG P.kw t' w.sm st' o) }
    else w
  | .op o => step P w o
  | .setGlobal x v =>
    match w.sm.apply P.kw (.setGlobal x) with
    | none => w
    | some st' =>
      let t' := w.tabs.grow st'
      { sm := st', tabs := { t' with gv := setGv t'.gv x v },
        ex := doClears (envOf P t' w.sm) w.ex (globalClearing t' w.sm x) }
  | .delGlobal x =>
    match w.sm.apply P.kw (.delGlobal x) with
    | none => w
    | some st' =>
      let t' := w.tabs.grow st'
      { sm := st', tabs := t', ex := doClears (envOf P t' w.sm) w.ex (globalClearing t' w.sm x) }

def stepCoveredG (P : Params) (w : W) : OpG → Bool
  | .op (.struct o) =>
    if supported o then
      match w.sm.apply P.kw o with
      | none => true
      | some st' => covered (w.tabs.grow st') w.sm st' (clearingG P.kw (w.tabs.grow st') w.sm st' o)
    else true
  | .op _ => true
  | .setGlobal x _ =>
    match w.sm.apply P.kw (.setGlobal x) with
    | none => true
    | some st' => coveredGlobal (w.tabs.grow st') w.sm x (globalClearing (w.tabs.grow st') w.sm x)
  | .delGlobal x =>
    match w.sm.apply P.kw (.delGlobal x) with
    | none => true
    | some st' => coveredGlobal (w.tabs.grow st') w.sm x (globalClearing (w.tabs.grow st') w.sm x)

end MxModel.Edit
