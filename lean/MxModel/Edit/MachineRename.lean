import MxModel.Edit.Machine
import MxModel.Struct.MechRename
/-!
# `space.rename(new)` in the combined machine

`SpaceManager.rename_space` (modelx/core/model.py) and `UserSpaceImpl.on_rename` (space.py):

```
is_valid_name / _can_add(parent, name, UserSpaceImpl)          -- refusals: `SM.St.renameSpace`
mapping = {...}                                                  -- the relabelling of the graph
if not space.parent.is_model(): space.parent.clear_subs_rootitems()   -- ItemSpaces: not in the machine
space.on_rename(name):
    self.model.clear_obj(self)                                   -- nodes of the SPACE (ItemSpaces): none here
    self.clear_all_cells(clear_input=True, recursive=True, del_items=True)
        -- per cells of the space and of every space below it:
        --   cells.clear_all_values(clear_input=True); uncached: model.clear_obj(cells)   (/repo d7248bc)
    self.name = name
    self.parent.named_spaces.rename_item(old_name, name)         -- the PARENT's namespace notifies its cells
nx.relabel_nodes(self._graph, mapping, copy=False)
```

Nothing else is notified: the sub spaces of the renamed spaces (their derived cells are cells of
their own, defined by payloads, not by paths) keep everything; so do the renamed spaces' own
namespaces (`_self` / `_space` denote the same objects).

The cells OBJECTS survive the rename: the member `(q, x)` below `p` keeps its identity under its new
path.  The tables therefore follow the relabelling (`Tabs.mapPaths`).  The relabelling used for the
tables is the TRANSPOSITION `swapAt parent old new` (`Proofs/StructMechRenameSpace.lean`: on every id of
the state it is the code's `mapping`): it is injective on ALL paths, so a dead entry the tables still
carry for a formerly deleted space `parent.new` cannot collide with a live one (it moves to
`parent.old`, where nothing lives any more).

What the rename changes at SOURCE level (`SProg` over `Ns`): nothing.  A child space binds to no value
in `nsPlain` (a formula cannot do anything with the bare name of a child space in this language), the
new name was free in the parent (`_can_add`), every other binding is an identity, and identities are
kept (`Proofs/EditMachineRename.lean`, `envOf_renameSpace`).  What a formula of the renamed tree can
read OUTSIDE the source language is its own name (`_space.name`, `fullname`, `repr`), so the coverage
demanded of the clearing is the over-approximation "every cells of every renamed space changes its
definition": `renameCovered`.
-/
namespace MxModel.Edit
open MxModel.Exec

/-- the transposition of two names (the same text as `SM.swapName`, which lives in a proof file) -/
def swapName (a b c : String) : String := if c = a then b else if c = b then a else c

def swapHead (a b : String) : Path → Path
  | [] => []
  | c :: r => swapName a b c :: r

/-- below `parent`, the component after `parent` is transposed -/
def swapAt (parent : Path) (a b : String) (q : Path) : Path :=
  if SM.isPrefix parent q then parent ++ swapHead a b (q.drop parent.length) else q

def mapFst (ρ : Path → Path) (l : List (Path × String)) : List (Path × String) := l.map (fun e => (ρ e.1, e.2))

/-- the identities follow the relabelling: entry `i` of a table is the same object under its new path -/
def Tabs.mapPaths (t : Tabs) (ρ : Path → Path) : Tabs :=
  { ctab := mapFst ρ t.ctab, rtab := mapFst ρ t.rtab, slots := mapFst ρ t.slots, gv := t.gv,
    -- a declared slot keeps the spelling it had: `S.x` in a formula elsewhere goes through an object-valued
    -- reference to the space, which still holds the renamed object
    spell := t.slots.map (fun e => (ρ e.1, spellOf t.spell e.1)) }

/-- the relabelling of the tables for `p.rename(new)` -/
def renameMap (p : Path) (new : String) : Path → Path := swapAt p.dropLast (p.getLast?.getD "") new

/-- the spaces `clear_all_cells(recursive=True)` walks: `p` and everything below it -/
def renamed (st : SM.St) (p : Path) : List Path := st.ids.filter (SM.isPrefix p)

/-- the clearing of an accepted `p.rename(new)`: per cells of `p` and of every space below it
`clear_all_values(clear_input=True)` and, uncached, `clear_obj` (= `Clear.del`); then the parent's
container of child spaces notifies the parent's namespace (top level: the model has no cells) -/
def renameClearing (t : Tabs) (st : SM.St) (p : Path) : List Clear :=
  (renamed st p).flatMap (fun r => (cellsOf t st r).map Clear.del) ++ [Clear.ns (cellsOf t st p.dropLast)]

/-- the clearing of the code BEFORE /repo d7248bc: `clear_all_values(clear_input=True)` only – which does
nothing for an uncached cells (it holds nothing), so its nodes and the values computed through it stay -/
def renameClearingPre (P : Params) (t : Tabs) (st : SM.St) (p : Path) : List Clear :=
  (renamed st p).flatMap (fun r => ((cellsOf t st r).filter (envOf P t st).cached).map Clear.del) ++
    [Clear.ns (cellsOf t st p.dropLast)]

/-- coverage for a rename: every cells of every renamed space is cleared as an object (its definition may
mention the name of its space), the cells of the parent are notified (the parent's namespace changes) -/
def renameCovered (t : Tabs) (st : SM.St) (p : Path) (cl : List Clear) : Bool :=
  (renamed st p).all (fun r => (cellsOf t st r).all (clearedBy cl)) &&
    (cellsOf t st p.dropLast).all (touchedBy cl)

/-- histories of the machine with model-level references AND renames of spaces -/
inductive OpR
  | g (o : OpG)
  /-- `space.rename(new)` for the space at path `p` -/
  | renameSpace (p : Path) (new : String)

/-- one operation.  A refused rename changes nothing.  An accepted one: the clearing is performed under
the definitions in force, the structure is relabelled (`SM.St.renameSpace`), the tables follow.  The
inputs of the renamed spaces are DISCARDED, as the code discards them. -/
def stepR (P : Params) (w : W) : OpR → W
  | .g o => stepG P w o
  | .renameSpace p new =>
    match w.sm.renameSpace P.kw p new with
    | .error _ => w
    | .ok st' =>
      { sm := st', tabs := w.tabs.mapPaths (renameMap p new),
        ex := doClears (envOf P w.tabs w.sm) w.ex (renameClearing w.tabs w.sm p) }

/-- the same with the clearing before d7248bc (negative witness only) -/
def stepRPre (P : Params) (w : W) : OpR → W
  | .g o => stepG P w o
  | .renameSpace p new =>
    match w.sm.renameSpace P.kw p new with
    | .error _ => w
    | .ok st' =>
      { sm := st', tabs := w.tabs.mapPaths (renameMap p new),
        ex := doClears (envOf P w.tabs w.sm) w.ex (renameClearingPre P w.tabs w.sm p) }

def runR (P : Params) (w : W) (ops : List OpR) : W := ops.foldl (stepR P) w

def stepCoveredR (P : Params) (w : W) : OpR → Bool
  | .g o => stepCoveredG P w o
  | .renameSpace p new =>
    match w.sm.renameSpace P.kw p new with
    | .error _ => true
    | .ok _ => renameCovered w.tabs w.sm p (renameClearing w.tabs w.sm p)

end MxModel.Edit
