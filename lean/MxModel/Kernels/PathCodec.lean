/-!
# PathCodec: `abs_to_rel`, `rel_to_abs`, `abs_to_rel_tuple`, `rel_to_abs_tuple`
of `modelx/core/util.py`

The serializer stores direct bases (`SpaceEncoder.encode`, string form) and object-valued
references / ItemSpace input addresses (`InterfaceRefEncoder`, `_pickle_dynamic_space`,
tuple form) *relative* to the space that holds them and rebuilds the absolute address when
reading (`AttrAssignParser` `_bases`, `InterfaceDecoder.restore`, `_set_dynamic_inputs`).

Python strings are `List Char` here (core `String` is a byte array with few lemmas); the
driver converts.  Every function follows the Python statement by statement, including the
places where Python's slice semantics matter (`ns[:shared]` with a negative `shared` counts
from the end) – they are only reached by relative names the writer never produces, but the
reader accepts them and the correspondence feeds them.
-/
namespace MxModel.PathCodec

/-! ## Python primitives -/

/-- `seq[:k]` for a Python integer `k`: a negative bound counts from the end, everything is
clipped to the sequence. -/
def pySliceTo {α : Type} (xs : List α) (k : Int) : List α :=
  if k < 0 then xs.take (xs.length - k.natAbs) else xs.take k.toNat

/-- `s.split(".")`: never empty, `"".split(".") == [""]`. -/
def splitDot : List Char → List (List Char)
  | [] => [[]]
  | c :: cs =>
    if c = '.' then [] :: splitDot cs
    else match splitDot cs with
      | [] => [[c]]
      | w :: ws => (c :: w) :: ws

/-- `".".join(parts)` -/
def joinDot : List (List Char) → List Char
  | [] => []
  | [w] => w
  | w :: w' :: ws => w ++ '.' :: joinDot (w' :: ws)

/-- `"." * n` -/
def dotsStr (n : Nat) : List Char := List.replicate n '.'

/-- the loop `dots = 0; while dots < len(target) and target[dots] == ".": dots += 1` -/
def leadingDots : List Char → Nat
  | [] => 0
  | c :: cs => if c = '.' then leadingDots cs + 1 else 0

/-- The shared-prefix loop of `abs_to_rel` / `abs_to_rel_tuple`:
```
shared = 0
while shared < min(tglen, nslen) and tg[shared] == ns[shared]:
    shared += 1
```
It stops at the FIRST position where the two differ (or where one of them ends). -/
def sharedLen {α : Type} [DecidableEq α] : List α → List α → Nat
  | t :: ts, n :: ns => if t = n then sharedLen ts ns + 1 else 0
  | _, _ => 0

/-! ## String forms (dotted names) -/

/-- `abs_to_rel(target, namespace)` -/
def absToRel (target ns : List Char) : List Char :=
  let tg := splitDot target
  let nsl := splitDot ns
  let tglen := tg.length
  let nslen := nsl.length
  let shared := sharedLen tg nsl
  let dots := nslen - shared + 1
  let names := tglen - shared
  dotsStr dots ++ joinDot (tg.drop (tglen - names))

/-- `rel_to_abs(target, namespace)`.  `shared = nslen - dots + 1` is a Python integer and
may be negative; `target[dots:].split(".")` is replaced by `[]` when nothing follows the
dots ("Avoid [\"\"]"). -/
def relToAbs (target ns : List Char) : List Char :=
  let nsl := splitDot ns
  let nslen := nsl.length
  let dots := leadingDots target
  let shared : Int := (nslen : Int) - (dots : Int) + 1
  let tg := if dots < target.length then splitDot (target.drop dots) else []
  joinDot (pySliceTo nsl shared ++ tg)

/-! ## Tuple forms (id tuples) -/

/-- An element of an id tuple: a name (`str`) or the argument tuple of an ItemSpace
(opaque: only equality matters; the driver passes its `repr`). -/
inductive Elem where
  | str (s : List Char)
  | key (k : List Char)
deriving DecidableEq, Repr

inductive PErr where
  /-- `target[0]` on an empty tuple -/
  | index
  /-- `raise ValueError("invalid tuple")` -/
  | value
deriving DecidableEq, Repr

/-- `abs_to_rel_tuple(target, namespace)`: `("." * dots,) + tg[tglen - names:]` -/
def absToRelTuple (tg ns : List Elem) : List Elem :=
  let tglen := tg.length
  let nslen := ns.length
  let shared := sharedLen tg ns
  let dots := nslen - shared + 1
  let names := tglen - shared
  Elem.str (dotsStr dots) :: tg.drop (tglen - names)

/-- `s == "." * len(s)` -/
def allDots (s : List Char) : Bool := s.all (· = '.')

/-- `rel_to_abs_tuple(target, namespace)`.  (The function starts with a `while` loop that
counts leading elements equal to `"."`; its result is overwritten by the `if` that follows in
both branches, so it has no effect and is not modelled.)  An argument tuple in first position
is not a run of dots, hence `ValueError`. -/
def relToAbsTuple (target ns : List Elem) : Except PErr (List Elem) :=
  match target with
  | [] => .error .index
  | .key _ :: _ => .error .value
  | .str s :: rest =>
    if allDots s then
      let dots := s.length
      let shared : Int := (ns.length : Int) - (dots : Int) + 1
      .ok (pySliceTo ns shared ++ rest)
    else .error .value

/-- every name of a dotted path is non-empty (what `is_valid_name` guarantees for every
object modelx can create) -/
def ValidDotted (s : List Char) : Prop := ∀ w ∈ splitDot s, w ≠ []

instance (s : List Char) : Decidable (ValidDotted s) := by
  unfold ValidDotted; exact inferInstance

end MxModel.PathCodec
