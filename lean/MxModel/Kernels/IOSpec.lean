import MxModel.Kernels.Names
/-!
# IOSpec: references, `ReferenceManager._valid_to_refs` and the `IOManager`

Mirrors, function by function and with the same order of effects,

* `ReferenceManager.new_ref / del_ref / change_ref / update_value / del_all_spec / specs`
  (`modelx/core/model.py`),
* `IOManager.new_spec / add_spec / del_spec / get_spec_from_value / update_spec_value /
  update_spec`, `BaseSharedIO._can_add_spec / _can_update_spec` (`modelx/io/baseio.py`),
* `PandasData._can_add_other / _can_update_other / _can_update_value / _init_spec`
  (`modelx/io/pandasio.py`),
* `EditableParentImpl.new_pandas` (`modelx/core/parent.py`), `ModelImpl.set_attr / del_attr`,
  `UserSpaceImpl.set_attr / del_attr`, `Model.del_spec`, `PandasData.sheet` setter,
  `System.close_model`.

The model describes the code that exists (after the repairs aad9766 `change_ref` registers the
new reference first, and 626845c `_can_update_other` applies the rule of `_can_add_other`).
Four behaviours of that code break the property (C18) and are reproduced here as they are;
they are named by the `trig…` predicates at the end of the file.

Closed models.  `System.close_model` deletes the model's specs and takes the model out of the
registry - nothing else: the `Model` object and its spaces stay fully usable through the handles
the user holds (references, `_valid_to_refs`, `new_pandas` … all work as before; a second
`close()` is a no-op since 0035a5d).  The model does the same: every operation on a closed model
is performed as on an open one - except the creation of an IOSpec, which `EditableParentImpl._new_spec`
refuses for a model that is not registered (it would stay in the IOManager for ever).  Only handles of DELETED SPACES are dead (`DeletedObjectError`,
`Rej.dead`, state unchanged), and so are operations that name a model or space that never
existed (there is no handle to call).

Paths.  The key of an io is `(model, pathlib.Path(os.path.normpath(path)))` (`IOManager.new_spec`,
`update_path`): the lexical normal form (`normPath`) - `./a.csv` and `sub/../a.csv` are `a.csv`, so
different spellings of one file are one key.  `Spec.path` is the key as the code holds it
(`spec.path.as_posix()`); `pathKey` (what `pathlib` alone does) is kept for reference.

Representation.
* A Python object is a `Val`: a pandas object, another non-Interface object, or a modelx
  Interface (the only thing the code asks of a value is `isinstance(value, Interface)`,
  `isinstance(value, (Series, DataFrame))` and `is`).
* A `ReferenceImpl` is a `Ref` with an identity `rid` (every `new_ref`/`change_ref` builds a
  new object).  `refs` is the union of `ModelImpl.global_refs` (owner `space = 0`) and of
  every space's `own_refs`, as one association list keyed by (owner, name).
* `v2r` is `_valid_to_refs` of every model as one insertion-ordered association list keyed by
  (model, value identity); `ainsert`/`aerase` are Python's `d[k] = v` / `del d[k]`.
* `IOManager.ios` and `BaseSharedIO._specs` are kept as ONE ordered list of specs, each spec
  carrying its io's key (group, path) and file type: an io object exists exactly while it
  has a spec (`del_spec` → `_del_io`, and the `except:` clause of `new_spec`), and
  `insertSpec` keeps the specs of one io adjacent, in the order `ios.items()` × `specs.values()`
  iterates them (which is what `get_spec_from_value` depends on).
* Only relative paths (the io group is the model); no inheritance between spaces.
* `setPath`: the `path` setter of a spec (`BaseIOSpec.path` → `BaseSharedIO.path` →
  `IOManager.update_path`) moves the WHOLE io (every spec of the file) to the new key, at the end
  of `ios`.
-/
namespace MxModel.IOSpec
open MxModel.Names

inductive Val
  | df (i : Nat)       -- a pandas DataFrame / Series
  | plain (i : Nat)    -- any other object that is not a modelx Interface
  | iface (i : Nat)    -- a modelx Interface (cells, space, …): never tracked
deriving DecidableEq, Repr

/-- `not isinstance(value, Interface)` -/
def Val.tracked : Val → Bool
  | .iface _ => false
  | _ => true

/-- `isinstance(value, (pd.Series, pd.DataFrame))` -/
def Val.isPandas : Val → Bool
  | .df _ => true
  | _ => false

/-- `space = 0` is the model object itself, otherwise a UserSpace directly under the model -/
structure Owner where
  model : Nat
  space : Nat
deriving DecidableEq, Repr

structure Ref where
  rid : Nat
  owner : Owner
  name : String
  val : Val
deriving DecidableEq, Repr

structure Spec where
  sid : Nat
  group : Nat
  path : String
  csv : Bool
  sheet : Option String
  val : Val
deriving DecidableEq, Repr

structure St where
  /-- open models (`System.models`) -/
  models : List Nat := []
  /-- identities of closed models -/
  closed : List Nat := []
  /-- live spaces with their names (`ModelImpl.spaces`) -/
  spaces : List (Owner × String) := []
  /-- deleted spaces -/
  dead : List Owner := []
  /-- cells: owner, name, `is_scalar()` -/
  cells : List (Owner × String × Bool) := []
  refs : List Ref := []
  v2r : List ((Nat × Val) × List Ref) := []
  specs : List Spec := []
  nextRid : Nat := 0
  nextSid : Nat := 0
deriving Repr

inductive Rej
  | key | value | attribute | assertion | index | type
  | dead        -- `DeletedObjectError` (handle of a deleted space), or: no such model / space
  | outOfDomain -- not modelled (an Interface as the new value of `update_pandas`)
deriving DecidableEq, Repr

abbrev Res := St × Except Rej Unit

/-! ## Python dicts as association lists -/

def alookup {κ α} [DecidableEq κ] : List (κ × α) → κ → Option α
  | [], _ => none
  | (k', v) :: rest, k => if k' = k then some v else alookup rest k

/-- `d[k] = v`: replaces in place, or appends -/
def ainsert {κ α} [DecidableEq κ] : List (κ × α) → κ → α → List (κ × α)
  | [], k, v => [(k, v)]
  | (k', v') :: rest, k, v => if k' = k then (k, v) :: rest else (k', v') :: ainsert rest k v

/-- `del d[k]` -/
def aerase {κ α} [DecidableEq κ] (l : List (κ × α)) (k : κ) : List (κ × α) :=
  l.filter (fun e => e.1 ≠ k)

/-! ## References of a parent (`global_refs` / `own_refs`) -/

def refLookup (refs : List Ref) (o : Owner) (n : String) : Option Ref :=
  refs.find? (fun r => r.owner = o ∧ r.name = n)

def refErase (refs : List Ref) (o : Owner) (n : String) : List Ref :=
  refs.filter (fun r => ¬ (r.owner = o ∧ r.name = n))

def cellsLookup (cells : List (Owner × String × Bool)) (o : Owner) (n : String) : Option Bool :=
  match cells.find? (fun c => c.1 = o ∧ c.2.1 = n) with
  | some c => some c.2.2
  | none => none

def spaceNamed (st : St) (m : Nat) (n : String) : Option Owner :=
  match st.spaces.find? (fun s => s.1.model = m ∧ s.2 = n) with
  | some s => some s.1
  | none => none

/-- the model was created (open, or closed: its handle works as before) -/
def modelKnown (st : St) (m : Nat) : Bool := st.models.contains m || st.closed.contains m

/-- the parent's handle is usable: a model that was created (open or closed), or a space of it
that has not been deleted -/
def ownerLive (st : St) (o : Owner) : Bool :=
  modelKnown st o.model && (o.space == 0 || st.spaces.any (fun s => s.1 = o))

/-! ## Paths -/

/-- split at `/` (`cur`: the component being read, reversed) -/
def splitSlash : List Char → List Char → List (List Char)
  | cur, [] => [cur.reverse]
  | cur, c :: rest => if c = '/' then cur.reverse :: splitSlash [] rest else splitSlash (c :: cur) rest

/-- the components of a path -/
def comps (p : String) : List String := (splitSlash [] p.toList).map String.ofList

def joinSlash : List String → String
  | [] => "."
  | [a] => a
  | a :: b :: rest => a ++ "/" ++ joinSlash (b :: rest)

/-- `pathlib.PurePosixPath(p).as_posix()` for a relative path: empty components and `.` are
dropped, `..` is kept -/
def pathKey (p : String) : String :=
  joinSlash ((comps p).filter (fun c => c ≠ "" ∧ c ≠ "."))

/-- `os.path.normpath` on the components of a relative path (`acc`: the result so far, reversed) -/
def normComps : List String → List String → List String
  | acc, [] => acc.reverse
  | acc, c :: rest =>
    if c = "" ∨ c = "." then normComps acc rest
    else if c = ".." then
      match acc with
      | top :: acc' => if top = ".." then normComps (c :: acc) rest else normComps acc' rest
      | [] => normComps [c] rest
    else normComps (c :: acc) rest

/-- the file location a relative path denotes below the model's folder (`os.path.normpath`) -/
def normPath (p : String) : String := joinSlash (normComps [] (comps p))

/-- `ModelImpl.new_ref` / `SpaceManager.new_ref` (no sub spaces): a new `ReferenceImpl` -/
def mkRef (st : St) (o : Owner) (n : String) (v : Val) : Ref := ⟨st.nextRid, o, n, v⟩

def implNewRef (st : St) (o : Owner) (n : String) (v : Val) : St :=
  { st with refs := st.refs ++ [mkRef st o n v], nextRid := st.nextRid + 1 }

/-- `ModelImpl.del_ref` / `SpaceManager.del_ref` -/
def implDelRef (st : St) (o : Owner) (n : String) : St :=
  { st with refs := refErase st.refs o n }

/-- `ModelImpl.change_ref` (= `del_ref; new_ref`) / `UserSpaceImpl.on_change_ref` -/
def implChangeRef (st : St) (o : Owner) (n : String) (v : Val) : St :=
  implNewRef (implDelRef st o n) o n v

/-! ## IOManager -/

/-- `IOManager.get_spec_from_value(io_group, value)`: the first spec, in the iteration order
of `ios` and `_specs`, whose value `is value` -/
def getSpecFromValue (st : St) (m : Nat) (v : Val) : Option Spec :=
  st.specs.find? (fun σ => σ.group = m ∧ σ.val = v)

/-- `IOManager.del_spec` (+ `_del_io` when the io has no spec left) -/
def delSpec (st : St) (σ : Spec) : St :=
  { st with specs := st.specs.filter (fun τ => τ.sid ≠ σ.sid) }

/-- the specs of the io with key (group, path) -/
def ioSpecs (specs : List Spec) (m : Nat) (path : String) : List Spec :=
  specs.filter (fun c => c.group = m ∧ c.path = path)

/-- `BaseSharedIO._can_add_spec` with `PandasData._can_add_other`: a csv file holds one
spec; an Excel file holds several only if every one, and the new one, names a sheet and the
names differ -/
def canAdd (existing : List Spec) (sheet : Option String) : Bool :=
  existing.all (fun c => !c.csv && c.sheet.isSome && sheet.isSome && c.sheet != sheet)

/-- position of a new spec: after the last spec of its io, else (new io) at the end -/
def insertSpec : List Spec → Spec → List Spec
  | [], σ => [σ]
  | c :: rest, σ =>
    if c.group = σ.group ∧ c.path = σ.path ∧ ¬ rest.any (fun d => d.group = σ.group ∧ d.path = σ.path)
    then c :: σ :: rest
    else c :: insertSpec rest σ

/-- `get_or_create_io`: the file type of the io a new spec goes to – an existing io keeps its own -/
def ftOf (l : List Spec) (m : Nat) (path : String) (csv : Bool) : Bool :=
  match ioSpecs l m path with
  | c :: _ => c.csv
  | [] => csv

/-- `IOManager.new_spec(PandasData, io_group, path, {data, sheet}, {file_type})`:
`get_or_create_io` (an existing io keeps its file type), `_on_load_value` (`_init_spec`
fails on a non-pandas object), `add_spec`; on failure a freshly created io is removed. -/
def newSpec (st : St) (m : Nat) (path : String) (csv : Bool) (sheet : Option String) (data : Val) :
    St × Except Rej Spec :=
  if !data.isPandas then (st, .error .attribute)
  else if canAdd (ioSpecs st.specs m path) sheet then
    ({ st with specs := insertSpec st.specs ⟨st.nextSid, m, path, ftOf st.specs m path csv, sheet, data⟩,
               nextSid := st.nextSid + 1 },
     .ok ⟨st.nextSid, m, path, ftOf st.specs m path csv, sheet, data⟩)
  else (st, .error .value)

/-! ## ReferenceManager -/

/-- `self._valid_to_refs.setdefault(id(value), []).append(ref)` -/
def v2rAppend (st : St) (m : Nat) (v : Val) (r : Ref) : St :=
  { st with v2r := ainsert st.v2r (m, v) ((alookup st.v2r (m, v)).getD [] ++ [r]) }

/-- `ReferenceManager.new_ref` -/
def rmNewRef (st : St) (o : Owner) (n : String) (v : Val) : St :=
  if v.tracked then v2rAppend (implNewRef st o n v) o.model v (mkRef st o n v)
  else implNewRef st o n v

/-- the tail shared by `del_ref` and `change_ref`, `l` being the entry after the removal:
`if not refs: del self._valid_to_refs[valid]; spec = get_spec_from_value(...);
 if spec: del_spec(spec)` -/
def dropIfEmpty (st : St) (m : Nat) (v : Val) (l : List Ref) : St :=
  if l = [] then
    match getSpecFromValue st m v with
    | some σ => delSpec { st with v2r := aerase st.v2r (m, v) } σ
    | none => { st with v2r := aerase st.v2r (m, v) }
  else { st with v2r := ainsert st.v2r (m, v) l }

/-- `ReferenceManager.del_ref(impl, name)` -/
def rmDelRef (st : St) (o : Owner) (n : String) : Res :=
  match refLookup st.refs o n with
  | none => (st, .error .key)
  | some ref =>
    if !ref.val.tracked then (implDelRef st o n, .ok ())
    else
      match alookup st.v2r (o.model, ref.val) with
      | none => (implDelRef st o n, .error .assertion)         -- `assert refs`
      | some [] => (implDelRef st o n, .error .assertion)
      | some l =>
        if ref ∈ l then (dropIfEmpty (implDelRef st o n) o.model ref.val (l.erase ref), .ok ())
        else (implDelRef st o n, .error .value)                -- `refs.remove(ref)`

/-- the end of `change_ref`: `refs = self._valid_to_refs.get(prev_valid)`; if there is an
entry, `prev_ref` is removed from it when present, and an empty entry is dropped with its spec -/
def changeDrop (st : St) (m : Nat) (prev : Ref) : St :=
  match alookup st.v2r (m, prev.val) with
  | none => st
  | some l => dropIfEmpty st m prev.val (l.erase prev)

/-- `ReferenceManager.change_ref(impl, name, value)`: the new reference is registered first
(it may hold the very object the previous one held), then the previous one is dropped -/
def rmChangeRef (st : St) (o : Owner) (n : String) (v : Val) : Res :=
  match refLookup st.refs o n with
  | none => (st, .error .key)
  | some prev =>
    if v.tracked then
      (changeDrop (v2rAppend (implChangeRef st o n v) o.model v (mkRef st o n v)) o.model prev, .ok ())
    else (changeDrop (implChangeRef st o n v) o.model prev, .ok ())

/-- `ReferenceManager.specs`: for every entry, `get_spec(r[0].interface)` -/
def rmSpecsAux (st : St) (m : Nat) : List ((Nat × Val) × List Ref) → Except Rej (List Spec)
  | [] => .ok []
  | (k, l) :: rest =>
    if k.1 = m then
      match l with
      | [] => .error .index
      | r :: _ =>
        match rmSpecsAux st m rest with
        | .error e => .error e
        | .ok tl =>
          match getSpecFromValue st m r.val with
          | some σ => .ok (σ :: tl)
          | none => .ok tl
    else rmSpecsAux st m rest

def rmSpecs (st : St) (m : Nat) : Except Rej (List Spec) := rmSpecsAux st m st.v2r

/-- `ReferenceManager.del_all_spec` -/
def rmDelAllSpec (st : St) (m : Nat) : Res :=
  match rmSpecs st m with
  | .error e => (st, .error e)
  | .ok specs => (specs.reverse.foldl delSpec st, .ok ())

/-- the loop of `update_value`: `ref = refs.pop(); _impl_change_ref(...); newrefs.append(...)`;
`todo` is the entry reversed; when a step fails the entry keeps what was not yet popped -/
def updLoop (st : St) (m : Nat) (old new : Val) : List Ref → List Ref → Res
  | [], newrefs =>
    ({ st with v2r := ainsert (aerase st.v2r (m, old)) (m, new) newrefs }, .ok ())
  | r :: rest, newrefs =>
    match refLookup st.refs r.owner r.name with
    | none => ({ st with v2r := ainsert st.v2r (m, old) rest.reverse }, .error .key)
    | some _ =>
      updLoop (implChangeRef st r.owner r.name new) m old new rest
        (newrefs ++ [mkRef st r.owner r.name new])

/-- `IOManager.update_spec_value` for a `PandasData`: the spec now holds `new` -/
def setValMap (sid : Nat) (v : Val) (τ : Spec) : Spec := if τ.sid = sid then { τ with val := v } else τ

def setSpecVal (st : St) (σ : Spec) (new : Val) : St :=
  { st with specs := st.specs.map (setValMap σ.sid new) }

/-- `ReferenceManager.update_value(old_value, new_value)`; `new = old` is the in-place form
`update_pandas(df)` -/
def rmUpdateValue (st : St) (m : Nat) (old new : Val) : Res :=
  match alookup st.v2r (m, old) with
  | none => (st, .error .value)
  | some l =>
    if !new.tracked then (st, .error .outOfDomain)
    else
      match getSpecFromValue st m old with
      | some σ =>
        if !new.isPandas then (st, .error .value)
        else updLoop (setSpecVal st σ new) m old new l.reverse []
      | none => updLoop st m old new l.reverse []

/-! ## Parents: attribute assignment and deletion, `new_pandas` -/

/-- `ModelImpl.set_attr` / `UserSpaceImpl.set_attr` -/
def setAttr (kw : List String) (st : St) (o : Owner) (n : String) (v : Val) : Res :=
  if o.space = 0 then
    if (spaceNamed st o.model n).isSome then (st, .error .key)
    else
      match refLookup st.refs o n with
      | some _ => rmChangeRef st o n v
      | none => (rmNewRef st o n v, .ok ())
  else
    if !isValidName kw n then (st, .error .value)
    else
      match refLookup st.refs o n with
      | some _ => rmChangeRef st o n v
      | none =>
        if (refLookup st.refs ⟨o.model, 0⟩ n).isSome then (rmNewRef st o n v, .ok ())
        else
          match cellsLookup st.cells o n with
          | some true => (st, .ok ())          -- `cells.set_value((), value)`: no reference
          | some false => (st, .error .attribute)
          | none => (rmNewRef st o n v, .ok ())

/-- `del model.S`: `SpaceUpdater.del_defined_space` – the ReferenceManager is not told -/
def delSpace (st : St) (s : Owner) : St :=
  { st with spaces := st.spaces.filter (fun e => e.1 ≠ s), dead := s :: st.dead,
            cells := st.cells.filter (fun c => c.1 ≠ s),
            refs := st.refs.filter (fun r => r.owner ≠ s) }

/-- `ModelImpl.del_attr` / `UserSpaceImpl.del_attr` -/
def delAttr (st : St) (o : Owner) (n : String) : Res :=
  if o.space = 0 then
    match spaceNamed st o.model n with
    | some s => (delSpace st s, .ok ())
    | none =>
      match refLookup st.refs o n with
      | some _ => rmDelRef st o n
      | none => (st, .error .key)
  else
    match cellsLookup st.cells o n with
    | some _ => ({ st with cells := st.cells.filter (fun c => ¬ (c.1 = o ∧ c.2.1 = n)) }, .ok ())
    | none =>
      match refLookup st.refs o n with
      | some _ => rmDelRef st o n
      | none =>
        if (refLookup st.refs ⟨o.model, 0⟩ n).isSome then (st, .error .type)
        else (st, .error .key)

/-- `EditableParentImpl.new_pandas(name, path, data, file_type, sheet)`: create the spec, then
assign; `except (ValueError, KeyError, AttributeError): del_spec(spec); raise KeyError` -/
def newPandas (kw : List String) (st : St) (o : Owner) (n : String) (path : String) (csv : Bool)
    (sheet : Option String) (data : Val) : Res :=
  match newSpec st o.model path csv sheet data with
  | (st1, .error e) => (st1, .error e)
  | (st1, .ok σ) =>
    match setAttr kw st1 o n data with
    | (st2, .ok ()) => (st2, .ok ())
    | (st2, .error e) =>
      if e = .value ∨ e = .key ∨ e = .attribute then (delSpec st2 σ, .error .key)
      else (st2, .error e)

/-- `model.get_spec(value).sheet = sheet` → `IOManager.update_spec` -/
def setSheetMap (sid : Nat) (sh : Option String) (τ : Spec) : Spec :=
  if τ.sid = sid then { τ with sheet := sh } else τ

/-- `BaseSharedIO._can_update_spec` with `PandasData._can_update_other`: every OTHER spec of the
file must name a sheet, the new sheet must be named, and the names must differ (the rule of
`_can_add_other`) -/
def sheetFree (l : List Spec) (σ : Spec) (sh : Option String) : Bool :=
  (ioSpecs l σ.group σ.path).all
    (fun c => c.sid = σ.sid || (sh.isSome && c.sheet.isSome && c.sheet != sh))

def setSheet (st : St) (m : Nat) (v : Val) (sheet : Option String) : Res :=
  match getSpecFromValue st m v with
  | none => (st, .error .value)
  | some σ =>
    if sheetFree st.specs σ sheet then
      ({ st with specs := st.specs.map (setSheetMap σ.sid sheet) }, .ok ())
    else (st, .error .value)

/-- `IOManager.update_path`: the io's specs get the new path -/
def setPathMap (m : Nat) (old new : String) (τ : Spec) : Spec :=
  if τ.group = m ∧ τ.path = old then { τ with path := new } else τ

/-- `model.get_spec(value).path = path` → `IOManager.update_path(io, Path(path))`: nothing if the
key is the io's own; `ValueError` if another io has the key; otherwise `del self.ios[key_old];
self.ios[key] = io` - the io, with ALL its specs, moves to the new key at the end of `ios` -/
def setPath (st : St) (m : Nat) (v : Val) (path : String) : Res :=
  match getSpecFromValue st m v with
  | none => (st, .error .value)
  | some σ =>
    if path = σ.path then (st, .ok ())
    else if (ioSpecs st.specs σ.group path).isEmpty then
      ({ st with specs := st.specs.filter (fun τ => ¬ (τ.group = σ.group ∧ τ.path = σ.path)) ++
                          (ioSpecs st.specs σ.group σ.path).map (setPathMap σ.group σ.path path) },
       .ok ())
    else (st, .error .value)

/-- `Model.del_spec(value)` -/
def delSpecOf (st : St) (m : Nat) (v : Val) : Res :=
  match getSpecFromValue st m v with
  | none => (st, .error .value)
  | some σ => (delSpec st σ, .ok ())

/-- `System.close_model` of a registered model: `del_all_spec()`, then the model leaves the
registry (for a model that is not registered `close_model` returns at once: `stepR`) -/
def closeModel (st : St) (m : Nat) : Res :=
  match rmDelAllSpec st m with
  | (st1, .error e) => (st1, .error e)
  | (st1, .ok ()) =>
    ({ st1 with models := st1.models.filter (· ≠ m), closed := m :: st1.closed }, .ok ())

/-! ## Operations -/

inductive Op
  | newModel (m : Nat)
  | newSpace (m s : Nat) (name : String)
  | newCells (o : Owner) (name : String) (scalar : Bool)
  | newPandas (o : Owner) (name path : String) (csv : Bool) (sheet : Option String) (data : Val)
  | bind (o : Owner) (name : String) (v : Val)
  | del (o : Owner) (name : String)
  | update (m : Nat) (old new : Val)
  | setSheet (m : Nat) (v : Val) (sheet : Option String)
  | setPath (m : Nat) (v : Val) (path : String)
  | delSpec (m : Nat) (v : Val)
  | close (m : Nat)
deriving Repr

def usedOwner (st : St) (o : Owner) : Bool :=
  st.spaces.any (fun s => s.1 = o) || st.dead.contains o

def stepR (kw : List String) (st : St) : Op → Res
  | .newModel m =>
    if st.models.contains m || st.closed.contains m then (st, .error .dead)
    else ({ st with models := st.models ++ [m] }, .ok ())
  | .newSpace m s name =>
    if !modelKnown st m || s = 0 || usedOwner st ⟨m, s⟩ then (st, .error .dead)
    else if (spaceNamed st m name).isSome || (refLookup st.refs ⟨m, 0⟩ name).isSome
        || !isValidName kw name then (st, .error .value)
    else ({ st with spaces := st.spaces ++ [(⟨m, s⟩, name)] }, .ok ())
  | .newCells o name scalar =>
    if !ownerLive st o || o.space = 0 then (st, .error .dead)
    else if (cellsLookup st.cells o name).isSome || (refLookup st.refs o name).isSome
        || !isValidName kw name then (st, .error .value)
    else ({ st with cells := st.cells ++ [(o, name, scalar)] }, .ok ())
  | .newPandas o name path csv sheet data =>
    if !ownerLive st o then (st, .error .dead)
    else if st.closed.contains o.model then (st, .error .value)   -- `_new_spec`: the model is closed
    else newPandas kw st o name (normPath path) csv sheet data
  | .bind o name v =>
    if !ownerLive st o then (st, .error .dead) else setAttr kw st o name v
  | .del o name =>
    if !ownerLive st o then (st, .error .dead) else delAttr st o name
  | .update m old new =>
    if !modelKnown st m then (st, .error .dead) else rmUpdateValue st m old new
  | .setSheet m v sheet =>
    if !modelKnown st m then (st, .error .dead) else setSheet st m v sheet
  | .setPath m v path =>
    if !modelKnown st m then (st, .error .dead) else setPath st m v (normPath path)
  | .delSpec m v =>
    if !modelKnown st m then (st, .error .dead) else delSpecOf st m v
  | .close m =>
    if !modelKnown st m then (st, .error .dead)
    else if st.closed.contains m then (st, .ok ())     -- not registered: `close_model` returns
    else closeModel st m

def step (kw : List String) (st : St) (op : Op) : St := (stepR kw st op).1

def run (kw : List String) (st : St) (ops : List Op) : St := ops.foldl (step kw) st

/-! ## Spaces that are CREATED with references: `new_space(refs=…)` and `UserSpace.copy`

`SpaceUpdater.new_space(…, refs=…)` builds the space with one `ReferenceImpl` per entry of `refs` (in the order
of the mapping) and then hands them to `ReferenceManager.add_refs`, which does for each of them what `new_ref`
does for one: `_valid_to_refs.setdefault(id(value), []).append(ref)` unless the value is an Interface.  Two names
holding ONE object are two entries of the object's list.  `UserSpace.copy(model, name)`
(`SpaceUpdater._copy_space_recursively`) is `new_space(refs = the source's own_refs)` followed by a copy of every
cells.  Neither is a new primitive of the model: each is the HISTORY below (creation of the space, then one
assignment per reference, then the cells), run until the creation is refused - so every theorem about
histories (`Props/C18.lean`) speaks about them, and the correspondence checks that the code's one-step
registration agrees with the assignments one at a time. -/

/-- `model.new_space(name, refs={n₁: v₁, …})` as a history -/
def newSpaceRefsOps (m s : Nat) (name : String) (refs : List (String × Val)) : List Op :=
  .newSpace m s name :: refs.map (fun nv => .bind ⟨m, s⟩ nv.1 nv.2)

/-- `source.copy(model, name)` as a history: the references of the source in `own_refs` order, then its cells -/
def copySpaceOps (st : St) (m src s : Nat) (name : String) : List Op :=
  newSpaceRefsOps m s name ((st.refs.filter (fun r => r.owner = ⟨m, src⟩)).map (fun r => (r.name, r.val)))
    ++ (st.cells.filter (fun c => c.1 = ⟨m, src⟩)).map (fun c => .newCells ⟨m, s⟩ c.2.1 c.2.2)

/-- run a composite: when its first operation (the creation of the space) is refused nothing else happens -/
def runGuarded (kw : List String) (st : St) : List Op → Res
  | [] => (st, .ok ())
  | op :: rest =>
    match stepR kw st op with
    | (st1, .ok ()) => (rest.foldl (step kw) st1, .ok ())
    | (st1, .error e) => (st1, .error e)

/-- `source.copy(model, name)`: a deleted (or unknown) source raises before anything happens -/
def copySpace (kw : List String) (st : St) (m src s : Nat) (name : String) : Res :=
  if src = 0 || !ownerLive st ⟨m, src⟩ then (st, .error .dead)
  else runGuarded kw st (copySpaceOps st m src s name)

/-! ## The four triggers (behaviours of the code that break C18), as decidable predicates on
the state before an operation -/

/-- C18-cells-name: `new_pandas(name, …)` where `name` is a scalar cells of the space –
`set_attr` stores the value in the cells, no reference is made, nothing is undone -/
def trigCellsName (st : St) : Op → Bool
  | .newPandas o name _ _ _ _ => o.space != 0 && cellsLookup st.cells o name == some true
  | _ => false

/-- C18-double-spec: `new_pandas` for a value that already has a spec in this model -/
def trigDoubleSpec (st : St) : Op → Bool
  | .newPandas o _ _ _ _ data => (getSpecFromValue st o.model data).isSome
  | _ => false

/-- C18-del-space: `del model.S` while `S` holds a reference to a tracked value -/
def trigDirtyDelete (st : St) : Op → Bool
  | .del o name =>
    o.space == 0 &&
    (match spaceNamed st o.model name with
     | some s => st.refs.any (fun r => r.owner = s ∧ r.val.tracked)
     | none => false)
  | _ => false

/-- C18-update-onto-referenced: `update_pandas(old, new)` where `new` is another object that
is already referenced in the model – its entry is overwritten -/
def trigUpdateOnto (st : St) : Op → Bool
  | .update m old new => old != new && (alookup st.v2r (m, new)).isSome
  | _ => false

/-- the io key an operation asks for -/
def opKey : Op → Option (Nat × String)
  | .newPandas o _ path _ _ _ => some (o.model, normPath path)
  | .setPath m _ path => some (m, normPath path)
  | _ => none

def clean (st : St) (op : Op) : Bool :=
  !trigCellsName st op && !trigDoubleSpec st op && !trigDirtyDelete st op && !trigUpdateOnto st op

/-- no operation of the history hits a trigger -/
def AllClean (kw : List String) : St → List Op → Prop
  | _, [] => True
  | st, op :: rest => clean st op = true ∧ AllClean kw (step kw st op) rest

instance decAllClean (kw : List String) : (st : St) → (ops : List Op) → Decidable (AllClean kw st ops)
  | _, [] => isTrue trivial
  | st, op :: rest =>
    if h : clean st op = true then
      match decAllClean kw (step kw st op) rest with
      | isTrue h2 => isTrue ⟨h, h2⟩
      | isFalse h2 => isFalse (fun x => h2 x.2)
    else isFalse (fun x => h x.1)

end MxModel.IOSpec
