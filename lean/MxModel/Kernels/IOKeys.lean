import MxModel.Kernels.IOSpec
/-!
# IOKeys: the registry of file objects, `IOManager.ios` (`modelx/io/baseio.py`)

The layer below `Kernels/IOSpec.lean` (which knows relative paths only): WHICH key a file object is
registered under.  Mirrors

* `IOManager._get_io_key(io_group, path)`: an ABSOLUTE path belongs to the session-wide group `None`
  (files outside the models are shared by all models), a relative one to the model's group;
* `get_or_create_io(io_group, path)` as `new_spec` calls it (`claim`): the path is normalised
  (`_normalize`, f8aca39), the io registered under the key is returned, or a new one is registered;
* `update_path(io, path)` (`move`, behind `spec.path = …`): nothing when the normalised path is the
  io's own; `ValueError` when the key `_get_io_key(group_of_the_old_key, path)` is taken; otherwise
  the io is re-registered under it, at the end of the dict;
* `_del_io` (`drop`).

`update_path` takes the group from the OLD key: an io moved from an absolute to a relative path stays
in group `None` - a relative path in the session-wide group, which `write_ios` writes below EVERY
model's folder (recorded finding C18-absolute-io-shared).  The model reproduces it.
-/
namespace MxModel.IOKeys
open MxModel.IOSpec

/-- `path.is_absolute()` (POSIX) -/
def isAbs (p : String) : Bool :=
  match p.toList with
  | '/' :: _ => true
  | _ => false

/-- `os.path.normpath` above the root: leading `..` components are dropped -/
def dropUp : List String → List String
  | ".." :: rest => dropUp rest
  | l => l

def joinAbs : List String → String
  | [] => ""
  | a :: rest => "/" ++ a ++ joinAbs rest

/-- `_normalize(path)`: `os.path.normpath` -/
def norm (p : String) : String :=
  if isAbs p then
    (match dropUp (normComps [] (comps p)) with
     | [] => "/"
     | cs => joinAbs cs)
  else normPath p

/-- a registered file object: its identity and its key in `IOManager.ios` -/
structure Io where
  id : Nat
  group : Option Nat
  path : String
deriving DecidableEq, Repr

structure St where
  /-- `IOManager.ios`, in insertion order -/
  ios : List Io := []
  nextId : Nat := 0
deriving Repr

/-- `IOManager._get_io_key` -/
def getIoKey (g : Option Nat) (p : String) : Option Nat × String :=
  if isAbs p then (none, p) else (g, p)

def lookupKey (ios : List Io) (k : Option Nat × String) : Option Io :=
  ios.find? (fun i => i.group = k.1 ∧ i.path = k.2)

def lookupId (ios : List Io) (i : Nat) : Option Io := ios.find? (fun x => x.id = i)

inductive Op
  | claim (m : Nat) (path : String)      -- `get_or_create_io(model, _normalize(path))`
  | move (i : Nat) (path : String)       -- `update_path(io, path)`
  | drop (i : Nat)                       -- `_del_io(io)`
deriving Repr

inductive Ans
  | existing (i : Nat) | created (i : Nat) | ok | refused | noSuchIo
deriving DecidableEq, Repr

def stepR (st : St) : Op → St × Ans
  | .claim m path =>
    match lookupKey st.ios (getIoKey (some m) (norm path)) with
    | some io => (st, .existing io.id)
    | none =>
      ({ ios := st.ios ++ [⟨st.nextId, (getIoKey (some m) (norm path)).1, (getIoKey (some m) (norm path)).2⟩],
         nextId := st.nextId + 1 }, .created st.nextId)
  | .move i path =>
    match lookupId st.ios i with
    | none => (st, .noSuchIo)
    | some io =>
      if norm path = io.path then (st, .ok)
      else
        match lookupKey st.ios (getIoKey io.group (norm path)) with
        | some _ => (st, .refused)
        | none =>
          ({ st with ios := st.ios.filter (fun x => x.id ≠ i) ++
              [⟨i, (getIoKey io.group (norm path)).1, (getIoKey io.group (norm path)).2⟩] }, .ok)
  | .drop i => ({ st with ios := st.ios.filter (fun x => x.id ≠ i) }, .ok)

def step (st : St) (op : Op) : St := (stepR st op).1
def run (st : St) (ops : List Op) : St := ops.foldl step st

/-- the key is the one `_get_io_key` gives a file of that path: the session-wide group holds the
absolute paths and nothing else -/
def Io.wellKeyed (io : Io) : Bool := io.group.isNone == isAbs io.path

/-- the path setter from an absolute path (group `None`) to a relative one -/
def absToRel (st : St) : Op → Bool
  | .move i path =>
    (match lookupId st.ios i with
     | some io => io.group.isNone && !isAbs (norm path)
     | none => false)
  | _ => false

/-- no operation of the history moves a file from an absolute to a relative path -/
def NoAbsToRel : St → List Op → Prop
  | _, [] => True
  | st, op :: rest => absToRel st op = false ∧ NoAbsToRel (step st op) rest

instance decNoAbsToRel : (st : St) → (ops : List Op) → Decidable (NoAbsToRel st ops)
  | _, [] => isTrue trivial
  | st, op :: rest =>
    if h : absToRel st op = false then
      match decNoAbsToRel (step st op) rest with
      | isTrue h2 => isTrue ⟨h, h2⟩
      | isFalse h2 => isFalse (fun x => h2 x.2)
    else isFalse (fun x => h x.1)

end MxModel.IOKeys
