import MxModel.Kernels.SerialRead
/-!
# SerialWF: which descriptions the round-trip theorem is about (C04)

`WellFormed m` - what every model built through the public API satisfies, as far as the proof needs it
(each conjunct is decidable; the names are weaker than `is_valid_name`).

`Hk m` - the conjunction of the hypotheses that exclude the recorded C04 findings, one named predicate
per finding:

| finding (known_findings.json)   | hypothesis              |
|---------------------------------|-------------------------|
| C04-refmode-noninterface        | `RefModesWritten`       |
| C04-derived-input               | `NoDerivedInputs`       |
| C04-def-text-outside-node       | `DefTextIsNode`         |
| C04-doc-section-marker          | `NoMarkerInText`        |
| C04-ref-override-order          | `NoRefOverrideOrder`    |
| C04-relref-override-order       | `NoRelRefOverrideOrder` |
| C04-bases-order (found here)    | `NoBasesOrderConflict`  |

C04-derived-member-stale is about a DERIVED member of the live model; a description holds defined
members only, so the finding cannot be expressed (it is outside the statement, not excluded by it).
-/
namespace MxModel.Serial
open MxModel.PathCodec

/-! ## what the reader's checks look at, computed from the description -/

mutual
def spacePaths (parent : Path) : SpaceD → List Path
  | .mk i cs => (parent ++ [i.name]) :: spacesPaths (parent ++ [i.name]) cs
def spacesPaths (parent : Path) : List SpaceD → List Path
  | [] => []
  | s :: ss => spacePaths parent s ++ spacesPaths parent ss
end

mutual
def spaceCells (parent : Path) : SpaceD → List (Path × List Name)
  | .mk i cs => (parent ++ [i.name], i.cells.map (·.name)) :: spacesCells (parent ++ [i.name]) cs
def spacesCells (parent : Path) : List SpaceD → List (Path × List Name)
  | [] => []
  | s :: ss => spaceCells parent s ++ spacesCells parent ss
end

/- the direct bases of every space, in tree order (the order in which the reader adds them) -/
mutual
def spaceBases (parent : Path) : SpaceD → BaseRel
  | .mk i cs => (parent ++ [i.name], i.bases) :: spacesBases (parent ++ [i.name]) cs
def spacesBases (parent : Path) : List SpaceD → BaseRel
  | [] => []
  | s :: ss => spaceBases parent s ++ spacesBases parent ss
end

/- the reference definitions of every space, in tree order (the order in which the reader creates them) -/
mutual
def spaceRefDefs (parent : Path) : SpaceD → List (Path × RefD)
  | .mk i cs => i.refs.map (fun r => (parent ++ [i.name], r)) ++ spacesRefDefs (parent ++ [i.name]) cs
def spacesRefDefs (parent : Path) : List SpaceD → List (Path × RefD)
  | [] => []
  | s :: ss => spaceRefDefs parent s ++ spacesRefDefs parent ss
end

def ctxOf (m : MDesc) : Ctx := ⟨m.name, spacesPaths [] m.spaces, spacesCells [] m.spaces, pickleIds m⟩

def baseDefs (m : MDesc) : BaseRel := spacesBases [] m.spaces

/-- model-level references first (owner `[]`), then the spaces' in tree order -/
def refDefs (m : MDesc) : List (Path × RefD) :=
  m.refs.map (fun r => (([] : Path), (⟨r.1, r.2, .auto⟩ : RefD))) ++ spacesRefDefs [] m.spaces

/-! ## well-formedness -/

/-- non-empty, does not start with an underscore, contains no dot -/
def validName (n : Name) : Bool := n != [] && n.head? != some '_' && !n.contains '.'

def startsLambda (t : Text) : Bool := t.take 6 == "lambda".toList

def cellsWF (c : CellsD) : Bool :=
  validName c.name &&
  (match c.formula with
   | .lambda t => startsLambda t
   | .defn _ _ => c.doc == none)

def refValWF (ctx : Ctx) (bs : BaseRel) : RefVal → Bool
  | .interface t => targetExists ctx bs t
  | _ => true

def infoWF (ctx : Ctx) (bs : BaseRel) (i : SpaceInfo) : Bool :=
  validName i.name &&
  i.cells.all cellsWF && (i.cells.map (·.name)).Nodup &&
  i.refs.all (fun r => validName r.name && refValWF ctx bs r.val) && (i.refs.map (·.name)).Nodup &&
  (match i.formula with | some (.lambda t) => startsLambda t | _ => true) &&
  i.bases.all (fun b => ctx.spaces.contains b && b.all validName)

mutual
def spaceWF (ctx : Ctx) (bs : BaseRel) : SpaceD → Bool
  | .mk i cs => infoWF ctx bs i && (cs.map SpaceD.name).Nodup && spacesWF ctx bs cs
def spacesWF (ctx : Ctx) (bs : BaseRel) : List SpaceD → Bool
  | [] => true
  | s :: ss => spaceWF ctx bs s && spacesWF ctx bs ss
end

/-- unique names per container, valid names, bases exist, targets of object-valued references exist -/
def wellFormed (m : MDesc) : Bool :=
  validName m.name &&
  m.refs.all (fun r => validName r.1 && refValWF (ctxOf m) (baseDefs m) r.2) && (m.refs.map (·.1)).Nodup &&
  (m.spaces.map SpaceD.name).Nodup && spacesWF (ctxOf m) (baseDefs m) m.spaces

def WellFormed (m : MDesc) : Prop := wellFormed m = true
instance (m : MDesc) : Decidable (WellFormed m) := by unfold WellFormed; exact inferInstance

/-! ## the hypotheses that exclude the recorded findings -/

/- every space of the description satisfies `p` -/
mutual
def allSpace (p : SpaceInfo → Bool) : SpaceD → Bool
  | .mk i cs => p i && allSpaces p cs
def allSpaces (p : SpaceInfo → Bool) : List SpaceD → Bool
  | [] => true
  | s :: ss => allSpace p s && allSpaces p ss
end

def isInterface : RefVal → Bool
  | .interface _ => true
  | _ => false

/-- C04-refmode-noninterface: only `("Interface", path, mode)` carries a mode -/
def refModesWritten (m : MDesc) : Bool :=
  allSpaces (fun i => i.refs.all (fun r => isInterface r.val || r.mode == .auto)) m.spaces
def RefModesWritten (m : MDesc) : Prop := refModesWritten m = true
instance (m : MDesc) : Decidable (RefModesWritten m) := by unfold RefModesWritten; exact inferInstance

/-- C04-derived-input: no input value sits in a derived cells -/
def noDerivedInputs (m : MDesc) : Bool := allSpaces (fun i => i.derivedInputs.isEmpty) m.spaces
def NoDerivedInputs (m : MDesc) : Prop := noDerivedInputs m = true
instance (m : MDesc) : Decidable (NoDerivedInputs m) := by unfold NoDerivedInputs; exact inferInstance

def formulaIsNode : Formula → Bool
  | .lambda _ => true
  | .defn s n => s == n

/-- C04-def-text-outside-node: the text of every `def` is the text of its syntax node -/
def defTextIsNode (m : MDesc) : Bool :=
  allSpaces (fun i => i.cells.all (fun c => formulaIsNode c.formula) &&
    (match i.formula with | some f => formulaIsNode f | none => true)) m.spaces
def DefTextIsNode (m : MDesc) : Prop := defTextIsNode m = true
instance (m : MDesc) : Decidable (DefTextIsNode m) := by unfold DefTextIsNode; exact inferInstance

def stmtsClean (l : List Stmt) : Bool := l.all (fun s => (markerIn (stmtText s)).isNone)

mutual
def spaceClean (model : Name) (parent : Path) : SpaceD → Bool
  | .mk i cs => stmtsClean (spaceStmts model parent i (cs.map SpaceD.name)) &&
      spacesClean model (parent ++ [i.name]) cs
def spacesClean (model : Name) (parent : Path) : List SpaceD → Bool
  | [] => true
  | s :: ss => spaceClean model parent s && spacesClean model parent ss
end

/-- C04-doc-section-marker: no documentation string, formula or literal holds the divider line followed by
another line -/
def noMarkerInText (m : MDesc) : Bool := stmtsClean (modelStmts m) && spacesClean m.name [] m.spaces
def NoMarkerInText (m : MDesc) : Prop := noMarkerInText m = true
instance (m : MDesc) : Decidable (NoMarkerInText m) := by unfold NoMarkerInText; exact inferInstance

/-- the base lists added one space after the other in tree order: every intermediate graph has a
linearisation for every space -/
def basesPass (ctx : Ctx) : BaseRel → BaseRel → Bool
  | _, [] => true
  | bs, e :: rest => allMro ctx (bs ++ [e]) && basesPass ctx (bs ++ [e]) rest

/-- C04-bases-order -/
def noBasesOrderConflict (m : MDesc) : Bool := basesPass (ctxOf m) [] (baseDefs m)
def NoBasesOrderConflict (m : MDesc) : Prop := noBasesOrderConflict m = true
instance (m : MDesc) : Decidable (NoBasesOrderConflict m) := by unfold NoBasesOrderConflict; exact inferInstance

/-- the references created one after the other in tree order: `g done owner ref` holds each time -/
def refsPass (g : List (Path × Name) → Path → RefD → Bool) : List (Path × Name) → List (Path × RefD) → Bool
  | _, [] => true
  | done, e :: rest => g done e.1 e.2 && refsPass g (done ++ [(e.1, e.2.name)]) rest

/-- C04-ref-override-order: creating the references after all bases, in tree order, never meets a sub
space that already has the name -/
def noRefOverrideOrder (m : MDesc) : Bool :=
  refsPass (fun done p r => p == [] || !refConflict (ctxOf m) (baseDefs m) done p r.name) [] (refDefs m)
def NoRefOverrideOrder (m : MDesc) : Prop := noRefOverrideOrder m = true
instance (m : MDesc) : Decidable (NoRefOverrideOrder m) := by unfold NoRefOverrideOrder; exact inferInstance

def relTarget (r : RefD) : Option Path :=
  match r.val, r.mode with
  | .interface t, .relative => some t
  | _, _ => none

/-- C04-relref-override-order: a `relative` object-valued reference is never created while a sub space that
would take its value has no counterpart of the target -/
def noRelRefOverrideOrder (m : MDesc) : Bool :=
  refsPass (fun done p r => p == [] ||
    (match relTarget r with
     | some t => !relConflict (ctxOf m) (baseDefs m) done p r.name t
     | none => true)) [] (refDefs m)
def NoRelRefOverrideOrder (m : MDesc) : Prop := noRelRefOverrideOrder m = true
instance (m : MDesc) : Decidable (NoRelRefOverrideOrder m) := by unfold NoRelRefOverrideOrder; exact inferInstance

/-- the description avoids the triggers of all recorded findings of C04 that it can express -/
structure Hk (m : MDesc) : Prop where
  refmode : RefModesWritten m
  derivedInput : NoDerivedInputs m
  defText : DefTextIsNode m
  sectionMarker : NoMarkerInText m
  basesOrder : NoBasesOrderConflict m
  refOverride : NoRefOverrideOrder m
  relRefOverride : NoRelRefOverrideOrder m

def hk (m : MDesc) : Bool :=
  refModesWritten m && noDerivedInputs m && defTextIsNode m && noMarkerInText m &&
  noBasesOrderConflict m && noRefOverrideOrder m && noRelRefOverrideOrder m

theorem hk_iff (m : MDesc) : hk m = true ↔ Hk m := by
  unfold hk
  simp only [Bool.and_eq_true]
  constructor
  · rintro ⟨⟨⟨⟨⟨⟨a, b⟩, c⟩, d⟩, e⟩, f⟩, g⟩; exact ⟨a, b, c, d, e, f, g⟩
  · rintro ⟨a, b, c, d, e, f, g⟩; exact ⟨⟨⟨⟨⟨⟨a, b⟩, c⟩, d⟩, e⟩, f⟩, g⟩

instance (m : MDesc) : Decidable (Hk m) := decidable_of_iff _ (hk_iff m)

end MxModel.Serial
