import MxModel.Kernels.Registry
/-!
# Backup: what a save does to `<path>`, `<path>_BAK1`, `<path>_BAK2`, … (C14)

An abstract file system: slot `0` is the model path, slot `n` is `<path>_BAK<n>`.  A slot is
absent, holds a completely written copy of generation `g` (`good`), or holds something that is
not a complete copy (`part`: a directory tree some of whose files are missing/empty/already
deleted, or a truncated archive).  The kind records whether the slot is a directory
(`write_model`) or a single file (`zip_model`).

A save is the *sequence of primitive file operations* the code performs, in the order the code
performs them:

* `modelx/serialize/__init__.py::_increment_backups` (`rot`): existence checks going down
  `path, _BAK1, …` up to `max_backups`, then – on the way back up – the removal of the last
  generation (`shutil.rmtree`, i.e. one `unlink`/`rmdir` per entry, or a single `Path.unlink`
  for a file) and one `Path.rename` per slot, deepest first;
* `serializer_6.ModelWriter.write_model`, directory format (`dirWriter`): `make_root`
  (`root.mkdir(parents=True, exist_ok=True)`) and then one `mkdir`/`open`/pickle-`dump` after
  the other *below the final path* – written in place;
* `ModelWriter.write_model`, zip format (`zipWriter`): everything happens inside a
  `tempfile.TemporaryDirectory`; one `shutil.move(temp_root, root)` (an `os.rename`) puts the
  finished archive in place; `tempdir.cleanup()` follows in the `finally`.

A fault is "primitive step `k` raises, nothing after it runs": `run plan k` executes the first
`k` steps only (all steps, when `k ≥` the length of the plan) – except where the code that
called the primitive swallows the error (`faultKind`, `save`).  Every primitive is atomic with
respect to the abstract state (an `rmtree` is split into its sub-operations; a failing `open`
or `write` leaves the directory partial, which it already is).
-/
namespace MxModel.Backup

inductive Kind | dir | zip
deriving DecidableEq, Repr

inductive Slot
  | absent
  | good (k : Kind) (g : Nat)
  | part (k : Kind) (g : Nat)
deriving DecidableEq, Repr

/-- slot `0` = path, slot `n` = `path_BAK<n>` -/
abbrev FS := Nat → Slot

def FS.empty : FS := fun _ => .absent

def FS.set (fs : FS) (i : Nat) (s : Slot) : FS := fun j => if j = i then s else fs j

/-- what a slot is after something inside it has been removed -/
def Slot.damaged : Slot → Slot
  | .absent => .absent
  | .good k g => .part k g
  | .part k g => .part k g

/-- operations inside the temporary directory of a zip save.  `create`/`reopen`: `ziputil` opens
the archive anew for every member, `zipfile.ZipFile(root, "w" | "a")`.  `ZipFile.__init__` does
not let an `OSError` of that `open` escape: it retries with the next file mode (`r+b` → `w+b` →
`wb`).  For the first two opens (`create`: the archive is new or still empty) the retry is
harmless; for a later one (`reopen`) the retry with `w+b` *truncates* the archive: the members
written so far are gone, the save carries on and reports success.  (`create` is also what
openpyxl's `ZipFile(path, "w")` of a workbook among the IO data files is, in either format.)

`guarded` / `guardedClose`: operations under a handler that absorbs a `PermissionError` and tries
again.  `ziputil.copy_file` (file → archive: how `archive_dir` adds the IO data files written
to the work directory to the temporary archive) runs `with ZipFile(root, "a") as z: z.write(src,
member)` up to three times (GH82); `TemporaryDirectory.cleanup` re-tries an `unlink`/`rmdir`
after resetting permissions.  A transient `PermissionError` of `z.write` (`guarded`) is
harmless: the `with` closes the archive properly and the next attempt adds the member.  A
transient `PermissionError` of the *close* (`guardedClose`) leaves the archive without central
directory; the next attempt's `ZipFile(root, "a")` then takes it for "not a zip file, just
append" and starts a new archive behind the old bytes: every member written so far is gone,
the save carries on and reports success. -/
inductive TmpKind | plain | create | reopen | guarded | guardedClose
deriving DecidableEq, Repr

/-- the class of the error raised at the fault point, as far as the code under test
distinguishes it: `except PermissionError` (`copy_file`, `TemporaryDirectory`) vs. any `OSError`
(`zipfile`'s file-mode retry, `shutil.move`) -/
inductive Exc | os | perm
deriving DecidableEq, Repr

/-- how the environment fails: which error, and whether it is transient (`persist = false`: the
operation fails once, every later operation works) or persists (every further attempt at the
same operation on the same file fails too – a locked file, a read-only share) -/
structure Policy where
  exc : Exc := .os
  persist : Bool := false
deriving DecidableEq, Repr

inductive Prim
  /-- one `unlink`/`rmdir` of `shutil.rmtree(slot i)` (or the single `Path.unlink` of a file);
  `last`: the one that removes the slot itself -/
  | rm (i : Nat) (last : Bool)
  /-- `backup_path.rename(next_backup)`: slot `i` → slot `i+1` -/
  | rename (i : Nat)
  /-- directory format: `ziputil.make_root` = `root.mkdir(parents=True, exist_ok=True)` -/
  | mkroot (g : Nat)
  /-- directory format: one `mkdir`/`open`/`dump` below the path; `last`: the final one -/
  | write (g : Nat) (last : Bool)
  /-- zip format: an operation inside the temporary directory (building, cleaning up) -/
  | tmp (t : TmpKind)
  /-- zip format: `shutil.move(self.temp_root, self.root)` -/
  | move (g : Nat)
  /-- the same move, of an archive that lost members to a truncating retry -/
  | moveBroken (g : Nat)
deriving DecidableEq, Repr

/-- one primitive; `none` = it raises (state unchanged) -/
def step (p : Prim) (fs : FS) : Option FS :=
  match p with
  | .rm i last =>
    match fs i with
    | .absent => none
    | .good .zip _ => if last then some (fs.set i .absent) else none   -- a file: one `unlink`
    | .part .zip _ => if last then some (fs.set i .absent) else none
    | s => some (fs.set i (if last then .absent else s.damaged))
  | .rename i =>
    -- `os.rename`: the source must exist; in `_increment_backups` the target never exists
    -- (a directory cannot replace a non-empty directory: the call raises)
    if fs i = .absent then none
    else if fs (i + 1) = .absent then some ((fs.set (i + 1) (fs i)).set i .absent)
    else none
  | .mkroot g =>
    match fs 0 with
    | .absent => some (fs.set 0 (.part .dir g))
    | .good .dir _ => some fs            -- exist_ok=True
    | .part .dir _ => some fs
    | _ => none                          -- FileExistsError: a file is in the way
  | .write g last =>
    match fs 0 with
    | .good .dir _ => some (fs.set 0 (if last then .good .dir g else .part .dir g))
    | .part .dir _ => some (fs.set 0 (if last then .good .dir g else .part .dir g))
    | _ => none
  | .tmp _ => some fs
  | .move g =>
    match fs 0 with
    | .good .dir _ => none               -- IOError("… is an existing directory")
    | .part .dir _ => none
    | _ => some (fs.set 0 (.good .zip g))
  | .moveBroken g =>
    match fs 0 with
    | .good .dir _ => none
    | .part .dir _ => none
    | _ => some (fs.set 0 (.part .zip g))

/-- run the first `k` primitives of a plan; the flag says whether the whole plan ran -/
def run : List Prim → Nat → FS → FS × Bool
  | [], _, fs => (fs, true)
  | _ :: _, 0, fs => (fs, false)
  | p :: ps, k + 1, fs =>
    match step p fs with
    | none => (fs, false)
    | some fs' => run ps k fs'

/-- `shutil.rmtree` of a tree with `n - 1` entries (`n` sub-operations, the last one removes
the directory itself); a single `unlink` for a file -/
def rmSteps (i n : Nat) : List Prim := List.replicate (n - 1) (.rm i false) ++ [.rm i true]

/-- `_increment_backups(model, base_path, max_backups, nth)` with `fuel = max_backups - nth`.
All `exists()` tests are made on the way down, before any change, hence on the pre-state. -/
def rot (fs : FS) (nrm : Nat) : Nat → Nat → List Prim
  | 0, nth =>
    match fs nth with
    | .absent => []
    | .good .zip _ => [.rm nth true]
    | .part .zip _ => [.rm nth true]
    | _ => rmSteps nth nrm
  | fuel + 1, nth =>
    if fs nth = .absent then [] else rot fs nrm fuel (nth + 1) ++ [.rename nth]

def rotation (maxB nrm : Nat) (fs : FS) : List Prim := rot fs nrm maxB 0

/-- directory format, one operation after `make_root` but the last: `none` = a `mkdir`/`open`/
`dump`/`ZipFile.writestr` below the path; `some t` = an operation that leaves the (already
partial) tree as it is – openpyxl's temporary files (`plain`), its `ZipFile(path, "w")` of a
workbook below the path (`create`) -/
def dirOp (g : Nat) : Option TmpKind → Prim
  | none => .write g false
  | some t => .tmp t

/-- `n` plain operations below the path -/
def plainBody (n : Nat) : List (Option TmpKind) := List.replicate n none

/-- directory format: `make_root`, the operations `body`, the final operation below the path -/
def dirWriter (g : Nat) (body : List (Option TmpKind)) : List Prim :=
  .mkroot g :: (body.map (dirOp g) ++ [.write g true])

/-- zip format: the operations in the temporary directory (writing the members, writing the IO
data files to the work directory, adding them to the archive), the move, `b` clean-up operations
(`tempdir.cleanup()`: the `unlink`/`rmdir` calls of an `rmtree` under `TemporaryDirectory`'s
`PermissionError` handler) -/
def zipWriter (g : Nat) (pre : List TmpKind) (b : Nat) : List Prim :=
  pre.map .tmp ++ [.move g] ++ List.replicate b (.tmp .guarded)

/-- the same sequence when the archive has lost members on the way -/
def zipWriterBroken (g : Nat) (pre : List TmpKind) (b : Nat) : List Prim :=
  pre.map .tmp ++ [.moveBroken g] ++ List.replicate b (.tmp .guarded)

/-- one call of `write_model` / `zip_model`: format, generation written, and the sizes the
environment determines (entries of the tree to be removed, number of writer operations) -/
structure Save where
  kind : Kind
  g : Nat
  nrm : Nat := 1
  /-- directory format: the operations after `make_root`, but the last -/
  body : List (Option TmpKind) := []
  /-- zip format: the operations before the move -/
  pre : List TmpKind := []
  /-- zip format: clean-up operations after the move -/
  n2 : Nat := 0
  /-- how the environment fails during this call (if it does) -/
  pol : Policy := {}
deriving Repr

def writer (sv : Save) : List Prim :=
  match sv.kind with
  | .dir => dirWriter sv.g sv.body
  | .zip => zipWriter sv.g sv.pre sv.n2

def writerBroken (sv : Save) : List Prim :=
  match sv.kind with
  | .dir => dirWriter sv.g sv.body
  | .zip => zipWriterBroken sv.g sv.pre sv.n2

/-- `serialize.write_model`: `_increment_backups(model, root, max_backups)` and then
`ModelWriter(...).write_model()`; `maxB = DEFAULT_MAX_BACKUPS if backup else 0` -/
def plan (maxB : Nat) (sv : Save) (fs : FS) : List Prim := rotation maxB sv.nrm fs ++ writer sv

def planBroken (maxB : Nat) (sv : Save) (fs : FS) : List Prim :=
  rotation maxB sv.nrm fs ++ writerBroken sv

/-- what an error at primitive `k` does -/
inductive FaultKind
  | raises      -- the save is interrupted there
  | retried     -- absorbed by the calling code, which tries again: no effect
  | truncates   -- absorbed, and the next attempt re-creates the archive without its members
deriving DecidableEq, Repr

/-- who absorbs what.  `ZipFile.__init__` retries the `open` with the next file mode on any
`OSError` (a `PermissionError` is one): two more modes at most, so an error that persists comes
out.  `copy_file`'s loop and `TemporaryDirectory`'s handler absorb a `PermissionError` only,
and give up (re-raise) when it persists.  `shutil.move` falls back to `copy2` + `unlink` when its
`os.rename` fails – other operations, so even a persistent error of the rename is absorbed. -/
def faultKind (pol : Policy) (pl : List Prim) (k : Nat) : FaultKind :=
  match pl[k]? with
  | some (.tmp .create) => if pol.persist then .raises else .retried
  | some (.tmp .reopen) => if pol.persist then .raises else .truncates
  | some (.tmp .guarded) => if pol.exc = .perm ∧ pol.persist = false then .retried else .raises
  | some (.tmp .guardedClose) =>
    if pol.exc = .perm ∧ pol.persist = false then .truncates else .raises
  | some (.move _) => .retried
  | _ => .raises

/-- a save during which primitive `k` fails the way `sv.pol` says (no failure at all when `k ≥`
the plan's length) -/
def save (maxB : Nat) (sv : Save) (k : Nat) (fs : FS) : FS × Bool :=
  match faultKind sv.pol (plan maxB sv fs) k with
  | .raises => run (plan maxB sv fs) k fs
  | .retried => run (plan maxB sv fs) (plan maxB sv fs).length fs
  | .truncates => run (planBroken maxB sv fs) (planBroken maxB sv fs).length fs

/-- a sequence of saves, each with its own interruption point -/
def runHist (maxB : Nat) (fs : FS) : List (Save × Nat) → FS
  | [] => fs
  | (sv, k) :: rest => runHist maxB (save maxB sv k fs).1 rest

/-! ## The session: `serializing` flags and the registry -/

structure Session where
  reg : Registry.Reg := {}
  /-- `System.serializing is not None` -/
  serializing : Bool := false
  /-- `IOManager.serializing` -/
  ioSerializing : Bool := false
deriving Repr

/-- where a save is interrupted, relative to the `try … finally` of `ModelWriter.write_model` -/
inductive SavePhase
  | rotation      -- in `_increment_backups`, before the writer exists
  | beforeFlags   -- inside `try`, before the flags are set (`TemporaryDirectory()`, work dir)
  | body          -- flags set
  | cleanup       -- in `finally`, after the flags were reset (`tempdir.cleanup()`)
  | nowhere
deriving DecidableEq, Repr

def setFlags (s : Session) : Session := { s with serializing := true, ioSerializing := true }
def resetFlags (s : Session) : Session := { s with serializing := false, ioSerializing := false }

/-- `ModelWriter.write_model` as far as the session is concerned -/
def sessSave (s : Session) (ph : SavePhase) : Session :=
  match ph with
  | .rotation => s
  | .beforeFlags => resetFlags s
  | .body => resetFlags (setFlags s)
  | .cleanup => resetFlags (setFlags s)
  | .nowhere => resetFlags (setFlags s)

/-- where a load fails -/
inductive LoadFail
  | beforeNew     -- before `mx.new_model()` (`is_zipfile`, temporary directory)
  | rootSource    -- reading/parsing the root `__init__.py`: the model exists under its automatic name
  | afterRename   -- anywhere after the parse-time `rename(name, rename_old=True)`
  | nowhere
deriving DecidableEq, Repr

/-- `ModelReader.read_model` on the registry: `parse_dir` creates the model with
`mx.new_model()` and records it in `self.model` *before* parsing the root source; the
`except:` clause closes `self.model`. -/
def loadReg (kw : List String) (r : Registry.Reg) (name : String) (f : LoadFail) : Registry.Reg :=
  match f with
  | .beforeNew => r
  | .rootSource =>
    match Registry.newModel kw r none with
    | (r1, .ok i) => (Registry.close r1 i).1
    | (r1, .error _) => r1
  | .afterRename => (Registry.readModel kw r name true).1
  | .nowhere => (Registry.readModel kw r name false).1

def sessLoad (kw : List String) (s : Session) (name : String) (f : LoadFail) : Session :=
  resetFlags { setFlags s with reg := loadReg kw s.reg name f }

end MxModel.Backup
