import MxModel.Generated.Tables
/-!
# Dispatch: `BaseSelector.select` and the reader's phases (`serialize/serializer_6.py`)

`BaseSelector.select` returns the FIRST class of `classes` whose `condition` holds.  What
the classes are and in which order they stand is read from `/repo` on every run
(`Generated/Tables.lean`), so the statements in `Props/C04.lean` about "the value written by
encoder X is taken by the decoder for X" and "every deferred instruction is executed, inputs
of ItemSpaces last" are re-checked against the code as it is now.
-/
namespace MxModel.Dispatch
open MxModel.Generated

/-! ## The `condition`s

The selector classes' `condition` methods are read from the code as normalised source text
(`encoderConditions`, `decoderConditions`; an inherited condition is listed for the inheriting
class).  `modelled…` are the texts this model was written for; `Props/C04.conditions_as_modelled`
compares the two on every build, so an edit of any condition (`LiteralEncoder.condition` testing
with `isinstance`, `TupleDecoder.condition` looking at another element …) stops the theorems from
checking.  A condition text the model does not know accepts NOTHING in the model. -/

def modelledEncoderConditions : List (String × String) :=
  [("InterfaceRefEncoder", "(cls, ref, writer) value = ref.value; return isinstance(value, Interface) and value._is_valid()"), ("LiteralEncoder", "(cls, ref, writer) value = ref.value; return any((type(value) is t for t in cls.literal_types))"), ("IOSpecEncoder", "(cls, ref, writer) if not isinstance(ref, Interface):     return id(ref.value) in writer.value_id_map else:     return False"), ("ModuleEncoder", "(cls, ref, writer) value = ref.value; if id(value) in writer.value_id_map:     return False else:     return isinstance(value, types.ModuleType)"), ("PickleEncoder", "(cls, ref, writer) return True")]

def modelledDecoderConditions : List (String × String) :=
  [("InterfaceDecoder", "(cls, node) if isinstance(node, ast.Tuple):     if node.elts[0].s == cls.DECTYPE:         return True     elif hasattr(cls, 'DECTYPE_COMPAT') and node.elts[0].s == cls.DECTYPE_COMPAT:         return True; return False"), ("IOSpecDecoder", "(cls, node) if isinstance(node, ast.Tuple):     if node.elts[0].s == cls.DECTYPE:         return True     elif hasattr(cls, 'DECTYPE_COMPAT') and node.elts[0].s == cls.DECTYPE_COMPAT:         return True; return False"), ("ModuleDecoder", "(cls, node) if isinstance(node, ast.Tuple):     if node.elts[0].s == cls.DECTYPE:         return True     elif hasattr(cls, 'DECTYPE_COMPAT') and node.elts[0].s == cls.DECTYPE_COMPAT:         return True; return False"), ("PickleDecoder", "(cls, node) if isinstance(node, ast.Tuple):     if node.elts[0].s == cls.DECTYPE:         return True     elif hasattr(cls, 'DECTYPE_COMPAT') and node.elts[0].s == cls.DECTYPE_COMPAT:         return True; return False"), ("LiteralDecoder", "(cls, node) return True")]

/-- `LiteralEncoder.condition`: the value's type IS one of `literal_types` -/
def literalCondition : String :=
  "(cls, ref, writer) value = ref.value; return any((type(value) is t for t in cls.literal_types))"

/-- `TupleDecoder.condition`: a tuple whose first element is `DECTYPE` or `DECTYPE_COMPAT` -/
def tupleCondition : String :=
  "(cls, node) if isinstance(node, ast.Tuple):     if node.elts[0].s == cls.DECTYPE:         return True     elif hasattr(cls, 'DECTYPE_COMPAT') and node.elts[0].s == cls.DECTYPE_COMPAT:         return True; return False"

def alwaysCondition (params : String) : String := params ++ " return True"

/-- `DECTYPE_COMPAT` of a decoder class -/
def compatOf (cls : String) : Option String := decoderCompatTags.lookup cls

/-- does decoder class `d` accept a right-hand side whose first tuple element is `tag`
(`tag = ""`: the right-hand side is not a tagged tuple)?  Decided by the condition text the class
has in the code now. -/
def decoderAccepts (d : String × String) (tag : String) : Bool :=
  match decoderConditions.lookup d.1 with
  | some c =>
    if c = alwaysCondition "(cls, node)" then true
    else if c = tupleCondition then tag != "" && (d.2 == tag || compatOf d.1 == some tag)
    else false
  | none => false

/-- `DecoderSelector.select` on a right-hand side tagged `tag` -/
def selectDecoder (tag : String) : Option (String × String) :=
  decoderTags.find? (decoderAccepts · tag)

/-- the types whose values `LiteralEncoder.encode` can write as text that `LiteralDecoder.decode`
reads back: `str()` of `True`/`False`/`None` (read with `ast.literal_eval`), `json.dumps` of
numbers and strings (read with `json.loads`, which knows `NaN` and `Infinity`) -/
def textLiteralTypes : List String := ["bool", "int", "float", "str", "type(None)"]

/-- index of the phase of `_read_model_inner` in which instructions named `m` are executed -/
def phaseOf (m : String) : Option Nat :=
  let i := readerPhases.findIdx (·.contains m)
  if i < readerPhases.length then some i else none

/-- both names are executed, `a` in a strictly earlier phase than `b` -/
def phaseBefore (a b : String) : Bool :=
  match phaseOf a, phaseOf b with
  | some i, some j => i < j
  | _, _ => false

/-- position of the statement `self.<name>()` in `_read_model_inner` -/
def callStep (name : String) : Option Nat :=
  let i := readerSteps.findIdx (·.1 == name)
  if i < readerSteps.length then some i else none

/-- position of the `execute_selected_methods` call that executes instructions named `m` -/
def methodStep (m : String) : Option Nat :=
  match phaseOf m with
  | some k =>
    let i := readerSteps.findIdx (· == ("phase", k))
    if i < readerSteps.length then some i else none
  | none => none

/-- `self.<name>()` stands before the phase that executes `m` -/
def callBefore (name m : String) : Bool :=
  match callStep name, methodStep m with
  | some i, some j => i < j
  | _, _ => false

end MxModel.Dispatch
