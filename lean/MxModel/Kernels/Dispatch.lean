import MxModel.Generated.Tables
/-!
# Dispatch: `BaseSelector.select` and the reader's phases (`serialize/serializer_6.py`)

`BaseSelector.select` returns the FIRST class of `classes` whose `condition` holds.  What
the classes are and in which order they stand is read from `/repo` on every run
(`Generated/Tables.lean`), so the statements in `Props/C04.lean` about "the value written by
encoder X is taken by the decoder for X" and "every deferred instruction is executed, inputs
of ItemSpaces last" are re-checked against the code as it is now.
-/
namespace MxModel.Dispatch
open MxModel.Generated

/-- does decoder class `d` accept a right-hand side whose first tuple element is `tag`
(`tag = ""`: the right-hand side is not a tagged tuple)?  `TupleDecoder.condition`:
`node.elts[0].s == cls.DECTYPE`; `LiteralDecoder.condition`: `True`. -/
def decoderAccepts (d : String × String) (tag : String) : Bool :=
  (d.2 != "" && d.2 == tag) || unconditionalClasses.contains d.1

/-- `DecoderSelector.select` on a right-hand side tagged `tag` -/
def selectDecoder (tag : String) : Option (String × String) :=
  decoderTags.find? (decoderAccepts · tag)

/-- index of the phase of `_read_model_inner` in which instructions named `m` are executed -/
def phaseOf (m : String) : Option Nat :=
  let i := readerPhases.findIdx (·.contains m)
  if i < readerPhases.length then some i else none

/-- both names are executed, `a` in a strictly earlier phase than `b` -/
def phaseBefore (a b : String) : Bool :=
  match phaseOf a, phaseOf b with
  | some i, some j => i < j
  | _, _ => false

end MxModel.Dispatch
