import MxModel.Kernels.Names
/-!
# Registry: the session's model registry (`System` in `modelx/core/system.py`)

Mirrors `System.new_model`, `rename_model`, `_rename_samename`, `close_model`,
`ModelImpl.__init__` (naming part), `ModelImpl.rename`, and the way
`ModelReader.read_model` uses them (`mx.new_model()`, then `rename(val, rename_old=True)`
at parse time, `close()` on failure).
-/
namespace MxModel.Registry
open MxModel.Names

/-- a `ModelImpl`: identity and its own `name` field -/
structure Model where
  id : Nat
  name : String
deriving DecidableEq, Repr

structure Reg where
  /-- `System._models`: insertion-ordered dict name ↦ model -/
  models : List (String × Model) := []
  modelnamer : Nat := 0
  backupnamer : Nat := 0
  current : Option Nat := none
  nextId : Nat := 0
deriving Repr

inductive Rej | invalidName | noSuchModel
deriving DecidableEq, Repr

def keys (r : Reg) : List String := r.models.map (·.1)

def lookupName (ms : List (String × Model)) (n : String) : Option Model :=
  match ms with
  | [] => none
  | (k, m) :: rest => if k = n then some m else lookupName rest n

def lookupId (ms : List (String × Model)) (i : Nat) : Option Model :=
  match ms with
  | [] => none
  | (_, m) :: rest => if m.id = i then some m else lookupId rest i

def eraseName (ms : List (String × Model)) (n : String) : List (String × Model) :=
  ms.filter (fun e => e.1 != n)

/-- `self.models[new] = self.models.pop(old)` together with `ModelImpl.name = new` -/
def moveKey (ms : List (String × Model)) (old new : String) : List (String × Model) :=
  match lookupName ms old with
  | none => ms
  | some m => eraseName ms old ++ [(new, { m with name := new })]

/-- `rename_model(new, old, rename_old=False)` for a valid `new` (the only way
`_rename_samename` calls it).  Returns whether the rename happened. -/
def renamePlain (r : Reg) (old new : String) : Reg × Bool :=
  if new = old then (r, false)
  else if (keys r).contains new then (r, false)
  else ({ r with models := moveKey r.models old new }, true)

/-- `_rename_samename(name)`: give the model registered under `name` a backup name. -/
def renameSamename (r : Reg) (name : String) : Reg :=
  (renamePlain { r with backupnamer := (getNext (keys r) name "_BAK" r.backupnamer).1 } name
    (getNext (keys r) name "_BAK" r.backupnamer).2).1

/-- `if name in self.models: self._rename_samename(name)` -/
def freeName (r : Reg) (name : String) : Reg :=
  if (keys r).contains name then renameSamename r name else r

/-- `system._modelnamer.get_next(system.models)` -/
def autoName (r : Reg) : Reg × String :=
  ({ r with modelnamer := (getNext (keys r) "" "Model" r.modelnamer).1 },
   (getNext (keys r) "" "Model" r.modelnamer).2)

/-- `self.models[model.name] = model; self.currentmodel = model` -/
def register (r : Reg) (nm : String) : Reg × Nat :=
  ({ r with models := r.models ++ [(nm, { id := r.nextId, name := nm })],
            nextId := r.nextId + 1, current := some r.nextId }, r.nextId)

/-- `System.new_model(name)`; `name = none` or `""` auto-names.  Returns the registry as
the code leaves it and the new model's identity, or the rejection. -/
def newModel (kw : List String) (r : Reg) (name : Option String) : Reg × Except Rej Nat :=
  match name with
  | none =>
    let p := register (autoName r).1 (autoName r).2
    (p.1, .ok p.2)
  | some n =>
    let r1 := freeName r n
    if n = "" then
      let p := register (autoName r1).1 (autoName r1).2
      (p.1, .ok p.2)
    else if isValidName kw n then
      let p := register r1 n
      (p.1, .ok p.2)
    else (r1, .error .invalidName)

/-- `Model.rename(name, rename_old)` on the model with identity `i`. -/
def rename (kw : List String) (r : Reg) (i : Nat) (new : String) (renameOld : Bool) :
    Reg × Except Rej Unit :=
  match lookupId r.models i with
  | none => (r, .error .noSuchModel)
  | some m =>
    if new = m.name then (r, .ok ())
    else
      let r1 := if renameOld then freeName r new else r
      if !isValidName kw new then (r1, .error .invalidName)
      else ((renamePlain r1 m.name new).1, .ok ())

/-- `System.close_model`: closing a model that is not registered (closed already) does nothing -/
def close (r : Reg) (i : Nat) : Reg × Except Rej Unit :=
  match lookupId r.models i with
  | none => (r, .ok ())
  | some m =>
    ({ r with models := eraseName r.models m.name,
              current := if r.current = some i then none else r.current }, .ok ())

/-- `read_model(path, name)`: `new_model()`, rename at parse with `rename_old=True`,
and `close()` when parsing or a later phase fails. -/
def readModel (kw : List String) (r : Reg) (name : String) (fails : Bool) :
    Reg × Except Rej Nat :=
  match newModel kw r none with
  | (r1, .error e) => (r1, .error e)
  | (r1, .ok i) =>
    match rename kw r1 i name true with
    | (r2, .error e) => ((close r2 i).1, .error e)
    | (r2, .ok ()) =>
      if fails then ((close r2 i).1, .error .noSuchModel) else (r2, .ok i)

inductive Op
  | new (name : Option String)
  | rename (i : Nat) (new : String) (renameOld : Bool)
  | close (i : Nat)
  | read (name : String) (fails : Bool)
deriving Repr

def step (kw : List String) (r : Reg) : Op → Reg
  | .new n => (newModel kw r n).1
  | .rename i n ro => (rename kw r i n ro).1
  | .close i => (close r i).1
  | .read n f => (readModel kw r n f).1

def run (kw : List String) (r : Reg) (ops : List Op) : Reg := ops.foldl (step kw) r

end MxModel.Registry
