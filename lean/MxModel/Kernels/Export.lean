/-!
# Export: the decision logic of `modelx/export` (C15)

Two pieces of `Model.export` / `mx.export_model` are *logic* rather than translation of
Python text, and are modelled here.  Everything else (libcst rewriting of arbitrary formula
source, `symtable` scope analysis, pickling) is validated per generated program by the
check (translation validation), not modelled.

## 1. Which names become `self.<name>` (`FormulaTransformer.should_replace`, transformer.py)

The exporter (`SpaceTranslator._get_class_def`, exporter.py) builds one module-level source
per space: a dummy line `name = None` for every visible reference whose name does not start
with `_` (`dummyFor`), then one `def` per cells.  `should_replace(node)` looks the name up in
the `symtable` of the scope it occurs in; if it is *global* there, the module-level table
decides: bound at module level (dummy line or `def`) -> rewrite; else a built-in -> keep;
else -> rewrite.  The order of these tests is extracted from transformer.py
(`Generated.exportReplaceOrder`), the containers that get dummy lines from exporter.py
(`Generated.exportDummyFor`).

`mxResolve` is what modelx itself does with a global name of a formula: the space's
namespace (cells, references incl. ItemSpace arguments, child spaces) and only then Python's
built-ins.  `exportedResolve` is what the generated method does: `self.<name>` (instance or
class attribute of the space class) if rewritten, else a global of the generated module,
which holds nothing but `_mx…`/`_c_…`/`_m_…`/`_v_…` names, i.e. a built-in.
Dunder built-ins (`__import__` …), which the transformer's table leaves out, are outside
this model.

## 2. Who wins inside (nested) ItemSpaces (generated `__call__`, `_mx_copy_refs`,
`_mx_copy_params`, `_mx_assign_params`, `_mx_roots`; exporter.py `itemspace_methods`)

An exported space instance is a Python object; a name is an instance attribute (last
assignment wins) or, failing that, a class attribute (the cells methods).  `after` replays
the assignments made along a path `Model.A[1].B.C[2]…` in the order in which the generated
`__call__` makes them (`Generated.exportCallLoop`).  `mxLookup` is modelx's own chain of
`DynamicSpaceImpl._init_refs` / `_init_allargs` (space.py; orders extracted into
`Generated.mxDynRefsOrder`, `Generated.mxAllargsOrder`, `Generated.mxNamespaceOrder`).

## 3. How a reference value is written (`ParentTranslator.ref_value`, exporter.py)

`_mx_assign_refs` of the generated classes assigns every reference from one of four sources,
chosen by an `if/elif` chain over the VALUE (`Generated.exportRefValueOrder`): a modelx object
becomes a relative attribute path, a value of a *literal type* (`Generated.exportLiteralTypes`)
becomes `pprint.pformat(value)` in the source, a module found in `sys.modules` becomes
`import_module(name)`, anything else goes to the IO data or to the pickled dict.  Whether "of
a literal type" means `type(value) is t` or `isinstance(value, t)` (`Generated.exportLiteralTest`)
decides what happens to instances of strict subclasses (enum members, numpy scalars, user
classes): `readBack` says what the generated module binds when it is imported - the text of a
literal is an expression of the type that OWNS the `repr`, so an instance of a subclass comes back,
at best, as an instance of the base type.

Abstractions: values are `Int` tags; an `Env` is an association list in which the first
entry for a key is the current one; the pairing of new and base spaces by the two
`_mx_walk()` generators is taken as the identity on the static tree (`SpaceD → Env`);
`args` are the bound arguments after defaults were applied.
-/
namespace MxModel.Export

/-! ## 1. name rewriting -/

/-- what `symtable` reports for the name in the scope in which it occurs -/
inductive ScopeKind where
  | global        -- `symbol.is_global()`
  | localOrFree   -- parameter, assigned local, comprehension/lambda variable, free variable
  | absent        -- no symbol (`True`/`None`, names between `from` and `import`)
  deriving DecidableEq, Repr

/-- the names a formula of the space can see in modelx -/
structure SpaceNames where
  cells  : List String := []
  refs   : List String := []   -- `space.refs` not starting with `_`: own, derived and model-level
  spaces : List String := []   -- child spaces
  params : List String := []   -- parameters of the space's formula and of enclosing ItemSpaces
  deriving Repr

def SpaceNames.isMember (t : SpaceNames) (n : String) : Bool :=
  t.cells.contains n || t.refs.contains n || t.spaces.contains n || t.params.contains n

def container (t : SpaceNames) (c : String) : List String :=
  if c = "refs" then t.refs else if c = "cells" then t.cells
  else if c = "spaces" then t.spaces else if c = "params" then t.params else []

/-- names bound at module level of the source handed to `FormulaTransformer`:
dummy `name = None` lines for the containers in `dummyFor`, and the cells' `def`s -/
def topNames (dummyFor : List String) (t : SpaceNames) : List String :=
  (dummyFor.flatMap (container t)) ++ t.cells

/-- the tests of `should_replace` under `if symbol.is_global():`, in source order.
`top`: `symbol_top` exists -> `(is_global or is_local) and is_assigned` (a name bound at
module level by an assignment or a `def` is local and assigned there: `topAssigned`);
`builtin`: `node.value in self.builtins` -> `False`; `else` -> `True`. -/
def replaceGlobal (inTop topAssigned isBuiltin : Bool) : List String → Bool
  | [] => false
  | tag :: rest =>
    if tag = "top" then (if inTop then topAssigned else replaceGlobal inTop topAssigned isBuiltin rest)
    else if tag = "builtin" then (if isBuiltin then false else replaceGlobal inTop topAssigned isBuiltin rest)
    else if tag = "else" then true
    else replaceGlobal inTop topAssigned isBuiltin rest

/-- `FormulaTransformer.should_replace` -/
def shouldReplace (order dummyFor builtins : List String) (t : SpaceNames) (k : ScopeKind)
    (n : String) : Bool :=
  match k with
  | .global => replaceGlobal ((topNames dummyFor t).contains n) true (builtins.contains n) order
  | _ => false

/-- `FormulaTransformer.should_redirect`: `name[args]` becomes `self.name(args)` -/
def shouldRedirect (order dummyFor builtins : List String) (t : SpaceNames) (cellsLike : List String)
    (k : ScopeKind) (n : String) : Bool :=
  shouldReplace order dummyFor builtins t k n && cellsLike.contains n

inductive Target where
  | member | builtin | unbound
  deriving DecidableEq, Repr

/-- modelx: the formula's globals are the space's namespace, then `__builtins__` -/
def mxResolve (builtins : List String) (t : SpaceNames) (n : String) : Target :=
  if t.isMember n then .member else if builtins.contains n then .builtin else .unbound

/-- the exported method: `self.n` if rewritten, else a module global = built-in -/
def exportedResolve (order dummyFor builtins : List String) (t : SpaceNames) (n : String) : Target :=
  if shouldReplace order dummyFor builtins t .global n then
    (if t.isMember n then .member else .unbound)
  else (if builtins.contains n then .builtin else .unbound)

/-! ### static access: parameters have values in ItemSpaces only

`P.foo()` (no item) and `P[1].Q.foo()` (the inner level not called) evaluate formulas of a parametrised
space where some of its visible parameters have NO value.  modelx: the name is then not in the namespace
and falls through to the built-ins.  Exported: the name was rewritten to `self.<name>` (it is a parameter
somewhere), the instance has no such attribute; since fix 28e12dc the class body holds `k = k` - a class
attribute bound to the built-in - for every name of `fallbackFor` (`Generated.exportStaticFallbackFor`)
that is a built-in and in none of the containers `excl` (`Generated.exportStaticFallbackUnless`). -/

/-- a member that has a value where the formula runs; `bound`: the parameters that an ItemSpace on the
access path binds -/
def SpaceNames.hasValue (t : SpaceNames) (bound : List String) (n : String) : Bool :=
  t.cells.contains n || t.refs.contains n || t.spaces.contains n ||
    (t.params.contains n && bound.contains n)

/-- modelx: namespace (cells, references incl. the arguments of the ItemSpaces passed through, child
spaces), then `__builtins__` -/
def mxResolveAt (builtins : List String) (t : SpaceNames) (bound : List String) (n : String) : Target :=
  if t.hasValue bound n then .member else if builtins.contains n then .builtin else .unbound

/-- the class-level line `k = k` of `_get_class_def` -/
def classFallback (fallbackFor excl builtins : List String) (t : SpaceNames) (n : String) : Bool :=
  (fallbackFor.flatMap (container t)).contains n && builtins.contains n &&
    !(excl.flatMap (container t)).contains n

/-- the exported method: `self.n` (instance attribute, else class attribute) if rewritten, else a
module global = built-in -/
def exportedResolveAt (order dummyFor fallbackFor excl builtins : List String) (t : SpaceNames)
    (bound : List String) (n : String) : Target :=
  if shouldReplace order dummyFor builtins t .global n then
    (if t.hasValue bound n then .member
     else if classFallback fallbackFor excl builtins t n then .builtin else .unbound)
  else (if builtins.contains n then .builtin else .unbound)

/-- the trigger of known finding C15-builtin-named-space-or-param -/
def BuiltinNamedSpaceOrParam (dummyFor builtins : List String) (t : SpaceNames) (n : String) : Prop :=
  builtins.contains n = true ∧ (topNames dummyFor t).contains n = false ∧ t.isMember n = true

/-! ## 1b. which scope decides: the climb through inlined comprehensions

Since Python 3.12 (PEP 709) a list / set / dict comprehension has no symbol table of its own; libcst still
gives it a scope whose `assignments` are its loop variables.  `should_replace` therefore climbs from the
scope in which the name occurs to the nearest scope that has a table, and AT EVERY comprehension on the
way treats the comprehension's own variables as local.  `Frame` is what the transformer has in hand for
one scope, `classify` is the loop, `PyScope`/`pyKind` is Python's own rule (every comprehension, lambda,
function, generator expression is a scope; a name is local or free iff one of the scopes around the
occurrence binds it), `view` says what the transformer sees of a chain of Python scopes. -/

/-- one scope around an occurrence, as the transformer sees it (the list is innermost first) -/
inductive Frame where
  /-- an inlined comprehension: no symbol table; libcst knows its loop variables -/
  | comp (binds : List String)
  /-- a scope with a symbol table (function, lambda, generator expression): the names that are NOT
  global there - bound in it, or free (bound in a scope around it) -/
  | table (nonGlobal : List String)
  deriving Repr

/-- the scope look-up of `should_replace`: `while n_to_s is None: if name in scope.assignments:
return False; scope = scope.parent` and then the table's `is_global()` -/
def classify (n : String) : List Frame → ScopeKind
  | [] => .absent
  | .comp b :: rest => if b.contains n then .localOrFree else classify n rest
  | .table ng :: _ => if ng.contains n then .localOrFree else .global

/-- the nearest table only (the comprehensions on the way are not asked) -/
def skipToTable (n : String) : List Frame → ScopeKind
  | [] => .absent
  | .comp _ :: rest => skipToTable n rest
  | .table ng :: _ => if ng.contains n then .localOrFree else .global

/-- the variant of seeded change C15-mutD: the own-variable test only for the INNERMOST comprehension -/
def classifyInnermostOnly (n : String) : List Frame → ScopeKind
  | .comp b :: rest => if b.contains n then .localOrFree else skipToTable n rest
  | fs => classify n fs

/-- a scope of the formula as Python defines it -/
structure PyScope where
  binds   : List String          -- loop variables / parameters / assigned names / walrus targets
  inlined : Bool := false        -- a list / set / dict comprehension on Python >= 3.12
  deriving Repr

def pyBound (n : String) (ss : List PyScope) : Bool := ss.any (fun s => s.binds.contains n)

/-- Python: local or free if a scope around the occurrence binds the name, else global -/
def pyKind (n : String) (ss : List PyScope) : ScopeKind :=
  if pyBound n ss then .localOrFree else .global

/-- what libcst + symtable give for a chain of scopes (innermost first): an inlined comprehension shows
its own variables; a scope with a table shows every name bound in it or around it (`is_global()` is
false for locals and for free variables) -/
def view : List PyScope → List Frame
  | [] => []
  | s :: rest =>
    (if s.inlined then Frame.comp s.binds else Frame.table ((s :: rest).flatMap (·.binds))) :: view rest

/-- the rewriting decision at one occurrence -/
def shouldReplaceAt (order dummyFor builtins : List String) (t : SpaceNames) (fs : List Frame)
    (n : String) : Bool :=
  shouldReplace order dummyFor builtins t (classify n fs) n

/-- what a name means at an occurrence -/
inductive Meaning where
  | localVar                 -- the variable of an enclosing scope of the formula
  | target (t : Target)      -- a global of the formula: member of the space / built-in / nothing
  deriving DecidableEq, Repr

/-- modelx runs the formula as it is: Python's scoping, then the space's namespace, then the built-ins -/
def mxMeaning (builtins : List String) (t : SpaceNames) (ss : List PyScope) (n : String) : Meaning :=
  if pyBound n ss then .localVar else .target (mxResolve builtins t n)

/-- the exported method: a name that was not rewritten and is bound by an enclosing scope is still that
variable (the rewriting changes no binding); otherwise as `exportedResolve` -/
def exportedMeaning (order dummyFor builtins : List String) (t : SpaceNames) (ss : List PyScope)
    (n : String) : Meaning :=
  if shouldReplaceAt order dummyFor builtins t (view ss) n then
    .target (if t.isMember n then .member else .unbound)
  else if pyBound n ss then .localVar
  else .target (if builtins.contains n then .builtin else .unbound)

/-! ## 2. arguments and references along a path through (nested) ItemSpaces -/

abbrev Env := List (String × Int)

/-- first entry wins -/
def get : Env → String → Option Int
  | [], _ => none
  | (k', v) :: rest, k => if k' = k then some v else get rest k

/-- `obj.k = v`: the new entry shadows older ones -/
def set (e : Env) (k : String) (v : Int) : Env := (k, v) :: e

def firstSome {α : Type} : List (Option α) → Option α
  | [] => none
  | some v :: _ => some v
  | none :: rest => firstSome rest

/-- a static space on the path -/
structure SpaceD where
  params  : List String := []   -- parameters of its formula (`[]`: not parametrised)
  ownRefs : Env := []           -- its own (defined or derived) references
  cells   : List String := []
  deriving Repr

/-- one step of the path, `args = some a`: the space is called / subscripted with `a` -/
structure Level where
  sp   : SpaceD
  args : Option (List Int) := none
  deriving Repr

/-- what `_mx_assign_refs` assigns in the static instance (`space.refs`: own references
shadow model-level ones) -/
def staticRefs (g : Env) (d : SpaceD) : Env := d.ownRefs ++ g

/-- the names `_mx_copy_refs` copies -/
def refNames (g : Env) (d : SpaceD) : List String := (staticRefs g d).map (·.1)

/-- `for k in names: e.k = src.k` -/
def copyFrom (names : List String) (src : Env) (e : Env) : Env :=
  names.foldl (fun e k => match get src k with | some v => set e k v | none => e) e

structure Root where
  params : List String
  attrs  : Env
  deriving Repr

/-- `_mx_assign_params(_mx_space, *args)` -/
def assignParams (ps : List String) (args : List Int) (e : Env) : Env :=
  (ps.zip args).foldl (fun e p => set e p.1 p.2) e

/-- `root._mx_copy_params(other)` -/
def copyParams (r : Root) (e : Env) : Env := copyFrom r.params r.attrs e

/-- `for _mx_r in self._mx_roots: _mx_r._mx_copy_params(_mx_s)` (outermost root first) -/
def copyAllParams (roots : List Root) (e : Env) : Env := roots.foldl (fun e r => copyParams r e) e

/-- one statement of the loop body of the generated `__call__` -/
def loopStep (rn : List String) (base : Env) (roots : List Root) (ps : List String)
    (args : List Int) (e : Env) (tag : String) : Env :=
  if tag = "copy_refs" then copyFrom rn base e
  else if tag = "copy_params" then copyAllParams roots e
  else if tag = "assign_params" then assignParams ps args e
  else e      -- `_mx_roots.extend/append`: no attribute of the space changes

/-- attributes of one freshly created space of the new dynamic tree -/
def newAttrs (order : List String) (rn : List String) (base : Env) (roots : List Root)
    (ps : List String) (args : List Int) : Env :=
  order.foldl (loopStep rn base roots ps args) []

/-- State after entering the levels `lv` (INNERMOST FIRST): the attributes of the instance
of every static space `d` below the innermost level, and `_mx_roots` of those instances. -/
def after (order : List String) (g : Env) : List Level → (SpaceD → Env) × List Root
  | [] => (staticRefs g, [])
  | l :: outer =>
    match l.args with
    | none => after order g outer
    | some a =>
      ((fun d => newAttrs order (refNames g d) ((after order g outer).1 d) (after order g outer).2
                  l.sp.params a),
       (after order g outer).2 ++
         [⟨l.sp.params, newAttrs order (refNames g l.sp) ((after order g outer).1 l.sp)
                          (after order g outer).2 l.sp.params a⟩])

inductive Res where
  | val (v : Int) | cells | unbound
  deriving DecidableEq, Repr

/-- `self.k` in the innermost space of the path (levels innermost first) -/
def exportedLookup (order : List String) (g : Env) (lv : List Level) (k : String) : Res :=
  match lv with
  | [] => .unbound
  | inner :: _ =>
    match get ((after order g lv).1 inner.sp) k with
    | some v => .val v
    | none => if inner.sp.cells.contains k then .cells else .unbound

/-- `_init_allargs`: own arguments, then the parent's chain (order extracted) -/
def argOf (aord : List String) : List Level → String → Option Int
  | [], _ => none
  | l :: outer, k =>
    match l.args with
    | none => argOf aord outer k
    | some a =>
      firstSome (aord.map fun t =>
        if t = "own" then get (l.sp.params.zip a) k
        else if t = "parent" then argOf aord outer k else none)

/-- the `refs` chain of `DynamicSpaceImpl._init_refs` (a dynamic space has no references of
its own unless its formula returns some, which the exporter does not support; `_sys_refs`
are the `_space`/`_model` names) -/
def mxRefLookup (rord aord : List String) (g : Env) (lv : List Level) (k : String) : Option Int :=
  match lv with
  | [] => none
  | inner :: _ =>
    firstSome (rord.map fun t =>
      if t = "allargs" then argOf aord lv k
      else if t = "dynbase_refs" then get inner.sp.ownRefs k
      else if t = "global_refs" then get g k
      else none)

/-- the namespace of the innermost space: `cells`, `refs`, `spaces` in the extracted order -/
def mxLookup (nord rord aord : List String) (g : Env) (lv : List Level) (k : String) : Res :=
  match lv with
  | [] => .unbound
  | inner :: _ =>
    match firstSome (nord.map fun t =>
      if t = "cells" then (if inner.sp.cells.contains k then some Res.cells else none)
      else if t = "refs" then (mxRefLookup rord aord g lv k).map Res.val
      else none) with
    | some r => r
    | none => .unbound

/-- every call passes as many arguments as the formula has parameters (Python raises
otherwise) and parameter names are distinct (a `SyntaxError` otherwise) -/
def WF : List Level → Prop
  | [] => True
  | l :: outer =>
    l.sp.params.Nodup ∧ (∀ a, l.args = some a → a.length = l.sp.params.length) ∧ WF outer

/-- the trigger of known finding C15-cells-shadowed-by-attr: a cells of the innermost space
has the name of a visible parameter or reference -/
def CellsShadowed (aord : List String) (g : Env) (lv : List Level) (k : String) : Prop :=
  match lv with
  | [] => False
  | inner :: _ => inner.sp.cells.contains k = true ∧
      ((argOf aord lv k).isSome ∨ (get (staticRefs g inner.sp) k).isSome)

/-! ## 2b. object-valued references in an item: the base's object or the item's counterpart

A reference whose value is a cells or a space is copied into a new item `P[a]` by the generated
`_mx_copy_refs` (ParentTranslator.ref_copies) in one of two ways, chosen by the reference MODE through an
if/elif chain that is extracted into `Generated.exportRefCopyRule`: `"base"` - `self.k = base.k`, the
item gets the object the base space has; `"inside"` - the item's counterpart of the object
(`P[a].Ch` for `P.Ch`) if the object lies inside the base root, else the base's object.  Model-level
references have no mode (`"none"`).  modelx (`DynBaseRefDict.wrap_impl`, C10): relative references are
re-bound, auto references are re-bound iff the target lies inside the copied tree, absolute and
model-level ones never.  What "the base" is for an item below an item is NOT modelled here (known
finding C15-nested-item-auto-ref). -/

inductive Binding where
  | baseObject        -- the object the base space's reference denotes
  | itemCounterpart   -- the same position inside the new item
  deriving DecidableEq, Repr

/-- the action the chain selects for a mode: first entry for the mode, or for `"*"` (an `else` branch) -/
def refCopyAction : List (String × String) → String → Option String
  | [], _ => none
  | (k, a) :: rest, mode => if k = mode || k = "*" then some a else refCopyAction rest mode

/-- what `_mx_copy_refs` binds -/
def copiedBinding (rule : List (String × String)) (mode : String) (inside : Bool) : Option Binding :=
  match refCopyAction rule mode with
  | some a =>
    if a = "base" then some .baseObject
    else if a = "inside" then some (if inside then .itemCounterpart else .baseObject)
    else none
  | none => none

/-- modelx: only relative references, and auto references (which are relative exactly when the target is
inside the tree), are re-bound; a relative reference to an object outside the tree cannot exist in an item
(modelx refuses to create the item), so `inside` decides for both -/
def mxBinding (mode : String) (inside : Bool) : Binding :=
  if (mode = "auto" || mode = "relative") && inside then .itemCounterpart else .baseObject

/-! ## 3. how a reference value is written -/

/-- what `ref_value` looks at, and what identifies the value afterwards -/
structure PyVal where
  ty      : String               -- the exact type, `type(value)`
  bases   : List String := []    -- its strict bases (the rest of `type(value).__mro__`)
  iface   : Bool := false        -- a modelx object (`Interface`)
  valid   : Bool := true         -- `value._is_valid()`
  sysmod  : Bool := false        -- a module that is in `sys.modules`
  iospec  : Bool := false        -- registered with an IOSpec (`DataManager.get_code`)
  reprEvaluates : Bool := true   -- for a value of a literal type: `eval(repr(value))` is the value
                                 -- (false for the floats nan, inf, -inf)
  finite  : Bool := true         -- for a float: `math.isfinite(value)`
  reprInherited : Bool := true   -- for an instance of a subclass: `repr` is the base type's
  payload : Int := 0             -- the rest of the value
  deriving Repr

inductive Emit where
  | path          -- `self._parent….name`
  | noneLit       -- `None` for a modelx object that is no longer valid
  | literal       -- `pprint.pformat(value)`
  | importModule  -- `_mx_sys.import_module('name')`
  | ioData        -- `io_data[id]`
  | pickle        -- `pickle_data[id]`
  deriving DecidableEq, Repr

/-- the test of the literal branch -/
def isLiteral (test : String) (lits : List String) (v : PyVal) : Bool :=
  if test = "exact" then lits.contains v.ty
  else if test = "exact-finite" then lits.contains v.ty && !(v.ty == "float" && !v.finite)
  else if test = "isinstance" then (v.ty :: v.bases).any lits.contains
  else if test = "isinstance-finite" then
    (v.ty :: v.bases).any lits.contains && !(v.ty == "float" && !v.finite)
  else false

/-- `ParentTranslator.ref_value`: the first branch (in the extracted order) whose test holds;
the last branch (`data`) has no test -/
def refValue (test : String) (lits : List String) (v : PyVal) : List String → Emit
  | [] => .pickle
  | tag :: rest =>
    if tag = "interface" then
      (if v.iface then (if v.valid then .path else .noneLit) else refValue test lits v rest)
    else if tag = "literal" then
      (if isLiteral test lits v then .literal else refValue test lits v rest)
    else if tag = "module" then
      (if v.sysmod then .importModule else refValue test lits v rest)
    else if tag = "data" then (if v.iospec then .ioData else .pickle)
    else refValue test lits v rest

/-- What the imported package binds, as (exact type, payload); `none`: the generated module
cannot be imported (the text is not an expression, or names something the module does not
define).  Paths, modules, IO data and pickles give the value back (assumed: the check validates
them per generated model); a literal gives a value of the type that owns the `repr`. -/
def readBack (lits : List String) (e : Emit) (v : PyVal) : Option (String × Int) :=
  match e with
  | .literal =>
    if lits.contains v.ty then (if v.reprEvaluates then some (v.ty, v.payload) else none)
    else if v.reprInherited then (v.bases.find? lits.contains).map (fun b => (b, v.payload))
    else none
  | .noneLit => some ("NoneType", 0)
  | _ => some (v.ty, v.payload)

/-- the trigger of the (repaired, 3bae90c) finding C15-nonfinite-float-ref: a value of a literal type
whose `repr` is not a literal of that value -/
def LiteralReprNotExpr (lits : List String) (v : PyVal) : Prop :=
  lits.contains v.ty = true ∧ v.reprEvaluates = false

/-- What is assumed of Python about `repr` of the exact literal types (`bool`, `int`, `float`, `str`,
`NoneType`): it is an expression for the value, except for the floats that are not finite.  This is
the part of the statement the model takes from CPython; the correspondence samples it (every
written literal is read back by importing the generated package). -/
def ReprModel (lits : List String) (v : PyVal) : Prop :=
  lits.contains v.ty = true → v.reprEvaluates = (!(v.ty == "float" && !v.finite))

/-! ## 4. the cache methods of the generated classes (`SpaceTranslator.cache_method_noparam`, `cache_method`)

A cached cells `x` of an exported space is read through a generated method `x(self, ..)` that consults a cache
before calling the translated formula `_f_x`: for a cells without parameters the pair `_has_x` (a flag, initially
`False`) / `_v_x` (initially `None`), for a cells with parameters the dict `_v_x` keyed by the arguments.  The
method's text is a template in exporter.py; `tables.cache_method_tokens` reads it as a program over the cache of
ONE element (one argument tuple): a test of "has a value", the statements of the two branches, the statements
after the `if` (`Generated.exportCacheNoParam`, `Generated.exportCacheParam`).  `runCache` executes such a program
for one read, given what the formula does at that read (`none`: it raises).  A Python exception ends the method
where it is raised: what was assigned before stays assigned. -/

/-- the statements that occur in a cache method -/
inductive COp where
  | evalTmp     -- `<local> = self._f_x(..)`
  | evalSlot    -- `self._v_x = self._f_x()`
  | evalBoth    -- `<local> = self._v_x = self._f_x()`
  | evalItem    -- `self._v_x[key] = self._f_x(..)`   (the dict gets the key only if the call returns)
  | setHas      -- `self._has_x = True`
  | clearHas    -- `self._has_x = False`
  | storeTmp    -- `self._v_x = <local>`
  | putTmp      -- `self._v_x[key] = <local>`
  | retSlot     -- `return self._v_x`
  | retItem     -- `return self._v_x[key]`   (KeyError when the key is absent)
  | retTmp      -- `return <local>`
  deriving DecidableEq, Repr

def COp.ofString (s : String) : Option COp :=
  if s = "evalTmp" then some .evalTmp else if s = "evalSlot" then some .evalSlot
  else if s = "evalBoth" then some .evalBoth else if s = "evalItem" then some .evalItem
  else if s = "setHas" then some .setHas else if s = "clearHas" then some .clearHas
  else if s = "storeTmp" then some .storeTmp else if s = "putTmp" then some .putTmp
  else if s = "retSlot" then some .retSlot else if s = "retItem" then some .retItem
  else if s = "retTmp" then some .retTmp else none

/-- `if [not] has: thn  else: els` followed by `aft` -/
structure CProg where
  neg : Bool
  thn : List COp
  els : List COp
  aft : List COp
  deriving DecidableEq, Repr

def opsOf : List String → Option (List COp)
  | [] => some []
  | s :: rest => match COp.ofString s, opsOf rest with
    | some o, some os => some (o :: os)
    | _, _ => none

/-- the tokens up to the first `sep`, and what follows it -/
def splitTok (sep : String) : List String → Option (List String × List String)
  | [] => none
  | s :: rest => if s = sep then some ([], rest) else
    match splitTok sep rest with
    | some (a, b) => some (s :: a, b)
    | none => none

def CProg.ofTokens : List String → Option CProg
  | [] => none
  | t :: rest =>
    if t = "ifhas" ∨ t = "ifnothas" then
      match splitTok "else" rest with
      | none => none
      | some (a, rest2) =>
        match splitTok "end" rest2 with
        | none => none
        | some (b, c) =>
          match opsOf a, opsOf b, opsOf c with
          | some thn, some els, some aft => some { neg := decide (t = "ifnothas"), thn, els, aft }
          | _, _, _ => none
    else none

/-- the cache of one element: `slot = none` is Python's `None` (the initial `_v_x`; for a dict: no entry);
`calls` counts the evaluations of the formula -/
structure CSt (V : Type) where
  has : Bool := false
  slot : Option V := none
  tmp : Option V := none
  calls : Nat := 0

/-- how a read ends; `fell`: the statements ran out (a Python function then returns `None`) -/
inductive CRes (V : Type) where
  | ret (v : Option V)
  | raised
  | fell

def execOps {V : Type} (f : Option V) : List COp → CSt V → CRes V × CSt V
  | [], s => (.fell, s)
  | .evalTmp :: r, s =>
    match f with
    | none => (.raised, { s with calls := s.calls + 1 })
    | some v => execOps f r { s with tmp := some v, calls := s.calls + 1 }
  | .evalSlot :: r, s =>
    match f with
    | none => (.raised, { s with calls := s.calls + 1 })
    | some v => execOps f r { s with slot := some v, calls := s.calls + 1 }
  | .evalBoth :: r, s =>
    match f with
    | none => (.raised, { s with calls := s.calls + 1 })
    | some v => execOps f r { s with slot := some v, tmp := some v, calls := s.calls + 1 }
  | .evalItem :: r, s =>
    match f with
    | none => (.raised, { s with calls := s.calls + 1 })
    | some v => execOps f r { s with has := true, slot := some v, calls := s.calls + 1 }
  | .setHas :: r, s => execOps f r { s with has := true }
  | .clearHas :: r, s => execOps f r { s with has := false }
  | .storeTmp :: r, s => execOps f r { s with slot := s.tmp }
  | .putTmp :: r, s => execOps f r { s with has := true, slot := s.tmp }
  | .retSlot :: _, s => (.ret s.slot, s)
  | .retItem :: _, s => if s.has then (.ret s.slot, s) else (.raised, s)
  | .retTmp :: _, s => (.ret s.tmp, s)

/-- one read through the cache method; `f`: what the formula does if it is called (`none`: raises) -/
def runCache {V : Type} (p : CProg) (f : Option V) (s : CSt V) : CRes V × CSt V :=
  let s0 : CSt V := { s with tmp := none }
  match execOps f (if s.has != p.neg then p.thn else p.els) s0 with
  | (.fell, s1) =>
    (match execOps f p.aft s1 with
     | (.fell, s2) => (.ret none, s2)
     | r => r)
  | r => r

/-- what a read shows to the caller -/
inductive Seen (V : Type) where
  | value (v : Option V)
  | error
  deriving DecidableEq, Repr

def CRes.seen {V : Type} : CRes V → Seen V
  | .ret v => .value v
  | .raised => .error
  | .fell => .value none

/-- consecutive reads of one element; the k-th read finds the formula doing `fs[k]` -/
def reads {V : Type} (p : CProg) : List (Option V) → CSt V → List (Seen V)
  | [], _ => []
  | f :: rest, s => let r := runCache p f s; r.1.seen :: reads p rest r.2

/-- the number of evaluations the reads cause -/
def callsAfter {V : Type} (p : CProg) : List (Option V) → CSt V → Nat
  | [], s => s.calls
  | f :: rest, s => callsAfter p rest (runCache p f s).2

/-- what modelx shows for the same reads (Exec: a failed evaluation leaves no value, the next read evaluates
again; a value, once stored, is what every later read returns): `stored` is the value kept so far -/
def specReads {V : Type} : List (Option V) → Option V → List (Seen V)
  | [], _ => []
  | _ :: rest, some v => .value (some v) :: specReads rest (some v)
  | none :: rest, none => .error :: specReads rest none
  | some v :: rest, none => .value (some v) :: specReads rest (some v)

/-- evaluations modelx makes: one per read until the first that returns -/
def specCalls {V : Type} : List (Option V) → Option V → Nat
  | [], _ => 0
  | _ :: _, some _ => 0
  | none :: rest, none => 1 + specCalls rest none
  | some _ :: _, none => 1

/-- the protocol a cache method has to follow, in terms of single reads -/
structure CacheOK (V : Type) (p : CProg) : Prop where
  /-- a failed evaluation stores nothing -/
  fail : ∀ s : CSt V, s.has = false →
    (runCache p none s).1 = .raised ∧ (runCache p none s).2.has = false ∧
      (runCache p none s).2.slot = s.slot ∧ (runCache p none s).2.calls = s.calls + 1
  /-- a successful one is returned and stored -/
  succ : ∀ (s : CSt V) (v : V), s.has = false →
    (runCache p (some v) s).1 = .ret (some v) ∧ (runCache p (some v) s).2.has = true ∧
      (runCache p (some v) s).2.slot = some v ∧ (runCache p (some v) s).2.calls = s.calls + 1
  /-- a stored value is returned unchanged, without evaluating -/
  hit : ∀ (s : CSt V) (f : Option V), s.has = true →
    (runCache p f s).1 = .ret s.slot ∧ (runCache p f s).2.has = true ∧
      (runCache p f s).2.slot = s.slot ∧ (runCache p f s).2.calls = s.calls

/-! ### a decidable checker of the protocol

The statements of a cache method never inspect a value (they copy it, store it, return it), and never inspect the
counter.  So whether a program follows the protocol shows on FOUR test reads over the two-valued type `Bool`
(`false`: "what the slot held before", `true`: "what the formula returns now"), from a cache with and without a
value, the formula raising or returning: `cacheWF` runs them.  It accepts every arrangement of the statements that
behaves as the protocol demands (an `else` branch or the statements after a returning `if`, the test negated and
the branches swapped, a value stored through a local or directly, ...) and nothing else; soundness
(`Export.cacheOK_of_cacheWF`) is proved once, for all programs. -/

/-- the cache before a test read -/
def testSt (has : Bool) : CSt Bool := { has := has, slot := some false, tmp := none, calls := 0 }

/-- the read ended as demanded: raised / returned `v`, and left `has`, `slot`, `calls` -/
def resIs (r : CRes Bool × CSt Bool) (raised : Bool) (v : Option Bool) (has : Bool) (slot : Option Bool)
    (calls : Nat) : Bool :=
  (match r.1 with
   | .raised => raised
   | .ret x => !raised && x == v
   | .fell => false) && r.2.has == has && r.2.slot == slot && r.2.calls == calls

def cacheWF (p : CProg) : Bool :=
  -- no value, the formula raises: the exception, still no value, the slot untouched, one evaluation
  resIs (runCache p none (testSt false)) true none false (some false) 1 &&
  -- no value, the formula returns: that value, stored, one evaluation
  resIs (runCache p (some true) (testSt false)) false (some true) true (some true) 1 &&
  -- a value: returned unchanged without an evaluation, whatever the formula would do
  resIs (runCache p none (testSt true)) false (some false) true (some false) 0 &&
  resIs (runCache p (some true) (testSt true)) false (some false) true (some false) 0

/-- the tokens parse and the program follows the protocol -/
def cacheTokensWF (toks : List String) : Bool :=
  match CProg.ofTokens toks with
  | some p => cacheWF p
  | none => false

end MxModel.Export
