/-!
# SaveFiles: what one call of `write_model` / `zip_model` leaves at its target, by file NAME (C04)

`Kernels/Backup.lean` (C14) abstracts a slot to "a complete copy of generation g"; there a directory
that is written over in place simply *becomes* generation g.  That abstraction cannot see the question
C04 asks of a history of writes to one path: does the target hold exactly the entries of THIS write, or
also entries an earlier, larger version of the model left behind (`_data/<cells>` of a cells whose last
input was withdrawn, `_data/_dynamic_inputs`, `_data/data.pickle`, the `__init__.py` of a deleted space,
an `_input_log.txt` nobody asked for this time)?  The reader trusts those files by existence.

Here a slot holds the list of its entries, each with the index of the write that produced its content.

* `incr` is `modelx/serialize/__init__.py::_increment_backups(model, base_path, max_backups, nth)`
  (`fuel = max_backups - nth`): nothing if `<path>_BAK<nth>` does not exist; at `nth == max_backups`
  the slot is removed (`shutil.rmtree` / `unlink`); otherwise the deeper slots are handled first and
  the slot is renamed to `nth + 1`.  With `backup=False` `max_backups` is 0: the existing target is
  *removed* - that removal is what makes the directory writer start from nothing.
* `writeDir` is `serializer_6.ModelWriter.write_model` for a directory: `make_root` =
  `mkdir(parents=True, exist_ok=True)` (a file in the way: `FileExistsError`), then every file is
  opened for writing below the final path - an existing entry of the name is replaced, every other
  existing entry STAYS (`upsert`).
* `writeZip`: the archive is built in a temporary directory from nothing and moved over the path
  (`shutil.move`; `IOError` if the path is an existing directory).
* `save` = `serialize.write_model`: `incr`, then the writer.
-/
namespace MxModel.SaveFiles

inductive Kind | dir | zip
deriving DecidableEq, Repr

/-- entry name (relative path, directories end in `/`) and the index of the write its content is from -/
abbrev Entry := String × Nat

inductive Node
  | absent
  | node (k : Kind) (entries : List Entry)
deriving DecidableEq, Repr

/-- slot `0` = the path, slot `n` = `<path>_BAK<n>` -/
abbrev FS := Nat → Node

def FS.empty : FS := fun _ => .absent

def FS.set (fs : FS) (i : Nat) (s : Node) : FS := fun j => if j = i then s else fs j

/-- `_increment_backups(model, base_path, max_backups, nth)` with `fuel = max_backups - nth`.
`Path.rename` is modelled as overwriting; `rename_target_free` (Props/C04) shows the destination is
always absent at that moment, so the cases where the real call would raise do not arise. -/
def incr (fs : FS) : Nat → Nat → FS
  | 0, nth => if fs nth = .absent then fs else fs.set nth .absent
  | fuel + 1, nth =>
    if fs nth = .absent then fs
    else
      let fs' := incr fs fuel (nth + 1)
      (fs'.set (nth + 1) (fs' nth)).set nth .absent

/-- opening `name` for writing inside a directory: replaces the entry of that name, keeps all others -/
def upsert (e : Entry) : List Entry → List Entry
  | [] => [e]
  | x :: xs => if x.1 = e.1 then e :: xs else x :: upsert e xs

def writeAll (g : Nat) (names : List String) (old : List Entry) : List Entry :=
  names.foldl (fun es n => upsert (n, g) es) old

/-- the directory writer: in place, below the final path -/
def writeDir (g : Nat) (names : List String) (fs : FS) : Option FS :=
  match fs 0 with
  | .node .zip _ => none
  | .absent => some (fs.set 0 (.node .dir (writeAll g names [])))
  | .node .dir old => some (fs.set 0 (.node .dir (writeAll g names old)))

/-- the archive writer: built aside from nothing, then moved over the path -/
def writeZip (g : Nat) (names : List String) (fs : FS) : Option FS :=
  match fs 0 with
  | .node .dir _ => none
  | _ => some (fs.set 0 (.node .zip (names.map (fun n => (n, g)))))

def writer (k : Kind) (g : Nat) (names : List String) (fs : FS) : Option FS :=
  match k with
  | .dir => writeDir g names fs
  | .zip => writeZip g names fs

/-- `serialize.write_model(..., backup)`: `maxB = DEFAULT_MAX_BACKUPS if backup else 0` -/
def save (maxB : Nat) (k : Kind) (g : Nat) (names : List String) (fs : FS) : Option FS :=
  writer k g names (incr fs maxB 0)

/-- one write of a history: format, `max_backups`, the names it produces -/
structure Write where
  kind : Kind
  maxB : Nat
  names : List String
deriving Repr

/-- a history of writes to one path, write `i` producing content `i`; the states after every write
(`none` from the first write that raises) -/
def runFrom : Nat → FS → List Write → List (Option FS)
  | _, _, [] => []
  | g, fs, w :: ws =>
    match save w.maxB w.kind g w.names fs with
    | none => [none]
    | some fs' => some fs' :: runFrom (g + 1) fs' ws

def run (ws : List Write) : List (Option FS) := runFrom 0 FS.empty ws

end MxModel.SaveFiles
