/-!
# ItemSpace: argument binding, the table of dynamic spaces, the reference chain

Mirrors, in `modelx/core`:

* `node.py` `_bind_args` (= `inspect.Signature.bind(*args, **kwargs)` followed by
  `apply_defaults`, for signatures of positional-or-keyword parameters) – `bindArgs`;
* `space.py` `ItemSpaceParent.get_itemspace` / `on_eval_formula` (create on miss, the same
  object on hit), `clear_itemspace_at`, `del_all_itemspaces`, `BaseSpace.__delitem__`,
  `clear_at`, `clear_all`, `ItemSpaceImpl.__init__` / `_init_child_spaces` (replicated child
  spaces), the `dynamic_cache` (interfaces kept for re-attachment, keyed by `dynamic_key`),
  `DynamicSpaceImpl.on_delete` – `Table` and its operations;
* `DynamicBase.clear_subs_rootitems`, `DynamicBase.on_namespace_change`,
  `ItemSpaceParent.on_namespace_change`, `change_dynsub_refs` and the places of
  `SpaceManager` / `UserSpaceImpl` that call them – `applyEdit` (the code as it is: an edit
  that reaches a base only through its namespace does not delete the dynamic spaces that
  were built from it elsewhere);
* `DynamicSpaceImpl._init_refs` / `_init_allargs` – `refChain`.

Import-free: linked into the native driver.
-/
namespace MxModel.ItemSpace

/-! ## 1. Binding -/

abbrev Val := Int

/-- a positional-or-keyword parameter with an optional default -/
structure Param where
  name : String
  dflt : Option Val
deriving DecidableEq, Repr

abbrev Sig := List Param
/-- `tuple(boundargs.arguments.values())` after `apply_defaults`: one value per parameter -/
abbrev Key := List Val
abbrev KwArgs := List (String × Val)

def names (sig : Sig) : List String := sig.map (·.name)
def kwKeys (kw : KwArgs) : List String := kw.map (·.1)

def kwFind (kw : KwArgs) (n : String) : Option Val :=
  match kw with
  | [] => none
  | (k, v) :: rest => if k = n then some v else kwFind rest n

/-- the values, parameter by parameter: positional arguments first, then for every remaining
parameter the keyword argument of its name, else its default.  `none` = Python raises
`TypeError` (too many positional arguments / multiple values for an argument / a missing
argument). -/
def bindVals : Sig → List Val → KwArgs → Option Key
  | [], [], _ => some []
  | [], _ :: _, _ => none
  | p :: ps, a :: as, kw =>
    if (kwFind kw p.name).isSome then none
    else (bindVals ps as kw).map (a :: ·)
  | p :: ps, [], kw =>
    match kwFind kw p.name, p.dflt with
    | some v, _ => (bindVals ps [] kw).map (v :: ·)
    | none, some d => (bindVals ps [] kw).map (d :: ·)
    | none, none => none

/-- `_bind_args(obj, args, kwargs)`.  A keyword that names no parameter is rejected
(Python finds it as a left-over entry of `kwargs` at the end of `_bind`; every rejection is
the same `TypeError`, so the order of the checks is not observable); a repeated keyword is
not expressible in a Python call (`SyntaxError`) and is rejected as well. -/
def bindArgs (sig : Sig) (args : List Val) (kw : KwArgs) : Option Key :=
  if ¬ (kwKeys kw).Nodup then none
  else if kw.any (fun e => !(names sig).contains e.1) then none
  else bindVals sig args kw

/-- the specification: the value each parameter denotes under a spelling -/
def specKey : Sig → List Val → KwArgs → Key
  | [], _, _ => []
  | _ :: ps, a :: as, kw => a :: specKey ps as kw
  | p :: ps, [], kw => ((kwFind kw p.name).getD (p.dflt.getD 0)) :: specKey ps [] kw

/-- what Python requires of a spelling -/
def Accepts (sig : Sig) (args : List Val) (kw : KwArgs) : Prop :=
  (kwKeys kw).Nodup ∧ args.length ≤ sig.length ∧
  (∀ k ∈ kwKeys kw, k ∈ names (sig.drop args.length)) ∧
  (∀ p ∈ sig.drop args.length, p.dflt = none → p.name ∈ kwKeys kw)

/-! ## 2. The table of live dynamic spaces -/

/-- one element of `dynamic_key`: the argument tuple of an ItemSpace, or the name of a
replicated child space -/
inductive Seg
  | key (k : Key)
  | name (n : String)
deriving DecidableEq, Repr

def Seg.isName : Seg → Bool
  | .name _ => true
  | .key _ => false

def Seg.isKey : Seg → Bool
  | .key _ => true
  | .name _ => false

abbrev DKey := List Seg
/-- a static space: its path -/
abbrev Path := List String

/-- identity of a static space (`UserSpaceImpl` object): a deleted and re-created space of
the same path is another space, with another `dynamic_cache` -/
abbrev SId := Nat

/-- where a dynamic space lives: the static space it hangs under, and its `dynamic_key` -/
structure Addr where
  root : SId
  dkey : DKey
deriving DecidableEq, Repr

/-- a live `DynamicSpaceImpl` / `ItemSpaceImpl` -/
structure Entry where
  addr : Addr
  /-- identity of the implementation object (a new one for every creation) -/
  impl : Nat
  /-- identity of the interface (`DynamicSpace` / `ItemSpace` object; reused through `dynamic_cache`) -/
  handle : Nat
  /-- `_dynbase`: the static space it is a copy of -/
  base : SId
  isItem : Bool
  /-- the parameter formula it carries (`base.formula` at creation): signature and chosen base -/
  sig : Option Sig
  sel : Option Path
deriving DecidableEq, Repr

structure Table where
  /-- all `param_spaces` and dynamic `named_spaces`, flattened -/
  live : List Entry := []
  /-- `dynamic_cache`: `dynamic_key ↦ interface`.  The harness holds every interface it has
  seen, so no entry is ever collected. -/
  cache : List (Addr × Nat) := []
  nextImpl : Nat := 0
  nextHandle : Nat := 0
deriving Repr

/-- the definition of a static space, as far as instances depend on it -/
structure SDef where
  id : SId
  path : Path
  sig : Option Sig
  sel : Option Path
deriving DecidableEq, Repr

abbrev Defs := List SDef

def findDef (defs : Defs) (p : Path) : Option SDef := defs.find? (·.path = p)
def findId (defs : Defs) (i : SId) : Option SDef := defs.find? (·.id = i)

/-- static spaces strictly below `p`, in definition order -/
def descendants (defs : Defs) (p : Path) : List SDef :=
  defs.filter (fun d => p.isPrefixOf d.path && d.path != p)

def cacheGet (c : List (Addr × Nat)) (a : Addr) : Option Nat :=
  match c with
  | [] => none
  | (k, h) :: rest => if k = a then some h else cacheGet rest a

def findLive (t : Table) (a : Addr) : Option Entry := t.live.find? (·.addr = a)

/-- `DynamicSpaceImpl.__init__` with `cache=self.dynamic_cache.get(dkey)` followed by
`dynamic_cache[dkey] = space.interface`: a new implementation; the cached interface if there
is one, else a new interface.  (The guard on an address that is already live never fires in
modelx – the children of a new ItemSpace are new – and makes the operation total.) -/
def addEntry (t : Table) (a : Addr) (base : SId) (isItem : Bool) (sig : Option Sig)
    (sel : Option Path) : Table :=
  if t.live.any (·.addr = a) then t
  else
    match cacheGet t.cache a with
    | some h =>
      { t with live := t.live ++ [⟨a, t.nextImpl, h, base, isItem, sig, sel⟩],
               nextImpl := t.nextImpl + 1 }
    | none =>
      { t with live := t.live ++ [⟨a, t.nextImpl, t.nextHandle, base, isItem, sig, sel⟩],
               cache := t.cache ++ [(a, t.nextHandle)],
               nextImpl := t.nextImpl + 1, nextHandle := t.nextHandle + 1 }

/-- `ItemSpaceImpl._init_child_spaces`: one `DynamicSpaceImpl` per static space below the base -/
def addChildren (t : Table) (item : Addr) (base : Path) : List SDef → Table
  | [] => t
  | d :: ds =>
    addChildren
      (addEntry t ⟨item.root, item.dkey ++ (d.path.drop base.length).map Seg.name⟩ d.id false d.sig d.sel)
      item base ds

/-- `ItemSpaceImpl(parent, base, …)` -/
def createItem (defs : Defs) (t : Table) (a : Addr) (base : SDef) : Table :=
  addChildren (addEntry t a base.id true base.sig base.sel) a base.path (descendants defs base.path)

/-- `on_delete` of the dynamic space at `a`: it, its replicated children and every ItemSpace below -/
def deleteAt (t : Table) (a : Addr) : Table :=
  { t with live := t.live.filter (fun e => !(e.addr.root = a.root && a.dkey.isPrefixOf e.addr.dkey)) }

def deleteAll (t : Table) : List Addr → Table
  | [] => t
  | a :: as => deleteAll (deleteAt t a) as

/-- a node that can have ItemSpaces: a static space (`dkey = []`) or a live dynamic space -/
structure Node where
  sig : Option Sig
  sel : Option Path
  /-- the base of a new ItemSpace when the formula chooses none -/
  base : SId

def nodeAt (defs : Defs) (t : Table) (a : Addr) : Option Node :=
  if a.dkey = [] then (findId defs a.root).map (fun d => ⟨d.sig, d.sel, d.id⟩)
  else (findLive t a).map (fun e => ⟨e.sig, e.sel, e.base⟩)

/-- the direct ItemSpaces of the node at `a` (`param_spaces`) -/
def itemsOf (t : Table) (a : Addr) : List Entry :=
  t.live.filter (fun e => e.isItem && e.addr.root = a.root &&
    match e.addr.dkey.getLast? with
    | some (.key _) => e.addr.dkey.dropLast = a.dkey
    | _ => false)

inductive Res
  | ok (e : Entry)
  | typeError      -- the spelling does not bind / the node has no parameters
  | keyError       -- no such ItemSpace (clear_at, del)
  | formulaError   -- the parameter formula failed (the base it names does not exist)
  | noNode
deriving Repr

/-- `get_itemspace(args, kwargs)`: bind, then the executor: a hit returns the live ItemSpace,
a miss runs `on_eval_formula` -/
def getItem (defs : Defs) (t : Table) (parent : Addr) (args : List Val) (kw : KwArgs) : Table × Res :=
  match nodeAt defs t parent with
  | none => (t, .noNode)
  | some nd =>
    match nd.sig with
    | none => (t, .typeError)
    | some sig =>
      match bindArgs sig args kw with
      | none => (t, .typeError)
      | some key =>
        let a : Addr := ⟨parent.root, parent.dkey ++ [.key key]⟩
        match findLive t a with
        | some e => (t, .ok e)
        | none =>
          match (match nd.sel with | some p => findDef defs p | none => findId defs nd.base) with
          | none => (t, .formulaError)
          | some base =>
            let t' := createItem defs t a base
            match findLive t' a with
            | some e => (t', .ok e)
            | none => (t', .noNode)

/-- `BaseSpace.clear_at(*args, **kwargs)` -/
def clearAt (defs : Defs) (t : Table) (parent : Addr) (args : List Val) (kw : KwArgs) : Table × Res :=
  match nodeAt defs t parent with
  | none => (t, .noNode)
  | some nd =>
    match nd.sig with
    | none => (t, .typeError)
    | some sig =>
      match bindArgs sig args kw with
      | none => (t, .typeError)
      | some key =>
        let a : Addr := ⟨parent.root, parent.dkey ++ [.key key]⟩
        match findLive t a with
        | some e => (deleteAt t a, .ok e)
        | none => (t, .keyError)

/-- `BaseSpace.__delitem__(key)`: the raw tuple, NOT bound against the signature -/
def delItem (t : Table) (parent : Addr) (key : Key) : Table × Res :=
  let a : Addr := ⟨parent.root, parent.dkey ++ [.key key]⟩
  match findLive t a with
  | some e => (deleteAt t a, .ok e)
  | none => (t, .keyError)

/-- `del_all_itemspaces` of the node at `a` -/
def clearItems (t : Table) (a : Addr) : Table :=
  deleteAll t ((itemsOf t a).map (·.addr))

/-- every ItemSpace at or below a dynamic node / below a static space and its static descendants
(`clear_all_cells(del_items=True, recursive=True)`) -/
def clearAll (defs : Defs) (t : Table) (a : Addr) : Table :=
  if a.dkey = [] then
    match findId defs a.root with
    | none => t
    | some d =>
      { t with live := t.live.filter (fun e =>
          !((defs.filter (fun x => d.path.isPrefixOf x.path)).any (·.id = e.addr.root))) }
  else
    { t with live := t.live.filter (fun e =>
        !(e.addr.root = a.root && a.dkey.isPrefixOf e.addr.dkey && e.addr.dkey != a.dkey &&
          (e.addr.dkey.drop a.dkey.length).any Seg.isKey)) }

/-! ## 3. Edits of the definitions (the code as it is) -/

/-- the nearest enclosing ItemSpace of an entry (`rootspace`): itself if it is one -/
def rootAddr (a : Addr) : Addr :=
  ⟨a.root, (a.dkey.reverse.dropWhile Seg.isName).reverse⟩

/-- `DynamicBase.clear_subs_rootitems()` of the static space `b` -/
def clearSubsRootItems (t : Table) (b : SId) : Table :=
  deleteAll t ((t.live.filter (·.base = b)).map (fun e => rootAddr e.addr))

/-- `DynamicBase.on_namespace_change()` of the static space `b` (as repaired by 482219e): its own
ItemSpaces are deleted (`ItemSpaceParent.on_namespace_change`), then `clear_subs_rootitems()`:
the ItemSpaces in which dynamic spaces built from `b` elsewhere live are deleted too -/
def nsChange (t : Table) (b : SId) : Table :=
  clearSubsRootItems (clearItems t ⟨b, []⟩) b

/-- the own references of `b` changed (`_dynbase_refs` of every dynamic space built from `b`
observes them): the namespace of each of those dynamic spaces changes, which deletes their
own ItemSpaces (`ItemSpaceParent.on_namespace_change`) -/
def dynRefsChange (t : Table) (b : SId) : Table :=
  deleteAll t ((t.live.filter (·.base = b)).flatMap (fun e => (itemsOf t e.addr).map (·.addr)))

inductive EditKind
  | newCells | setFormula | renameCells        -- call clear_subs_rootitems themselves
  | delCells | newChild | delChild             -- reach the base through its namespace
  | newRef | delRef | changeRef                -- own references
  | setParamFormula                            -- `set_formula` / `del_formula` of the space
  | modelRef                                   -- a model-level reference: every namespace
deriving DecidableEq, Repr

/-- the effect of an edit of the static space `b` on the table -/
def applyEdit (t : Table) (k : EditKind) (b : SId) : Table :=
  match k with
  | .newCells => clearSubsRootItems (nsChange t b) b
  | .setFormula => clearSubsRootItems t b
  | .renameCells => nsChange (clearSubsRootItems t b) b
  | .delCells | .newChild | .delChild => nsChange t b
  | .newRef | .delRef | .changeRef => dynRefsChange (nsChange t b) b
  | .setParamFormula => clearSubsRootItems (clearItems t ⟨b, []⟩) b   -- `DynamicBase.set_formula` / `del_formula`
  | .modelRef => { t with live := [] }

/-- `del_defined_space(space)`: every space of the deleted tree is removed from its parent's
`named_spaces` (`on_del_space`), which changes the parent's namespace – of the parent of the
deleted space, and of every deleted space that has a child space – and is then deleted
(`DynamicBase.on_delete`): `clear_subs_rootitems()` discards the ItemSpaces in which dynamic
spaces built from it elsewhere live, `BaseSpaceImpl.on_delete` its own ItemSpaces. -/
def delSpace (defs : Defs) (t : Table) (d : SDef) : Defs × Table :=
  let sub := defs.filter (fun x => d.path.isPrefixOf x.path)
  let losing := sub.filter (fun x => sub.any (fun y => y.path != x.path && y.path.dropLast = x.path))
  let t1 := match findDef defs d.path.dropLast with
    | some par => nsChange t par.id
    | none => t
  let t2 := losing.foldl (fun t x => nsChange t x.id) t1
  (defs.filter (fun x => !d.path.isPrefixOf x.path),
   sub.foldl (fun t x => clearItems (clearSubsRootItems t x.id) ⟨x.id, []⟩) t2)

/-! ## 3b. Histories -/

structure World where
  defs : Defs := []
  tbl : Table := {}
  nextStatic : Nat := 0
deriving Repr

inductive ChainSeg
  | call (args : List Val) (kw : KwArgs)     -- `S(…)`, `S[…]`
  | child (n : String)                        -- `.X`
deriving Repr

inductive WalkRes
  | at (a : Addr)
  | typeError | keyError | formulaError | attributeError
deriving Repr

def resOf : Res → WalkRes
  | .ok e => .at e.addr
  | .typeError => .typeError
  | .keyError => .keyError
  | .formulaError => .formulaError
  | .noNode => .keyError

/-- follow an access chain from the node at `a`, creating ItemSpaces on the way -/
def walk (defs : Defs) (t : Table) (a : Addr) : List ChainSeg → Table × WalkRes
  | [] => (t, .at a)
  | .call args kw :: rest =>
    match nodeAt defs t a with
    | none => (t, .keyError)
    | some nd =>
      if nd.sig.isNone then (t, .attributeError)     -- `obj.formula.signature` of `None`
      else
        match getItem defs t a args kw with
        | (t', .ok e) => walk defs t' e.addr rest
        | (t', r) => (t', resOf r)
  | .child n :: rest =>
    if a.dkey = [] then
      match (findId defs a.root).bind (fun d => findDef defs (d.path ++ [n])) with
      | some c => walk defs t ⟨c.id, []⟩ rest
      | none => (t, .keyError)
    else
      match findLive t ⟨a.root, a.dkey ++ [.name n]⟩ with
      | some e => walk defs t e.addr rest
      | none => (t, .keyError)

inductive Op
  | newSpace (path : Path) (sig : Option Sig) (sel : Option Path)
  | setParam (path : Path) (sig : Option Sig) (sel : Option Path)
  | delSpace (path : Path)
  | edit (k : EditKind) (path : Path)
  | item (root : Path) (chain : List ChainSeg)
  | clearAt (root : Path) (chain : List ChainSeg) (args : List Val) (kw : KwArgs)
  | delItem (root : Path) (chain : List ChainSeg) (key : Key)
  | clearItems (root : Path) (chain : List ChainSeg)
  | clearAll (root : Path) (chain : List ChainSeg)
deriving Repr

def startAddr (w : World) (root : Path) : Option Addr := (findDef w.defs root).map (fun d => ⟨d.id, []⟩)

def step (w : World) : Op → World × WalkRes
  | .newSpace path sig sel =>
    if (findDef w.defs path).isSome then (w, .keyError)
    else
      let t := match findDef w.defs path.dropLast with
        | some par => applyEdit w.tbl .newChild par.id
        | none => w.tbl
      ({ defs := w.defs ++ [⟨w.nextStatic, path, sig, sel⟩], tbl := t, nextStatic := w.nextStatic + 1 },
       .at ⟨w.nextStatic, []⟩)
  | .setParam path sig sel =>
    match findDef w.defs path with
    | none => (w, .keyError)
    | some d =>
      ({ w with defs := w.defs.map (fun x => if x.id = d.id then { x with sig := sig, sel := sel } else x),
                tbl := applyEdit w.tbl .setParamFormula d.id }, .at ⟨d.id, []⟩)
  | .delSpace path =>
    match findDef w.defs path with
    | none => (w, .keyError)
    | some d =>
      let r := delSpace w.defs w.tbl d
      ({ w with defs := r.1, tbl := r.2 }, .at ⟨d.id, []⟩)
  | .edit k path =>
    match findDef w.defs path with
    | none => (w, .keyError)
    | some d => ({ w with tbl := applyEdit w.tbl k d.id }, .at ⟨d.id, []⟩)
  | .item root chain =>
    match startAddr w root with
    | none => (w, .keyError)
    | some a =>
      let r := walk w.defs w.tbl a chain
      ({ w with tbl := r.1 }, r.2)
  | .clearAt root chain args kw =>
    match startAddr w root with
    | none => (w, .keyError)
    | some a =>
      match walk w.defs w.tbl a chain with
      | (t, .at p) =>
        let r := clearAt w.defs t p args kw
        ({ w with tbl := r.1 }, resOf r.2)
      | (t, e) => ({ w with tbl := t }, e)
  | .delItem root chain key =>
    match startAddr w root with
    | none => (w, .keyError)
    | some a =>
      match walk w.defs w.tbl a chain with
      | (t, .at p) =>
        let r := delItem t p key
        ({ w with tbl := r.1 }, resOf r.2)
      | (t, e) => ({ w with tbl := t }, e)
  | .clearItems root chain =>
    match startAddr w root with
    | none => (w, .keyError)
    | some a =>
      match walk w.defs w.tbl a chain with
      | (t, .at p) => ({ w with tbl := clearItems t p }, .at p)
      | (t, e) => ({ w with tbl := t }, e)
  | .clearAll root chain =>
    match startAddr w root with
    | none => (w, .keyError)
    | some a =>
      match walk w.defs w.tbl a chain with
      | (t, .at p) => ({ w with tbl := clearAll w.defs t p }, .at p)
      | (t, e) => ({ w with tbl := t }, e)

def run (w : World) (ops : List Op) : World := ops.foldl (fun w op => (step w op).1) w

/-! ## 3c. Histories with time stamps (ghost state: read by no operation)

`touched w op` lists the static spaces whose definitions - as far as dynamic spaces are built from them -
the operation changes.  `Hist` runs the world and keeps a clock (one tick per operation), the stamp of
the last operation that touched each static space, and the stamp of the operation during which each
implementation object was created (implementation numbers are handed out in creation order:
`nextImpl` before and after the step delimit the ones created by it).

Inheritance is not part of this kernel (`Struct/Mech.lean` has it): an edit of a space that reaches sub
spaces through inheritance - a derived cells appears / is re-derived / disappears in every sub space that
does not override it, `SpaceManager.new_cells`, `set_cells_property`, `rename_cells`, `new_ref`,
`change_ref` walking `_get_subs`, `update_subs` / `UserSpaceImpl.on_inherit` for deletions and base
changes - is ONE user-level operation `UOp.editInh` that expands into the edit of the space followed by an
edit of every sub space it reaches, because that is what the code does: each of those sub spaces gets its
own `clear_subs_rootitems()` (called explicitly in the walks, and by `on_inherit` when a derived member is
re-derived in place) and / or its own `on_namespace_change()` (a member was added to or removed from its
namespace). -/

/-- the static spaces an operation touches: the edited space; for a new / deleted child space its parent
(the parent's namespace changes); for a deletion every space of the deleted tree; for a model-level
reference every space -/
def touched (w : World) : Op → List SId
  | .newSpace path _ _ =>
    if (findDef w.defs path).isSome then []
    else match findDef w.defs path.dropLast with
      | some par => [par.id]
      | none => []
  | .setParam path _ _ =>
    match findDef w.defs path with
    | some d => [d.id]
    | none => []
  | .delSpace path =>
    match findDef w.defs path with
    | some d =>
      (match findDef w.defs d.path.dropLast with
       | some par => [par.id]
       | none => []) ++ (w.defs.filter (fun x => d.path.isPrefixOf x.path)).map (·.id)
    | none => []
  | .edit k path =>
    match findDef w.defs path with
    | some d => if k = .modelRef then d.id :: w.defs.map (·.id) else [d.id]
    | none => []
  | _ => []

structure Hist where
  w : World := {}
  /-- number of operations performed -/
  clock : Nat := 0
  /-- stamp of the last operation that touched the static space (0: never) -/
  editedAt : SId → Nat := fun _ => 0
  /-- stamp of the operation during which the implementation object was created (0: not created yet) -/
  builtAt : Nat → Nat := fun _ => 0

def Hist.step (h : Hist) (op : Op) : Hist :=
  { w := (ItemSpace.step h.w op).1
    clock := h.clock + 1
    editedAt := fun s => if s ∈ touched h.w op then h.clock + 1 else h.editedAt s
    builtAt := fun i =>
      if h.w.tbl.nextImpl ≤ i ∧ i < (ItemSpace.step h.w op).1.tbl.nextImpl then h.clock + 1 else h.builtAt i }

def runH (h : Hist) (ops : List Op) : Hist := ops.foldl Hist.step h

/-- user-level operations: those of the kernel, and an edit that reaches sub spaces through inheritance
(`reach`: the sub spaces in which the edited member is derived from the edited space - those whose
definitions change - each with the kind of change it sees) -/
inductive UOp
  | op (o : Op)
  | editInh (k : EditKind) (path : Path) (reach : List (EditKind × Path))
deriving Repr

def UOp.expand : UOp → List Op
  | .op o => [o]
  | .editInh k path reach => .edit k path :: reach.map (fun r => .edit r.1 r.2)

def runU (h : Hist) (us : List UOp) : Hist := runH h (us.flatMap UOp.expand)

/-! ## 4. Values inside instances: one store, keyed by the identity of the implementation -/

abbrev CellsId := Nat × String            -- (implementation of the dynamic space, cells name)
abbrev Store := List ((CellsId × Key) × Val)

def Store.get (s : Store) (c : CellsId) (k : Key) : Option Val :=
  match s with
  | [] => none
  | ((c', k'), v) :: rest => if c' = c ∧ k' = k then some v else Store.get rest c k

/-- `cells[k] = v` in the dynamic space with implementation `c.1` -/
def Store.set (s : Store) (c : CellsId) (k : Key) (v : Val) : Store :=
  ((c, k), v) :: s

/-! ## 4b. The store inside the world: who owns a value

A value (assigned by the user, or computed and cached) belongs to ONE cells object: a cells of a static
space, or a cells of one dynamic space - identified by the static space's id resp. by the implementation
of the dynamic space (`CellsImpl.data` hangs on the cells object, the cells objects of a dynamic space
are created with it and die with it). -/

inductive Owner
  | static (s : SId)
  | dyn (impl : Nat)
deriving DecidableEq, Repr

abbrev VStore := List ((Owner × String × Key) × Val)

def VStore.get (s : VStore) (o : Owner) (c : String) (k : Key) : Option Val :=
  match s with
  | [] => none
  | ((o', c', k'), v) :: rest => if o' = o ∧ c' = c ∧ k' = k then some v else VStore.get rest o c k

structure VWorld where
  w : World := {}
  store : VStore := []
deriving Repr

/-- the object at an address: the static space, or the implementation of the live dynamic space -/
def ownerAt (w : World) (a : Addr) : Option Owner :=
  if a.dkey = [] then (findId w.defs a.root).map (fun d => Owner.static d.id)
  else (findLive w.tbl a).map (fun e => Owner.dyn e.impl)

inductive VOp
  | op (o : Op)
  /-- `obj.cells[key] = v` (or: the value computed there is cached) for the object the access chain
  leads to; the chain creates ItemSpaces on the way, as every access does -/
  | assign (root : Path) (chain : List ChainSeg) (cells : String) (key : Key) (v : Val)
deriving Repr

def VWorld.step (vw : VWorld) : VOp → VWorld
  | .op o => { vw with w := (ItemSpace.step vw.w o).1 }
  | .assign root chain c k v =>
    match startAddr vw.w root with
    | none => vw
    | some a =>
      match walk vw.w.defs vw.w.tbl a chain with
      | (t, .at p) =>
        match ownerAt { vw.w with tbl := t } p with
        | some o => { w := { vw.w with tbl := t }, store := ((o, c, k), v) :: vw.store }
        | none => { vw with w := { vw.w with tbl := t } }
      | (t, _) => { vw with w := { vw.w with tbl := t } }

def VWorld.run (vw : VWorld) (ops : List VOp) : VWorld := ops.foldl VWorld.step vw

/-- what a read of `cells[key]` of the object at `a` finds in the store (`none`: nothing is held there:
the formula runs) -/
def VWorld.valueAt (vw : VWorld) (a : Addr) (c : String) (k : Key) : Option Val :=
  match ownerAt vw.w a with
  | some o => vw.store.get o c k
  | none => none

/-! ## 5. The reference chain of a dynamic space -/

abbrev RefMap := List (String × Val)

def RefMap.find (m : RefMap) (x : String) : Option Val :=
  match m with
  | [] => none
  | (k, v) :: rest => if k = x then some v else RefMap.find rest x

/-- `_init_allargs` of an ItemSpace inside ItemSpaces: its own arguments and the `_allargs` maps
of its parent, in the order the source lists them (`aorder`, read from space.py: `own`,
`parent`); `argmaps` = the argument maps of the enclosing ItemSpaces, innermost first.
(A replicated child space takes its parent's maps unchanged.) -/
def allargs (aorder : List String) : List RefMap → List RefMap
  | [] => []
  | own :: outer =>
    let parent := allargs aorder outer
    aorder.flatMap (fun s => if s = "own" then [own] else if s = "parent" then parent else [])

/-- the maps of `refs`, by the names `_init_refs` lists them under -/
def chainMaps (aorder : List String) (argmaps : List RefMap) (own sys dynbase global : RefMap) : String → List RefMap
  | "allargs" => allargs aorder argmaps
  | "own_refs" => [own]
  | "sys_refs" => [sys]
  | "dynbase_refs" => [dynbase]
  | "global_refs" => [global]
  | _ => []

/-- lookup through maps in order: the first that has the name -/
def chainFind : List RefMap → String → Option Val
  | [], _ => none
  | m :: rest, x =>
    match m.find x with
    | some v => some v
    | none => chainFind rest x

/-- `DynamicSpaceImpl._init_refs`: the chain in the order `order` names (read from space.py) -/
def refChain (order aorder : List String) (argmaps : List RefMap) (own sys dynbase global : RefMap) : List RefMap :=
  order.flatMap (chainMaps aorder argmaps own sys dynbase global)

/-! ## 6. What a name denotes inside a dynamic space -/

/-- what a free name of a formula denotes when the formula runs in a dynamic space -/
inductive Target
  /-- a cells of that very dynamic space (identified by its implementation) -/
  | cells (impl : Nat) (name : String)
  | ref (v : Val)
  /-- a replicated child space / nothing else is modelled -/
  | child (name : String)
deriving DecidableEq, Repr

/-- the maps of the namespace of the dynamic space with implementation `impl`
(`BaseSpaceImpl.__init__`: `ImplChainMap("namespace", …, [cells, refs, named_spaces])`), by the
names the source lists them under -/
def namespaceMap (impl : Nat) (cellNames : List String) (refs : List RefMap) (children : List String)
    (x : String) : String → Option Target
  | "cells" => if cellNames.contains x then some (.cells impl x) else none
  | "refs" => (chainFind refs x).map .ref
  | "spaces" => if children.contains x then some (.child x) else none
  | _ => none

/-- lookup of a name: the first map of the namespace (in the order `order`) that has it -/
def resolveName (order : List String) (impl : Nat) (cellNames : List String) (refs : List RefMap)
    (children : List String) (x : String) : Option Target :=
  order.findSome? (namespaceMap impl cellNames refs children x)

end MxModel.ItemSpace
