import MxModel.Generated.Tables
/-!
# DocQuote: how a documentation string is written and how Python reads it back

Writer.  `quote_docstring` of `modelx/core/formula.py` (commit 2b72506), used by
`ModelEncoder.encode`, `SpaceEncoder.encode` and `CellsEncoder.encode` (after a lambda
cells) of `serialize/serializer_6.py`, and by `replace_docstring` (`Cells.set_doc`):

```python
def quote_docstring(docstr):
    chars = []
    quotes = 0      # Length of the current run of unescaped quotes
    last = len(docstr) - 1
    for i, c in enumerate(docstr):
        if c == '"':
            quotes += 1
            if quotes == 3 or i == last:
                c = '\\"'
                quotes = 0
        else:
            quotes = 0
            c = _DOCSTR_ESCAPES.get(c, c)
        chars.append(c)
    return '"""' + "".join(chars) + '"""'
```

`quoteBody` is the loop (`i == last` is `rest = []`), `escapeOf` is `_DOCSTR_ESCAPES`.

Reader.  The text comes back through `ziputil.read_str_utf8` (text mode, universal
newlines) and Python's own reading of a triple-quoted, non-raw, non-bytes string literal
(`ast.parse` for model and space docs, `ast.literal_eval(token.string)` for the docstring
after a lambda cells, `compile` for the docstring of a def).  CPython does this in two
steps, and so does the model:

1. the tokenizer finds the end of the literal (`scanTok`): it counts the current run of
   quote characters, a backslash takes the next character with it, the third quote of a
   run closes; the string parser then cuts three characters off both ends;
2. the escape sequences of the body are decoded (`dec`): `\<newline>`, `\\ \' \"`,
   `\a \b \f \n \r \t \v`, up to three octal digits, `\xHH`, `\uXXXX`, `\UXXXXXXXX`;
   an unknown escape keeps both characters (SyntaxWarning); a truncated `\x \u \U` is a
   SyntaxError.

Not covered by the model (`dec` answers `none`, the driver says `unsupported`):
`\N{name}` (needs the Unicode name table) and escapes whose value is a surrogate code
point (a Python `str` can hold one, a Lean `Char` cannot).  The writer produces neither.

Everything is over `List Char`: every Python `str` without lone surrogates is covered.
-/
namespace MxModel.DocQuote

/-! ## Writer -/

/-- `_DOCSTR_ESCAPES` as it stands in `modelx/core/formula.py` NOW (read by the table translator on
every run, `Generated/Tables.lean`): backslash, NUL, and every character at which `str.splitlines`
splits a text, except the line feed -/
def escapeTable : List (Char × List Char) :=
  MxModel.Generated.docstrEscapes.map (fun p => (Char.ofNat p.1, p.2.map Char.ofNat))

/-- `_DOCSTR_ESCAPES.get(c)` -/
def escapeOf (c : Char) : Option (List Char) := escapeTable.lookup c

/-- the loop of `quote_docstring`; `quotes` = length of the current run of unescaped quotes -/
def quoteBody : Nat → List Char → List Char
  | _, [] => []
  | quotes, c :: rest =>
    if c = '"' then
      if quotes + 1 = 3 ∨ rest = [] then '\\' :: '"' :: quoteBody 0 rest
      else '"' :: quoteBody (quotes + 1) rest
    else
      (match escapeOf c with
       | some e => e
       | none => [c]) ++ quoteBody 0 rest

def qqq : List Char := ['"', '"', '"']

/-- `quote_docstring(docstr)` -/
def quoteDocstring (doc : List Char) : List Char := qqq ++ quoteBody 0 doc ++ qqq

/-! ## Reader -/

/-- Text-mode reading with `newline=None` (and again Python's tokenizer): `\r\n` and a lone
`\r` become `\n`. -/
def nlAux : Bool → List Char → List Char   -- the flag: the previous character was `\r`
  | _, [] => []
  | afterCr, c :: rest =>
    if c = '\r' then '\n' :: nlAux true rest
    else if c = '\n' ∧ afterCr = true then nlAux false rest
    else c :: nlAux false rest

def universalNl (text : List Char) : List Char := nlAux false text

/-- CPython's tokenizer inside a triple-quoted literal, the opening quotes consumed;
`run` = length of the current run of quote characters (`end_quote_size`).  Result: the
text of the token from here on *including* the closing quotes, and the text that follows
the token; `none` = `SyntaxError: unterminated triple-quoted string literal`. -/
def scanTok : Nat → List Char → Option (List Char × List Char)
  | _, [] => none
  | run, c :: rest =>
    if c = '"' then
      if run + 1 = 3 then some (['"'], rest)
      else (scanTok (run + 1) rest).map (fun p => ('"' :: p.1, p.2))
    else if c = '\\' then
      match rest with
      | [] => none
      | e :: rest' => (scanTok 0 rest').map (fun p => ('\\' :: e :: p.1, p.2))
    else (scanTok 0 rest).map (fun p => (c :: p.1, p.2))

/-- The first token of `text` as a triple-quoted literal: the body between the quotes (the
string parser cuts the three closing quotes off, `s[3:-3]`) and the rest of the text. -/
def lexLit (text : List Char) : Option (List Char × List Char) :=
  match universalNl text with
  | '"' :: '"' :: '"' :: body =>
    (scanTok 0 body).map (fun p => (p.1.take (p.1.length - 3), p.2))
  | _ => none

def hexVal (c : Char) : Option Nat :=
  if '0' ≤ c ∧ c ≤ '9' then some (c.toNat - 48)
  else if 'a' ≤ c ∧ c ≤ 'f' then some (c.toNat - 87)
  else if 'A' ≤ c ∧ c ≤ 'F' then some (c.toNat - 55)
  else none

def octVal (c : Char) : Option Nat :=
  if '0' ≤ c ∧ c ≤ '7' then some (c.toNat - 48) else none

/-- what the character after a backslash means -/
inductive Esc where
  | nothing            -- backslash-newline: the line is continued, nothing is produced
  | char (c : Char)    -- one character
  | hex (n : Nat)      -- `n` hexadecimal digits follow
  | oct (v : Nat)      -- first of up to three octal digits, its value
  | named              -- `\N{…}`: not modelled
  | keep               -- unknown escape: both characters stay
deriving DecidableEq, Repr

def escKind (e : Char) : Esc :=
  if e = '\n' then .nothing
  else if e = '\\' then .char '\\'
  else if e = '\'' then .char '\''
  else if e = '"' then .char '"'
  else if e = 'a' then .char (Char.ofNat 7)
  else if e = 'b' then .char (Char.ofNat 8)
  else if e = 'f' then .char (Char.ofNat 12)
  else if e = 'n' then .char '\n'
  else if e = 'r' then .char '\r'
  else if e = 't' then .char '\t'
  else if e = 'v' then .char (Char.ofNat 11)
  else if e = 'x' then .hex 2
  else if e = 'u' then .hex 4
  else if e = 'U' then .hex 8
  else if e = 'N' then .named
  else match octVal e with
    | some v => .oct v
    | none => .keep

/-- the character with code point `n` followed by `rest`; `none` for a surrogate (not
modelled) and beyond U+10FFFF (SyntaxError: illegal Unicode character) -/
def emit (n : Nat) (rest : Option (List Char)) : Option (List Char) :=
  if n < 0xD800 ∨ (0xDFFF < n ∧ n < 0x110000) then rest.map (Char.ofNat n :: ·) else none

/-- states of the escape decoder -/
inductive St where
  | text                      -- ordinary text
  | esc                       -- just after a backslash
  | hex (n acc : Nat)         -- `n` more hexadecimal digits needed, value so far `acc`
  | oct (n acc : Nat)         -- up to `n` more octal digits accepted, value so far `acc`
deriving DecidableEq, Repr

/-- value of the body of a (non-raw, non-bytes) string literal, one character at a time -/
def dec : St → List Char → Option (List Char)
  | .text, [] => some []
  | .text, c :: r => if c = '\\' then dec .esc r else (dec .text r).map (c :: ·)
  | .esc, [] => none          -- not reachable from a complete token
  | .esc, e :: r =>
    match escKind e with
    | .nothing => dec .text r
    | .char v => (dec .text r).map (v :: ·)
    | .hex n => dec (.hex n 0) r
    | .oct v => dec (.oct 2 v) r
    | .named => none
    | .keep => (dec .text r).map (fun t => '\\' :: e :: t)
  | .hex _ _, [] => none      -- truncated \x \u \U escape
  | .hex 0 _, _ :: _ => none  -- not used: the last digit emits
  | .hex (n + 1) acc, c :: r =>
    match hexVal c with
    | none => none
    | some v => if n = 0 then emit (16 * acc + v) (dec .text r) else dec (.hex n (16 * acc + v)) r
  | .oct _ acc, [] => emit acc (some [])
  | .oct n acc, c :: r =>
    match n, octVal c with
    | n' + 1, some v =>
      if n' = 0 then emit (8 * acc + v) (dec .text r) else dec (.oct n' (8 * acc + v)) r
    | _, _ =>
      -- the octal escape is over; `c` is read as ordinary text
      emit acc (if c = '\\' then dec .esc r else (dec .text r).map (c :: ·))

/-- `text` is exactly one triple-quoted literal; its value.  Anything left over after the
closing quotes means the written statement is not the docstring that was meant (a syntax
error, or a different program). -/
def readLiteral (text : List Char) : Option (List Char) :=
  match lexLit text with
  | some (body, []) => dec .text body
  | _ => none

/-- does the body use an escape the model does not decode?  (`\N{…}`; the driver answers
`unsupported` – surrogates are detected by the harness) -/
def usesNamed : List Char → Bool
  | [] => false
  | [_] => false
  | c :: e :: r => if c = '\\' then (e = 'N') || usesNamed r else usesNamed (e :: r)

/-! ## Characters a source text does not keep -/

/-- NUL (rejected by `ast.parse`), the carriage return (newline translation) and the other
characters at which `str.splitlines` splits (`FunctionDefParser` of the serializer still cuts a def
with `splitlines` and re-joins the lines with `\n`; `remove_decorator`/`replace_funcname` do not any
more since 067a1c5 - they cut at `\r\n`, `\r`, `\n` only (`_source_lines`), for which the
statements below hold a fortiori) -/
def sourceUnsafe : List Char :=
  [Char.ofNat 0, '\r', Char.ofNat 0x0b, Char.ofNat 0x0c, Char.ofNat 0x1c, Char.ofNat 0x1d,
   Char.ofNat 0x1e, Char.ofNat 0x85, Char.ofNat 0x2028, Char.ofNat 0x2029]

/-- the characters at which `str.splitlines` splits, other than the line feed -/
def otherBoundaries : List Char :=
  ['\r', Char.ofNat 0x0b, Char.ofNat 0x0c, Char.ofNat 0x1c, Char.ofNat 0x1d,
   Char.ofNat 0x1e, Char.ofNat 0x85, Char.ofNat 0x2028, Char.ofNat 0x2029]

/-- `"\n".join(text.splitlines())`, as `FunctionDefParser` (`serializer_6.py`) applies it to the
source of a def (and as `remove_decorator` / `replace_funcname` did before 067a1c5): every line
boundary becomes a line feed (`\r\n` is one boundary), the final one is dropped.  The flag:
the previous character was `\r`. -/
def splitJoin : Bool → List Char → List Char
  | _, [] => []
  | afterCr, c :: rest =>
    if c = '\n' ∧ afterCr = true then splitJoin false rest
    else if c = '\n' ∨ c ∈ otherBoundaries then
      if rest = [] ∨ (c = '\r' ∧ rest = ['\n']) then []
      else '\n' :: splitJoin (decide (c = '\r')) rest
    else c :: splitJoin false rest

end MxModel.DocQuote
