/-!
# DocQuote: how a documentation string is written and how Python reads it back

`ModelEncoder.encode` / `SpaceEncoder.encode` (`serialize/serializer_6.py`) emit
`'"""' + doc + '"""'` and `CellsEncoder.encode` emits `'"""%s"""' % doc` after a lambda
cells; nothing is escaped.  The reader gets the text back through
`ziputil.read_str_utf8` (text mode, universal newlines) and Python's own reading of a
triple-quoted literal (`ast.parse` for model/space docs, `ast.literal_eval(token.string)`
for lambda cells).

The alphabet is restricted to the characters that decide the outcome:

* `q`  – the double quote `"`,
* `bs` – the backslash,
* `nl` – line feed, `cr` – carriage return,
* `en` – the letter `n`, standing for the letters that form a *recognised* escape sequence
  after a backslash (`\n` is a line feed),
* `plain c` – a character that is ordinary both on its own and after a backslash (Python
  keeps `\c` as the two characters `\c`), see `classify`.

Characters outside this alphabet (the other escape letters `a b f r t v`, `'`, the digits
`0–7`, `x N u U`) are not covered: `classify` returns `none` and the driver answers
`unsupported`.
-/
namespace MxModel.DocQuote

inductive Ch where
  | q | bs | nl | cr | en
  | plain (c : Char)
deriving DecidableEq, Repr

/-- the characters that start an escape sequence Python recognises (besides `n`, which is `en`),
and the quote `'`; `plain` must avoid them -/
def escapeLetters : List Char :=
  ['\'', 'a', 'b', 'f', 'r', 't', 'v', '0', '1', '2', '3', '4', '5', '6', '7', 'x', 'N', 'u', 'U']

/-- bridge from real characters (used by the driver) -/
def classify (c : Char) : Option Ch :=
  if c = '"' then some .q
  else if c = '\\' then some .bs
  else if c = '\n' then some .nl
  else if c = '\r' then some .cr
  else if c = 'n' then some .en
  else if escapeLetters.contains c then none
  else some (.plain c)

/-- `'"""' + doc + '"""'` -/
def writeDoc (doc : List Ch) : List Ch := [.q, .q, .q] ++ doc ++ [.q, .q, .q]

/-- Text-mode reading with `newline=None` (and again Python's tokenizer): `\r\n` and a lone
`\r` become `\n`. -/
def universalNl : List Ch → List Ch
  | [] => []
  | .cr :: .nl :: rest => .nl :: universalNl rest
  | .cr :: rest => .nl :: universalNl rest
  | c :: rest => c :: universalNl rest

/-- value of the escape sequence backslash + `c` in a (non-raw, non-bytes) literal -/
def decodeEsc : Ch → List Ch
  | .q => [.q]            -- \" is a quote
  | .bs => [.bs]          -- \\ is one backslash
  | .nl => []             -- backslash-newline: the line is continued, nothing is produced
  | .en => [.nl]          -- \n
  | .cr => [.bs, .cr]     -- not reachable: the text is newline-normalised before it is scanned
  | .plain c => [.bs, .plain c]   -- unrecognised escape: both characters stay (SyntaxWarning)

def startsQQ : List Ch → Bool
  | .q :: .q :: _ => true
  | _ => false

/-- Scanning the body of a triple-quoted literal (the opening `"""` already consumed):
a backslash takes the next character with it, the first un-escaped `"""` closes.
Result: (value of the literal, text that follows the closing quotes); `none` = the literal is
not terminated (`SyntaxError: unterminated triple-quoted string literal`). -/
def scan : List Ch → Option (List Ch × List Ch)
  | [] => none
  | .bs :: [] => none
  | .bs :: c :: rest => (scan rest).map (fun p => (decodeEsc c ++ p.1, p.2))
  | .q :: rest =>
    if startsQQ rest then some ([], rest.drop 2)
    else (scan rest).map (fun p => (.q :: p.1, p.2))
  | .nl :: rest => (scan rest).map (fun p => (.nl :: p.1, p.2))
  | .cr :: rest => (scan rest).map (fun p => (.cr :: p.1, p.2))
  | .en :: rest => (scan rest).map (fun p => (.en :: p.1, p.2))
  | .plain c :: rest => (scan rest).map (fun p => (.plain c :: p.1, p.2))

/-- The first token of `text` as a triple-quoted literal: its value and the rest of the text. -/
def lexLit (text : List Ch) : Option (List Ch × List Ch) :=
  match universalNl text with
  | .q :: .q :: .q :: body => scan body
  | _ => none

/-- `text` is exactly one triple-quoted literal; its value.  Anything left over after the
closing quotes means the written statement is not the docstring that was meant (a syntax
error, or a different program). -/
def readLit (text : List Ch) : Option (List Ch) :=
  match lexLit text with
  | some (v, []) => some v
  | _ => none

/-! ## The documentation strings that survive -/

/-- every backslash is directly followed by a `plain` character -/
def bsOk : List Ch → Bool
  | [] => true
  | [.bs] => false
  | .bs :: .plain _ :: rest => bsOk rest
  | .bs :: _ :: _ => false
  | _ :: rest => bsOk rest

def endsWithQ (doc : List Ch) : Bool := doc.getLast? == some .q

/-- three quotes in a row somewhere -/
def hasTriple : List Ch → Bool
  | .q :: .q :: .q :: _ => true
  | _ :: rest => hasTriple rest
  | [] => false

/-- `SafeDoc`: no carriage return, no `"""` inside, not ending in `"`, and no backslash except
in front of a character that means nothing after a backslash. -/
def SafeDoc (doc : List Ch) : Prop :=
  Ch.cr ∉ doc ∧ hasTriple doc = false ∧ endsWithQ doc = false ∧ bsOk doc = true

instance (doc : List Ch) : Decidable (SafeDoc doc) := by unfold SafeDoc; exact inferInstance

end MxModel.DocQuote
