import MxModel.Kernels.C3
import MxModel.Kernels.Relative
/-!
# Object-valued references under edit histories (C10): a state machine over `Kernels/Relative.lean`

`Kernels/Relative.lean` is the decision logic of one step (`get_relative`, `ReferenceImpl.on_inherit`,
the loops of `new_ref` / `change_ref`, `_check_subs_relrefs`, `wrap_impl`).  Here it is driven by a state:
spaces with ordered direct bases (linearised by `C3.mro`, the transcription of `SpaceGraph.get_mro`),
own cells, and references that are *defined* (assigned by the user: value and mode) or *derived*
(mode and binding computed by the code), and the operations

* `newSpace parent name bases cells` - `SpaceUpdater.new_space`: the new space derives its references
  (`_update_derived_refs` -> `UserSpaceImpl.on_inherit(…, "own_refs")` -> `ReferenceImpl.on_inherit`);
* `setRef p name value mode` - `SpaceManager.new_ref` / `change_ref`: `_check_subs_relrefs` first
  (`setRefGuarded`), then the sub spaces that take the value - those that neither define the name nor
  derive it from a base preceding `p` - get their derived reference from `get_relative_interface`
  (`newRefSub`; for a sub space that derived the name from a later base the code calls `on_inherit`,
  which gives the same: `C10.accepted_set_ref_agrees_with_inherit`);
* `newCells` / `delCells` - a cells appears / disappears (only what `get_impl_from_name` finds changes);
* `delRef p name` - `SpaceManager.del_ref`: `update_subs(space, skip_self=False)`;
* `addBase p b` / `removeBase p b` - `SpaceUpdater.add_bases` / `remove_bases`: the space and the spaces
  that INHERIT from it are derived again - not its child spaces (`C10-enclosing-base-change`).

A re-derivation that would raise (`relative` reference out of scope) refuses the whole operation before
anything is changed (`_check_derived_relrefs`, repaired in /repo by 178dea2 … 49b981c).

Cells are not maintained incrementally: a space has the cells of every space of its linearisation (C03's
theorem), which is all `get_impl_from_name` needs here.  Not modelled: deletion and renaming of spaces,
renaming of cells, model-level references, ItemSpaces as states (the `wrap_impl` view of a reference is
`itemView`), saving and loading; the IDENTITY of objects: a target is a path and exists when something is
found under the path now, so a cells deleted and re-created / re-derived under its path is the same target
here, while in modelx the references keep the dead object (R8C10; the correspondence leaves such
references out, see `Props/C10.lean`, LIMIT OF THE MODEL).

`dirty` is ghost state (read by no operation): a space is marked when the linearisation of one of its
ENCLOSING spaces changed and the space was not derived again since; it is cleared by re-derivation.
-/
namespace MxModel.RelHist
open MxModel.Relative

/-- a reference of a space: defined there (value and mode as assigned; the binding is the value) or
derived (mode and binding as `on_inherit` / `new_ref` computed them) -/
structure RRef where
  defined : Bool
  r : DRef
  deriving DecidableEq, Repr

structure RState where
  /-- the spaces, in creation order -/
  ids : List Path := []
  /-- every reference name used so far (for enumeration only) -/
  names : List String := []
  bases : Path → List Path := fun _ => []
  /-- the cells a space defines -/
  cells : Path → List String := fun _ => []
  ref : Path → String → Option RRef := fun _ _ => none
  dirty : Path → Bool := fun _ => false

/-- `SpaceGraph.get_mro`; `none` = "inconsistent hierarchy" -/
def RState.mroOpt (st : RState) (p : Path) : Option (List Path) :=
  MxModel.C3.mro st.bases (st.ids.length + 1) p

def RState.mroOf (st : RState) (p : Path) : List Path := (st.mroOpt p).getD [p]

/-- `_get_subs(space)`: the spaces that have `p` in their linearisation -/
def RState.subs (st : RState) (p : Path) : List Path :=
  st.ids.filter (fun q => q != p && (st.mroOf q).contains p)

/-- the space has a cells of that name: defined in it or in a space of its linearisation -/
def RState.hasCells (st : RState) (q : Path) (c : String) : Bool :=
  (st.mroOf q).any (fun b => (st.cells b).contains c)

/-- `model.get_impl_from_name(x)` finds a space or a cells -/
def RState.exist (st : RState) (x : Path) : Bool :=
  st.ids.contains x ||
    (match x.getLast? with
     | some c => st.ids.contains x.dropLast && st.hasCells x.dropLast c
     | none => false)

def RState.definedRef (st : RState) (b : Path) (n : String) : Option DRef :=
  match st.ref b n with
  | some ⟨true, r⟩ => some r
  | _ => none

/-- `get_deriv_bases(ref, defined_only=True)[0]`: the first space of the linearisation (after the space
itself) that defines the name, with its reference -/
def RState.firstDefiner (st : RState) (q : Path) (n : String) : Option (Path × DRef) :=
  (st.mroOf q).tail.findSome? (fun b => (st.definedRef b n).map (fun r => (b, r)))

/-- the derived reference `on_inherit` is called on: the one that is there, or a new one
(`ReferenceImpl(self, name, None, is_derived=True, refmode=bs[0].refmode)`) -/
def RState.oldOr (st : RState) (q : Path) (n : String) (dm : Mode) : DRef :=
  match st.ref q n with
  | some o => o.r
  | none => createDerived dm

/-- `UserSpaceImpl.on_inherit(…, "own_refs")` for one name of the space `q`: a defined reference stays;
a name no base defines any more is dropped; otherwise `ReferenceImpl.on_inherit` on the reference that is
there, or on a new one.  Outer `none`: `on_inherit` raises. -/
def RState.derive1 (st : RState) (q : Path) (n : String) : Option (Option RRef) :=
  match st.definedRef q n with
  | some r => some (some ⟨true, r⟩)
  | none =>
    match st.firstDefiner q n with
    | none => some none
    | some (D, dr) =>
      (reinherit st.mroOf st.exist (st.oldOr q n dr.mode) dr.mode q D dr.binding.target).map
        (fun r' => some ⟨false, r'⟩)

/-- `_check_derived_relrefs`: no re-derivation of the spaces `qs` raises -/
def RState.rederiveOk (st : RState) (qs : List Path) : Bool :=
  qs.all (fun q => st.names.all (fun n => (st.derive1 q n).isSome))

/-- the spaces `qs` derive their references again (the inputs - linearisations, defined references,
existing objects - are not changed by it, so the order plays no role) -/
def RState.rederive (st : RState) (qs : List Path) : RState :=
  { st with
    ref := fun q n => if qs.contains q then (st.derive1 q n).getD none else st.ref q n
    dirty := fun q => if qs.contains q then false else st.dirty q }

def strictPrefixIn (A : List Path) (q : Path) : Bool :=
  A.any (fun a => decide (a.length < q.length) && a.isPrefixOf q)

/-- ghost: the linearisations of the spaces `A` changed: every space below one of them that is not itself
derived again is marked -/
def RState.markBelow (st : RState) (A : List Path) : RState :=
  { st with dirty := fun q => if A.contains q then st.dirty q else if strictPrefixIn A q then true else st.dirty q }

def RState.newSpace (st : RState) (parent : Path) (name : String) (bases : List Path) (cells : List String) :
    Option RState :=
  let P := parent ++ [name]
  if name == "" || parent.contains "" || cells.contains "" || st.ids.contains P
      || !(parent == [] || st.ids.contains parent) || !bases.all st.ids.contains then none
  else
    let st1 : RState := { st with
      ids := st.ids ++ [P]
      bases := fun q => if q = P then bases else st.bases q
      cells := fun q => if q = P then cells else st.cells q }
    if (st1.mroOpt P).isNone then none
    else if !st1.rederiveOk [P] then none
    else some (st1.rederive [P])

/-- `p.name = value` in the space itself -/
def RState.define (st : RState) (p : Path) (n : String) (t : Target) (m : Mode) : RState :=
  { st with
    names := if st.names.contains n then st.names else st.names ++ [n]
    ref := fun q k => if q = p ∧ k = n then some ⟨true, ⟨m, ⟨t, ctorFlag m⟩⟩⟩ else st.ref q k }

/-- the sub spaces of `p` that take a value assigned to `p.name`: they do not define the name, and `p` is
the first definer of the name along their linearisation once `p` defines it (`st1`) -/
def RState.takers (st st1 : RState) (p : Path) (n : String) : List Path :=
  (st.subs p).filter (fun q =>
    (st.definedRef q n).isNone &&
      (match st1.firstDefiner q n with
       | some (D, _) => D == p
       | none => false))

/-- a value that cannot be assigned: an object that does not exist (a null object) -/
def RState.badTarget (st : RState) : Target → Bool
  | .obj v => !st.exist v
  | .null => true
  | .plain _ => false

def RState.setRef (st : RState) (p : Path) (n : String) (t : Target) (m : Mode) : Option RState :=
  if !st.ids.contains p || n == "" then none
  else if st.badTarget t then none
  else
    let st1 := st.define p n t m
    let tk := st.takers st1 p n
    match setRefGuarded st.mroOf st.exist (st.ref p n).isSome m p t tk with
    | none => none
    | some out =>
      if out.any (·.isNone) then none
      else some { st1 with
        ref := fun q k =>
          if k = n ∧ tk.contains q then (newRefSub st.mroOf st.exist m q p t).map (fun r => ⟨false, r⟩)
          else st1.ref q k }

def RState.delRef (st : RState) (p : Path) (n : String) : Option RState :=
  if (st.definedRef p n).isNone then none
  else
    let st1 : RState := { st with ref := fun q k => if q = p ∧ k = n then none else st.ref q k }
    let A := p :: st.subs p
    if !st1.rederiveOk A then none else some (st1.rederive A)

/-- a change of the direct bases of `p`: refused when a space is left without linearisation or a
re-derivation would raise; `p` and the spaces that inherit from it are derived again -/
def RState.rebase (st : RState) (p : Path) (newBases : List Path) : Option RState :=
  let st1 : RState := { st with bases := fun q => if q = p then newBases else st.bases q }
  let A := p :: st.subs p
  if !st1.ids.all (fun q => (st1.mroOpt q).isSome) then none
  else if !st1.rederiveOk A then none
  else some ((st1.rederive A).markBelow A)

def RState.addBase (st : RState) (p b : Path) : Option RState :=
  if !st.ids.contains p || !st.ids.contains b || (st.bases p).contains b then none
  else st.rebase p (st.bases p ++ [b])

def RState.removeBase (st : RState) (p b : Path) : Option RState :=
  if !st.ids.contains p || !(st.bases p).contains b then none
  else st.rebase p ((st.bases p).filter (· != b))

/-- `new_cells` / deletion of a cells in an existing space: for references only what exists changes (the
sub spaces have the cells through their linearisation) -/
def RState.newCells (st : RState) (p : Path) (c : String) : Option RState :=
  if !st.ids.contains p || c == "" || (st.cells p).contains c then none
  else some { st with cells := fun q => if q = p then st.cells p ++ [c] else st.cells q }

def RState.delCells (st : RState) (p : Path) (c : String) : Option RState :=
  if !st.ids.contains p || !(st.cells p).contains c then none
  else some { st with cells := fun q => if q = p then (st.cells p).filter (· != c) else st.cells q }

inductive ROp
  | newSpace (parent : Path) (name : String) (bases : List Path) (cells : List String)
  | newCells (p : Path) (c : String)
  | delCells (p : Path) (c : String)
  | setRef (p : Path) (name : String) (t : Target) (m : Mode)
  | delRef (p : Path) (name : String)
  | addBase (p b : Path)
  | removeBase (p b : Path)
  deriving Repr

def RState.apply (st : RState) : ROp → Option RState
  | .newSpace parent name bases cells => st.newSpace parent name bases cells
  | .newCells p c => st.newCells p c
  | .delCells p c => st.delCells p c
  | .setRef p n t m => st.setRef p n t m
  | .delRef p n => st.delRef p n
  | .addBase p b => st.addBase p b
  | .removeBase p b => st.removeBase p b

/-- a refused operation changes nothing -/
def RState.step (st : RState) (op : ROp) : RState := (st.apply op).getD st

def RState.run (st : RState) (ops : List ROp) : RState := ops.foldl RState.step st

/-- what an ItemSpace built from the space `root` makes of the reference `n` of the space `holder` of its
tree (`DynBaseRefDict.wrap_impl`) -/
def RState.itemView (st : RState) (root holder : Path) (n : String) : Option WrapResult :=
  (st.ref holder n).map (fun rr =>
    wrapImpl (fun rel => st.exist (root ++ rel)) root (holder.drop root.length)
      ⟨rr.r.mode, rr.r.binding.isRelative, rr.defined, rr.r.binding.target⟩)

end MxModel.RelHist
