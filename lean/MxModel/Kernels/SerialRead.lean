import MxModel.Kernels.Serial
import MxModel.Kernels.C3
import MxModel.Kernels.Relative
import MxModel.Generated.Tables
/-!
# SerialRead: `serializer_6.ModelReader` on the statement-level files of `Kernels/Serial.lean` (C04)

`read : Dir → Except Err MDesc`, in the reader's own steps:

1. **parse** (`parse_dir` / `parse_source`): the model's `__init__.py`, then for every name in `_spaces` the
   sub directory of that name (`new_space` happens here), recursively, depth first.  Every statement is
   dispatched by `ParserSelector` - the FIRST class of `Generated.parserClasses` (regenerated from
   `serializer_6.py` on every run) whose `condition` holds for (kind of statement, section, target name) -
   and yields deferred instructions `Op` (the method name under which the real `Instruction` is filed is
   `Op.method`).  A cells definition looks ahead for its docstring / `_allow_none` / `_is_cached`
   (`LambdaAssignParser`, `CellsFuncDefParser`); the section of a statement is the last marker before it
   (`SourceStructure`, line based: a marker inside a documentation string or a formula counts).
2. **schedule** (`_read_model_inner`): the instructions of all files, in parse order, are executed phase
   by phase; the phases are `Generated.readerPhases`.  An instruction runs in the first phase that names
   its method (executed instructions are popped); one whose method no phase names never runs.
3. **execute with the checks that can fail**: `add_bases` (the bases must exist; every space must have a C3
   linearisation in the graph as it is AT THAT MOMENT), `load_pickledata` / restoring pickled values (the
   ids must be in `data.pickle`), `__setattr__` / `set_ref` (object-valued references are resolved by path
   after all spaces exist; `SpaceManager.new_ref`'s refusal when a sub space already has the name,
   `_check_subs_relrefs`), `_set_dynamic_inputs`.  An instruction that changes a namespace after inputs of
   ItemSpaces were restored deletes those ItemSpaces (`dropped`).
4. **the result**: an instruction is bound to the object it was created for (a Python reference), so the
   description of a space is what ITS instructions, in scheduled order, build.

What is not modelled: name conflicts between cells / spaces / references (C12's subject: such models cannot
be built), `read_pickledata`'s position between the phases, `name=` of `read_model`, a missing `_spaces`
statement (the real reader would reuse the list of the previous file; here: error).
-/
namespace MxModel.Serial
open MxModel.PathCodec MxModel.Generated

inductive Err
  /-- a directory or its `__init__.py` is missing -/
  | noFile
  | noSpacesStmt
  | noNameStmt
  /-- `ParserSelector.select` found no class (`TypeError`) -/
  | noParser
  /-- `RuntimeError("unknown attribute assignment")` -/
  | unknownAssign
  /-- a right-hand side the selected parser / decoder cannot take -/
  | badValue
  /-- a statement in the model's file that only a space can execute -/
  | notForModel
  /-- an instruction runs before the one whose result it needs -/
  | phaseOrder
  | noBase
  /-- `TypeError: inconsistent hierarchy, no C3 MRO is possible` while adding bases -/
  | basesOrder
  /-- `KeyError` in the pickle table -/
  | noPickleId
  /-- an object-valued reference whose target does not exist -/
  | noTarget
  | badMode
  /-- `ValueError: Cannot create reference` -/
  | refConflict
  /-- `ValueError: Cannot create relative reference` -/
  | relRefConflict
  | badAddress
  | fuel
deriving DecidableEq, Repr

instance {ε α : Type} [DecidableEq ε] [DecidableEq α] : DecidableEq (Except ε α)
  | .ok a, .ok b => if h : a = b then isTrue (by rw [h]) else isFalse (by intro e; cases e; exact h rfl)
  | .error a, .error b => if h : a = b then isTrue (by rw [h]) else isFalse (by intro e; cases e; exact h rfl)
  | .ok _, .error _ => isFalse (by intro e; cases e)
  | .error _, .ok _ => isFalse (by intro e; cases e)

def mapE {α β : Type} (f : α → Except Err β) : List α → Except Err (List β)
  | [] => .ok []
  | a :: as =>
    match f a with
    | .error e => .error e
    | .ok b =>
      match mapE f as with
      | .error e => .error e
      | .ok bs => .ok (b :: bs)

/-! ## deferred instructions -/

/-- the value of a reference assignment as decoded at parse time (`decoder.decode()` or the decoder itself
when it has `restore`) -/
inductive Decoded
  | literal (t : Text)
  | pickle (id : Id)
  | interface (rel : List Elem)
  | module (n : Name)
  | iospec (valueId specId : Id)
deriving DecidableEq, Repr

/-- a deferred `Instruction` of the reader, bound to the object (model or space) whose file produced it -/
inductive Op
  /-- `type(obj).doc.fset(obj, text)` -/
  | setDoc (d : Text)
  | setFormula (f : Option Formula)
  /-- `obj.set_property("allow_none", v)` -/
  | setAllowNone (v : Option Bool)
  | newCells (name : Name) (f : Formula)
  /-- `<the cells just created>.set_doc(d)` -/
  | cellsDoc (cells : Name) (d : Text)
  | cellsAllowNone (cells : Name) (v : Option Bool)
  | cellsCached (cells : Name) (b : Bool)
  /-- the absolute dotted names (`rel_to_abs` was applied at parse time); resolved when executed -/
  | addBases (bases : List Text)
  /-- `load_pickledata`; `entries` = the lines of `_data/<cells>` (`[]` if the file does not exist) -/
  | loadPickle (cells : Name) (entries : List (Id × Id))
  /-- `obj.__setattr__(name, value)` -/
  | setAttr (name : Name) (v : Decoded)
  /-- `space.set_ref(name, value, refmode=mode)` -/
  | setRef (name : Name) (v : Decoded) (mode : Name)
  /-- one line of `_data/_dynamic_inputs` -/
  | dynInput (rel : List Elem) (key val : Id)
deriving DecidableEq, Repr

/-- `inst.func.__name__` -/
def Op.method : Op → String
  | .setDoc _ => "doc"
  | .setFormula _ => "set_formula"
  | .setAllowNone _ => "set_property"
  | .newCells _ _ => "new_cells"
  | .cellsDoc _ _ => "set_doc"
  | .cellsAllowNone _ _ => "set_property"
  | .cellsCached _ _ => "set_property"
  | .addBases _ => "add_bases"
  | .loadPickle _ _ => "load_pickledata"
  | .setAttr _ _ => "__setattr__"
  | .setRef _ _ _ => "set_ref"
  | .dynInput _ _ _ => "_set_dynamic_inputs"

/-- index of the first phase of `_read_model_inner` that executes instructions named `m` -/
def phaseIdx (m : String) : Option Nat :=
  let i := readerPhases.findIdx (·.contains m)
  if i < readerPhases.length then some i else none

def Op.phase (o : Op) : Option Nat := phaseIdx o.method

/-- `execute_selected_methods` phase after phase over one list: phase `k` takes, in list order, the
instructions whose first naming phase is `k` -/
def schedule {α : Type} (ph : α → Option Nat) (l : List α) : List α :=
  (List.range readerPhases.length).flatMap (fun k => l.filter (fun i => ph i = some k))

/-- `a` is executed, and not after `b` (for instructions of one compound: same phase keeps list order) -/
def phaseLE (a b : String) : Bool :=
  match phaseIdx a, phaseIdx b with
  | some i, some j => i ≤ j
  | _, _ => false

/-- the instructions that use the result of `new_cells` of their compound find it -/
def phaseChecks : Bool :=
  phaseLE "new_cells" "set_doc" && phaseLE "new_cells" "set_property" && phaseLE "new_cells" "load_pickledata"

/-! ## parsing -/

inductive ParserCls
  | docstring | importFrom | rename | lambdaAssign | attrAssign | refAssign | spaceFuncDef | cellsFuncDef
deriving DecidableEq, Repr

def ParserCls.ofName (s : String) : Option ParserCls :=
  if s = "DocstringParser" then some .docstring
  else if s = "ImportFromParser" then some .importFrom
  else if s = "RenameParser" then some .rename
  else if s = "LambdaAssignParser" then some .lambdaAssign
  else if s = "AttrAssignParser" then some .attrAssign
  else if s = "RefAssignParser" then some .refAssign
  else if s = "SpaceFuncDefParser" then some .spaceFuncDef
  else if s = "CellsFuncDefParser" then some .cellsFuncDef
  else none

/-- `ParserSelector.classes`, in the order of the source -/
def parserOrder : List ParserCls := parserClasses.filterMap ParserCls.ofName

/-- `<Parser>.condition(node, section, atok)` -/
def parserCond : ParserCls → Stmt → Sec → Bool
  | .docstring, .doc _, _ => true
  | .importFrom, .importFrom, _ => true
  | .rename, .assign t _, _ => t == kName
  | .lambdaAssign, .assign t _, sec => sec == .cells && t.head? != some '_'
  | .attrAssign, .assign _ _, sec => sec == .default || sec == .cells
  | .refAssign, .assign _ _, sec => sec == .refs
  | .spaceFuncDef, .funcDef n _, _ => n == kFormula
  | .cellsFuncDef, .funcDef _ _, _ => true
  | _, _, _ => false

def selectParser (s : Stmt) (sec : Sec) : Option ParserCls := parserOrder.find? (fun c => parserCond c s sec)

/-- `IOSpecDecoder.DECTYPE_COMPAT` -/
def tDataSpec : Name := "DataSpec".toList

inductive DecCls | interface | iospec | module | pickle | literal
deriving DecidableEq, Repr

def DecCls.ofName (s : String) : Option DecCls :=
  if s = "InterfaceDecoder" then some .interface
  else if s = "IOSpecDecoder" then some .iospec
  else if s = "ModuleDecoder" then some .module
  else if s = "PickleDecoder" then some .pickle
  else if s = "LiteralDecoder" then some .literal
  else none

/-- `DecoderSelector.classes`, in the order of the source -/
def decoderOrder : List DecCls := decoderClasses.filterMap DecCls.ofName

/-- `<Decoder>.condition(node)`: `TupleDecoder` compares the first element with `DECTYPE`
(`IOSpecDecoder` also takes the older `"DataSpec"`), `LiteralDecoder` takes everything -/
def decoderCond : DecCls → Rhs → Bool
  | .literal, _ => true
  | .interface, .tagged t _ => t == tInterface
  | .iospec, .tagged t _ => t == tIOSpec || t == tDataSpec
  | .module, .tagged t _ => t == tModule
  | .pickle, .tagged t _ => t == tPickle
  | _, _ => false

def selectDecoder (r : Rhs) : Option DecCls := decoderOrder.find? (fun c => decoderCond c r)

/-- `decoder.decode()` / what `decoder.restore()` will start from; the reference mode if the tuple has a
third element and the decoder is the `InterfaceDecoder` -/
def decodeRhs (r : Rhs) : Except Err (Decoded × Option Name) :=
  match selectDecoder r with
  | none => .error .noParser
  | some .literal =>
    match r with
    | .text t => .ok (.literal t, none)
    | _ => .error .badValue
  | some .interface =>
    match r with
    | .tagged _ [.tup p] => .ok (.interface p, none)
    | .tagged _ (.tup p :: .str m :: _) => .ok (.interface p, some m)
    | _ => .error .badValue
  | some .iospec =>
    match r with
    | .tagged _ (.num v :: .num s :: _) => .ok (.iospec v s, none)
    | _ => .error .badValue
  | some .module =>
    match r with
    | .tagged _ (.str n :: _) => .ok (.module n, none)
    | _ => .error .badValue
  | some .pickle =>
    match r with
    | .tagged _ (.num i :: _) => .ok (.pickle i, none)
    | _ => .error .badValue

/-- `ast.literal_eval` of `True` / `False` / `None` -/
def evalOptBool (t : Text) : Except Err (Option Bool) :=
  if t = kTrue then .ok (some true)
  else if t = kFalse then .ok (some false)
  else if t = kNone then .ok none
  else .error .badValue

/-- the loop after a cells definition: the docstring (lambda only: a `STRING` token) and the
`_allow_none` / `_is_cached` assignments that follow; comments (section markers) are skipped -/
def takeTrailers (cells : Name) (withDoc : Bool) : List Stmt → Except Err (List Op)
  | [] => .ok []
  | .marker _ :: rest => takeTrailers cells withDoc rest
  | .doc d :: rest =>
    if withDoc then
      match takeTrailers cells withDoc rest with
      | .error e => .error e
      | .ok ops => .ok (.cellsDoc cells d :: ops)
    else .ok []
  | .assign t rhs :: rest =>
    if t = kAllowNone then
      match rhs with
      | .text v =>
        match evalOptBool v, takeTrailers cells withDoc rest with
        | .ok b, .ok ops => .ok (.cellsAllowNone cells b :: ops)
        | .error e, _ => .error e
        | _, .error e => .error e
      | _ => .error .badValue
    else if t = kIsCached then
      match rhs with
      | .text v =>
        match evalOptBool v, takeTrailers cells withDoc rest with
        | .ok (some b), .ok ops => .ok (.cellsCached cells b :: ops)
        | .ok none, _ => .error .badValue
        | .error e, _ => .error e
        | _, .error e => .error e
      | _ => .error .badValue
    else .ok []
  | _ => .ok []

/-- what parsing one file gives: the deferred instructions in statement order, the name set by `_name`
(executed while parsing), the list assigned to `_spaces` (`reader.result`) -/
structure Parsed where
  ops : List Op
  name : Option Name
  spaces : Option (List Name)
deriving DecidableEq, Repr

def Parsed.empty : Parsed := ⟨[], none, none⟩
def Parsed.ofOps (ops : List Op) : Parsed := ⟨ops, none, none⟩
def Parsed.append (a b : Parsed) : Parsed :=
  ⟨a.ops ++ b.ops, match b.name with | some n => some n | none => a.name,
   match b.spaces with | some s => some s | none => a.spaces⟩

/-- the file being parsed: whether it is the model's, the model's (current) name, the path of the PARENT
of the object, the `_data` files beside it -/
structure PCtx where
  isModel : Bool
  model : Name
  parent : Path
  data : List (Name × DataFile)

def cellsEntries (data : List (Name × DataFile)) (cells : Name) : List (Id × Id) :=
  match data.lookup cells with
  | some (.cellsData es) => es
  | _ => []

/-- `parser.get_instruction()` of the selected parser for statement `s` in section `sec`, `rest` = the
statements that follow (look-ahead of the cells parsers) -/
def parseOne (ctx : PCtx) (sec : Sec) (s : Stmt) (rest : List Stmt) : Except Err Parsed :=
  match s with
  | .marker _ => .ok Parsed.empty
  | _ =>
  match selectParser s sec with
  | none => .error .noParser
  | some .docstring =>
    match s with
    | .doc d => if sec = .default then .ok (Parsed.ofOps [.setDoc d]) else .ok Parsed.empty
    | _ => .error .noParser
  | some .importFrom => .ok Parsed.empty
  | some .rename =>
    match s with
    | .assign _ (.str n) => if ctx.isModel then .ok ⟨[], some n, none⟩ else .error .badValue
    | _ => .error .badValue
  | some .lambdaAssign =>
    match s with
    | .assign t (.text f) =>
      if ctx.isModel then .error .notForModel else
      match takeTrailers t true rest with
      | .error e => .error e
      | .ok tr => .ok (Parsed.ofOps (.newCells t (.lambda f) :: tr ++ [.loadPickle t (cellsEntries ctx.data t)]))
    | _ => .error .badValue
  | some .attrAssign =>
    match s with
    | .assign t rhs =>
      if t = kFormula then
        match rhs with
        | .text v =>
          if ctx.isModel then .error .notForModel
          else if v = kNone then .ok (Parsed.ofOps [.setFormula none])
          else .ok (Parsed.ofOps [.setFormula (some (.lambda v))])
        | _ => .error .badValue
      else if t = kBases then
        match rhs with
        | .names l =>
          if ctx.isModel then .error .notForModel
          else .ok (Parsed.ofOps [.addBases (l.map (fun b => relToAbs b (dotted ctx.model ctx.parent)))])
        | _ => .error .badValue
      else if t = kSpaces then
        match rhs with
        | .names l => .ok ⟨[], none, some l⟩
        | _ => .error .badValue
      else if t = kAllowNone then
        if sec = .default then
          match rhs with
          | .text v =>
            match evalOptBool v with
            | .ok b => .ok (Parsed.ofOps [.setAllowNone b])
            | .error e => .error e
          | _ => .error .badValue
        else .ok Parsed.empty
      else if t = kIsCached then
        if sec = .default then .error .badValue else .ok Parsed.empty
      else .error .unknownAssign
    | _ => .error .noParser
  | some .refAssign =>
    match s with
    | .assign t rhs =>
      match decodeRhs rhs with
      | .error e => .error e
      | .ok (v, mode) =>
        match ctx.isModel, v, mode with
        | false, .interface _, some m => .ok (Parsed.ofOps [.setRef t v m])
        | _, _, _ => .ok (Parsed.ofOps [.setAttr t v])
    | _ => .error .noParser
  | some .spaceFuncDef =>
    match s with
    | .funcDef _ text =>
      if ctx.isModel then .error .notForModel
      else .ok (Parsed.ofOps [.setFormula (some (.defn text text))])
    | _ => .error .noParser
  | some .cellsFuncDef =>
    match s with
    | .funcDef n text =>
      if ctx.isModel then .error .notForModel else
      match takeTrailers n false rest with
      | .error e => .error e
      | .ok tr => .ok (Parsed.ofOps (.newCells n (.defn text text) :: tr ++ [.loadPickle n (cellsEntries ctx.data n)]))
    | _ => .error .noParser

/-- `SECTION_DIVIDER` -/
def dividerLine : List Char := '#' :: ' ' :: List.replicate 75 '-'

/-- `text.split("\n")` -/
def splitNl : List Char → List (List Char)
  | [] => [[]]
  | c :: cs =>
    if c = '\n' then [] :: splitNl cs
    else match splitNl cs with
      | [] => [[c]]
      | w :: ws => (c :: w) :: ws

def isBlank (c : Char) : Bool := c == ' ' || c == '\t' || c == '\r' || c == '\x0b' || c == '\x0c'

/-- `line.strip()` (for the characters that can surround a marker) -/
def strip (l : List Char) : List Char := ((l.dropWhile isBlank).reverse.dropWhile isBlank).reverse

/-- `SourceStructure.construct` on the lines of one statement: the section the LAST
"divider line, then any line" pair switches to (`none`: no divider line followed by a line) -/
def markerScan : Bool → Option Sec → List (List Char) → Option Sec
  | _, acc, [] => acc
  | true, _, l :: ls =>
    let s := strip l
    markerScan false (some (if s = "# Cells".toList then .cells else if s = "# References".toList then .refs else .default)) ls
  | false, acc, l :: ls => markerScan (strip l == dividerLine) acc ls

def markerIn (t : Text) : Option Sec := markerScan false none (splitNl t)

/-- the text a statement occupies in the file, as far as section markers can hide in it: a documentation
string is written between triple quotes (the escapes `quote_docstring` inserts never make or break a
marker line, up to a carriage return at its end) -/
def stmtText : Stmt → Text
  | .doc d => "\"\"\"".toList ++ d ++ "\"\"\"".toList
  | .assign _ (.text t) => t
  | .funcDef _ t => t
  | _ => []

/-- the section in force after statement `s` -/
def nextSec (sec : Sec) : Stmt → Sec
  | .marker s => s
  | s => match markerIn (stmtText s) with | some x => x | none => sec

/-- `parse_source`: every statement with the section of the last marker before it -/
def parseStmts (ctx : PCtx) : Sec → List Stmt → Except Err Parsed
  | _, [] => .ok Parsed.empty
  | sec, s :: rest =>
    match parseOne ctx sec s rest with
    | .error e => .error e
    | .ok p =>
      match parseStmts ctx (nextSec sec s) rest with
      | .error e => .error e
      | .ok q => .ok (p.append q)

/-- `_parse_dynamic_inputs` -/
def dynOps (data : List (Name × DataFile)) : List Op :=
  match data.lookup fDynInputs with
  | some (.dynInputs lines) => lines.map (fun l => Op.dynInput l.1 l.2.1 l.2.2)
  | _ => []

/-- a space as parsed: its name, its deferred instructions (own statements, then the ItemSpace inputs),
its child spaces in the order of `_spaces` -/
inductive PNode where
  | mk (name : Name) (ops : List Op) (children : List PNode)
deriving Repr

def PNode.name : PNode → Name | .mk n _ _ => n
def PNode.ops : PNode → List Op | .mk _ o _ => o
def PNode.children : PNode → List PNode | .mk _ _ c => c

def findDir (subs : List Dir) (n : Name) : Option Dir := subs.find? (fun d => d.name == n)

/-- `parse_dir` for one name of `_spaces` (`fuel` bounds the depth) -/
def parseSpace (model : Name) : Nat → Path → List Dir → Name → Except Err PNode
  | 0, _, _, _ => .error .fuel
  | fuel + 1, parent, subs, n =>
    match findDir subs n with
    | none => .error .noFile
    | some d =>
      match d.init with
      | none => .error .noFile
      | some stmts =>
        match parseStmts ⟨false, model, parent, d.data⟩ .default stmts with
        | .error e => .error e
        | .ok p =>
          match p.spaces with
          | none => .error .noSpacesStmt
          | some names =>
            match mapE (parseSpace model fuel (parent ++ [n]) d.subs) names with
            | .error e => .error e
            | .ok kids => .ok (.mk n (p.ops ++ dynOps d.data) kids)

structure ParsedModel where
  name : Name
  ops : List Op
  nodes : List PNode
  pickle : List Id

def pickleTable (data : List (Name × DataFile)) : List Id :=
  match data.lookup fDataPickle with
  | some (.pickle ids) => ids
  | _ => []

def parseModel (d : Dir) : Except Err ParsedModel :=
  match d.init with
  | none => .error .noFile
  | some stmts =>
    match parseStmts ⟨true, [], [], d.data⟩ .default stmts with
    | .error e => .error e
    | .ok p =>
      match p.name, p.spaces with
      | none, _ => .error .noNameStmt
      | _, none => .error .noSpacesStmt
      | some name, some names =>
        match mapE (parseSpace name d.depth [] d.subs) names with
        | .error e => .error e
        | .ok nodes => .ok ⟨name, p.ops, nodes, pickleTable d.data⟩

/-! ## the instructions of all files, in parse order -/

mutual
def flatNode (parent : Path) : PNode → List (Path × Op)
  | .mk n ops kids => ops.map (fun o => (parent ++ [n], o)) ++ flatNodes (parent ++ [n]) kids
def flatNodes (parent : Path) : List PNode → List (Path × Op)
  | [] => []
  | k :: ks => flatNode parent k ++ flatNodes parent ks
end

mutual
def nodePaths (parent : Path) : PNode → List Path
  | .mk n _ kids => (parent ++ [n]) :: nodesPaths (parent ++ [n]) kids
def nodesPaths (parent : Path) : List PNode → List Path
  | [] => []
  | k :: ks => nodePaths parent k ++ nodesPaths parent ks
end

def opCells : Op → List Name
  | .newCells n _ => [n]
  | _ => []

mutual
def nodeCells (parent : Path) : PNode → List (Path × List Name)
  | .mk n ops kids => (parent ++ [n], ops.flatMap opCells) :: nodesCells (parent ++ [n]) kids
def nodesCells (parent : Path) : List PNode → List (Path × List Name)
  | [] => []
  | k :: ks => nodeCells parent k ++ nodesCells parent ks
end

/-! ## execution: the checks that can fail -/

/-- what the checks look at: the model's name, all spaces (tree order), the cells each space DEFINES,
the pickle table -/
structure Ctx where
  model : Name
  spaces : List Path
  cells : List (Path × List Name)
  pickle : List Id
deriving Repr

abbrev BaseRel := List (Path × List Path)

def basesOf (bs : BaseRel) (p : Path) : List Path := (bs.filter (fun e => e.1 == p)).flatMap (·.2)

/-- `SpaceGraph.get_mro` in the graph `bs` -/
def mroIn (ctx : Ctx) (bs : BaseRel) (p : Path) : Option (List Path) :=
  C3.mro (basesOf bs) (ctx.spaces.length + 1) p

def allMro (ctx : Ctx) (bs : BaseRel) : Bool := ctx.spaces.all (fun p => (mroIn ctx bs p).isSome)

/-- the space followed by its bases in linearisation order -/
def lineage (ctx : Ctx) (bs : BaseRel) (p : Path) : List Path := (mroIn ctx bs p).getD [p]

/-- `_get_subs(space)` without the space itself (as a set) -/
def subsOf (ctx : Ctx) (bs : BaseRel) (p : Path) : List Path :=
  ctx.spaces.filter (fun s => s != p && (lineage ctx bs s).contains p)

/-- `dotted.split(".")` names a space of this model -/
def resolveBase (model : Name) (d : Text) : Option Path :=
  match splitDot d with
  | m :: p => if m = model then some p else none
  | [] => none

def elemName : Elem → Name
  | .str s => s
  | .key k => k

def isStr : Elem → Bool
  | .str _ => true
  | .key _ => false

/-- `rel_to_abs_tuple(decoded, obj._idtuple)` as a path below the model (`none`: malformed, or an object
of another model / inside an ItemSpace) -/
def resolveRel (model : Name) (owner : Path) (rel : List Elem) : Option Path :=
  match relToAbsTuple rel (idt model owner) with
  | .ok (m :: p) => if m = Elem.str model && p.all isStr then some (p.map elemName) else none
  | _ => none

/-- the space's own cells and those of its bases -/
def cellsVisible (ctx : Ctx) (bs : BaseRel) (p : Path) : List Name :=
  (lineage ctx bs p).flatMap (fun q => (ctx.cells.lookup q).getD [])

/-- `mxsys.get_object_from_idtuple`: the model, a space, or a cells (defined or derived) of a space -/
def targetExists (ctx : Ctx) (bs : BaseRel) (t : Path) : Bool :=
  t == [] || ctx.spaces.contains t ||
  (match t.getLast? with
   | some c => ctx.spaces.contains t.dropLast && (cellsVisible ctx bs t.dropLast).contains c
   | none => false)

structure RState where
  /-- the base lists added so far -/
  bases : BaseRel
  /-- the references created so far (owner, name); owner `[]` = the model -/
  done : List (Path × Name)
  /-- spaces in whose ItemSpaces an input was restored -/
  dynSeen : List Path
  /-- spaces whose ItemSpaces were deleted afterwards -/
  dropped : List Path
deriving DecidableEq, Repr

def RState.init : RState := ⟨[], [], [], []⟩

/-- some space of `lin` defines reference `x` by now -/
def hasRef (done : List (Path × Name)) (lin : List Path) (x : Name) : Bool := lin.any (fun q => done.contains (q, x))

/-- `set_attr` → `SpaceManager.new_ref`: "Cannot create reference" - the space does not have the name yet
(else it is `change_ref`), no model-level reference of the name exists (else that one is found first),
and some sub space has it (own or derived) -/
def refConflict (ctx : Ctx) (bs : BaseRel) (done : List (Path × Name)) (p : Path) (x : Name) : Bool :=
  if hasRef done (lineage ctx bs p) x then false
  else if done.contains ([], x) then false
  else (subsOf ctx bs p).any (fun s => hasRef done (lineage ctx bs s) x)

def toStrPath (p : Path) : Relative.Path := p.map String.ofList
def ofStrPath (p : Relative.Path) : Path := p.map String.toList

/-- `SpaceGraph.get_relative(sub, space, target)` finds a counterpart -/
def hasRelative (ctx : Ctx) (bs : BaseRel) (sub space target : Path) : Bool :=
  match Relative.getRelative (fun q => (lineage ctx bs (ofStrPath q)).map toStrPath)
      (toStrPath sub) (toStrPath space) (toStrPath target) with
  | .some _ => true
  | _ => false

/-- `_check_subs_relrefs` for a `relative` object-valued reference: a sub space that would take the value
(it does not define the name, and does not derive it from a base that precedes `p` in its linearisation)
must have a counterpart of the target -/
def relConflict (ctx : Ctx) (bs : BaseRel) (done : List (Path × Name)) (p : Path) (x : Name)
    (target : Path) : Bool :=
  (subsOf ctx bs p).any (fun s =>
    let lin := lineage ctx bs s
    if done.contains (s, x) then false
    else
      match (lin.drop 1).find? (fun q => done.contains (q, x)) with
      | some q => if lin.idxOf q < lin.idxOf p then false else !hasRelative ctx bs s p target
      | none => !hasRelative ctx bs s p target)

/-- the ItemSpaces of `q` are deleted when the namespace of `q`, of a space below it, or of a base of it
changes (a model-level change reaches all) -/
def related (ctx : Ctx) (bs : BaseRel) (q p : Path) : Bool :=
  p == [] || q.isPrefixOf p || (lineage ctx bs q).contains p

def dropFor (ctx : Ctx) (st : RState) (p : Path) : RState :=
  { st with dropped := st.dropped ++ st.dynSeen.filter (fun q => related ctx st.bases q p) }

def stripPrefix {α : Type} [DecidableEq α] : List α → List α → Option (List α)
  | [], l => some l
  | _ :: _, [] => none
  | a :: as, b :: bs => if a = b then stripPrefix as bs else none

/-- the address of a restored ItemSpace input below its static space -/
def dynAddr (model : Name) (owner : Path) (rel : List Elem) : Option (List Elem) :=
  match relToAbsTuple rel (idt model owner) with
  | .ok abs => stripPrefix (idt model owner) abs
  | .error _ => none

def decodedIds : Decoded → List Id
  | .pickle id => [id]
  | .iospec v _ => [v]
  | _ => []

/-- creating / changing reference `x` of `p` -/
def stepRef (ctx : Ctx) (st : RState) (p : Path) (x : Name) (v : Decoded) (mode : Mode) : Except Err RState :=
  if !(decodedIds v).all ctx.pickle.contains then .error .noPickleId
  else
    let tgt : Option (Option Path) := match v with
      | .interface rel => some (resolveRel ctx.model p rel)
      | _ => none
    match tgt with
    | some none => .error .noTarget
    | some (some t) =>
      if !targetExists ctx st.bases t then .error .noTarget
      else if p = [] then .ok { dropFor ctx st p with done := st.done ++ [(p, x)] }
      else if refConflict ctx st.bases st.done p x then .error .refConflict
      else if mode = .relative && relConflict ctx st.bases st.done p x t then .error .relRefConflict
      else .ok { dropFor ctx st p with done := st.done ++ [(p, x)] }
    | none =>
      if p = [] then .ok { dropFor ctx st p with done := st.done ++ [(p, x)] }
      else if refConflict ctx st.bases st.done p x then .error .refConflict
      else .ok { dropFor ctx st p with done := st.done ++ [(p, x)] }

/-- `mx.get_object(base)` for every base of an `add_bases` instruction -/
def resolveBases (ctx : Ctx) (bs : List Text) : Except Err (List Path) :=
  mapE (fun b => match resolveBase ctx.model b with
    | some q => if ctx.spaces.contains q then .ok q else .error .noBase
    | none => .error .noBase) bs

/-- `space.add_bases(*bases)`: every space must have a linearisation in the graph as it is now -/
def stepBases (ctx : Ctx) (st : RState) (p : Path) (bs : List Text) : Except Err RState :=
  match resolveBases ctx bs with
  | .error e => .error e
  | .ok qs =>
    if allMro ctx (st.bases ++ [(p, qs)]) then .ok (dropFor ctx { st with bases := st.bases ++ [(p, qs)] } p)
    else .error .basesOrder

/-- executing one instruction of the object at `p` -/
def step (ctx : Ctx) (st : RState) (i : Path × Op) : Except Err RState :=
  match i.2 with
  | .setDoc _ => .ok st
  | .setAllowNone _ => .ok st
  | .cellsDoc _ _ => .ok st
  | .cellsAllowNone _ _ => .ok st
  | .cellsCached _ _ => .ok st
  | .setFormula _ => .ok (dropFor ctx st i.1)
  | .newCells _ _ => .ok (dropFor ctx st i.1)
  | .addBases bs => stepBases ctx st i.1 bs
  | .loadPickle _ es =>
    if es.all (fun e => ctx.pickle.contains e.1 && ctx.pickle.contains e.2) then .ok st else .error .noPickleId
  | .setAttr x v => stepRef ctx st i.1 x v .auto
  | .setRef x v m =>
    match Mode.parse m with
    | none => .error .badMode
    | some mode => stepRef ctx st i.1 x v mode
  | .dynInput rel k v =>
    if !(ctx.pickle.contains k && ctx.pickle.contains v && (rel.flatMap elemIds).all ctx.pickle.contains)
    then .error .noPickleId
    else match dynAddr ctx.model i.1 rel with
      | none => .error .badAddress
      | some _ => .ok { st with dynSeen := st.dynSeen ++ [i.1] }

def runE {σ α : Type} (f : σ → α → Except Err σ) : σ → List α → Except Err σ
  | s, [] => .ok s
  | s, a :: as =>
    match f s a with
    | .error e => .error e
    | .ok s' => runE f s' as

/-! ## the result -/

def emptyInfo (n : Name) : SpaceInfo := ⟨n, none, none, none, [], [], [], [], []⟩

def modifyCell (n : Name) (f : CellsD → CellsD) : List CellsD → List CellsD
  | [] => []
  | c :: cs => if c.name = n then f c :: cs else c :: modifyCell n f cs

/-- `decoder.restore()` -/
def restoreVal (model : Name) (owner : Path) : Decoded → RefVal
  | .literal t => .literal t
  | .pickle id => .pickled id
  | .interface rel => .interface ((resolveRel model owner rel).getD [])
  | .module n => .module n
  | .iospec v s => .iospec v s

/-- what instruction `o` does to the space at `path` -/
def applyOp (model : Name) (path : Path) (a : SpaceInfo) : Op → SpaceInfo
  | .setDoc d => { a with doc := some d }
  | .setFormula f => { a with formula := f }
  | .setAllowNone v => { a with allowNone := v }
  | .newCells n f => { a with cells := a.cells ++ [⟨n, f, none, true, none, []⟩] }
  | .cellsDoc c d => { a with cells := modifyCell c (fun x => { x with doc := some d }) a.cells }
  | .cellsAllowNone c v => { a with cells := modifyCell c (fun x => { x with allowNone := v }) a.cells }
  | .cellsCached c b => { a with cells := modifyCell c (fun x => { x with isCached := b }) a.cells }
  | .addBases bs => { a with bases := a.bases ++ bs.filterMap (resolveBase model) }
  | .loadPickle c es => { a with cells := modifyCell c (fun x => { x with inputs := x.inputs ++ es }) a.cells }
  | .setAttr x v => { a with refs := a.refs ++ [⟨x, restoreVal model path v, .auto⟩] }
  | .setRef x v m => { a with refs := a.refs ++ [⟨x, restoreVal model path v, (Mode.parse m).getD .auto⟩] }
  | .dynInput rel k v => { a with dynInputs := a.dynInputs ++ [⟨(dynAddr model path rel).getD [], k, v⟩] }

mutual
def assembleNode (model : Name) (dropped : List Path) (parent : Path) : PNode → SpaceD
  | .mk n ops kids =>
    let info := (schedule Op.phase ops).foldl (applyOp model (parent ++ [n])) (emptyInfo n)
    .mk (if dropped.contains (parent ++ [n]) then { info with dynInputs := [] } else info)
      (assembleNodes model dropped (parent ++ [n]) kids)
def assembleNodes (model : Name) (dropped : List Path) (parent : Path) : List PNode → List SpaceD
  | [] => []
  | k :: ks => assembleNode model dropped parent k :: assembleNodes model dropped parent ks
end

structure ModelAcc where
  doc : Option Text
  allowNone : Bool
  refs : List (Name × RefVal)

def applyModelOp (model : Name) (a : ModelAcc) : Op → ModelAcc
  | .setDoc d => { a with doc := some d }
  | .setAllowNone v => { a with allowNone := v.getD false }
  | .setAttr x v => { a with refs := a.refs ++ [(x, restoreVal model [] v)] }
  | _ => a

/-- `ModelReader.read_model` -/
def read (d : Dir) : Except Err MDesc :=
  match parseModel d with
  | .error e => .error e
  | .ok pm =>
    if !phaseChecks then .error .phaseOrder
    else
      let all := pm.ops.map (fun o => (([] : Path), o)) ++ flatNodes [] pm.nodes
      let ctx : Ctx := ⟨pm.name, nodesPaths [] pm.nodes, nodesCells [] pm.nodes, pm.pickle⟩
      match runE (step ctx) RState.init (schedule (fun i => i.2.phase) all) with
      | .error e => .error e
      | .ok st =>
        let acc := (schedule Op.phase pm.ops).foldl (applyModelOp pm.name) ⟨none, false, []⟩
        .ok ⟨pm.name, acc.doc, acc.allowNone, acc.refs, assembleNodes pm.name st.dropped [] pm.nodes⟩

end MxModel.Serial
