/-!
# Relative references: `SpaceGraph.get_relative` and the decision logic around it

Mirrors, function by function (modelx/core/model.py, reference.py, space.py):

* the dotted-name helpers `len_node`, `trim_left`, `trim_right`, `_get_shared_part`
  (`get_shared_asc` / `get_shared_desc`), `has_parent`;
* `SpaceGraph.get_relative(subspace, basespace, basevalue)`;
* `SharedSpaceOperations.get_relative_interface`;
* `ReferenceImpl.__init__` (the default of `is_relative`), `ReferenceImpl.on_inherit`;
* the per-sub-space step and the loop of `SpaceManager.new_ref` / `change_ref`, `_check_subs_relrefs`;
* `DynBaseRefDict.wrap_impl` (references of dynamic spaces: ItemSpace trees).

A dotted name (`idstr`) is a `Path = List String`, the list `idstr.split(".")`, except that
the empty string is the empty list (Python: `"".split(".") == [""]`, mirrored by `splitP`
/ `joinP`; since 6d7db1b `get_relative` leaves a root to each name, so for names of spaces the
empty string is no longer reached, the helpers stay literal).  Names are
assumed to contain no dot (they are Python identifiers).  The linearisation is a parameter
`mroOf : Path → List Path` (`SpaceGraph.get_mro`, `MxModel.C3.mro` in the driver).
-/
namespace MxModel.Relative

abbrev Path := List String

/-! ## dotted-name helpers -/

/-- `node.split(".")` -/
def splitP (p : Path) : List String := if p = [] then [""] else p

/-- `".".join(parts)` (as the canonical path of the resulting string) -/
def joinP (l : List String) : Path := if l = [""] then [] else l

/-- `len_node(node)` -/
def lenNode (p : Path) : Nat := (splitP p).length

/-- `trim_left(node, n)`: `".".join(node.split(".")[n:])` -/
def trimLeft (p : Path) (n : Nat) : Path := joinP ((splitP p).drop n)

/-- `trim_right(node, n)`: `node` if `n == 0` else `".".join(node.split(".")[:-n])` -/
def trimRight (p : Path) (n : Nat) : Path :=
  if n = 0 then p else joinP ((splitP p).take ((splitP p).length - n))

/-- `a_node[:length]` / `a_node[-length:]` (for `1 ≤ length ≤ len`) -/
def part (fromLeft : Bool) (l : List String) (n : Nat) : List String :=
  if fromLeft then l.take n else l.drop (l.length - n)

/-- the `while length:` loop of `_get_shared_part` (Python re-slices the already sliced
lists; a prefix of a prefix / suffix of a suffix of decreasing length is the same slice) -/
def sharedLoop (fromLeft : Bool) (a b : List String) : Nat → Option (List String)
  | 0 => none
  | n + 1 =>
    if part fromLeft a (n + 1) = part fromLeft b (n + 1) then some (part fromLeft a (n + 1))
    else sharedLoop fromLeft a b n

/-- `_get_shared_part(a_node, b_node, from_left)`; `none` = the implicit `None` -/
def sharedPart (fromLeft : Bool) (a b : Path) : Option Path :=
  (sharedLoop fromLeft (splitP a) (splitP b) (min (splitP a).length (splitP b).length)).map joinP

/-- `get_shared_asc` -/
def sharedAsc (a b : Path) : Option Path := sharedPart true a b
/-- `get_shared_desc` -/
def sharedDesc (a b : Path) : Option Path := sharedPart false a b

/-- `has_parent(node, parent)` -/
def hasParent (node parent : Path) : Bool :=
  if lenNode node ≤ lenNode parent then false
  else trimRight node (lenNode node - lenNode parent) == parent

/-! ## `SpaceGraph.get_relative` -/

inductive RelResult
  /-- `return None`: no relative counterpart -/
  | none
  /-- the dotted name of the counterpart in the sub space's tree -/
  | some (p : Path)
  /-- `raise RuntimeError("must not happen")` -/
  | mustNotHappen
  deriving DecidableEq, Repr

/-- `".".join(root.split(".") + [n])` -/
def extP (root : Path) (n : String) : Path := joinP (splitP root ++ [n])

/-- the `while True:` loop: lengthen both roots by the next shared component until
`basroot in self.get_mro(subroot)`; `none` = `raise RuntimeError("must not happen")` -/
def relLoop (mroOf : Path → List Path) : Path → Path → List String → Option (Path × Path)
  | sr, br, [] => if (mroOf sr).contains br then some (sr, br) else none
  | sr, br, n :: rest =>
    if (mroOf sr).contains br then some (sr, br) else relLoop mroOf (extP sr n) (extP br n) rest

/-- the part after the loop: `if basroot == shared_parent or has_parent(shared_parent, basroot)` -/
def relFinish (sharedParent value : Path) (roots : Path × Path) : RelResult :=
  if roots.2 == sharedParent || hasParent sharedParent roots.2 then
    (if trimLeft value (lenNode roots.2) = [] then .some roots.1
     else .some (joinP (splitP roots.1 ++ trimLeft value (lenNode roots.2))))   -- subroot + "." + relative_part
  else .none

/-- `shared_desc.split(".")` if `shared_desc` else `[]`, cut so that a root is left to each of
the two names (one may be a trailing part of the other, `A.B` and `B`):
`excess = len(shared_desc) - (min(len_node(subspace), len_node(basespace)) - 1)`,
`shared_desc = shared_desc[excess:]` if `excess > 0` -/
def descList (sub base : Path) : List String :=
  match sharedDesc sub base with
  | Option.none => []
  | Option.some d =>
    if d = [] then []
    else (splitP d).drop ((splitP d).length - (min (lenNode sub) (lenNode base) - 1))

/-- `SpaceGraph.get_relative(subspace, basespace, basevalue)` -/
def getRelative (mroOf : Path → List Path) (sub base value : Path) : RelResult :=
  match sharedAsc base value with
  | Option.none => .none
  | Option.some sp =>
    if sp = [] then .none
    else
      match relLoop mroOf (trimRight sub (descList sub base).length)
              (trimRight base (descList sub base).length) (descList sub base) with
      | Option.none => .mustNotHappen
      | Option.some roots => relFinish sp value roots

/-! ## what a reference is bound to -/

inductive Mode | auto | relative | absolute
  deriving DecidableEq, Repr

/-- the `interface` of a `ReferenceImpl` -/
inductive Target
  /-- a valid modelx object (space or cells) with this dotted name -/
  | obj (p : Path)
  /-- `interface_cls(null_impl)`: an interface to nothing (`_is_valid()` is false) -/
  | null
  /-- anything that is not a modelx object -/
  | plain (v : Int)
  deriving DecidableEq, Repr

structure Binding where
  target : Target
  isRelative : Bool
  deriving DecidableEq, Repr

inductive Outcome
  | bound (b : Binding)
  /-- `ValueError("Relative reference … out of scope")` / `"Cannot create relative reference"` -/
  | reject
  /-- `RuntimeError("must not happen")` out of `get_relative` -/
  | mustNotHappen
  deriving DecidableEq, Repr

/-- `ReferenceImpl.__init__`: `is_relative = False` iff `refmode == "absolute"` -/
def ctorFlag (m : Mode) : Bool := m != .absolute

/-- `ReferenceImpl.has_interface` of the base reference -/
def hasInterface : Target → Bool
  | .obj _ => true
  | _ => false

/-- `SharedSpaceOperations.get_relative_interface(parent, base)`: `exists p` says whether
`model.get_impl_from_name(p)` finds an object; children are not inherited, so the
counterpart of a descendant may be missing and the reference is then bound to a null object -/
def getRelativeInterface (mroOf : Path → List Path) (exist : Path → Bool)
    (parent defSpace value : Path) : Option (Bool × Target) :=
  match getRelative mroOf parent defSpace value with
  | .mustNotHappen => Option.none
  | .none => Option.some (false, .obj value)
  | .some p => if p = [] then Option.some (false, .obj value)     -- `if subimpl:` – the empty name
               else if exist p then Option.some (true, .obj p) else Option.some (true, .null)

/-- `ReferenceImpl.on_inherit(updater, bases)` for the derived reference of space `self`
whose first defined base reference lives in `defSpace`, has mode `defMode` and holds `baseVal`;
the stored mode is refreshed first (`self.refmode = bases[0].refmode`), so the mode the
reference had before plays no role; `old` is its binding before the call (the flag survives
when the base holds no modelx object) -/
def onInherit (mroOf : Path → List Path) (exist : Path → Bool) (defMode : Mode)
    (self defSpace : Path) (baseVal : Target) (old : Binding) : Outcome :=
  match baseVal with
  | .obj v =>
    match defMode with
    | .absolute => .bound ⟨.obj v, false⟩
    | .auto =>
      match getRelativeInterface mroOf exist self defSpace v with
      | Option.none => .mustNotHappen
      | Option.some (rel, t) => .bound ⟨t, rel⟩
    | .relative =>
      match getRelativeInterface mroOf exist self defSpace v with
      | Option.none => .mustNotHappen
      | Option.some (rel, t) => if rel then .bound ⟨t, rel⟩ else .reject
  | t => .bound ⟨t, old.isRelative⟩

/-- a derived reference as `UserSpaceImpl.on_inherit` keeps it -/
structure DRef where
  mode : Mode
  binding : Binding
  deriving DecidableEq, Repr

/-- `UserSpaceImpl.on_inherit`, `name not in selfdict`: `ReferenceImpl(self, name, None,
is_derived=True, refmode=bs[0].refmode)` -/
def createDerived (definerMode : Mode) : DRef := ⟨definerMode, ⟨.plain 0, ctorFlag definerMode⟩⟩

/-- `selfdict[name].on_inherit(updater, bs)` for an existing (or just created) derived reference
`r`: mode and binding are those of the (possibly new) first defined base -/
def reinherit (mroOf : Path → List Path) (exist : Path → Bool) (r : DRef) (defMode : Mode)
    (self defSpace : Path) (baseVal : Target) : Option DRef :=
  match onInherit mroOf exist defMode self defSpace baseVal r.binding with
  | .bound b => Option.some ⟨defMode, b⟩
  | _ => Option.none

/-- `_check_subs_relrefs` for one sub space that does not define the name: `true` = raises -/
def checkSubRelref (mroOf : Path → List Path) (mode : Mode) (sub space : Path) (value : Target) :
    Bool :=
  match value, mode with
  | .obj v, .relative =>
    (match getRelative mroOf sub space v with
     | .some p => p == []
     | .none => true
     | .mustNotHappen => true)
  | _, _ => false

/-- one iteration of the loop over sub spaces in `SpaceManager.new_ref` (the sub space does
not define the name): the derived reference created in `sub` -/
def newRefSub (mroOf : Path → List Path) (exist : Path → Bool) (mode : Mode)
    (sub space : Path) (value : Target) : Option DRef :=
  match value with
  | .obj v =>
    match mode with
    | .absolute => Option.some ⟨mode, ⟨.obj v, false⟩⟩
    | _ =>
      match getRelativeInterface mroOf exist sub space v with
      | Option.none => Option.none
      | Option.some (rel, t) => Option.some ⟨mode, ⟨t, rel⟩⟩
  | t => Option.some ⟨mode, ⟨t, false⟩⟩

/-- one iteration of the loop in `SpaceManager.change_ref`: the old derived reference is replaced
(`on_change_ref`) and the computed flag is stored in the new one
(`subspace.own_refs[name].is_relative = is_relative`) – the same as `new_ref` -/
def changeRefSub (mroOf : Path → List Path) (exist : Path → Bool) (mode : Mode)
    (sub space : Path) (value : Target) : Option DRef :=
  newRefSub mroOf exist mode sub space value

/-- the whole `for subspace in self._get_subs(space):` loop of `new_ref` (`change = false`) or
`change_ref` (`change = true`) over the sub spaces it does not skip, in its order: every sub
space gets its own `subvalue`, computed from the value assigned to the space -/
def refLoop (mroOf : Path → List Path) (exist : Path → Bool) (change : Bool) (mode : Mode)
    (space : Path) (value : Target) (subs : List Path) : List (Option DRef) :=
  subs.map (fun sub =>
    if change then changeRefSub mroOf exist mode sub space value
    else newRefSub mroOf exist mode sub space value)

/-- the whole of `new_ref` / `change_ref` for the sub spaces that take the value (`subs`: those that
neither define the name nor derive it from a base preceding the space - what `_check_subs_relrefs`
looks at since the repair 004f472, for both operations): refused (`none`) before anything is changed
when the check raises for one of them, otherwise every one of them gets its derived reference -/
def setRefGuarded (mroOf : Path → List Path) (exist : Path → Bool) (change : Bool) (mode : Mode)
    (space : Path) (value : Target) (subs : List Path) : Option (List (Option DRef)) :=
  if subs.any (fun sub => checkSubRelref mroOf mode sub space value) then Option.none
  else Option.some (refLoop mroOf exist change mode space value subs)

/-! ## dynamic spaces: `DynBaseRefDict.wrap_impl` -/

/-- the test `impl.startswith(root + ".")` and the name list `impl[rootlen+1:].split(".")`, on
paths (names contain no dot): `root` is a proper prefix of `impl` by components, and the rest
is what follows it -/
def wrapLookup : Path → Path → Option Path
  | [], rest => if rest = [] then none else some rest
  | _ :: _, [] => none
  | r :: rs, i :: rest => if r = i then wrapLookup rs rest else none

/-- a reference of a base space as `wrap_impl` sees it -/
structure BaseRef where
  mode : Mode
  isRelative : Bool
  defined : Bool
  target : Target
  deriving DecidableEq, Repr

inductive WrapResult
  /-- bound to the object of the dynamic tree with this name relative to the ItemSpace
  (`[]` = the ItemSpace itself, `self.owner.rootspace`) -/
  | dyn (rel : Path)
  /-- `get_impl_from_name` returned `None`: the dynamic space cannot be built
  (`AttributeError: 'NoneType' object has no attribute 'interface'`) -/
  | missing
  /-- the base's reference itself: keeps denoting the original object -/
  | keep
  /-- `ValueError("… is out of …")` -/
  | reject
  | mustNotHappen
  deriving DecidableEq, Repr

/-- `DynBaseRefDict.wrap_impl(parent, name, value)` in a dynamic space of the tree of an
ItemSpace whose base (`rootspace._dynbase`) is `root`; `owner` is the dynamic space that
owns the dictionary (it plays no role: the result is relative to the ItemSpace);
`existsRel` = `rootspace.get_impl_from_name` finds something -/
def wrapImpl (existsRel : Path → Bool) (root : Path) (_owner : Path) (r : BaseRef) : WrapResult :=
  match r.target with
  | .obj impl =>
    if r.isRelative then
      if root = impl then .dyn []
      else
        match wrapLookup root impl with
        | some rel => if existsRel rel then .dyn rel else .missing
        | none =>
          match r.mode with
          | .auto => .keep
          | .relative => .reject
          | .absolute => .mustNotHappen
    else .keep
  | _ => .keep

end MxModel.Relative
