import MxModel.Generated.Tables
/-!
# Capture: how modelx turns a definition text into `Formula.source`

Mirrors `modelx/core/formula.py`: `Formula._init_from_source`, `_init_from_funcdef`,
`_init_from_lambda`, `remove_decorator`, `replace_funcname`, `quote_docstring` (with its table
`_DOCSTR_ESCAPES`), `replace_docstring`,
`extract_lambda_from_source`, `extract_lambda_from_func` (together with `textwrap.dedent` /
`textwrap.indent`, which they call), and the formula-related parts of
`modelx/core/cells.py`: `UserCellsImpl.set_doc`, `UserCellsImpl.on_rename` (with the loop of
`ModelImpl.rename_cells` over the sub spaces) and `UserCellsImpl.on_set_property`.

A source text is a list of lines (`Text`; every line is followed by a newline, which is what
`"\n".join(lines) + "\n"` in `remove_decorator`/`replace_funcname` produces).  A line is a
`List Char` (proofs about `String` are not practical; the driver converts).

modelx does not scan the text itself: it asks CPython's parser and `asttokens` for token
positions and then slices lines and strings at those positions.  The model has the same
split: the slicing functions below take a `Layout` (the positions the parser reports) and
are what modelx's own code does; `layoutOf` states which positions the parser reports for a
text that was rendered from a structure of the grammar (`FuncDef`, `LamStmt`).  That
`layoutOf` agrees with CPython/asttokens is not proved – it is compared on every generated
case by the correspondence check.  `lexTriple`/`readBack` state how CPython reads a
triple-quoted literal (the escape sequences `quote_docstring` writes, and a few more); that
too is compared on every generated text (`ast.literal_eval` of the quoted text).

State of /repo described: 35c2f08 (`replace_docstring` replaces the whole docstring
expression and separates the literal from a one-line body by `"; "`), 2b72506
(`quote_docstring`), 067a1c5 (`remove_decorator` / `replace_funcname` cut the source with
`_source_lines`, i.e. at `\r\n`, `\r`, `\n` only – the lines of the grammar hold none of the other
characters at which `str.splitlines` splits, so the two cuts coincide on every text of the model) and
9feb00a (the end of the docstring / lambda is taken from the token's start and text, not from
`last_token.endpos`; the model never used the misreported column).
-/
namespace MxModel.Capture

abbrev Line := List Char
abbrev Text := List Line

/-- the two characters `textwrap` treats as indentation (`[ \t]`) -/
def isWs (c : Char) : Bool := c == ' ' || c == '\t'

/-- empty or whitespace-only (`_whitespace_only_re`, and the negation of
`_leading_whitespace_re` finding a non-blank character) -/
def blank (l : Line) : Bool := l.all isWs

def normBlank (l : Line) : Line := if blank l then [] else l

/-- put `p` in front of a line unless it is blank (`textwrap.indent` with the default
predicate; also how an indented definition looks: blank lines carry whatever they carry) -/
def indentLine (p l : Line) : Line := if blank l then l else p ++ l

def indAll (p : Line) (t : Text) : Text := t.map (indentLine p)

def startsNonWs : Line → Bool
  | [] => false
  | c :: _ => !isWs c

/-! ## `textwrap.dedent` -/

def leadWs : Line → Line
  | [] => []
  | c :: cs => if isWs c then c :: leadWs cs else []

/-- longest common prefix.  The three branches of the loop in `textwrap.dedent`
(`indent.startswith(margin)`, `margin.startswith(indent)`, first differing position) all
compute this. -/
def lcp : Line → Line → Line
  | a :: as, b :: bs => if a = b then a :: lcp as bs else []
  | _, _ => []

/-- the `for indent in indents` loop: only lines with a non-blank character take part -/
def margin : Option Line → Text → Option Line
  | m, [] => m
  | m, l :: ls =>
    if blank l then margin m ls
    else margin (some (match m with | none => leadWs l | some x => lcp x (leadWs l))) ls

/-- `re.sub(r'(?m)^' + margin, '', text)` on one line -/
def stripPrefix (m l : Line) : Line := if m.isPrefixOf l then l.drop m.length else l

/-- `textwrap.dedent(text)`: whitespace-only lines become empty, then the common leading
whitespace of the other lines is removed. -/
def dedent (t : Text) : Text :=
  let t1 := t.map normBlank
  match margin none t1 with
  | none => t1
  | some m => t1.map (stripPrefix m)

/-! ## The grammar of definitions -/

/-- text that may span lines: one line, or a first line, whole middle lines and a last line -/
structure Span where
  first : Line
  more : Option (Text × Line) := none
deriving DecidableEq, Repr

/-- a docstring literal: opening quotes (with prefix), the characters between the quotes,
closing quotes.  For the literals of the grammar (no escape sequences) the value of the
literal is its content. -/
structure DocLit where
  opn : Line
  txt : Span
  cls : Line
deriving DecidableEq, Repr

inductive Body
  /-- `def f(x): "doc"; return x` – the body follows the colon on the `def` line
  (`sig` ends with the colon and the blanks after it) -/
  | inline (doc : Option DocLit) (stmts : Line)
  /-- further lines of the signature, comment/blank lines before the first statement, the
  indentation of the body, the docstring (if the first statement is one), the rest of the
  docstring's last line – or the whole first statement line if there is no docstring –
  and the remaining lines of the body (opaque: nested defs and classes with their own
  decorators live here) -/
  | block (sigMore cmts : Text) (ind : Line) (doc : Option DocLit) (after : Line) (rest : Text)
deriving DecidableEq, Repr

/-- A function definition as modelx may be given it.  All lines are relative to the
indentation `pre` of the definition. -/
structure FuncDef where
  pre : Line := []
  /-- comment/blank lines before the first decorator -/
  lead : Text := []
  /-- the lines from the first decorator to the line on which the last decorator ends -/
  decos : Text := []
  /-- comment/blank lines between the last decorator and `def` -/
  gap : Text := []
  /-- `def` and the blanks after it -/
  defkw : Line
  name : Line
  /-- the rest of the `def` line after the name -/
  sig : Line
  body : Body
  /-- lines after the body (comments, blank lines) -/
  trail : Text := []
  /-- the parameter names the parser reports for `sig` (not rendered, never rewritten) -/
  pnames : List Line := []
deriving DecidableEq, Repr

/-- the literal from its first character on: the rest of the current line and the lines that
follow; `sfx` is what follows the closing quotes on the same line -/
def docTail (p : Line) (d : DocLit) (sfx : Line) : Line × Text :=
  match d.txt.more with
  | none => (d.opn ++ d.txt.first ++ d.cls ++ sfx, [])
  | some (mid, last) => (d.opn ++ d.txt.first, indAll p mid ++ [p ++ last ++ d.cls ++ sfx])

/-- what the body adds to the `def` line, and the lines after it -/
def bodyParts (p : Line) : Body → Line × Text
  | .inline none stmts => (stmts, [])
  | .inline (some d) stmts => docTail p d stmts
  | .block sm cmts ind none first rest =>
    ([], indAll p sm ++ indAll p cmts ++ [p ++ ind ++ first] ++ indAll p rest)
  | .block sm cmts ind (some d) after rest =>
    ([], indAll p sm ++ indAll p cmts
      ++ ((p ++ ind ++ (docTail p d after).1) :: (docTail p d after).2) ++ indAll p rest)

def defLine (f : FuncDef) : Line :=
  f.pre ++ f.defkw ++ f.name ++ f.sig ++ (bodyParts f.pre f.body).1

def render (f : FuncDef) : Text :=
  indAll f.pre f.lead ++ indAll f.pre f.decos ++ indAll f.pre f.gap
    ++ (defLine f :: (bodyParts f.pre f.body).2) ++ indAll f.pre f.trail

def DocLit.wf (d : DocLit) : Bool := startsNonWs d.opn && startsNonWs d.cls

def Body.wf : Body → Bool
  | .inline none _ => true
  | .inline (some d) _ => d.wf
  | .block _ _ _ none first _ => !blank first
  | .block _ _ _ (some d) _ _ => d.wf

/-- The only constraints the theorems need: the indentation is indentation, `def` starts at
the indentation, quotes are not blanks, a first statement is not blank. -/
def FuncDef.wf (f : FuncDef) : Bool :=
  f.pre.all isWs && startsNonWs f.defkw && f.body.wf

/-! ## What the parser reports -/

structure DocPos where
  /-- the token before the first statement is an INDENT (`prev_token.type == token.INDENT`) -/
  compound : Bool
  /-- `prev_token.string` -/
  indent : Line
  /-- `isinstance(first_stmt, ast.Expr) and isinstance(first_stmt.value, ast.Str)` -/
  hasDoc : Bool
  /-- compound: start of the INDENT token; otherwise start of the first statement's first
  token (1-based line, 0-based column) -/
  sLine : Nat
  sCol : Nat
  /-- end of the first statement's LAST token (only used when `hasDoc`) -/
  eLine : Nat
  eCol : Nat
deriving DecidableEq, Repr

structure Layout where
  /-- line of the token before the first decorator (`@`) and line of the token after the
  last decorator (its NEWLINE); `none` if the outermost def has no decorator -/
  decos : Option (Nat × Nat)
  /-- position of the token after `def` -/
  nameLine : Nat
  nameBeg : Nat
  nameEnd : Nat
  doc : DocPos
  params : List Line
deriving DecidableEq, Repr

def spanEnd (startLine startCol : Nat) (p : Line) (d : DocLit) : Nat × Nat :=
  match d.txt.more with
  | none => (startLine, startCol + d.opn.length + d.txt.first.length + d.cls.length)
  | some (mid, last) => (startLine + mid.length + 1, p.length + last.length + d.cls.length)

def docPosOf (f : FuncDef) (defLn : Nat) : DocPos :=
  let hdr := f.pre.length + f.defkw.length + f.name.length + f.sig.length
  match f.body with
  | .inline none _ =>
    { compound := false, indent := [], hasDoc := false, sLine := defLn, sCol := hdr,
      eLine := defLn, eCol := hdr }
  | .inline (some d) _ =>
    { compound := false, indent := [], hasDoc := true, sLine := defLn, sCol := hdr,
      eLine := (spanEnd defLn hdr f.pre d).1, eCol := (spanEnd defLn hdr f.pre d).2 }
  | .block sm cmts ind none _ _ =>
    let l := defLn + sm.length + cmts.length + 1
    { compound := true, indent := f.pre ++ ind, hasDoc := false, sLine := l, sCol := 0,
      eLine := l, eCol := 0 }
  | .block sm cmts ind (some d) _ _ =>
    let l := defLn + sm.length + cmts.length + 1
    { compound := true, indent := f.pre ++ ind, hasDoc := true, sLine := l, sCol := 0,
      eLine := (spanEnd l (f.pre.length + ind.length) f.pre d).1,
      eCol := (spanEnd l (f.pre.length + ind.length) f.pre d).2 }

/-- the positions CPython/asttokens report for `render f` -/
def layoutOf (f : FuncDef) : Layout :=
  let n0 := f.lead.length
  let defLn := n0 + f.decos.length + f.gap.length + 1
  { decos := if f.decos.isEmpty then none else some (n0 + 1, n0 + f.decos.length),
    nameLine := defLn,
    nameBeg := f.pre.length + f.defkw.length,
    nameEnd := f.pre.length + f.defkw.length + f.name.length,
    doc := docPosOf f defLn,
    params := f.pnames }

/-! ## modelx's rewriting functions (`formula.py`) -/

/-- `remove_decorator`: `lines[:line_first - 1] + lines[line_last:]` for the decorators of
the OUTERMOST function definition (the first `FunctionDef` that `ast.walk` yields), nothing
if it has none. -/
def removeDecorator (lay : Layout) (t : Text) : Text :=
  match lay.decos with
  | none => t
  | some (lf, ll) => t.take (lf - 1) ++ t.drop ll

def modifyAt (t : Text) (i : Nat) (g : Line → Line) : Text :=
  match t, i with
  | [], _ => []
  | l :: ls, 0 => g l :: ls
  | l :: ls, i + 1 => l :: modifyAt ls i g

/-- `replace_funcname`: `lines[lineno-1][:col_begin] + name + lines[lineno-1][col_end:]`
at the token after `def`. -/
def replaceFuncname (lay : Layout) (t : Text) (n : Line) : Text :=
  modifyAt t (lay.nameLine - 1) (fun l => l.take lay.nameBeg ++ n ++ l.drop lay.nameEnd)

def q3 : Line := ['"', '"', '"']

/-! ### `quote_docstring` -/

/-- `_DOCSTR_ESCAPES` as it stands in `modelx/core/formula.py` now (read by the table translator
on every run, `Generated/Tables.lean`; compared with the table the proofs were made for by
`Proofs/Capture.lean: docEscapes_eq`): the backslash, NUL, and every character other than the
line feed at which `str.splitlines()` or the tokenizer (`\r`) would start a new line -/
def docEscapes : List (Char × List Char) :=
  MxModel.Generated.docstrEscapes.map (fun p => (Char.ofNat p.1, p.2.map Char.ofNat))

/-- `_DOCSTR_ESCAPES.get(c, c)` -/
def escapeChar (c : Char) : List Char :=
  match docEscapes.lookup c with
  | some e => e
  | none => [c]

/-- the loop of `quote_docstring`: `quotes` is the length of the current run of unescaped
double quotes, the argument list is `docstr[i:]` (so `i == last` is "nothing follows").  A
quote is escaped when it would be the third of a run or is the last character. -/
def quoteChars : Nat → List Char → List Char
  | _, [] => []
  | quotes, c :: cs =>
    if c = '"' then
      if quotes + 1 = 3 ∨ cs = [] then '\\' :: '"' :: quoteChars 0 cs
      else '"' :: quoteChars (quotes + 1) cs
    else escapeChar c ++ quoteChars 0 cs

/-- `quote_docstring(docstr)`: a triple-quoted literal whose value is `docstr` -/
def quoteDocstring (doc : List Char) : List Char := q3 ++ quoteChars 0 doc ++ q3

/-- cut at every line feed, keeping the last piece (`str.splitlines()` for a text that does
not end in a line boundary and has no other line boundary than the line feed – which is what
`quote_docstring` returns; also `str.split("\n")`) -/
def splitLines : List Char → Text
  | [] => [[]]
  | c :: cs =>
    if c = '\n' then [] :: splitLines cs
    else match splitLines cs with
      | [] => [[c]]
      | l :: ls => (c :: l) :: ls

/-- the characters `str.isspace()` accepts (`textwrap.indent` leaves a line alone if
`line.strip()` is empty) -/
def pySpaces : List Nat :=
  [9, 10, 11, 12, 13, 28, 29, 30, 31, 32, 133, 160, 5760, 8192, 8193, 8194, 8195, 8196, 8197,
   8198, 8199, 8200, 8201, 8202, 8232, 8233, 8239, 8287, 12288]

/-- `textwrap.indent(l, p)` for one line -/
def pyIndentLine (p l : Line) : Line :=
  if l.all (fun c => pySpaces.contains c.toNat) then l else p ++ l

/-- a text as its first line and the lines after it -/
def docLines (quoted : List Char) : Line × Text :=
  match splitLines quoted with
  | [] => ([], [])
  | l :: ls => (l, ls)

/-- `lines = docstr.splitlines()`, the `indent` loop of `replace_docstring` and
`"\n".join(lines)`: the first line always gets the body's indentation, the others only with
`insert_indents` (and, `textwrap.indent` being what it is, only if they are not blank) -/
def newDoc (ind : Line) (quoted : List Char) (ii : Bool) : Line × Text :=
  (pyIndentLine ind (docLines quoted).1,
   (docLines quoted).2.map (fun l => if ii then pyIndentLine ind l else l))

def appendLast (t : Text) (b : Line) : Text :=
  match t with
  | [] => [b]
  | [l] => [l ++ b]
  | l :: ls => l :: appendLast ls b

/-- `source[:s] + new + source[e:]` in terms of lines: `a` is the part of the start line
before `s`, `b` the part of the end line after `e` -/
def joinLines (a : Line) (new : Line × Text) (b : Line) : Text :=
  match new.2 with
  | [] => [a ++ new.1 ++ b]
  | ns => (a ++ new.1) :: appendLast ns b

def splice (t : Text) (sl sc el ec : Nat) (new : Line × Text) : Text :=
  t.take (sl - 1)
    ++ joinLines ((t.getD (sl - 1) []).take sc) new ((t.getD (el - 1) []).drop ec)
    ++ t.drop el

/-- the text `"; "` that the repaired `replace_docstring` puts between the new literal and the
first statement of a one-line body -/
def semi : Line := [';', ' ']

/-- `replace_docstring(source, docstr, insert_indents)`.  `eLine`/`eCol` is the end of the
LAST token of the docstring statement: the whole expression is replaced. -/
def replaceDocstring (lay : Layout) (t : Text) (doc : List Char) (ii : Bool) : Text :=
  let p := lay.doc
  let quoted := quoteDocstring doc
  if p.compound then
    if p.hasDoc then
      -- source[:prev_token.startpos] + docstr + source[first_stmt.last_token.endpos:]
      splice t p.sLine 0 p.eLine p.eCol (newDoc p.indent quoted ii)
    else
      -- src_front + docstr + "\n" + source[prev_token.startpos:]
      splice t p.sLine 0 p.sLine 0 ((newDoc p.indent quoted ii).1, (newDoc p.indent quoted ii).2 ++ [[]])
  else
    -- single line: no indentation is inserted, whatever `insert_indents` says
    if p.hasDoc then splice t p.sLine p.sCol p.eLine p.eCol (docLines quoted)
    else
      -- source[:first_token.startpos] + docstr + "; " + source[first_token.startpos:]
      splice t p.sLine p.sCol p.sLine p.sCol
        ((docLines (quoted ++ semi)).1, (docLines (quoted ++ semi)).2)

/-- `Formula._init_from_funcdef(src, name)`; `parse` stands for
`asttokens.ASTTokens(source, parse=True)` plus the `ast.walk` searches (each rewriting
function parses the text it is given afresh). -/
def captureText (parse : Text → Layout) (t : Text) (name : Option Line) : Text :=
  let t1 := dedent t
  let t2 := removeDecorator (parse t1) t1
  match name with
  | none => t2
  | some n => replaceFuncname (parse t2) t2 n

/-- `UserCellsImpl.set_doc` for a `def` formula followed by `set_cells_formula` →
`on_set_property` → `Formula(funcdef, name=self.name)` -/
def setDocText (parse : Text → Layout) (t : Text) (doc : List Char) (ii : Bool) (name : Line) :
    Text :=
  captureText parse (replaceDocstring (parse t) t doc ii) (some name)

/-! ## The same on the structure (the specification) -/

def Span.norm (s : Span) : Span :=
  { s with more := s.more.map (fun m => (m.1.map normBlank, m.2)) }

def DocLit.norm (d : DocLit) : DocLit := { d with txt := d.txt.norm }

def Body.norm : Body → Body
  | .inline doc stmts => .inline (doc.map DocLit.norm) stmts
  | .block sm cmts ind doc after rest =>
    .block (sm.map normBlank) (cmts.map normBlank) ind (doc.map DocLit.norm) after
      (rest.map normBlank)

/-- `dedent`: the indentation goes, whitespace-only lines become empty – everywhere, also
inside string literals and the docstring -/
def dedentS (f : FuncDef) : FuncDef :=
  { f with pre := [], lead := f.lead.map normBlank, decos := f.decos.map normBlank,
           gap := f.gap.map normBlank, body := f.body.norm, trail := f.trail.map normBlank }

def undecorate (f : FuncDef) : FuncDef := { f with decos := [] }

def withName (f : FuncDef) : Option Line → FuncDef
  | none => f
  | some n => { f with name := n }

/-- what `Formula(text, name).source` is meant to be: the same definition with indentation
and decorators removed, under the given name -/
def captureS (f : FuncDef) (name : Option Line) : FuncDef :=
  withName (undecorate (dedentS f)) name

def mkDoc (d : Span) : DocLit := { opn := q3, txt := d, cls := q3 }

/-- lines as a span -/
def spanOf (t : Text) : Span :=
  match t with
  | [] => { first := [] }
  | [a] => { first := a }
  | a :: r => { first := a, more := some (r.dropLast, r.getLast?.getD []) }

/-- what stands between the triple quotes of the literal `quote_docstring` makes of a
documentation text, line by line -/
def docSpan (doc : List Char) : Span := spanOf (splitLines (quoteChars 0 doc))

/-- the docstring `replace_docstring` writes into a block body (`d`: the escaped text) -/
def blockDoc (ind : Line) (d : Span) (ii : Bool) : DocLit :=
  mkDoc { first := d.first,
          more := d.more.map (fun m =>
            (m.1.map (fun l => if ii then pyIndentLine ind l else l),
             (if ii then ind else []) ++ m.2)) }

def setDocBody (d : Span) (ii : Bool) : Body → Body
  | .inline (some _) stmts => .inline (some (mkDoc d)) stmts
  | .inline none stmts => .inline (some (mkDoc d)) (semi ++ stmts)
  | .block sm cmts ind (some _) after rest =>
    .block sm cmts ind (some (blockDoc ind d ii)) after rest
  | .block sm cmts ind none first rest =>
    .block sm cmts ind (some (blockDoc ind d ii)) [] ((ind ++ first) :: rest)

/-- `replace_docstring` on the structure: the docstring literal becomes the quoted text -/
def replaceDocS (f : FuncDef) (doc : List Char) (ii : Bool) : FuncDef :=
  { f with body := setDocBody (docSpan doc) ii f.body }

/-- `set_doc`: replace, then capture again under the cells' name -/
def setDocS (f : FuncDef) (doc : List Char) (ii : Bool) : FuncDef :=
  captureS (replaceDocS f doc ii) (some f.name)

/-! ## Reading a docstring back -/

def hexVal (c : Char) : Option Nat :=
  if '0' ≤ c ∧ c ≤ '9' then some (c.toNat - 48)
  else if 'a' ≤ c ∧ c ≤ 'f' then some (c.toNat - 87)
  else if 'A' ≤ c ∧ c ≤ 'F' then some (c.toNat - 55)
  else none

/-- the number a list of hexadecimal digits denotes -/
def hexNum : Nat → List Char → Option Nat
  | acc, [] => some acc
  | acc, c :: cs =>
    match hexVal c with
    | some v => hexNum (16 * acc + v) cs
    | none => none

def consVal (c : Char) (r : Option (List Char × List Char)) : Option (List Char × List Char) :=
  r.map (fun p => (c :: p.1, p.2))

/-- CPython's reading of the characters after an opening `"""` (no prefix): the VALUE of the
literal up to the first unescaped `"""`, and what follows it.  Escape sequences evaluated:
`\\`, `\"`, `\'`, `\n`, `\r`, `\t`, `\xHH`, `\uXXXX` and backslash-newline; on any other
backslash sequence the model gives up (`none`) – CPython keeps unknown ones such as `\q`
unchanged, octal and `\N{…}` are not modelled; `quote_docstring` writes none of them. -/
def lexTriple : List Char → Option (List Char × List Char)
  | [] => none
  | c :: cs =>
    if c = '\\' then
      match cs with
      | [] => none
      | e :: r =>
        if e = '\\' ∨ e = '"' ∨ e = '\'' then consVal e (lexTriple r)
        else if e = 'n' then consVal '\n' (lexTriple r)
        else if e = 'r' then consVal '\r' (lexTriple r)
        else if e = 't' then consVal '\t' (lexTriple r)
        else if e = '\n' then lexTriple r
        else if e = 'x' then
          match r with
          | a :: b :: r' =>
            match hexNum 0 [a, b] with
            | some n => consVal (Char.ofNat n) (lexTriple r')
            | none => none
          | _ => none
        else if e = 'u' then
          match r with
          | a :: b :: c' :: d :: r' =>
            match hexNum 0 [a, b, c', d] with
            | some n => consVal (Char.ofNat n) (lexTriple r')
            | none => none
          | _ => none
        else none
    else if q3.isPrefixOf (c :: cs) then some ([], cs.drop 2)
    else consVal c (lexTriple cs)

def Span.lines (s : Span) : Text :=
  match s.more with
  | none => [s.first]
  | some (mid, last) => s.first :: (mid ++ [last])

def flat : Text → List Char
  | [] => []
  | [l] => l
  | l :: ls => l ++ '\n' :: flat ls

/-- the value CPython reads from a source text that is one complete `"""…"""` literal -/
def readBack (lit : List Char) : Option (List Char) :=
  if q3.isPrefixOf lit then
    match lexTriple (lit.drop 3) with
    | some (v, []) => some v
    | _ => none
  else none

/-- a line that `textwrap.dedent` leaves as it is: not made of blanks only, or empty -/
def cleanLine (l : Line) : Bool := !blank l || l.isEmpty

/-- no whitespace-only line strictly inside the text.  `set_doc` captures the rebuilt source
again, `dedent` included, which empties such lines also inside the docstring (known finding
`C20-dedent-in-string`). -/
def NoWsOnlyMiddle (doc : List Char) : Bool := ((splitLines doc).drop 1).dropLast.all cleanLine

def Body.docLit : Body → Option DocLit
  | .inline doc _ => doc
  | .block _ _ _ doc _ _ => doc

/-- the value of a literal written by `replace_docstring` -/
def DocLit.value (l : DocLit) : Option (List Char) :=
  if l.opn = q3 ∧ l.cls = q3 then readBack (q3 ++ flat l.txt.lines ++ q3) else none

/-- a statement separator with the blanks around it, removed -/
def dropSep (l : Line) : Line :=
  match l.dropWhile isWs with
  | c :: r => if c = ';' then r.dropWhile isWs else c :: r
  | [] => []

/-- everything of a body except the docstring statement: the literal, the `;` that ends its
statement in a one-line body, and a line that holds nothing but the literal -/
def Body.undoc : Body → Text
  | .inline none stmts => [stmts.dropWhile isWs]
  | .inline (some _) stmts => [dropSep stmts]
  | .block sm cmts ind none first rest => sm ++ cmts ++ (ind ++ first) :: rest
  | .block sm cmts ind (some _) after rest =>
    if after.isEmpty then sm ++ cmts ++ rest else sm ++ cmts ++ (ind ++ after) :: rest

/-! ## Lambda expressions -/

/-- a statement that contains a lambda expression: lines before, the text before `lambda`
on its line, the lambda expression, the rest of its last line, lines after -/
structure LamStmt where
  pre : Line := []
  lead : Text := []
  pfx : Line := []
  lam : Span
  sfx : Line := []
  trail : Text := []
  pnames : List Line := []
deriving DecidableEq, Repr

def LamStmt.render (s : LamStmt) : Text :=
  indAll s.pre s.lead
    ++ (match s.lam.more with
        | none => [s.pre ++ s.pfx ++ s.lam.first ++ s.sfx]
        | some (mid, last) =>
          (s.pre ++ s.pfx ++ s.lam.first) :: (indAll s.pre mid ++ [s.pre ++ last ++ s.sfx]))
    ++ indAll s.pre s.trail

structure LamPos where
  sLine : Nat
  sCol : Nat
  eLine : Nat
  eCol : Nat
deriving DecidableEq, Repr

/-- `node.first_token.startpos`, `node.last_token.endpos` of the first `ast.Lambda` -/
def LamStmt.layout (s : LamStmt) : LamPos :=
  let l := s.lead.length + 1
  match s.lam.more with
  | none => { sLine := l, sCol := s.pre.length + s.pfx.length, eLine := l,
              eCol := s.pre.length + s.pfx.length + s.lam.first.length }
  | some (mid, last) =>
    { sLine := l, sCol := s.pre.length + s.pfx.length, eLine := l + mid.length + 1,
      eCol := s.pre.length + last.length }

/-- `source[node.first_token.startpos:node.last_token.endpos]` as lines (the result is the
lines joined by newlines, without a final newline) -/
def extractLambda (pos : LamPos) (t : Text) : Text :=
  if pos.sLine = pos.eLine then
    [((t.getD (pos.sLine - 1) []).take pos.eCol).drop pos.sCol]
  else
    ((t.getD (pos.sLine - 1) []).drop pos.sCol)
      :: ((t.take (pos.eLine - 1)).drop pos.sLine ++ [(t.getD (pos.eLine - 1) []).take pos.eCol])

/-- `_init_from_source` for a text that is not a single `def`:
`extract_lambda_from_source(dedent(src))` -/
def captureLambdaText (parse : Text → LamPos) (t : Text) : Text :=
  extractLambda (parse (dedent t)) (dedent t)

/-- `extract_lambda_from_func`: the text of the module the lambda object was compiled
from, NOT dedented -/
def captureLambdaObj (parse : Text → LamPos) (t : Text) : Text :=
  extractLambda (parse t) t

def LamStmt.dedentS (s : LamStmt) : LamStmt :=
  { s with pre := [], lead := s.lead.map normBlank, lam := s.lam.norm,
           trail := s.trail.map normBlank }

def LamStmt.wf (s : LamStmt) : Bool :=
  s.pre.all isWs
    && (s.lead.any startsNonWs || startsNonWs (s.pfx ++ s.lam.first))
    && (match s.lam.more with
        | none => true
        | some (_, last) => !blank (last ++ s.sfx))
    && !blank (s.pfx ++ s.lam.first ++ (if s.lam.more.isNone then s.sfx else []))

/-- lines of the lambda as they stand in the module file (continuation lines keep the
indentation of the place where the lambda was written) -/
def LamStmt.rawLam (s : LamStmt) : Text :=
  match s.lam.more with
  | none => [s.lam.first]
  | some (mid, last) => s.lam.first :: (indAll s.pre mid ++ [s.pre ++ last])

/-! ## Cells: `new_cells`, `formula =`, `rename`, `set_doc` along an inheritance chain -/

inductive Formula
  | fn (f : FuncDef)
  | lam (src : Text) (pnames : List Line)
deriving DecidableEq, Repr

/-- one cells of the same name per space of a chain `Base ← Sub ← SubSub …`
(`bases[0]` of an entry is the entry before it) -/
structure Entry where
  /-- `is_derived()` -/
  derived : Bool
  formula : Formula
  /-- `Impl._doc`, used by `doc` only while the formula is a lambda -/
  ldoc : Option (List Char) := none
deriving DecidableEq, Repr

def renameFormula (n : Line) : Formula → Formula
  | .fn f => .fn (captureS f (some n))
  | .lam s p => .lam s p

/-- `ModelImpl.rename_cells`: `on_rename` for the cells and then for the cells of that name
in every sub space.  `prev` is the (already renamed) formula of `bases[0]`.
`on_rename`: a lambda formula is left alone; a derived cells takes `bases[0].formula`; a
defined one – also one that overrides an inherited cells – rebuilds ITS OWN formula under
the new name. -/
def renameChain (n : Line) : Option Formula → List Entry → List Entry
  | _, [] => []
  | prev, e :: es =>
    let f' :=
      match e.formula with
      | .lam s p => Formula.lam s p
      | .fn f =>
        if e.derived then (match prev with | some b => b | none => .fn f)
        else .fn (captureS f (some n))
    { e with formula := f' } :: renameChain n (some f') es

/-- `ModelImpl.set_cells_property(cells, PROP_FORMULA, func)`: the cells itself becomes
defined with the new formula; the cells of the same name below it follow as long as they
are derived (the first overriding cells and everything below it are skipped). -/
def setFormulaChain (idx : Nat) (newf : Formula) (ldoc : Option (Option (List Char))) :
    List Entry → List Entry
  | [] => []
  | e :: es =>
    match idx with
    | 0 =>
      let follow := es.takeWhile (·.derived)
      { derived := false, formula := newf,
        ldoc := (match ldoc with | some d => d | none => e.ldoc) }
        :: (follow.map (fun x => { x with formula := newf }) ++ es.drop follow.length)
    | i + 1 => e :: setFormulaChain i newf ldoc es

def modifyEntry (i : Nat) (g : Entry → Entry) : List Entry → List Entry
  | [] => []
  | e :: es => match i with
    | 0 => g e :: es
    | j + 1 => e :: modifyEntry j g es

end MxModel.Capture
