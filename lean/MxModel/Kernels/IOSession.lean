/-!
# IOSession: the session-wide `IOManager` next to several models

`Kernels/IOSpec.lean` follows ONE model's `ReferenceManager` in detail and knows relative paths
only (the io group is the model).  This kernel is the level above: a session with several models,
each with its reference table, and the ONE `IOManager` they share, whose registry
`ios : (group, path) ↦ file object` files a RELATIVE path under the model and an ABSOLUTE path
under the session-wide group `None` (`IOManager._get_io_key`).  Mirrors

* `IOManager.get_ios / _get_io_key / get_or_create_io / new_spec / add_spec / del_spec / _del_io /
  get_spec_from_value` (`modelx/io/baseio.py`),
* `ReferenceManager.new_ref / change_ref / del_ref / specs / del_all_spec`, `EditableParentImpl._new_spec`
  (refuses a model that is not registered), `new_pandas & co.` (spec first, then the assignment)
  (`modelx/core/model.py`, `parent.py`),
* `System.close_model` (`del_all_spec`, then the model leaves the registry),
* `ModelReader.read_model` (`modelx/serialize/serializer_6.py`, f95f7ad): a load creates a model, the
  unpicklers register specs and file objects, the values are bound to references afterwards; when
  the load fails the model is closed, the specs that were read are deleted and the file objects
  that were not registered when the load began are removed BY IDENTITY.

Representation.
* models are identities (creation index); names live in `Kernels/Registry.lean`;
* a Python value is its identity (`Nat`); a reference table `_valid_to_refs` (value ↦ references) is
  the list of the model's references `(model, name, value)`; the ORDER of `_valid_to_refs` is not
  kept: it only decides the order in which `del_all_spec` deletes, and deleting a set of specs gives
  the same registry in every order (observations are compared sorted);
* `ios` is the insertion-ordered dict as a list of file objects, each with its key, its identity and
  its specs (`BaseSharedIO._specs`) in insertion order;
* `get_spec_from_value(g, v)` searches `get_ios(g)` then `get_ios(None)` (`view`): the dict `update`
  of the code merges the two BY PATH, which is the same list as long as no relative path sits in
  group `None` - true of every state of this model (`Inv.wellKeyed`), because the path setter
  (`update_path`, which can move an absolute path to a relative one inside group `None`: recorded
  finding C18-absolute-io-shared, modelled in `Kernels/IOKeys.lean`) is not an operation here;
* `del_all_spec` deletes `self.specs` (computed first) one by one; the model removes that set in one
  pass (`delSids`);
* sharing rule of a file (`_can_add_spec`): the pandas rule - several specs only in a workbook
  (`multi`), each with a sheet name, the names distinct; modules and csv files hold one spec.

The two seeded variants are defined next to the code's functions (`delAllSpecMutG`, `cleanupMutG`).
-/
namespace MxModel.IOSession

structure Path where
  abs : Bool
  name : String
deriving DecidableEq, Repr

structure Spec where
  sid : Nat
  val : Nat
  sheet : Option String
deriving DecidableEq, Repr

/-- a file object (`BaseSharedIO`) with its key in `IOManager.ios` -/
structure Io where
  iid : Nat
  group : Option Nat
  path : Path
  multi : Bool
  specs : List Spec
deriving DecidableEq, Repr

structure Ref where
  model : Nat
  name : String
  val : Nat
deriving DecidableEq, Repr

structure St where
  /-- `System.models` (identities) -/
  opened : List Nat := []
  closed : List Nat := []
  nextModel : Nat := 0
  refs : List Ref := []
  /-- `IOManager.ios` in insertion order -/
  ios : List Io := []
  nextSid : Nat := 0
  nextIid : Nat := 0
deriving DecidableEq, Repr

inductive Ans
  | ok | model (m : Nat) | closedModel | cannotAdd | noSuchRef | noSuchModel | loadFailed | outOfDomain
deriving DecidableEq, Repr

/-- `IOManager._get_io_key`: the group of a path -/
def keyGroup (m : Nat) (p : Path) : Option Nat := if p.abs then none else some m

def inGroup (g : Option Nat) (io : Io) : Bool := io.group == g

/-- `get_ios(g)` followed by `get_ios(None)`: where `get_spec_from_value(g, ·)` looks -/
def view (ios : List Io) (g : Nat) : List Io :=
  ios.filter (inGroup (some g)) ++ ios.filter (inGroup none)

/-- a spec found, with the key of its file -/
structure Found where
  group : Option Nat
  path : Path
  spec : Spec
deriving DecidableEq, Repr

/-- `next((spec for io_ in ios.values() for spec in io_.specs.values() if spec.value is value), None)` -/
def findVal : List Io → Nat → Option Found
  | [], _ => none
  | io :: rest, v =>
    match io.specs.find? (fun s => s.val == v) with
    | some s => some ⟨io.group, io.path, s⟩
    | none => findVal rest v

/-- `IOManager.get_spec_from_value(io_group, value)` -/
def lookup (st : St) (g : Nat) (v : Nat) : Option Found := findVal (view st.ios g) v

def boundIn (refs : List Ref) (m v : Nat) : Bool := refs.any (fun r => r.model == m && r.val == v)

def dedup : List Nat → List Nat
  | [] => []
  | a :: rest => a :: (dedup rest).filter (· != a)

/-- the values `_valid_to_refs` of model `m` has an entry for -/
def valuesOf (st : St) (m : Nat) : List Nat :=
  dedup ((st.refs.filter (fun r => r.model == m)).map (·.val))

/-- `ReferenceManager.specs` = `Model.iospecs` -/
def specsOf (st : St) (m : Nat) : List Found := (valuesOf st m).filterMap (lookup st m)

/-- `del_spec` for every spec whose identity is in `d`: the spec leaves its file; a file that loses
its last spec this way leaves the registry (`_del_io`); files that hold none of them are not looked at -/
def Io.dropSids (d : List Nat) (io : Io) : Option Io :=
  if io.specs.any (fun s => d.contains s.sid) then
    (if (io.specs.filter (fun s => !d.contains s.sid)).isEmpty then none
     else some { io with specs := io.specs.filter (fun s => !d.contains s.sid) })
  else some io

def delSids (st : St) (d : List Nat) : St := { st with ios := st.ios.filterMap (Io.dropSids d) }

/-- `ReferenceManager.del_all_spec` as the code has it: the specs reachable from the model's references -/
def delAllSpec (st : St) (m : Nat) : St := delSids st ((specsOf st m).map (·.spec.sid))

/-- `System.close_model` -/
def closeModel (st : St) (m : Nat) : St :=
  if st.opened.contains m then
    { delAllSpec st m with opened := st.opened.filter (· != m), closed := st.closed ++ [m] }
  else st

/-- `BaseSharedIO._can_add_spec` (pandas rule) -/
def canAdd (io : Io) (sheet : Option String) : Bool :=
  io.specs.all (fun c => io.multi && c.sheet.isSome && sheet.isSome && c.sheet != sheet)

def hasKey (g : Option Nat) (p : Path) (io : Io) : Bool := io.group == g && io.path == p

/-- `IOManager.new_spec`: `get_or_create_io`, then `add_spec`; `none` = `ValueError: cannot add spec`
(a refusal can only come from an existing file, which keeps its specs: nothing changes) -/
def addSpec (st : St) (m : Nat) (p : Path) (multi : Bool) (sheet : Option String) (v : Nat) : Option St :=
  match st.ios.find? (hasKey (keyGroup m p) p) with
  | some io =>
    if canAdd io sheet then
      some { st with
        ios := st.ios.map (fun x => if hasKey (keyGroup m p) p x
                                    then { x with specs := x.specs ++ [⟨st.nextSid, v, sheet⟩] } else x),
        nextSid := st.nextSid + 1 }
    else none
  | none =>
    some { st with
      ios := st.ios ++ [⟨st.nextIid, keyGroup m p, p, multi, [⟨st.nextSid, v, sheet⟩]⟩],
      nextSid := st.nextSid + 1, nextIid := st.nextIid + 1 }

def isRef (m : Nat) (n : String) (r : Ref) : Bool := r.model == m && r.name == n

/-- the tail of `del_ref` / `change_ref`: when no reference of the model holds the value any more its
entry leaves `_valid_to_refs` and the spec `get_spec_from_value` finds for it is deleted -/
def release (st : St) (m v : Nat) : St :=
  if boundIn st.refs m v then st
  else match lookup st m v with
    | some f => delSids st [f.spec.sid]
    | none => st

/-- assignment `parent.name = value`: `new_ref`, or `change_ref` (the new reference is registered first) -/
def bind (st : St) (m : Nat) (n : String) (v : Nat) : St :=
  match st.refs.find? (isRef m n) with
  | none => { st with refs := st.refs ++ [⟨m, n, v⟩] }
  | some old =>
    release { st with refs := st.refs.map (fun r => if isRef m n r then ⟨m, n, v⟩ else r) } m old.val

/-- `del parent.name` -/
def unbind (st : St) (m : Nat) (n : String) : St × Ans :=
  match st.refs.find? (isRef m n) with
  | none => (st, .noSuchRef)
  | some old => (release { st with refs := st.refs.filter (fun r => !isRef m n r) } m old.val, .ok)

/-- `new_pandas / new_module / new_excel_range(name, path, …)` on model `m` -/
def newSpec (st : St) (m : Nat) (n : String) (p : Path) (multi : Bool) (sheet : Option String) (v : Nat) :
    St × Ans :=
  if !st.opened.contains m then (st, .closedModel)
  else match addSpec st m p multi sheet v with
    | none => (st, .cannotAdd)
    | some st' => (bind st' m n v, .ok)

/-! ## Loading -/

/-- one entry of a saved model's `_data/iospecs.pickle`; `bound`: the load got as far as binding its
value to the reference -/
structure Item where
  name : String
  path : Path
  multi : Bool
  sheet : Option String
  val : Nat
  bound : Bool
deriving DecidableEq, Repr

def mentions (st : St) (v : Nat) : Bool :=
  st.refs.any (fun r => r.val == v) || st.ios.any (fun io => io.specs.any (fun s => s.val == v))

/-- unpickled objects are new objects: not referenced, without a spec, distinct from each other -/
def freshVals (st : St) : List Item → Bool
  | [] => true
  | it :: rest => !mentions st it.val && !(rest.any (fun j => j.val == it.val)) && freshVals st rest

/-- the unpicklers: one `new_spec` per entry, in file order; stops at the first refusal.
Returns the state, the identities of the specs read (`ModelReader.iospecs`) and whether all were read -/
def readSpecs (st : St) (m : Nat) : List Item → List Nat → St × List Nat × Bool
  | [], acc => (st, acc, true)
  | it :: rest, acc =>
    match addSpec st m it.path it.multi it.sheet it.val with
    | none => (st, acc, false)
    | some st' => readSpecs st' m rest (acc ++ [st.nextSid])

def bindItems (st : St) (m : Nat) : List Item → St
  | [] => st
  | it :: rest => bindItems (if it.bound then bind st m it.name it.val else st) m rest

/-- the `except:` clause of `ModelReader.read_model` (f95f7ad): close the half-read model, delete the
specs that were read, remove the file objects that are not in the snapshot taken at the start -/
def cleanup (st : St) (m : Nat) (snapshot : List Nat) (read : List Nat) : St :=
  let st2 := delSids (closeModel st m) read
  { st2 with ios := st2.ios.filter (fun io => snapshot.contains io.iid) }

/-- `read_model`: `ok = false` is a failure after the entries were read and the `bound` ones bound -/
def load (st : St) (items : List Item) (ok : Bool) : St × Ans :=
  if !freshVals st items then (st, .outOfDomain)
  else
    let m := st.nextModel
    let st1 := { st with opened := st.opened ++ [m], nextModel := m + 1 }
    match readSpecs st1 m items [] with
    | (st2, read, all) =>
      let st3 := bindItems st2 m (if all then items else [])
      if all && ok then (st3, .model m)
      else (cleanup st3 m (st.ios.map (·.iid)) read, .loadFailed)

/-! ## The two seeded variants (what the code must NOT do) -/

/-- C19-mutG: `del_all_spec` over `get_ios(model)` and `get_ios(None)` -/
def delAllSpecMutG (st : St) (m : Nat) : St :=
  delSids st ((view st.ios m).flatMap (fun io => io.specs.map (·.sid)))

def closeModelMutG (st : St) (m : Nat) : St :=
  if st.opened.contains m then
    { delAllSpecMutG st m with opened := st.opened.filter (· != m), closed := st.closed ++ [m] }
  else st

/-- C14-mutG: `discard_ios(group)`: every entry with `not group or group == io_group` -/
def cleanupMutG (st : St) (m : Nat) : St :=
  let st2 := closeModel st m
  { st2 with ios := st2.ios.filter (fun io => !(io.group.isNone || io.group == some m)) }

/-! ## Operations -/

inductive Op
  | newModel
  | close (m : Nat)
  | newSpec (m : Nat) (n : String) (p : Path) (multi : Bool) (sheet : Option String) (v : Nat)
  | bind (m : Nat) (n : String) (v : Nat)
  | unbind (m : Nat) (n : String)
  | load (items : List Item) (ok : Bool)
deriving Repr

def stepR (st : St) : Op → St × Ans
  | .newModel =>
    ({ st with opened := st.opened ++ [st.nextModel], nextModel := st.nextModel + 1 }, .model st.nextModel)
  | .close m => if m < st.nextModel then (closeModel st m, .ok) else (st, .noSuchModel)
  | .newSpec m n p multi sheet v =>
    if m < st.nextModel then newSpec st m n p multi sheet v else (st, .noSuchModel)
  | .bind m n v => if m < st.nextModel then (bind st m n v, .ok) else (st, .noSuchModel)
  | .unbind m n => if m < st.nextModel then unbind st m n else (st, .noSuchModel)
  | .load items ok => load st items ok

def step (st : St) (op : Op) : St := (stepR st op).1
def run (st : St) (ops : List Op) : St := ops.foldl step st

end MxModel.IOSession
