/-!
# C3 linearisation, exactly as `SpaceGraph.get_mro` (modelx/core/model.py)

`seqs = [mro(b) for b in ordered_preds(node)] + [ordered_preds(node)]`; repeatedly take the
first head (in the order of `seqs`) that occurs in no tail, append it, and delete it from
the heads; `none` = "inconsistent hierarchy, no C3 MRO is possible".
-/
namespace MxModel.C3

variable {α : Type} [DecidableEq α]

/-- `candidate in s[1:]` -/
def inTail (c : α) (s : List α) : Bool := s.tail.contains c

/-- the first head of `seqs` (all non-empty) that is in no tail -/
def pick (all : List (List α)) : List (List α) → Option α
  | [] => none
  | s :: rest =>
    match s with
    | [] => pick all rest
    | c :: _ => if all.any (inTail c) then pick all rest else some c

/-- `if seq[0] == candidate: del seq[0]` for every sequence -/
def dropHead (c : α) (seqs : List (List α)) : List (List α) :=
  seqs.map (fun s => match s with
    | [] => []
    | h :: t => if h = c then t else h :: t)

/-- the merge loop; `fuel` bounds the number of iterations (total length is enough) -/
def merge : Nat → List (List α) → Option (List α)
  | 0, seqs => if (seqs.filter (· ≠ [])).isEmpty then some [] else none
  | fuel + 1, seqs =>
    let nonEmpty := seqs.filter (· ≠ [])
    if nonEmpty.isEmpty then some []
    else match pick nonEmpty nonEmpty with
      | none => none
      | some c => (merge fuel (dropHead c nonEmpty)).map (c :: ·)

def totalLen (seqs : List (List α)) : Nat := (seqs.map List.length).sum

/-- `get_mro(node)`; `depth` bounds the recursion through bases (the number of nodes is
enough for an acyclic graph) -/
def mro (bases : α → List α) : Nat → α → Option (List α)
  | 0, _ => none
  | depth + 1, node =>
    match (bases node).mapM (mro bases depth) with
    | none => none
    | some ms =>
      let seqs := ms ++ [bases node]
      (merge (totalLen seqs) seqs).map (node :: ·)

end MxModel.C3
