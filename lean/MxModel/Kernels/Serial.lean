import MxModel.Kernels.PathCodec
/-!
# Serial: what `serializer_6.ModelWriter` writes, statement by statement (C04)

A **model description** `MDesc` holds exactly what C04 speaks about: the model's name, documentation,
`allow_none`, its references; the tree of spaces; per space its name, documentation, `allow_none`,
direct bases, parameter formula, the DEFINED cells in order (formula text, `allow_none`, cached flag,
documentation, input values), the DEFINED references in order (value kind, reference mode), the inputs
inside ItemSpaces, and the child spaces.  Derived members are not part of it (the writer does not write
them, the reader derives them again).

`write : MDesc → Dir` is `ModelWriter.write_model` at the level of STATEMENTS: every `__init__.py` is the
list of logical statements `ModelEncoder.encode` / `SpaceEncoder.encode` / `CellsEncoder.encode` /
`RefViewEncoder.encode` emit, in order; the `_data/` files are modelled by which files exist and which
pickle ids they carry.  Not modelled: the characters inside a statement (quoting of documentation strings
is `Kernels/DocQuote.lean`, relative names are `Kernels/PathCodec.lean` - used here), the bytes of the
pickles, `_system.json`'s content, the zip container.

Identity of pickled objects: an `Id` is the text of the number the writer prints (`id(obj)`); the pickle
table `_data/data.pickle` is the list of the ids it holds.  Two places that hold the same object carry the
same id.

Names and texts are `List Char` (as in `PathCodec`), so that everything is decidable by kernel evaluation.
-/
namespace MxModel.Serial
open MxModel.PathCodec

abbrev Name := List Char
abbrev Text := List Char
/-- names of the spaces from the model downwards (`[]` = the model itself); a cells is addressed by the
path of its space followed by its name -/
abbrev Path := List Name
abbrev Id := List Char

/-! ## constants of the file format -/
def kName : Name := "_name".toList
def kFormula : Name := "_formula".toList
def kBases : Name := "_bases".toList
def kAllowNone : Name := "_allow_none".toList
def kIsCached : Name := "_is_cached".toList
def kSpaces : Name := "_spaces".toList
def kTrue : Text := "True".toList
def kFalse : Text := "False".toList
def kNone : Text := "None".toList
def tInterface : Name := "Interface".toList
def tPickle : Name := "Pickle".toList
def tModule : Name := "Module".toList
def tIOSpec : Name := "IOSpec".toList
def fDynInputs : Name := "_dynamic_inputs".toList
def fDataPickle : Name := "data.pickle".toList
def fIOSpecs : Name := "iospecs.pickle".toList
def fSystem : Name := "_system.json".toList
def fInputLog : Name := "_input_log.txt".toList

/-! ## the description -/

/-- reference mode (`refmode`) -/
inductive Mode | auto | absolute | relative
deriving DecidableEq, Repr

def Mode.text : Mode → Name
  | .auto => "auto".toList
  | .absolute => "absolute".toList
  | .relative => "relative".toList

def Mode.parse (t : Name) : Option Mode :=
  if t = "auto".toList then some .auto
  else if t = "absolute".toList then some .absolute
  else if t = "relative".toList then some .relative
  else none

/-- A formula as `Formula.source` gives it.  `lambda`: the text starts with `lambda` and is written as
`name = <text>`.  `defn`: a `def`; `source` is the text written to the file, `node` the text of the
function's syntax node (plus a comment on its last line) normalised as the `Formula` constructor does -
what `FunctionDefParser` hands to `new_cells`.  `node` is a function of `source` (computed by the harness
with Python's parser); the statement abstraction of the file keeps `node` only, as the reader does. -/
inductive Formula
  | lambda (text : Text)
  | defn (source node : Text)
deriving DecidableEq, Repr

/-- the value of a reference, by the encoder `EncoderSelector` selects for it -/
inductive RefVal
  /-- `LiteralEncoder`: bool / int / float / str / None; the text as written -/
  | literal (text : Text)
  /-- `PickleEncoder`: any other object, by identity -/
  | pickled (id : Id)
  /-- `InterfaceRefEncoder`: the model (`[]`), a space or a cells of this model -/
  | interface (target : Path)
  /-- `ModuleEncoder` -/
  | module (name : Name)
  /-- `IOSpecEncoder`: value id and id of the IO spec -/
  | iospec (valueId specId : Id)
deriving DecidableEq, Repr

structure CellsD where
  name : Name
  formula : Formula
  allowNone : Option Bool
  isCached : Bool
  /-- documentation stored beside a lambda formula (`none` for a `def`: there it is part of the text) -/
  doc : Option Text
  /-- input values in order: (id of the key tuple, id of the value) -/
  inputs : List (Id × Id)
deriving DecidableEq, Repr

structure RefD where
  name : Name
  val : RefVal
  mode : Mode
deriving DecidableEq, Repr

/-- an input value inside an ItemSpace: the id tuple of the cells BELOW the static space that holds the
ItemSpace (argument tuples are `Elem.key <id>`), key id, value id -/
structure DynInput where
  addr : List Elem
  key : Id
  val : Id
deriving DecidableEq, Repr

/-- everything about a space except its child spaces -/
structure SpaceInfo where
  name : Name
  doc : Option Text
  allowNone : Option Bool
  formula : Option Formula
  bases : List Path
  cells : List CellsD
  refs : List RefD
  dynInputs : List DynInput
  /-- input values of DERIVED cells (cells name, inputs): part of the model, not written
  (known finding C04-derived-input) -/
  derivedInputs : List (Name × List (Id × Id))
deriving DecidableEq, Repr

inductive SpaceD where
  | mk (info : SpaceInfo) (children : List SpaceD)
deriving Repr

def SpaceD.info : SpaceD → SpaceInfo | .mk i _ => i
def SpaceD.children : SpaceD → List SpaceD | .mk _ cs => cs
def SpaceD.name (s : SpaceD) : Name := s.info.name

mutual
def SpaceD.decEq : (a b : SpaceD) → Decidable (a = b)
  | .mk i cs, .mk j ds =>
    if h : i = j then
      match SpaceD.decEqL cs ds with
      | isTrue h2 => isTrue (by rw [h, h2])
      | isFalse h2 => isFalse (by intro e; cases e; exact h2 rfl)
    else isFalse (by intro e; cases e; exact h rfl)
def SpaceD.decEqL : (a b : List SpaceD) → Decidable (a = b)
  | [], [] => isTrue rfl
  | [], _ :: _ => isFalse (by simp)
  | _ :: _, [] => isFalse (by simp)
  | a :: as, b :: bs =>
    match SpaceD.decEq a b, SpaceD.decEqL as bs with
    | isTrue h1, isTrue h2 => isTrue (by rw [h1, h2])
    | isFalse h1, _ => isFalse (by intro e; cases e; exact h1 rfl)
    | _, isFalse h2 => isFalse (by intro e; cases e; exact h2 rfl)
end
instance : DecidableEq SpaceD := SpaceD.decEq

mutual
def SpaceD.depth : SpaceD → Nat
  | .mk _ cs => SpaceD.depthL cs + 1
def SpaceD.depthL : List SpaceD → Nat
  | [] => 0
  | c :: cs => max c.depth (SpaceD.depthL cs)
end

structure MDesc where
  name : Name
  doc : Option Text
  allowNone : Bool
  /-- model-level references (no reference mode) -/
  refs : List (Name × RefVal)
  spaces : List SpaceD
deriving DecidableEq, Repr

/-! ## the files -/

inductive Sec | default | cells | refs
deriving DecidableEq, Repr

/-- an element of a tagged tuple on the right-hand side of a reference assignment -/
inductive TArg
  | str (s : Name)
  | num (n : Id)
  | tup (p : List Elem)
deriving DecidableEq, Repr

/-- right-hand side of an assignment, as far as the reader distinguishes -/
inductive Rhs
  /-- the source text of an expression that is none of the forms below (`None`, `True`, `3`, `"abc"`,
  `lambda x: …`) -/
  | text (t : Text)
  /-- a string constant (`_name = "Model1"`) -/
  | str (s : Name)
  /-- a list display of string constants (`_bases`, `_spaces`) -/
  | names (l : List Name)
  /-- a tuple display whose first element is a string constant: `("Pickle", 1234)` -/
  | tagged (tag : Name) (args : List TArg)
deriving DecidableEq, Repr

/-- a logical statement of an `__init__.py` -/
inductive Stmt
  /-- an expression statement that is a string constant; the decoded text -/
  | doc (text : Text)
  /-- `from modelx.serialize.jsonvalues import *` -/
  | importFrom
  | assign (target : Name) (rhs : Rhs)
  /-- a function definition: its name and the text `FunctionDefParser` extracts for it -/
  | funcDef (name : Name) (text : Text)
  /-- the divider line followed by `# Cells` / `# References` (comments, no syntax node) -/
  | marker (sec : Sec)
deriving DecidableEq, Repr

/-- a file below `_data/` -/
inductive DataFile
  /-- `_data/<cells>`: one line `(keyid, valid)` per input value -/
  | cellsData (entries : List (Id × Id))
  /-- `_data/_dynamic_inputs`: one line `(<relative id tuple>, keyid, valid)` per input in an ItemSpace -/
  | dynInputs (lines : List (List Elem × Id × Id))
  /-- `_data/data.pickle`: the ids in the table -/
  | pickle (ids : List Id)
  /-- `_data/iospecs.pickle`: the ids of the IO specs -/
  | iospecs (ids : List Id)
deriving DecidableEq, Repr

/-- a directory of the written model: `__init__.py` (if there), the files in `_data/`, other plain files
by name (`_system.json`, `_input_log.txt`), the sub directories -/
inductive Dir where
  | mk (name : Name) (init : Option (List Stmt)) (data : List (Name × DataFile)) (other : List Name)
       (subs : List Dir)
deriving Repr

def Dir.name : Dir → Name | .mk n _ _ _ _ => n
def Dir.init : Dir → Option (List Stmt) | .mk _ i _ _ _ => i
def Dir.data : Dir → List (Name × DataFile) | .mk _ _ d _ _ => d
def Dir.other : Dir → List Name | .mk _ _ _ o _ => o
def Dir.subs : Dir → List Dir | .mk _ _ _ _ s => s

mutual
def Dir.depth : Dir → Nat
  | .mk _ _ _ _ subs => Dir.depthL subs + 1
def Dir.depthL : List Dir → Nat
  | [] => 0
  | c :: cs => max c.depth (Dir.depthL cs)
end

/-- the file names of a directory, relative, components separated by `/` (what `os.walk` / the member
list of the archive shows) -/
def joinSlash (pre : List Char) (n : Name) : List Char := if pre = [] then n else pre ++ '/' :: n

mutual
def Dir.entries (pre : List Char) : Dir → List (List Char)
  | .mk _ init data other subs =>
    (match init with | some _ => [joinSlash pre "__init__.py".toList] | none => []) ++
    data.map (fun d => joinSlash (joinSlash pre "_data".toList) d.1) ++
    other.map (joinSlash pre) ++
    Dir.entriesL pre subs
def Dir.entriesL (pre : List Char) : List Dir → List (List Char)
  | [] => []
  | d :: ds => Dir.entries (joinSlash pre d.name) d ++ Dir.entriesL pre ds
end

mutual
/-- the directories that hold an `__init__.py`, as paths below the root -/
def Dir.initPaths (pre : Path) : Dir → List Path
  | .mk _ init _ _ subs => (match init with | some _ => [pre] | none => []) ++ Dir.initPathsL pre subs
def Dir.initPathsL (pre : Path) : List Dir → List Path
  | [] => []
  | d :: ds => Dir.initPaths (pre ++ [d.name]) d ++ Dir.initPathsL pre ds
end

mutual
/-- the files below `_data/`: (directory, file name) -/
def Dir.dataPaths (pre : Path) : Dir → List (Path × Name)
  | .mk _ _ data _ subs => data.map (fun d => (pre, d.1)) ++ Dir.dataPathsL pre subs
def Dir.dataPathsL (pre : Path) : List Dir → List (Path × Name)
  | [] => []
  | d :: ds => Dir.dataPaths (pre ++ [d.name]) d ++ Dir.dataPathsL pre ds
end

/-! ## the writer -/

/-- `obj._idtuple`: the model's name followed by the names down to the object -/
def idt (model : Name) (p : Path) : List Elem := (model :: p).map Elem.str

/-- `obj._evalrepr` / `fullname`: the dotted name -/
def dotted (model : Name) (p : Path) : Text := joinDot (model :: p)

def optBoolText : Option Bool → Text
  | none => kNone
  | some true => kTrue
  | some false => kFalse

def boolText (b : Bool) : Text := if b then kTrue else kFalse

/-- `EncoderSelector.select(ref)(…).encode()` for a reference of `owner`; `modeText` is
`str(ref.refmode)` (`None` for a model-level reference) -/
def encodeRef (model : Name) (owner : Path) (modeText : Name) : RefVal → Rhs
  | .literal t => .text t
  | .pickled id => .tagged tPickle [.num id]
  | .interface tgt => .tagged tInterface [.tup (absToRelTuple (idt model tgt) (idt model owner)), .str modeText]
  | .module n => .tagged tModule [.str n]
  | .iospec v s => .tagged tIOSpec [.num v, .num s]

/-- `RefViewEncoder.encode`: the marker (only if there is a reference) and one assignment per reference -/
def refStmts (model : Name) (owner : Path) (refs : List (Name × RefVal × Name)) : List Stmt :=
  (if refs.isEmpty then [] else [Stmt.marker .refs]) ++
  refs.map (fun r => Stmt.assign r.1 (encodeRef model owner r.2.2 r.2.1))

/-- `CellsEncoder.encode` -/
def cellStmts (c : CellsD) : List Stmt :=
  (match c.formula with
   | .lambda t => Stmt.assign c.name (.text t) :: (match c.doc with | some d => [Stmt.doc d] | none => [])
   | .defn _ node => [Stmt.funcDef c.name node]) ++
  (match c.allowNone with | some b => [Stmt.assign kAllowNone (.text (boolText b))] | none => []) ++
  (if c.isCached then [] else [Stmt.assign kIsCached (.text kFalse)])

def docStmt : Option Text → List Stmt
  | some d => [Stmt.doc d]
  | none => []

def formulaStmt : Option Formula → Stmt
  | none => .assign kFormula (.text kNone)
  | some (.lambda t) => .assign kFormula (.text t)
  | some (.defn _ node) => .funcDef kFormula node

def spaceRefs (i : SpaceInfo) : List (Name × RefVal × Name) := i.refs.map (fun r => (r.name, r.val, r.mode.text))

/-- `SpaceEncoder.encode` for the space `i` whose parent is at `parent` -/
def spaceStmts (model : Name) (parent : Path) (i : SpaceInfo) (children : List Name) : List Stmt :=
  docStmt i.doc ++
  [Stmt.importFrom,
   formulaStmt i.formula,
   Stmt.assign kBases (.names (i.bases.map (fun b => absToRel (dotted model b) (dotted model parent)))),
   Stmt.assign kAllowNone (.text (optBoolText i.allowNone)),
   Stmt.assign kSpaces (.names children)] ++
  (if i.cells.isEmpty then [] else [Stmt.marker .cells]) ++
  i.cells.flatMap cellStmts ++
  refStmts model (parent ++ [i.name]) (spaceRefs i)

def modelRefs (m : MDesc) : List (Name × RefVal × Name) := m.refs.map (fun r => (r.1, r.2, kNone))

/-- `ModelEncoder.encode` -/
def modelStmts (m : MDesc) : List Stmt :=
  docStmt m.doc ++
  [Stmt.importFrom,
   Stmt.assign kName (.str m.name),
   Stmt.assign kAllowNone (.text (boolText m.allowNone)),
   Stmt.assign kSpaces (.names (m.spaces.map SpaceD.name))] ++
  refStmts m.name [] (modelRefs m)

/-- the `_data/` files of one space: `CellsEncoder.pickle_value` writes `_data/<cells>` when the cells has
input values, `pickle_dynamic_inputs` writes `_data/_dynamic_inputs` when an ItemSpace holds one -/
def spaceData (model : Name) (path : Path) (i : SpaceInfo) : List (Name × DataFile) :=
  (i.cells.filter (fun c => !c.inputs.isEmpty)).map (fun c => (c.name, DataFile.cellsData c.inputs)) ++
  (if i.dynInputs.isEmpty then []
   else [(fDynInputs, DataFile.dynInputs (i.dynInputs.map (fun d =>
      (absToRelTuple (idt model path ++ d.addr) (idt model path), d.key, d.val))))])

mutual
def writeSpace (model : Name) (parent : Path) : SpaceD → Dir
  | .mk i cs =>
    Dir.mk i.name (some (spaceStmts model parent i (cs.map SpaceD.name)))
      (spaceData model (parent ++ [i.name]) i) [] (writeSpaces model (parent ++ [i.name]) cs)
def writeSpaces (model : Name) (parent : Path) : List SpaceD → List Dir
  | [] => []
  | s :: ss => writeSpace model parent s :: writeSpaces model parent ss
end

/-! ### the pickle table -/

def refValIds : RefVal → List Id
  | .pickled id => [id]
  | .iospec v _ => [v]
  | _ => []

def refValSpecs : RefVal → List Id
  | .iospec _ s => [s]
  | _ => []

def elemIds : Elem → List Id
  | .key k => [k]
  | .str _ => []

def infoIds (i : SpaceInfo) : List Id :=
  i.refs.flatMap (fun r => refValIds r.val) ++
  i.cells.flatMap (fun c => c.inputs.flatMap (fun e => [e.1, e.2])) ++
  i.dynInputs.flatMap (fun d => [d.key, d.val] ++ d.addr.flatMap elemIds)

mutual
def spaceIds : SpaceD → List Id
  | .mk i cs => infoIds i ++ spacesIds cs
def spacesIds : List SpaceD → List Id
  | [] => []
  | s :: ss => spaceIds s ++ spacesIds ss
end

mutual
def spaceSpecs : SpaceD → List Id
  | .mk i cs => i.refs.flatMap (fun r => refValSpecs r.val) ++ spacesSpecs cs
def spacesSpecs : List SpaceD → List Id
  | [] => []
  | s :: ss => spaceSpecs s ++ spacesSpecs ss
end

/-- the ids `ModelWriter.pickledata` holds at the end -/
def pickleIds (m : MDesc) : List Id := m.refs.flatMap (fun r => refValIds r.2) ++ spacesIds m.spaces

def specIds (m : MDesc) : List Id := m.refs.flatMap (fun r => refValSpecs r.2) ++ spacesSpecs m.spaces

/-- `write_pickledata`: `iospecs.pickle` if the model has IO specs, `data.pickle` if the table is not empty -/
def modelData (m : MDesc) : List (Name × DataFile) :=
  (if (specIds m).isEmpty then [] else [(fIOSpecs, DataFile.iospecs (specIds m))]) ++
  (if (pickleIds m).isEmpty then [] else [(fDataPickle, DataFile.pickle (pickleIds m))])

/-- `ModelWriter.write_model` (`logInput`: the `log_input` option, one more plain file) -/
def writeWith (logInput : Bool) (m : MDesc) : Dir :=
  Dir.mk m.name (some (modelStmts m)) (modelData m)
    (fSystem :: (if logInput then [fInputLog] else [])) (writeSpaces m.name [] m.spaces)

def write (m : MDesc) : Dir := writeWith false m

end MxModel.Serial
