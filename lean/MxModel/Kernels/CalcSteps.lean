/-!
# CalcSteps: planning of a memory-optimised run (`TraceManager.get_calcsteps`)

State of /repo described: 83edc16 (`finally` also when a target fails) and 77e9cc3 (`generate_actions`
also plans and clears the values the model held before that the targets were calculated from).

Mirrors `TraceManager.get_calcsteps` in `modelx/core/model.py` (the body of the `while` loop,
statement by statement) as a pure function of

* `ordered` – `list(nx.topological_sort(subgraph))`, nodes as `Nat` ids,
* `succs`   – `subgraph.successors`, the dependents of a node inside the traced sub graph,
* `targets` – `calc_targets`,
* `stepSize`.

The Python loop `while step * step_size < node_len` does not terminate for `step_size = 0`
and a non-empty order; the model runs it with fuel `len(ordered)`, which is enough for every
`step_size ≥ 1` (proved in `Proofs/CalcSteps.lean`: `planSteps_getElem?` – iteration `k` exists iff
`k * size < len` – and `nSteps_covers` – the loop is left because its condition fails).

The second half of the file is an abstract cache on which `Model.execute_actions` is run.
-/
namespace MxModel.CalcSteps

abbrev Node := Nat

/-- one entry of the list returned by `generate_actions`: `['calc'|'paste'|'clear', nodes]` -/
inductive Action where
  | doCalc (ns : List Node)
  | doPaste (ns : List Node)
  | doClear (ns : List Node)
deriving DecidableEq, Repr

/-- `for suc in subgraph.successors(n): if suc not in inside: paste = True; break` -/
def hasSuccOutside (succs : Node → List Node) (inside : List Node) (n : Node) : Bool :=
  (succs n).any (fun s => !decide (s ∈ inside))

/-- the three lists filled by the first inner loop -/
structure Cur where
  paste : List Node := []
  clear : List Node := []
  targets : List Node := []
deriving DecidableEq, Repr

/-- `for n in cur_block:` – classify each node of the block: a target is pasted (and recorded
in `cur_targets`), a non-target is pasted iff one of its successors is outside the block,
everything else goes to `cur_clear`. -/
def classify (succs : Node → List Node) (targets block : List Node) : List Node → Cur → Cur
  | [], c => c
  | n :: ns, c =>
    if n ∈ targets then
      classify succs targets block ns { c with paste := c.paste ++ [n], targets := c.targets ++ [n] }
    else if hasSuccOutside succs block n then
      classify succs targets block ns { c with paste := c.paste ++ [n] }
    else
      classify succs targets block ns { c with clear := c.clear ++ [n] }

/-- `for n in pasted.copy():` – a node pasted in an earlier block all of whose successors are
in `accum_nodes` is moved to `cur_clear` (`pasted.remove(n)` removes the first occurrence).
Returns `(pasted, cur_clear)`. -/
def sweep (succs : Node → List Node) (accum : List Node) :
    List Node → List Node → List Node → List Node × List Node
  | [], pasted, clear => (pasted, clear)
  | n :: copy, pasted, clear =>
    if hasSuccOutside succs accum n then sweep succs accum copy pasted clear
    else sweep succs accum copy (pasted.erase n) (clear ++ [n])

/-- `ordered[start:stop]` with `start = step*size`, `stop = min(len, (step+1)*size)` -/
def curBlock (ordered : List Node) (size step : Nat) : List Node :=
  (ordered.drop (step * size)).take size

/-- `ordered[:stop]` -/
def accumNodes (ordered : List Node) (size step : Nat) : List Node :=
  ordered.take ((step + 1) * size)

/-- what one iteration of the `while` loop appends to `result`, and `pasted` afterwards -/
structure StepOut where
  block : List Node
  /-- already reversed, as in `reversed(cur_paste)` -/
  paste : List Node
  clear : List Node
  pasted : List Node
deriving DecidableEq, Repr

/-- the body of the `while` loop -/
def stepOut (ordered : List Node) (succs : Node → List Node) (targets : List Node)
    (size step : Nat) (pasted : List Node) : StepOut :=
  let block := curBlock ordered size step
  let cur := classify succs targets block block {}
  let sw := sweep succs (accumNodes ordered size step) pasted pasted cur.clear
  let pasted' := sw.1 ++ cur.paste.filter (fun n => !decide (n ∈ cur.targets))
  { block := block, paste := cur.paste.reverse, clear := sw.2, pasted := pasted' }

/-- the `while` loop (with fuel); returns the per-iteration records and the final `pasted` -/
def steps (ordered : List Node) (succs : Node → List Node) (targets : List Node) (size : Nat) :
    Nat → Nat → List Node → List StepOut × List Node
  | 0, _, pasted => ([], pasted)
  | fuel + 1, step, pasted =>
    if step * size < ordered.length then
      let o := stepOut ordered succs targets size step pasted
      let r := steps ordered succs targets size fuel (step + 1) o.pasted
      (o :: r.1, r.2)
    else ([], pasted)

def planSteps (ordered : List Node) (succs : Node → List Node) (targets : List Node)
    (size : Nat) : List StepOut :=
  (steps ordered succs targets size ordered.length 0 []).1

/-- `pasted` when the loop is left – the code's `assert not pasted` -/
def finalPasted (ordered : List Node) (succs : Node → List Node) (targets : List Node)
    (size : Nat) : List Node :=
  (steps ordered succs targets size ordered.length 0 []).2

def StepOut.actions (o : StepOut) : List Action := [.doCalc o.block, .doPaste o.paste, .doClear o.clear]

/-- `get_calcsteps(targets, nodes, step_size)` (the returned `result`) -/
def calcSteps (ordered : List Node) (succs : Node → List Node) (targets : List Node)
    (stepSize : Nat) : List Action :=
  (planSteps ordered succs targets stepSize).flatMap StepOut.actions

/-! projections of an action list -/
def calcBlocks : List Action → List (List Node)
  | [] => []
  | .doCalc ns :: as => ns :: calcBlocks as
  | _ :: as => calcBlocks as

def pasteLists : List Action → List (List Node)
  | [] => []
  | .doPaste ns :: as => ns :: pasteLists as
  | _ :: as => pasteLists as

def clearLists : List Action → List (List Node)
  | [] => []
  | .doClear ns :: as => ns :: clearLists as
  | _ :: as => clearLists as

/-- `ordered` is a topological order of the sub graph: every successor of a node occurs
later in the list (so in particular it is a node of the sub graph). -/
def isTopo (succs : Node → List Node) : List Node → Bool
  | [] => true
  | n :: post => (succs n).all (fun s => decide (s ∈ post)) && isTopo succs post

/-! ## An abstract cache on which `Model.execute_actions` runs

`held` = keys of the cells' `data`, `inputs` = `input_keys`, `edges` = the model's trace graph
(`(p, n)`: `n` called `p`), `log` = formula executions in the order they start.  The program is
abstracted to `preds n`, the elements the formula of `n` calls, in call order. -/
structure Cache where
  held : List Node := []
  inputs : List Node := []
  edges : List (Node × Node) := []
  log : List Node := []
deriving DecidableEq, Repr

/-- `nx.descendants(graph, n)` (breadth first; `fuel` rounds) – `acc` collects what was reached -/
def reach (edges : List (Node × Node)) : Nat → List Node → List Node → List Node
  | 0, acc, _ => acc
  | fuel + 1, acc, frontier =>
    let next := ((edges.filter (fun e => decide (e.1 ∈ frontier) && !decide (e.2 ∈ acc))).map
      (·.2)).eraseDups
    if next = [] then acc else reach edges fuel (acc ++ next) next

/-- the nodes removed by `TraceGraph.remove_with_descs(n)`: `n` and everything reachable from it -/
def withDescs (edges : List (Node × Node)) (n : Node) : List Node :=
  reach edges edges.length [n] [n]

/-- `CellsImpl.clear_value_at(key)` → `TraceManager.clear_with_descs`: nothing when the element
has no value; otherwise the node and its descendants leave the graph, `data` and `input_keys`. -/
def clearAt (n : Node) (c : Cache) : Cache :=
  if n ∈ c.held then
    let r := withDescs c.edges n
    { c with held := c.held.filter (fun x => !decide (x ∈ r)),
             inputs := c.inputs.filter (fun x => !decide (x ∈ r)),
             edges := c.edges.filter (fun e => !decide (e.1 ∈ r) && !decide (e.2 ∈ r)) }
  else c

/-- `CallStack.append`: the formula of `n` starts -/
def Cache.enter (c : Cache) (n : Node) : Cache := { c with log := c.log ++ [n] }

/-- `tracegraph.add_edge(p, n)`: `n` called `p` -/
def Cache.addEdge (c : Cache) (p n : Node) : Cache := { c with edges := c.edges ++ [(p, n)] }

/-- `CellsImpl._store_value` -/
def Cache.store (c : Cache) (n : Node) : Cache := { c with held := c.held ++ [n] }

/-- `Executor.eval_node`: a held value is returned as it is; otherwise the formula runs
(`enter`), evaluates what it calls – each call adds the edge callee → caller – and the value is
stored.  `fuel` bounds the call depth. -/
def evalNode (preds : Node → List Node) : Nat → Node → Cache → Cache
  | 0, _, c => c
  | fuel + 1, n, c =>
    if n ∈ c.held then c
    else ((preds n).foldl (fun c p => (evalNode preds fuel p c).addEdge p n) (c.enter n)).store n

/-- `CellsImpl.set_value_from_key(key, value)` outside a formula: clear the element and its
dependents, store the value, re-add the bare node, mark it as input. -/
def setValue (n : Node) (c : Cache) : Cache :=
  let c1 := clearAt n c
  { c1 with held := c1.held ++ [n], inputs := c1.inputs ++ [n] }

/-- one action of `Model.execute_actions` -/
def execAction (preds : Node → List Node) (fuel : Nat) (c : Cache) : Action → Cache
  | .doCalc ns => ns.foldl (fun c n => evalNode preds fuel n c) c
  | .doPaste ns =>
    let c1 := ns.foldl (fun c n => evalNode preds fuel n c) c
    ns.foldl (fun c n => setValue n c) c1
  | .doClear ns => ns.foldl (fun c n => clearAt n c) c

/-- `Model.execute_actions(actions)` -/
def execute (preds : Node → List Node) (fuel : Nat) (actions : List Action) (c : Cache) : Cache :=
  actions.foldl (execAction preds fuel) c

/-- `Model.generate_actions`, first part: every target that is not a user input is evaluated
under the stack trace; the `ENTER` entries (= the `log`) are collected in `calculated`. -/
def traceTargets (preds : Node → List Node) (fuel : Nat) (targets : List Node) (c : Cache) : Cache :=
  targets.foldl (fun c t => if t ∈ c.inputs then c else evalNode preds fuel t c) c

/-- the ENTER entries of the stack trace: the elements whose formulas ran while the targets were
evaluated (`calculated` before the loop over the trace graph) -/
def calculated (preds : Node → List Node) (fuel : Nat) (targets : List Node) (c : Cache) : List Node :=
  (traceTargets preds fuel targets c).log.drop c.log.length

/-- `itertools.chain((n,), nx.ancestors(graph, n))`: `n` and everything it was calculated from –
backwards along the trace edges -/
def withAncs (edges : List (Node × Node)) (n : Node) : List Node :=
  withDescs (edges.map (fun e => (e.2, e.1))) n

/-- what `generate_actions` adds from the trace graph since 77e9cc3: the values the model held
BEFORE (they have a value, so their formulas did not run and the trace does not show them) that a
target which is not a user input was calculated from, and such a target itself – unless they are
user inputs.  (The order is that of a Python set; nothing depends on it.) -/
def preHeld (preds : Node → List Node) (fuel : Nat) (targets : List Node) (c : Cache) : List Node :=
  (((targets.filter (fun t => !decide (t ∈ c.inputs) && decide (t ∈ (traceTargets preds fuel targets c).held))).flatMap
      (withAncs (traceTargets preds fuel targets c).edges)).eraseDups).filter
    (fun p => !decide (p ∈ calculated preds fuel targets c) && !decide (p ∈ c.inputs))

/-- the nodes handed to `get_calcsteps` and cleared by the `finally` clause -/
def planned (preds : Node → List Node) (fuel : Nat) (targets : List Node) (c : Cache) : List Node :=
  calculated preds fuel targets c ++ preHeld preds fuel targets c

/-- the state `Model.generate_actions` leaves: its `finally` clause clears every node of
`calculated` – traced or taken from the graph – (`n[OBJ].clear_value_at(n[KEY])`) -/
def generateLeaves (preds : Node → List Node) (fuel : Nat) (targets : List Node) (c : Cache) : Cache :=
  (planned preds fuel targets c).foldl (fun c n => clearAt n c) (traceTargets preds fuel targets c)

/-- `generate_actions` BEFORE 77e9cc3: only what the trace shows is cleared (and planned) -/
def generateLeavesTraceOnly (preds : Node → List Node) (fuel : Nat) (targets : List Node) (c : Cache) : Cache :=
  (calculated preds fuel targets c).foldl (fun c n => clearAt n c) (traceTargets preds fuel targets c)

/-! ## The same cache WITH values

`data` = the cells' `data` dictionaries (element ↦ value); the value domain `V` is arbitrary – in
particular it may have a distinguished `None` (`V = Option Nat`: an element of a cells with
`allow_none=True` holds `none`).  The program is abstracted to `preds` as before plus
`f n vs`: the value the formula of `n` returns when the elements it calls returned `vs` (`none`
only when the call-depth bound was hit before the callee had a value).  Nothing below looks at a
value: a held `None` is a held value. -/
structure VCache (V : Type) where
  data : List (Node × V) := []
  inputs : List Node := []
  edges : List (Node × Node) := []
  log : List Node := []
deriving DecidableEq, Repr

variable {V : Type}

/-- forgetting the values: which elements are held, which are inputs, the trace graph, the log -/
def VCache.erase (c : VCache V) : Cache :=
  { held := c.data.map (·.1), inputs := c.inputs, edges := c.edges, log := c.log }

/-- `data.get(n)` with "no entry" kept apart from every value -/
def VCache.value (c : VCache V) (n : Node) : Option V :=
  (c.data.find? (fun e => e.1 == n)).map (·.2)

def clearAtV (n : Node) (c : VCache V) : VCache V :=
  if n ∈ c.data.map (·.1) then
    let r := withDescs c.edges n
    { c with data := c.data.filter (fun e => !decide (e.1 ∈ r)),
             inputs := c.inputs.filter (fun x => !decide (x ∈ r)),
             edges := c.edges.filter (fun e => !decide (e.1 ∈ r) && !decide (e.2 ∈ r)) }
  else c

def VCache.enter (c : VCache V) (n : Node) : VCache V := { c with log := c.log ++ [n] }
def VCache.addEdge (c : VCache V) (p n : Node) : VCache V := { c with edges := c.edges ++ [(p, n)] }
def VCache.store (c : VCache V) (n : Node) (v : V) : VCache V := { c with data := c.data ++ [(n, v)] }

/-- `Executor.eval_node` with values: the formula of `n` runs, its callees are evaluated, the value
`f n (values of the callees)` is stored – whatever it is -/
def evalNodeV (f : Node → List (Option V) → V) (preds : Node → List Node) : Nat → Node → VCache V → VCache V
  | 0, _, c => c
  | fuel + 1, n, c =>
    if n ∈ c.data.map (·.1) then c
    else
      let c' := (preds n).foldl (fun c p => (evalNodeV f preds fuel p c).addEdge p n) (c.enter n)
      c'.store n (f n ((preds n).map c'.value))

/-- `set_value_from_key(key, value)` outside a formula -/
def setValueV (n : Node) (v : V) (c : VCache V) : VCache V :=
  let c1 := clearAtV n c
  { c1 with data := c1.data ++ [(n, v)], inputs := c1.inputs ++ [n] }

/-- one action of `Model.execute_actions`.  `'paste'`: the first loop asks for the value of every
node (`get_value_from_key`: evaluates it if it has none), the second assigns to each node the
value that was read – without looking at it.  (`default` stands for the value of a node that has
none after the first loop, which only happens when the call-depth bound is 0.) -/
def execActionV [Inhabited V] (f : Node → List (Option V) → V) (preds : Node → List Node) (fuel : Nat)
    (c : VCache V) : Action → VCache V
  | .doCalc ns => ns.foldl (fun c n => evalNodeV f preds fuel n c) c
  | .doPaste ns =>
    let c1 := ns.foldl (fun c n => evalNodeV f preds fuel n c) c
    ns.foldl (fun c n => setValueV n ((c1.value n).getD default) c) c1
  | .doClear ns => ns.foldl (fun c n => clearAtV n c) c

def executeV [Inhabited V] (f : Node → List (Option V) → V) (preds : Node → List Node) (fuel : Nat)
    (actions : List Action) (c : VCache V) : VCache V :=
  actions.foldl (execActionV f preds fuel) c

/-- a `'paste'` step that DOES look at the values (a model of the seeded change C16-mutG, not of
modelx): the values are read from the cache without evaluating, and an element whose value `isNone`
is skipped -/
def execActionSkipNone (isNone : V → Bool) (f : Node → List (Option V) → V) (preds : Node → List Node)
    (fuel : Nat) (c : VCache V) : Action → VCache V
  | .doCalc ns => ns.foldl (fun c n => evalNodeV f preds fuel n c) c
  | .doPaste ns =>
    ns.foldl (fun c' n => match c.value n with
      | some v => if isNone v then c' else setValueV n v c'
      | none => c') c
  | .doClear ns => ns.foldl (fun c n => clearAtV n c) c

def executeSkipNone (isNone : V → Bool) (f : Node → List (Option V) → V) (preds : Node → List Node)
    (fuel : Nat) (actions : List Action) (c : VCache V) : VCache V :=
  actions.foldl (execActionSkipNone isNone f preds fuel) c

/-! ### what the values are: direct evaluation

A model is a finite DAG of elements (`preds n`: the precedents the formula of `n` reads, the dependency
relation the plan is generated from) with a pure evaluation function: `f n vs` is the value of `n` when
its precedents have the values `vs` (`some v`; `none` = the precedent had NO value when the formula read
it – which the plan must never let happen).  So `f` reads its precedents only, by construction.
`'calc'` of a node (`evalNodeV`) stores `f n (values of the precedents in the current cache)`.

`direct f preds inp fuel n`: the value DIRECT evaluation gives `n` – asking modelx for `n` in a model that
holds the user inputs `inp` only (`inp n = some v`: the user assigned `v` to `n`; such an element is NOT
recomputed, everything is evaluated relative to them): the least fixed point of the evaluation equations
along the DAG, by recursion on the depth `fuel` (`none`: not determined within that depth; for a DAG with
topological order `ordered`, depth `ordered.length` determines every element – `direct_solves`). -/
def direct (f : Node → List (Option V) → V) (preds : Node → List Node) (inp : Node → Option V) :
    Nat → Node → Option V
  | 0, n => inp n
  | fuel + 1, n =>
    match inp n with
    | some v => some v
    | none => some (f n ((preds n).map (direct f preds inp fuel)))

/-- `D` solves the evaluation equations on the planned elements: each is `f` of its precedents' values -/
def Solves (f : Node → List (Option V) → V) (preds : Node → List Node) (ordered : List Node) (D : Node → V) : Prop :=
  ∀ n ∈ ordered, D n = f n ((preds n).map (fun p => some (D p)))

/-- every entry of the cache is the value `D` gives its element (user inputs: `D` is the assigned value) -/
def VCache.Cons (D : Node → V) (c : VCache V) : Prop := ∀ e ∈ c.data, e.2 = D e.1

/-- the three actions of one step of a plan, with values -/
def execStepV [Inhabited V] (f : Node → List (Option V) → V) (preds : Node → List Node) (fuel : Nat)
    (o : StepOut) (c : VCache V) : VCache V :=
  execActionV f preds fuel (execActionV f preds fuel (execActionV f preds fuel c (.doCalc o.block))
    (.doPaste o.paste)) (.doClear o.clear)

end MxModel.CalcSteps
