/-!
# Names: `is_valid_name` and `AutoNamer` of `modelx/core/util.py`

* `isValidName` – ASCII part of `str.isidentifier() and not keyword.iskeyword() and not
  startswith('_')`.  The keyword table is regenerated from the running interpreter
  (`Generated/Tables.lean`) and passed in.
* `AutoNamer.get_next(existing, prefix)` – increment the postfix until the candidate is
  not in `existing`.  The Python is an unbounded recursion; here the fuel is
  `existing.length`, which `nextName_fresh` (Proofs) shows is always enough.
-/
namespace MxModel.Names

def isIdStart (c : Char) : Bool := c.isAlpha || c == '_'
def isIdCont (c : Char) : Bool := c.isAlphanum || c == '_'

/-- ASCII identifier, not a keyword, not starting with an underscore. -/
def isValidName (keywords : List String) (s : String) : Bool :=
  match s.toList with
  | [] => false
  | c :: cs => isIdStart c && c != '_' && cs.all isIdCont && !(keywords.contains s)

/-- candidate produced for postfix `k` -/
def cand (pre base : String) (k : Nat) : String := pre ++ base ++ toString k

/-- `AutoNamer.get_next`: returns the new value of `__last_postfix` and the name. -/
def nextName (existing : List String) (pre base : String) : Nat → Nat → Nat × String
  | 0, last => (last + 1, cand pre base (last + 1))
  | fuel + 1, last =>
    if existing.contains (cand pre base (last + 1)) then
      nextName existing pre base fuel (last + 1)
    else (last + 1, cand pre base (last + 1))

def getNext (existing : List String) (pre base : String) (last : Nat) : Nat × String :=
  nextName existing pre base existing.length last

end MxModel.Names
