import MxModel.Proofs.IOSpecClosed
import MxModel.Proofs.IOKeys
import MxModel.Proofs.IOSessionInv
/-!
# C18 – an IOSpec lives exactly as long as a reference to its value

Property theorems only (lemmas: `Proofs/IOSpec*.lean`; model: `Kernels/IOSpec.lean`).  The model
is bug-faithful: four behaviours of modelx break the property.  Each is a decidable predicate on
(state, operation) – `trigCellsName`, `trigDoubleSpec`, `trigDirtyDelete`, `trigUpdateOnto` – and
`AllClean kw st ops` says that no operation of a history meets any of them.

Closed models are inside every quantifier: `close` only deletes the model's specs and takes it out
of the registry, its handles keep working, and the model performs every operation on a closed model
as on an open one (only handles of deleted spaces, and names of models/spaces that never existed,
are answered `dead` with the state unchanged - which is what `DeletedObjectError` does).  What
`close` promises – the IOManager holds nothing of a closed model – is `closed_models_hold_no_spec_partial`
(`new_pandas` through the handle of a closed model is refused since the repair of
C18-closed-model-new-spec; the former witness is a positive example below).

File locations: since the repair of C18-path-alias the io key is the lexically normalised path
(`normPath`: `./a.csv` = `sub/../a.csv` = `a.csv`), so the key IS the file below the model's folder
and `locations_distinct` holds at full strength; the former witness is a positive example below.  The full statements
are false of the model and of modelx: every `…_fails_…` theorem below is the negation of a full
statement, with the witness history that is also replayed on the implementation
(`corpus/C18/known-*.json`, known findings `C18-…`).

Five further defects found by this check were repaired in /repo (known_findings.json, status
fixed; witnesses `corpus/C18/fixed-*.json`).  Two of them were in the model: rebinding a name to
the object it already holds deleted the object's spec (aad9766), and the sheet setter accepted a
sheet-less spec next to another one (626845c).  The model follows the repaired code, so
`spec_survives_partial` no longer excludes the rebinding, `locations_distinct` holds for every
history without hypothesis, and the former negation witnesses are positive examples at the end
of this file.

`kw` is Python's keyword table (regenerated); the theorems hold for every table.
-/
namespace MxModel.C18
open MxModel.IOSpec

/-- **The statement on one state.**  For every model: `model.iospecs` never fails and is exactly
the set of specs registered in the IOManager for that model; every such spec's value is bound to
at least one reference of the model; no value has two specs; and `_valid_to_refs` lists, without
repetition and without empty entries, exactly the references bound to each non-Interface value. -/
structure IOInv (st : St) : Prop where
  listed : ∀ m, ∃ L, rmSpecs st m = .ok L ∧ ∀ σ, σ ∈ L ↔ (σ ∈ st.specs ∧ σ.group = m)
  bound : ∀ σ ∈ st.specs, ∃ r ∈ st.refs, r.owner.model = σ.group ∧ r.val = σ.val
  oneSpecPerValue : ∀ σ ∈ st.specs, ∀ τ ∈ st.specs, σ.group = τ.group → σ.val = τ.val → σ = τ
  v2rExact : ∀ m v r, r ∈ (alookup st.v2r (m, v)).getD [] ↔
      (r ∈ st.refs ∧ r.owner.model = m ∧ r.val = v ∧ v.tracked = true)
  v2rEntries : ∀ e ∈ st.v2r, e.2 ≠ [] ∧ e.2.Nodup

theorem ioInv_of_rinv {st : St} (h : RInv st) : IOInv st := by
  refine ⟨fun m => rmSpecs_exact h m, fun σ hσ => h.specRef σ hσ id, h.specVal, ?_, ?_⟩
  · intro m v r
    have hE := h.entry m v
    cases hl : alookup st.v2r (m, v) with
    | none =>
      rw [hl] at hE
      simp only [Option.getD_none, List.not_mem_nil, false_iff, not_and]
      intro hr hm hv ht
      have := hE r hr hm hv
      rw [ht] at this; cases this
    | some l =>
      rw [hl] at hE
      obtain ⟨_, _, h3, h4⟩ := hE
      simp only [Option.getD_some, h4 r, h3, and_true]
  · intro e he
    obtain ⟨k, l⟩ := e
    have hl := mem_alookup h.keys he
    have hE := h.entry k.1 k.2
    rw [show (k.1, k.2) = k from rfl, hl] at hE
    exact ⟨hE.1, hE.2.1⟩

/-- **spec_iff_referenced (partial: `AllClean`).**  After every finite history of operations –
creating models, spaces and cells, `new_pandas` (accepted or rejected), assignment of any value to
any name (new name, rebinding, a second name for a value, names of cells and spaces, invalid
names), deletion of references and of spaces, `update_pandas` in place and with a new object,
sheet and path changes, `del_spec`, `close`, on any model or space, open, closed, deleted or never
created – that avoids the four triggers, the statement holds (for every model, closed ones
included: a closed model has no spec, and whatever is created through its handles afterwards is
tracked like anything else). -/
theorem spec_iff_referenced_partial (kw : List String) (ops : List Op) (h : AllClean kw {} ops) :
    IOInv (run kw {} ops) :=
  ioInv_of_rinv (rinv_run kw ops {} rinv_empty h)

/-- one step, from any state in which the statement's invariant holds -/
theorem spec_iff_referenced_step (kw : List String) (st : St) (op : Op) (h : RInv st)
    (hc : clean st op = true) :
    IOInv (step kw st op) :=
  ioInv_of_rinv (rinv_step kw h hc)

/-- **A spec does not die before the last reference to its value (partial).**  After a clean
history, an operation other than `del_spec`/`close` that avoids the four triggers – in particular
every assignment, also of the object the name already holds – removes a spec only if afterwards no
reference of the model is bound to the spec's value. -/
theorem spec_survives_partial (kw : List String) (ops : List Op) (op : Op)
    (h : AllClean kw {} ops) (hc : clean (run kw {} ops) op = true) (hop : removesSpecs op = false) :
    ∀ σ ∈ (run kw {} ops).specs, (∀ τ ∈ (step kw (run kw {} ops) op).specs, τ.sid ≠ σ.sid) →
      ∀ r ∈ (step kw (run kw {} ops) op).refs, ¬ (r.owner.model = σ.group ∧ r.val = σ.val) := by
  obtain ⟨k1, k2, k5, k6⟩ := clean_parts hc
  exact spec_survives_step kw (rinv_run kw ops {} rinv_empty h) k1 k2 k5 k6 hop

/-- **rejected_creation_leaves_nothing** (full strength: every history, clean or not).  If
`new_pandas` raises – the file location is taken, the data is not a pandas object, the name is
invalid, a non-scalar cells, a space – the specs, the references, `_valid_to_refs` and the cells
are exactly as before. -/
theorem rejected_creation_leaves_nothing (kw : List String) (ops : List Op) (o : Owner)
    (n path : String) (csv : Bool) (sheet : Option String) (data : Val) (e : Rej)
    (he : (newPandas kw (run kw {} ops) o n path csv sheet data).2 = .error e) :
    (newPandas kw (run kw {} ops) o n path csv sheet data).1.specs = (run kw {} ops).specs ∧
    (newPandas kw (run kw {} ops) o n path csv sheet data).1.refs = (run kw {} ops).refs ∧
    (newPandas kw (run kw {} ops) o n path csv sheet data).1.v2r = (run kw {} ops).v2r ∧
    (newPandas kw (run kw {} ops) o n path csv sheet data).1.cells = (run kw {} ops).cells :=
  newPandas_rejected (sidOK_run kw ops {} ⟨by simp [sp], by simp [sp]⟩) he

/-- **locations_distinct** (full strength: every history, clean or not).  "Two specs never claim
the same file location": two different specs of one model under one io key – the lexically
normalised path, i.e. the file below the model's folder, however the path was spelt (`a.csv`,
`./a.csv`, `sub/../a.csv`) – are two sheets of one Excel file with different names (a csv file, and
a sheet-less spec, are never shared) – whatever was created, updated, deleted, moved by the path
setter, and whatever sheets were set. -/
theorem locations_distinct (kw : List String) (ops : List Op) : Loc (run kw {} ops).specs :=
  loc_run kw ops {} ⟨by simp [sp], by simp [sp]⟩ (by intro σ hσ; cases hσ)

/-- **close_releases (partial).**  After a clean history, closing an open or unknown model
succeeds, leaves no spec (hence no io) of that model in the IOManager, and the model is gone. -/
theorem close_releases_partial (kw : List String) (ops : List Op) (m : Nat) (h : AllClean kw {} ops) :
    (closeModel (run kw {} ops) m).2 = .ok () ∧
    (∀ σ ∈ (closeModel (run kw {} ops) m).1.specs, σ.group ≠ m) ∧
    m ∉ (closeModel (run kw {} ops) m).1.models :=
  closeModel_releases (rinv_run kw ops {} rinv_empty h) m

/-- **closed_models_hold_no_spec (partial).**  At every point of a clean history – not only right
after `close` – the IOManager holds no spec (hence no io) of any closed model, whatever was done
through the handles of closed models in between (assignments, deletions, `update_pandas`, a second
`close`, new spaces and cells; `new_pandas` is refused). -/
theorem closed_models_hold_no_spec_partial (kw : List String) (ops : List Op) (h : AllClean kw {} ops) :
    ∀ σ ∈ (run kw {} ops).specs, σ.group ∉ (run kw {} ops).closed := by
  intro σ hσ hin
  have := closedFree_run kw ops {} rinv_empty (by intro σ hσ; cases hσ) h σ hσ
  rw [List.contains_eq_mem, decide_eq_false_iff_not] at this
  exact this hin

/-! ## Spaces created WITH references: `new_space(refs=…)`, `UserSpace.copy` -/

/-- a structural operation (no `new_pandas`, deletion or `update_pandas`) meets no trigger -/
def Structural : Op → Prop
  | .newSpace _ _ _ | .newCells _ _ _ | .bind _ _ _ => True
  | _ => False

theorem structural_clean {op : Op} (h : Structural op) (st : St) : clean st op = true := by
  cases op <;> first | exact absurd h id | rfl

theorem allClean_of_structural (kw : List String) : ∀ (ops : List Op) (st : St),
    (∀ op ∈ ops, Structural op) → AllClean kw st ops
  | [], _, _ => trivial
  | op :: rest, st, h =>
    ⟨structural_clean (h op (List.mem_cons_self ..)) st,
     allClean_of_structural kw rest _ (fun o ho => h o (List.mem_cons_of_mem _ ho))⟩

theorem newSpaceRefsOps_structural (m s : Nat) (name : String) (refs : List (String × Val)) :
    ∀ op ∈ newSpaceRefsOps m s name refs, Structural op := by
  intro op hop
  simp only [newSpaceRefsOps, List.mem_cons, List.mem_map] at hop
  rcases hop with rfl | ⟨_, _, rfl⟩ <;> trivial

theorem copySpaceOps_structural (st : St) (m src s : Nat) (name : String) :
    ∀ op ∈ copySpaceOps st m src s name, Structural op := by
  intro op hop
  simp only [copySpaceOps, List.mem_append, List.mem_map] at hop
  rcases hop with h | ⟨_, _, rfl⟩
  · exact newSpaceRefsOps_structural _ _ _ _ op h
  · trivial

/-- **A composite is a history.**  What `new_space(refs=…)` / `copy` leave behind is the state after a prefix of
their expansion: all of it, or - the creation of the space refused - its first operation alone. -/
theorem composite_is_a_history (kw : List String) (st : St) (ops : List Op) :
    (runGuarded kw st ops).1 = run kw st ops ∨ (runGuarded kw st ops).1 = run kw st (ops.take 1) := by
  cases ops with
  | nil => left; rfl
  | cons op rest =>
    simp only [runGuarded]
    cases hres : stepR kw st op with
    | mk st1 r =>
      have h1 : step kw st op = st1 := by simp [step, hres]
      cases r with
      | ok u => left; simp [run, List.foldl_cons, h1]
      | error e => right; simp [run, h1]

theorem rinv_runGuarded (kw : List String) {st : St} (h : RInv st) {ops : List Op}
    (hs : ∀ op ∈ ops, Structural op) : RInv (runGuarded kw st ops).1 := by
  rcases composite_is_a_history kw st ops with e | e <;> rw [e]
  · exact rinv_run kw ops st h (allClean_of_structural kw ops st hs)
  · exact rinv_run kw (ops.take 1) st h
      (allClean_of_structural kw _ st (fun o ho => hs o (List.mem_of_mem_take ho)))

/-- **A space created with references registers each of them** (`new_space(name, refs=…)`).  From any state in
which the statement's invariant holds - in particular after any clean history - the statement holds after the
creation, whatever the mapping binds: several names to ONE object (each is listed under the object in
`_valid_to_refs`), objects that have an IOSpec, Interfaces, objects bound elsewhere in the model. -/
theorem created_with_refs_keeps_statement (kw : List String) {st : St} (h : RInv st) (m s : Nat) (name : String)
    (refs : List (String × Val)) :
    IOInv (runGuarded kw st (newSpaceRefsOps m s name refs)).1 :=
  ioInv_of_rinv (rinv_runGuarded kw h (newSpaceRefsOps_structural m s name refs))

/-- **A copy of a space registers the references it is created with** (`source.copy(model, name)`). -/
theorem copied_space_keeps_statement (kw : List String) {st : St} (h : RInv st) (m src s : Nat) (name : String) :
    IOInv (copySpace kw st m src s name).1 := by
  unfold copySpace
  split
  · exact ioInv_of_rinv h
  · exact ioInv_of_rinv (rinv_runGuarded kw h (copySpaceOps_structural st m src s name))

/-- the twins of a created space: `S1.x` has an IOSpec; `S2` is created with `x` and `y` both bound to that
object; then `S1.x` and `S2.y` are deleted - the spec lives, `S2.x` still holds the value; it dies with `S2.x` -/
def twins : List Op :=
  [.newModel 0, .newSpace 0 1 "S1", .newPandas ⟨0, 1⟩ "x" "a.csv" true none (.df 0)] ++
  newSpaceRefsOps 0 2 "S2" [("x", .df 0), ("y", .df 0)] ++ [.del ⟨0, 1⟩ "x", .del ⟨0, 2⟩ "y"]

example : AllClean [] {} twins := by decide +kernel
example : ((run [] {} (twins.take 6)).v2r.map (fun e => (e.1, e.2.map (fun r => (r.owner.space, r.name))))) =
    [((0, .df 0), [(1, "x"), (2, "x"), (2, "y")])] := by decide +kernel
example : ((run [] {} twins).specs.map (·.val), (run [] {} twins).refs.map (fun r => (r.owner.space, r.name))) =
    ([.df 0], [(2, "x")]) := by decide +kernel
example : (run [] {} (twins ++ [.del ⟨0, 2⟩ "x"])).specs = [] := by decide +kernel
example : ((copySpace [] (run [] {} (twins.take 6)) 0 2 3 "S3").1.v2r.map (fun e => e.2.map (fun r => (r.owner.space, r.name)))) =
    [[(1, "x"), (2, "x"), (2, "y"), (3, "x"), (3, "y")]] := by decide +kernel

/-! ## The registry of file objects: relative and absolute paths (`Kernels/IOKeys.lean`) -/

/-- **io_keys_unique** (every history of creations, path changes – relative→relative,
relative→absolute, absolute→relative, absolute→absolute, accepted or refused – and removals, from
any models): no two file objects are registered under one key, and none twice. -/
theorem io_keys_unique (ops : List IOKeys.Op) :
    (∀ a ∈ (IOKeys.run {} ops).ios, ∀ b ∈ (IOKeys.run {} ops).ios, a.group = b.group → a.path = b.path → a = b) ∧
    (∀ a ∈ (IOKeys.run {} ops).ios, ∀ b ∈ (IOKeys.run {} ops).ios, a.id = b.id → a = b) :=
  ⟨(IOKeys.inv_run ops {} ⟨by simp, by simp, by simp⟩).keyUnique,
   (IOKeys.inv_run ops {} ⟨by simp, by simp, by simp⟩).idUnique⟩

/-- **io_keys_are_locations (partial: no path change from an absolute to a relative path).**  The key
a file object is registered under IS the file it is written to – an absolute path in the
session-wide group, a relative path in the group of its model (the file below that model's folder) –
after every history, however files are created and moved.  With `io_keys_unique`: keys and file
locations are in bijection, through the path setter too; two file objects never denote one file. -/
theorem io_keys_are_locations_partial (ops : List IOKeys.Op) (h : IOKeys.NoAbsToRel {} ops) :
    ∀ a ∈ (IOKeys.run {} ops).ios, a.group.isNone = IOKeys.isAbs a.path := by
  intro a ha
  have := IOKeys.wellKeyed_run ops {} (by simp) h a ha
  simpa [IOKeys.Io.wellKeyed] using this

/-- the path setter from an absolute to a relative path leaves the file in the session-wide group
(recorded finding C18-absolute-io-shared): a second file object under the same relative path in the
model's own group is then accepted – two file objects, one file -/
theorem io_keys_are_locations_fails_abs_to_rel :
    ¬ ∀ (ops : List IOKeys.Op), ∀ a ∈ (IOKeys.run {} ops).ios, a.group.isNone = IOKeys.isAbs a.path := by
  intro h
  have := h [.claim 0 "/t/a.csv", .move 0 "a.csv", .claim 0 "a.csv"] ⟨0, none, "a.csv"⟩ (by decide +kernel)
  revert this; decide +kernel

/-- non-vacuity: all four kinds of move, a refused move onto a key in use, creations on the
destinations afterwards from the same and from another model -/
def keyDemo : List IOKeys.Op :=
  [.claim 0 "a.csv", .claim 0 "sub/../b.xlsx", .move 0 "/t/M0/./c.csv", .claim 1 "/t/M0/c.csv",
   .claim 0 "a.csv", .move 1 "/t/M0/c.csv", .move 0 "/t/d.csv", .move 1 "x/b.xlsx", .claim 1 "b.xlsx", .drop 0]

example : IOKeys.NoAbsToRel {} keyDemo := by decide +kernel
example : (IOKeys.run {} keyDemo).ios.map (fun i => (i.id, i.group, i.path)) =
    [(2, some 0, "a.csv"), (1, some 0, "x/b.xlsx"), (3, some 1, "b.xlsx")] := by decide +kernel
example : ((IOKeys.stepR (IOKeys.run {} (keyDemo.take 3)) (.claim 1 "/t/M0/c.csv")).2,
    (IOKeys.stepR (IOKeys.run {} (keyDemo.take 5)) (.move 1 "/t/M0/c.csv")).2) =
    (.existing 0, .refused) := by decide +kernel

/-! ## The full statements fail: one witness per known finding -/

def s1 : Owner := ⟨0, 1⟩
def setup : List Op := [.newModel 0, .newSpace 0 1 "S"]

/-- C18-cells-name -/
def wCellsName : List Op :=
  setup ++ [.newCells s1 "c" true, .newPandas s1 "c" "a.csv" true none (.df 0)]
/-- C18-double-spec -/
def wDoubleSpec : List Op :=
  setup ++ [.newPandas s1 "x" "a.csv" true none (.df 0), .newPandas s1 "y" "b.csv" true none (.df 0)]
/-- C18-del-space -/
def wDelSpace : List Op :=
  setup ++ [.newPandas s1 "x" "a.csv" true none (.df 0), .del ⟨0, 0⟩ "S"]
/-- C18-update-onto-referenced -/
def wUpdateOnto : List Op :=
  setup ++ [.newPandas s1 "x" "a.csv" true none (.df 0), .bind s1 "y" (.df 1), .update 0 (.df 0) (.df 1)]

/-- `new_pandas` onto the name of a scalar cells: accepted, a spec is registered, no reference -/
theorem full_fails_cells_name : ¬ ∀ (kw : List String) (ops : List Op), IOInv (run kw {} ops) := by
  intro h
  have := (h [] wCellsName).bound
  revert this; decide +kernel

/-- `new_pandas` twice for one value: two specs for it, `iospecs` shows one -/
theorem full_fails_double_spec : ¬ ∀ (kw : List String) (ops : List Op), IOInv (run kw {} ops) := by
  intro h
  have := (h [] wDoubleSpec).oneSpecPerValue
  revert this; decide +kernel

/-- `del model.S` while `S.x` holds a value with a spec: the spec stays, bound to nothing -/
theorem full_fails_del_space : ¬ ∀ (kw : List String) (ops : List Op), IOInv (run kw {} ops) := by
  intro h
  have := (h [] wDelSpace).bound
  revert this; decide +kernel

/-- `update_pandas(old, new)` with `new` already referenced: its entry is overwritten, `S.y` is no
longer listed for the value it holds -/
theorem full_fails_update_onto_referenced :
    ¬ ∀ (kw : List String) (ops : List Op), IOInv (run kw {} ops) := by
  intro h
  have := (h [] wUpdateOnto).v2rExact 0 (.df 1) ⟨1, s1, "y", .df 1⟩
  revert this; decide +kernel

/-- after `new_pandas` twice for one value, `close` leaves a spec (and its io) of the model behind -/
theorem close_releases_fails_double_spec :
    ¬ ∀ (kw : List String) (ops : List Op) (m : Nat),
      ∀ σ ∈ (closeModel (run kw {} ops) m).1.specs, σ.group ≠ m := by
  intro h
  have := h [] wDoubleSpec 0
  revert this; decide +kernel

/-- fixed C18-closed-model-new-spec -/
def wClosedNew : List Op :=
  setup ++ [.close 0, .newPandas s1 "x" "a.csv" true none (.df 0), .close 0]
/-- fixed C18-path-alias -/
def wPathAlias : List Op :=
  setup ++ [.newPandas s1 "x" "a.csv" true none (.df 0), .newPandas s1 "y" "sub/../a.csv" true none (.df 1)]

/-- fixed C18-closed-model-new-spec: `new_pandas` through the handle of a space of a closed model
is refused, nothing is left -/
example : (match (stepR [] (run [] {} (wClosedNew.take 3)) (wClosedNew.getD 3 (.close 0))).2 with
    | .error .value => true
    | _ => false) = true ∧ (run [] {} wClosedNew).specs = [] := by decide +kernel

/-- fixed C18-path-alias: `sub/../a.csv` is the key `a.csv`, the second csv spec is refused -/
example : (match (stepR [] (run [] {} (wPathAlias.take 3)) (wPathAlias.getD 3 (.close 0))).2 with
    | .error .value => true
    | _ => false) = true ∧ (run [] {} wPathAlias).specs.map (·.path) = ["a.csv"] := by decide +kernel

/-! ## Non-vacuity -/

/-- a clean history with sharing across spaces and models, rebinding, deletion, both forms of
`update_pandas`, a rejected creation (location taken), a sheet change and `close` -/
def demo : List Op :=
  setup ++ [.newSpace 0 2 "T", .newModel 1, .newSpace 1 1 "S",
    .newPandas s1 "x" "b.xlsx" false (some "s1") (.df 0),
    .bind ⟨0, 2⟩ "y" (.df 0), .bind ⟨0, 0⟩ "z" (.df 0), .bind ⟨1, 1⟩ "x" (.df 0),
    .newPandas ⟨0, 2⟩ "w" "b.xlsx" false none (.df 1),           -- rejected: sheet-less next to s1
    .newPandas ⟨0, 2⟩ "w" "b.xlsx" false (some "s2") (.df 1),
    .bind s1 "x" (.df 1),                                        -- rebinding; df 0 still has y, z
    .del ⟨0, 2⟩ "y", .update 0 (.df 0) (.df 0), .update 0 (.df 0) (.df 2),
    .setSheet 0 (.df 2) (some "s3"),
    .del ⟨0, 0⟩ "z",                                             -- last reference: spec of df 2 goes
    .del ⟨0, 2⟩ "w", .close 1]

example : AllClean [] {} demo := by decide +kernel
example : ((run [] {} demo).specs.map (fun σ => (σ.val, σ.path, σ.sheet))) =
    [(.df 1, "b.xlsx", some "s2")] := by decide +kernel
example : IOInv (run [] {} demo) := spec_iff_referenced_partial [] demo (by decide +kernel)
example : Loc (run [] {} demo).specs := locations_distinct [] demo
/-- the rejected creation of `demo` is really rejected -/
example : (match (stepR [] (run [] {} (demo.take 9)) (demo.getD 9 (.close 0))).2 with
    | .error .value => true
    | _ => false) = true := by
  decide +kernel
/-- the last deletion of `z` really removes a spec, and no reference to its value is left -/
example : ((run [] {} (demo.take 16)).specs.length, (run [] {} (demo.take 17)).specs.length) = (2, 1) := by
  decide +kernel
example : (closeModel (run [] {} demo) 0).2 = .ok () := (close_releases_partial [] demo 0 (by decide +kernel)).1

/-- a clean history that goes on through the handles of a closed model (assignment, a second name,
`update_pandas`, deletion, a new space, closing again), uses three spellings of one path (the
second `new_pandas` is refused: `./b.xlsx` IS the key `b.xlsx`), and moves a file with the path
setter (refused onto a key in use, accepted onto a free one) -/
def demo2 : List Op :=
  setup ++ [.newModel 1, .newSpace 1 1 "S",
    .newPandas s1 "x" "b.xlsx" false none (.df 0),
    .newPandas s1 "y" "./b.xlsx" false none (.df 1),             -- rejected: same key, sheet-less
    .newPandas s1 "y" "sub/./c.csv" true none (.df 1),
    .setPath 0 (.df 1) "b.xlsx",                                  -- rejected: key in use
    .setPath 0 (.df 1) "sub//d.csv",
    .close 0, .bind s1 "z" (.df 0), .bind ⟨0, 0⟩ "w" (.df 0), .update 0 (.df 0) (.df 2),
    .del s1 "z", .newSpace 0 2 "T", .bind ⟨0, 2⟩ "x" (.df 3), .close 0,
    .newPandas ⟨1, 1⟩ "x" "b.xlsx" false none (.df 0)]

example : AllClean [] {} demo2 := by decide +kernel
example : ((run [] {} (demo2.take 9)).specs.map (fun σ => (σ.val, σ.path)),
    (run [] {} demo2).specs.map (fun σ => (σ.group, σ.val, σ.path)), (run [] {} demo2).closed) =
    ([(.df 0, "b.xlsx"), (.df 1, "sub/d.csv")], [(1, .df 0, "b.xlsx")], [0]) := by decide +kernel
example : ((run [] {} demo2).refs.filter (fun r => r.owner.model = 0)).map (fun r => (r.owner.space, r.name, r.val)) =
    [(1, "y", .df 1), (0, "w", .df 2), (1, "x", .df 2), (2, "x", .df 3)] := by decide +kernel
example : IOInv (run [] {} demo2) := spec_iff_referenced_partial [] demo2 (by decide +kernel)
example : ∀ σ ∈ (run [] {} demo2).specs, σ.group ∉ (run [] {} demo2).closed :=
  closed_models_hold_no_spec_partial [] demo2 (by decide +kernel)

/-! ## The repaired defects as positive examples -/

/-- fixed C18-rebind-same -/
def wRebindSame : List Op :=
  setup ++ [.newPandas s1 "x" "a.csv" true none (.df 0), .bind s1 "x" (.df 0),
            .bind s1 "y" (.df 1), .newPandas s1 "y" "b.csv" true none (.df 1)]
/-- fixed C18-sheet-setter -/
def wSheet : List Op :=
  setup ++ [.newPandas s1 "x" "b.xlsx" false (some "s1") (.df 0),
            .newPandas s1 "y" "b.xlsx" false (some "s2") (.df 1)]

/-- `S.x = df` while `S.x` is the only reference to `df` keeps the spec of `df` (the entry then
lists the new reference); so does `new_pandas` onto a name that already holds the object -/
example : AllClean [] {} wRebindSame := by decide +kernel
example : ((run [] {} (wRebindSame.take 3)).specs.map (·.sid), (run [] {} (wRebindSame.take 4)).specs.map (·.sid),
    (run [] {} wRebindSame).specs.map (fun σ => (σ.sid, σ.val))) = ([0], [0], [(0, .df 0), (1, .df 1)]) := by
  decide +kernel
example : (run [] {} (wRebindSame.take 4)).v2r.map (fun e => (e.1, e.2.map (·.rid))) = [((0, .df 0), [1])] := by
  decide +kernel
/-- the sheet setter refuses `None` next to another spec of the workbook, and a name in use -/
example : (match (stepR [] (run [] {} wSheet) (.setSheet 0 (.df 1) none)).2,
      (stepR [] (run [] {} wSheet) (.setSheet 0 (.df 1) (some "s1"))).2,
      (stepR [] (run [] {} wSheet) (.setSheet 0 (.df 1) (some "s3"))).2 with
    | .error .value, .error .value, .ok () => true
    | _, _, _ => false) = true := by decide +kernel
/-- alone in its workbook a spec may drop its sheet name -/
example : (match (stepR [] (run [] {} (wSheet.take 3)) (.setSheet 0 (.df 0) none)).2 with
    | .ok () => true
    | _ => false) = true := by decide +kernel

/-! ## Absolute paths: one file object per path for the whole session (`Kernels/IOSession.lean`)

The recorded finding C18-absolute-io-shared as the hypothesis it is: `IOSession.AbsPrivate st m m'` - no file object
of the session-wide group `None` serves both `m` and `m'`. -/

/-- **A spec survives what other models do** (here: their `close`) - `Model.iospecs` of `m'`, with the files' keys,
is unchanged.  Partial: `AbsPrivate` (C18-absolute-io-shared). -/
theorem spec_survives_other_close_partial (ops : List IOSession.Op) (m m' : Nat) (hne : m ≠ m')
    (hpriv : IOSession.AbsPrivate (IOSession.run {} ops) m m') :
    IOSession.specsOf (IOSession.closeModel (IOSession.run {} ops) m) m' = IOSession.specsOf (IOSession.run {} ops) m' :=
  (IOSession.closeModel_frame _ m m' hne (IOSession.reachable_inv ops).det hpriv).1

/-- the negation: one object referenced from two models, its file under an absolute path - `get_spec_from_value`
of the second model finds the first model's spec in group `None`, and closing the second deletes it -/
example : ¬ (∀ (ops : List IOSession.Op) (m m' : Nat), m ≠ m' →
    IOSession.specsOf (IOSession.closeModel (IOSession.run {} ops) m) m' = IOSession.specsOf (IOSession.run {} ops) m') := by
  intro h
  have := h [.newModel, .newModel, .newSpec 0 "S.a" ⟨true, "x/a.csv"⟩ false none 1, .bind 1 "S.a" 1] 1 0 (by decide)
  revert this
  decide +kernel

/-- two models with sheets in one external workbook ARE a state of the session (the second `new_pandas` is
accepted: one file object, two specs, two models) -/
example : IOSession.sharedPath.ios.length = 1 ∧
    (IOSession.specsOf IOSession.sharedPath 0).length = 1 ∧ (IOSession.specsOf IOSession.sharedPath 1).length = 1 := by
  decide +kernel

end MxModel.C18
