import MxModel.Props.C01
import MxModel.Props.C06
import MxModel.Proofs.ExecCertRunOps
import MxModel.Proofs.ExecCertRecalcOp
import MxModel.Proofs.ExecInputsRun
import MxModel.Proofs.ExecResolveSM
import MxModel.Proofs.ExecCertExamples
import MxModel.Proofs.EditMachineInputs
import MxModel.Proofs.EditMachineGlobalsExamples
import MxModel.Proofs.EditMachineRenameExamples
/-!
# C02 – no stale value survives any edit

What is proved here, for the value layer's mechanism model and for every formula behaviour:

* `den_local` – **answers depend only on current definitions reachable from the query**: the
  uncached denotation of an element is determined by the formulas, flags and inputs of the
  elements in any call-closed set containing it and by the references those formulas read;
  an edit outside that set changes nothing for it.
* `no_stale_after_edit` – the reduction of the property to its core obligation: if, after an
  edit `env ↦ env'` (any kind: values, references, formulas, flags, members), every element that
  *survives* the clearing lies in a call-closed set the edit did not touch, then every held
  value is the denotation under the **new** definitions, and every later evaluation returns
  the value a model that only saw the edits returns (`Den env'`), whatever was cached before.
* for value edits the clearing is exact (C06: `set_value_exact`, `clear_at_exact`).

**Mechanism level** (second half of this file; proofs in `Proofs/ExecCert*.lean`): the clearing
that modelx performs for an edit – namespace notification of the observer cells then
`clear_attr_referrers` for a reference edit (`St.setRef`, `St.delRef`), `clear_obj` for a formula
or flag edit (`St.setFormula`), `clear_with_descs` for a value edit (`St.setValue`,
`St.clearValueAt`) – *discharges* the obligation `hsurv` of `no_stale_after_edit`:
`no_stale_after_ref_edit`, `no_stale_after_ref_delete`, `no_stale_after_formula_edit`,
`no_stale_after_value_edit` conclude `Good env' …` for the edited environment with **no**
hypothesis about the survivors, from the certificate invariant `CI`, which every reachable
state has (`reachable_ci`: evaluations – successful or failed –, value edits, reference edits,
formula and flag edits, cells deleted and created, in any interleaving; with the recalculation option
`mx.set_recalc(True)` – the fourteenth operation, the assignment that recomputes the former leaf
dependents at once –: `recalc_keeps_certificates`, `reachable_ci_with_recalc`, and
`recalc_history_is_a_lazy_history`, by which every statement about the reachable states of the
thirteen-operation language holds with the option on).  Structural edits:
`no_stale_after_batch_edit` (a SET of cells is redefined at once – formulas, flags, existence –
and the clearing is the namespace notification, which keeps inputs), with its instances
`no_stale_after_cell_delete` (`St.delCell`) and `no_stale_after_cell_create` (`St.newCell`); a call
of a cells that does not exist fails in the caller (`Env.alive`, `evalNode`, `calleeAt`).  Hypotheses, all named and visible:
`Ranked env lt` (terminating programs, the regime of C06/C08), `NoCatchEnv env` (no formula turns
a failure into a value: known finding C02-caught-failure-untracked, `full_statement_fails_catch`
below), `Scoped env` (static scoping: a by-name read is of a reference of the formula's own
space, which is how Python resolves globals), and – only for the corollary about what later
evaluations *return*, inherited from C01 – `LimitNotCaughtInThisCall` (C01).

**Structural edits** (last section; model `Edit/Machine.lean`, proofs `Proofs/EditMachine*.lean`): the
combined machine – structural mechanism model × executor, the definitions READ OFF the structure,
every structural operation followed by the clearing the code performs for it – keeps the invariant
through every operation (`machine_keeps_ci`; the premise "which cells are notified" of
`no_stale_in_sub_spaces_after_member_edit` is derived: `clearing_covers_every_change`), hence
`no_stale_value_after_any_structural_history` and `live_equals_edits_only`.

What is **not** a Lean theorem: model-level references, object-valued references, parametrised
spaces, formulas with handlers – decided by the
implementation-only oracle (live model against a model to which only the edits were applied, after
every evaluation) and by the small-scope exhaustive enumeration of single edits.  The mechanism model functions the theorems are about
are tied to the code by the value-layer correspondence of this property's check
(`harness/mxh/props/c02.py`: held values, trace graph and reference graph after every
operation of generated histories with reference, formula, flag and value edits).
-/
namespace MxModel.C02
open MxModel.Exec

/-- all calls a behaviour can make, on any path and whatever callees return, go into `C` -/
def CallsIn (C : Node → Prop) : Prog → Prop
  | .ret _ => True
  | .raise _ => True
  | .reraise _ => True
  | .read _ _ k => ∀ v, CallsIn C (k v)
  | .call m k => C m ∧ ∀ r, CallsIn C (k r)

/-- all references a behaviour can read are in `R` -/
def ReadsIn (R : RefId → Prop) : Prog → Prop
  | .ret _ => True
  | .raise _ => True
  | .reraise _ => True
  | .read _ r k => R r ∧ ∀ v, ReadsIn R (k v)
  | .call _ k => ∀ r, ReadsIn R (k r)

theorem denoteBody_local (env env' : Env) (f g : Node → Res × Bool) (C : Node → Prop) (R : RefId → Prop)
    (hfg : ∀ n, C n → f n = g n) (hrefs : ∀ r, R r → env'.refs r = env.refs r)
    (halive : ∀ n, C n → env'.alive n.1 = env.alive n.1) :
    ∀ p : Prog, CallsIn C p → ReadsIn R p → denoteBody env' g p = denoteBody env f p := by
  intro p
  induction p with
  | ret v => intro _ _; rfl
  | raise e => intro _ _; rfl
  | reraise e => intro _ _; rfl
  | read a r k ih =>
    intro hc hr
    simp only [CallsIn, ReadsIn] at hc hr
    simp only [denoteBody, hrefs r hr.1]
    exact ih _ (hc _) (hr.2 _)
  | call n k ih =>
    intro hc hr
    simp only [CallsIn, ReadsIn] at hc hr
    simp only [denoteBody, calleeAt, ← hfg n hc.1, halive n hc.1]
    rw [ih _ (hc.2 _) (hr _)]

/-- **Locality.**  If `C` is closed under the calls of the (old) formulas, and the edit leaves
the formulas, flags and inputs of `C` and the references read from `C` alone, then every
element of `C` has the same denotation before and after the edit. -/
theorem den_local (env env' : Env) (inp inp' : Node → Option Val) (C : Node → Prop) (R : RefId → Prop)
    (hclosed : ∀ n, C n → CallsIn C (env.formula n) ∧ ReadsIn R (env.formula n))
    (hform : ∀ n, C n → env'.formula n = env.formula n)
    (hcached : ∀ n, C n → env'.cached n.1 = env.cached n.1)
    (hnone : ∀ n, C n → env'.allowNone n.1 = env.allowNone n.1)
    (hinp : ∀ n, C n → inp' n = inp n)
    (hrefs : ∀ r, R r → env'.refs r = env.refs r)
    (halive : ∀ n, C n → env'.alive n.1 = env.alive n.1) :
    ∀ (d : Nat) (n : Node), C n → denoteN env' inp' d n = denoteN env inp d n := by
  intro d
  induction d with
  | zero => intro n _; rfl
  | succ d ih =>
    intro n hn
    simp only [denoteN, hcached n hn, hinp n hn, hform n hn]
    have hb := denoteBody_local env env' (denoteN env inp d) (denoteN env' inp' d) C R
      (fun m hm => (ih m hm).symm) hrefs halive (env.formula n) (hclosed n hn).1 (hclosed n hn).2
    rw [hb]
    have hck : ∀ r, checkNone env' n.1 r = checkNone env n.1 r := by
      intro r; unfold checkNone; rw [hcached n hn, hnone n hn]
    rw [hck]

/-- **No stale value survives an edit whose clearing covers what it touched.**  `s'` is the
state after the edit; every element it still holds was held before and lies in a
call-closed set `C` the edit did not touch.  Then all held values are denotations under the
*new* definitions – and so (C01) is every value any later evaluation returns. -/
theorem no_stale_after_edit (env env' : Env) (inp inp' : Node → Option Val) (s s' : St)
    (C : Node → Prop) (R : RefId → Prop)
    (hg : Good env inp s)
    (hsurv : ∀ m v, env'.cached m.1 = true → lookup s'.data m = some v →
      lookup s.data m = some v ∧ C m)
    (hinputs : ∀ m v, env'.cached m.1 = true → inp' m = some v → lookup s'.data m = some v)
    (hclosed : ∀ n, C n → CallsIn C (env.formula n) ∧ ReadsIn R (env.formula n))
    (hform : ∀ n, C n → env'.formula n = env.formula n)
    (hcached : ∀ n, C n → env'.cached n.1 = env.cached n.1)
    (hnone : ∀ n, C n → env'.allowNone n.1 = env.allowNone n.1)
    (hinp : ∀ n, C n → inp' n = inp n)
    (hrefs : ∀ r, R r → env'.refs r = env.refs r)
    (halive : ∀ n, C n → env'.alive n.1 = env.alive n.1) :
    Good env' inp' s' := by
  constructor
  · intro m v hc hl
    obtain ⟨hold, hC⟩ := hsurv m v hc hl
    have hc0 : env.cached m.1 = true := by rw [← hcached m hC]; exact hc
    obtain ⟨d, hd⟩ := hg.sound m v hc0 hold
    exact ⟨d, by rw [den_local env env' inp inp' C R hclosed hform hcached hnone hinp hrefs halive d m hC]; exact hd⟩
  · exact hinputs

/-- …hence a later evaluation in the edited model returns the denotation under the new
definitions – the value a model that only saw the edits returns (partial:
`LimitNeverCaught`, as in C01). -/
theorem later_answers_depend_only_on_current_definitions_partial (env' : Env)
    (inp' : Node → Option Val) (s' : St) (n : Node) (v : Val)
    (hg : Good env' inp' s') (hlim : LimitNotCaughtInThisCall env' n s')
    (hv : (evalTop env' n s').1 = .ok v) : Den env' inp' n (.ok v) :=
  (C01.eval_value_is_denotation_partial env' inp' n s' hg hlim).1 v hv

/-! Non-vacuity: in the program of C08, `c0(7)` is alone in its call-closed set and reads only
reference 0; changing the formula of `c2` leaves its denotation untouched. -/
example : CallsIn (fun n => n = (0, [.int 7])) (C08.gEnv.formula (0, [.int 7])) ∧
    ReadsIn (fun r => r = 0) (C08.gEnv.formula (0, [.int 7])) := by
  simp [C08.gEnv, C08.gCells, formulaOf, compile, arith, CallsIn, ReadsIn]
  constructor <;> intro o <;> cases o with
    | none => simp [CallsIn, ReadsIn]
    | some v => cases v <;> simp [CallsIn, ReadsIn]

/-! ## Mechanism level: the clearing modelx performs discharges the obligation

The regime `WF`, the environment updates, the operation language `Op` / `step` / `run` /
`Admissible` and the class `tableEnv` are defined in `Proofs/ExecCertRunOps.lean`. -/

/-- **T1** – a top-level evaluation (of an element of a cells that exists: a handle of a deleted
cells raises `DeletedObjectError` before the executor is reached), successful or failed, keeps
the invariant. -/
theorem eval_keeps_certificates (env : Env) (lt : Node → Node → Prop) (ho : StrictOrder lt)
    (hw : WF env lt) (s : St) (n : Node) (hn : env.alive n.1 = true) (h : CI env lt s) :
    CI env lt (evalTop env n s).2 :=
  evalTop_ci ho hw.ranked hw.noCatch n hn h

/-- **T2** – certificates imply soundness: every held value is the uncached denotation under
the current definitions and the current inputs. -/
theorem certificates_sound (env : Env) (lt : Node → Node → Prop) (s : St) (h : CI env lt s) :
    Good env (inpOf s) s := h.good

/-- **T3 – no stale value survives a reference edit** (`space.r = v`, creating or changing the
reference): after the clearing modelx performs, *every* value still held is the denotation under
the NEW definitions.  No hypothesis about the survivors. -/
theorem no_stale_after_ref_edit (env : Env) (lt : Node → Node → Prop) (hw : WF env lt) (s : St)
    (h : CI env lt s) (r : RefId) (v : Val) :
    CI (env.withRef r (some v)) lt (s.setRef env r) ∧
    Good (env.withRef r (some v)) (inpOf (s.setRef env r)) (s.setRef env r) :=
  have := setRef_ci h hw.scoping hw.noCatch (refEdit_withRef env r (some v))
  ⟨this, this.good⟩

/-- …and the deletion of a reference (`del space.r`). -/
theorem no_stale_after_ref_delete (env : Env) (lt : Node → Node → Prop) (hw : WF env lt) (s : St)
    (h : CI env lt s) (r : RefId) (hex : (env.refs r).isSome = true) :
    CI (env.withRef r none) lt (s.delRef env r) ∧
    Good (env.withRef r none) (inpOf (s.delRef env r)) (s.delRef env r) :=
  have := delRef_ci h hw.scoping hw.noCatch (refEdit_withRef env r none) hex
  ⟨this, this.good⟩

/-- **T4 – …a formula or cache-flag edit** (`cells.formula = f`, `cells.is_cached = b`: the two
edits of one cells' definition that modelx ACCOMPANIES with `clear_obj(cells)`, `St.setFormula`).
The theorem is about the clearing, not about the edit: whatever changes in the definition of cells
`c` (`CellEdit` lets formula, flag and `allow_none` of `c` differ), if `clear_obj(c)` is performed
the invariant holds for the new definitions.  It does NOT say that modelx performs that clearing
for every such change: the `allow_none` setter (`base.py`) clears nothing – an `allow_none` edit is
not among C02's edits and is not covered (a held `None` stays where a model that saw only the edit
raises `NoneReturnedError`); histories do not change `allow_none` after an evaluation. -/
theorem no_stale_after_formula_edit (env env' : Env) (lt : Node → Node → Prop) (s : St)
    (h : CI env lt s) (c : CellId) (hed : CellEdit env env' c) :
    CI env' lt (s.setFormula c) ∧ Good env' (inpOf (s.setFormula c)) (s.setFormula c) :=
  have := setFormula_ci h hed
  ⟨this, this.good⟩

/-- **T4 – …a value edit** (assignment; `clear_with_descs`, exact by C06): all held values are
denotations w.r.t. the NEW inputs. -/
theorem no_stale_after_value_edit (env : Env) (lt : Node → Node → Prop) (s : St) (h : CI env lt s)
    (n : Node) (v : Val) (hc : env.cached n.1 = true) (hn : env.alive n.1 = true) :
    CI env lt (s.setValue env n v).1 ∧
    Good env (inpOf (s.setValue env n v).1) (s.setValue env n v).1 :=
  have := setValue_ci h n v hc hn
  ⟨this, this.good⟩

theorem no_stale_after_clear (env : Env) (lt : Node → Node → Prop) (s : St) (h : CI env lt s)
    (n : Node) : CI env lt (s.clearValueAt n true) ∧
    Good env (inpOf (s.clearValueAt n true)) (s.clearValueAt n true) :=
  have := clearValueAt_ci h n true
  ⟨this, this.good⟩

/-! ### structural edits: the namespace of a set of cells changes -/

/-- **T6 – a SET of cells is redefined at once, and the clearing is the namespace notification**
(the batch generalisation of T4, whose clearing is `clear_obj`).  Like T4 it is a statement about
the clearing: IF the cells in `L` are notified, the invariant holds for any `env'` that differs from
`env` at the cells in `C` only – there arbitrarily: formula, cache flag, `allow_none`, existence
(`BatchEdit`; which edits modelx accompanies with which notification is the tie, and an
`allow_none` edit is accompanied by none);
modelx notifies the cells in `L` (`St.notifyAll`: `on_namespace_change` of each – a cached cells
drops its computed values with everything computed from them and KEEPS its inputs; an uncached
cells drops everything computed through it); every redefined cells is notified or has no node in
the trace graph (`hC`: it was cleared by `clear_obj` just before, or did not exist).  Admissibility
(`hinp`): a redefined cells that holds an input is still cached and still exists.  Then the
invariant holds for the NEW definitions, so every value still held – the inputs and everything
outside the notified cells that was not computed from them – is a denotation under them.
(The regime `WF env' lt` is needed only by later evaluations, `eval_keeps_certificates`.) -/
theorem no_stale_after_batch_edit (env env' : Env) (lt : Node → Node → Prop) (s : St) (h : CI env lt s)
    (L : List CellId) (C : CellId → Prop) (hed : BatchEdit env env' C)
    (hC : ∀ c, C c → c ∈ L ∨ ∀ x ∈ s.gn, x.cell ≠ c)
    (hinp : ∀ n ∈ s.inputs, C n.1 → env'.cached n.1 = true ∧ env'.alive n.1 = true) :
    CI env' lt (s.notifyAll env L) ∧ Good env' (inpOf (s.notifyAll env L)) (s.notifyAll env L) :=
  have := batchEdit_ci L C h hed hC hinp
  ⟨this, this.good⟩

/-- **…a cells is deleted** (`del space.c`: `clear_obj(c)`, then the notification of the cells of
`c`'s space).  `env'`: `c` is gone – and, in the generality the resolution layer needs, the cells
of its space may have new formulas (their names resolve differently). -/
theorem no_stale_after_cell_delete (env env' : Env) (lt : Node → Node → Prop) (s : St) (h : CI env lt s)
    (c : CellId) (hed : BatchEdit env env' (fun c' => c' = c ∨ c' ∈ env.siblings c))
    (hkeep : ∀ c' ∈ env.siblings c, c' ≠ c → env'.cached c' = env.cached c' ∧ env'.alive c' = env.alive c') :
    CI env' lt (s.delCell env c) ∧ Good env' (inpOf (s.delCell env c)) (s.delCell env c) :=
  have := delCell_ci h hed hkeep
  ⟨this, this.good⟩

/-- **…a cells is created** (`space.new_cells(…)`: the notification of the cells of the space). -/
theorem no_stale_after_cell_create (env env' : Env) (lt : Node → Node → Prop) (s : St) (h : CI env lt s)
    (c : CellId) (hdead : env.alive c = false)
    (hed : BatchEdit env env' (fun c' => c' = c ∨ c' ∈ env.siblings c))
    (hkeep : ∀ c' ∈ env.siblings c, c' ≠ c → env'.cached c' = env.cached c' ∧ env'.alive c' = env.alive c') :
    CI env' lt (s.newCell env c) ∧ Good env' (inpOf (s.newCell env c)) (s.newCell env c) :=
  have := newCell_ci h hdead hed hkeep
  ⟨this, this.good⟩

/-! ### the resolution layer: names, namespaces, inheritance

Source-level behaviours `SProg` look global names up in the namespace of the formula's own space
(`Exec/Resolve.lean`); `resolve ns p` is the behaviour the executor sees; `SEnv.toEnv` the
definitions (`formula n = resolve (namespace of n's home) (source of n)`; a cells exists when its
name is bound to it in its home). -/

/-- **the resolved behaviour depends only on the names the source mentions** -/
theorem resolve_depends_only_on_mentioned_names (ns ns' : Ns) (p : SProg)
    (h : ∀ x, Mentions p x → ns x = ns' x) : resolve ns p = resolve ns' p :=
  resolve_congr ns ns' p h

/-- **T7 – an edit that changes the namespaces of a set of spaces `N`** – in ANY way: cells and
references created, deleted, rebound; derived members appearing in or vanishing from sub spaces –
**and notifies every cells of every space in `N` leaves no stale value**: instance of T6, because a
formula outside `N` is resolved in a namespace that did not change.  Derived cells of sub spaces
are cells whose home is the sub space.  (`hL`: every cells living in `N` is notified or has no
node; `hinp`: one that holds an input still exists.) -/
theorem no_stale_after_namespace_edit (se : SEnv) (nss' : Nat → Ns) (N : Nat → Prop) (L : List CellId)
    (lt : Node → Node → Prop) (s : St) (h : CI se.toEnv lt s)
    (hN : ∀ sp, ¬ N sp → nss' sp = se.nss sp)
    (hL : ∀ c, N (se.home c) → c ∈ L ∨ ∀ x ∈ s.gn, x.cell ≠ c)
    (hinp : ∀ n ∈ s.inputs, N (se.home n.1) → (se.withNss nss').toEnv.alive n.1 = true) :
    CI (se.withNss nss').toEnv lt (s.notifyAll se.toEnv L) ∧
    Good (se.withNss nss').toEnv (inpOf (s.notifyAll se.toEnv L)) (s.notifyAll se.toEnv L) :=
  have := nsEdit_ci se nss' N L h hN hL hinp
  ⟨this, this.good⟩

/-- **…instantiated with the structural mechanism model** (`Struct/Mech.lean`, `MxModel.SM`): for
`new_cells`, `set_cells_property` and `del_cells` / `del_ref` at space `p` the namespaces that change
are those of `SM.St.touched st p` – `p` and the sub spaces the mechanism walks
(`C13.member_edit_changes_only_touched_spaces`) – so: if every cells living in `p` or in a sub space
of `p` (derived cells included) is notified, no stale value survives **in sub spaces either**. -/
theorem no_stale_in_sub_spaces_after_member_edit (se : SEnv) (ids : SM.Ids) (pathOf : Nat → SM.Path)
    (st st' : SM.St) (p : SM.Path) (hf : SM.Frame st st' p) (L : List CellId) (lt : Node → Node → Prop)
    (s : St) (h : CI (SM.withStruct se ids pathOf st).toEnv lt s)
    (hL : ∀ c, pathOf (se.home c) ∈ st.touched p → c ∈ L ∨ ∀ x ∈ s.gn, x.cell ≠ c)
    (hinp : ∀ n ∈ s.inputs, pathOf (se.home n.1) ∈ st.touched p →
      (SM.withStruct se ids pathOf st').toEnv.alive n.1 = true) :
    CI (SM.withStruct se ids pathOf st').toEnv lt (s.notifyAll (SM.withStruct se ids pathOf st).toEnv L) ∧
    Good (SM.withStruct se ids pathOf st').toEnv
      (inpOf (s.notifyAll (SM.withStruct se ids pathOf st).toEnv L))
      (s.notifyAll (SM.withStruct se ids pathOf st).toEnv L) :=
  have := SM.mech_edit_ci se ids pathOf st st' p hf L h hL hinp
  ⟨this, this.good⟩

/-! Non-vacuity.  `f(1)` at source level, resolved where `f` is cells 7, where `f` is reference 3
(the call of an integer: `TypeError`), and where `f` is unbound (`NameError`) – three different
behaviours; and two namespaces that differ elsewhere give the same behaviour. -/
def sK : Res → SProg
  | .ok v => .ret v
  | .err e => .reraise e

def sCall : SProg := .callN "f" [.int 1] sK (fun _ => .raise (.user 3)) (.raise (.user 4))

example : (match resolve (fun x => if x = "f" then some (.cell 7) else none) sCall with
      | .call n _ => n = (7, [.int 1]) | _ => False) ∧
    (match resolve (fun x => if x = "f" then some (.ref 3) else none) sCall with
      | .read false 3 _ => True | _ => False) ∧
    (match resolve (fun _ => none) sCall with | .raise (.user 4) => True | _ => False) := by
  refine ⟨?_, ?_, ?_⟩ <;> simp [sCall, SProg.callN, resolve]

example : resolve (fun x => if x = "f" then some (.cell 7) else if x = "g" then some (.ref 1) else none) sCall =
    resolve (fun x => if x = "f" then some (.cell 7) else none) sCall :=
  resolve_depends_only_on_mentioned_names _ _ sCall (by
    intro x hx
    have : x = "f" := by
      simp only [sCall, SProg.callN, Mentions] at hx
      rcases hx with rfl | ⟨b, hb⟩
      · rfl
      · exfalso
        match b, hb with
        | some (.cell c), hb => obtain ⟨r, hr⟩ := hb; cases r <;> exact hr
        | some (.ref r), hb => obtain ⟨o, ho⟩ := hb; exact ho
        | none, hb => exact hb
    subst this
    rfl)

/-! ### every reachable state -/

/-- **Every reachable quiescent state has the certificate invariant**: after any finite
interleaving of evaluations (successful, failed), value edits, reference edits (change, create,
delete), formula / flag edits, deletions / creations of cells, changes of the recursion limit and
administrative calls (thirteen operations: the union of this property's and C05/C08/C17's edit
languages), starting from the empty model.  The fourteenth operation – the value assignment with the
recalculation option on – is added by `reachable_ci_with_recalc` / `recalc_history_is_a_lazy_history`
below. -/
theorem reachable_ci (lt : Node → Node → Prop) (ho : StrictOrder lt) (env0 : Env) (hw0 : WF env0 lt)
    (ops : List Op) (hadm : Admissible lt (env0, {}) ops) :
    CI (run (env0, {}) ops).1 lt (run (env0, {}) ops).2 ∧ WF (run (env0, {}) ops).1 lt :=
  run_ci lt ho ops (env0, {}) hw0 (CI.empty env0 lt) hadm

/-- **C02 for the value layer**: in every reachable state, every held value is the denotation
under the CURRENT definitions – whatever was evaluated before the edits. -/
theorem no_stale_value_reachable (lt : Node → Node → Prop) (ho : StrictOrder lt) (env0 : Env)
    (hw0 : WF env0 lt) (ops : List Op) (hadm : Admissible lt (env0, {}) ops) :
    Good (run (env0, {}) ops).1 (inpOf (run (env0, {}) ops).2) (run (env0, {}) ops).2 :=
  (reachable_ci lt ho env0 hw0 ops hadm).1.good

/-- **T5 – later answers equal those of a model that saw only the edits** (partial:
`LimitNotCaughtInThisCall` for the two evaluations, as in C01).  `sF` is any state of the edited model
in which nothing stale can be held.  (Kept for states `sF` given from outside; for THE edits-only
model see `live_answer_equals_edits_only_answer`, which has no hypothesis about `sF`.) -/
theorem later_answers_equal_fresh_model_partial (env' : Env) (lt : Node → Node → Prop) (s' sF : St)
    (h : CI env' lt s') (hF : Good env' (inpOf s') sF) (n : Node) (v w : Val)
    (hend : LimitNotCaughtInThisCall env' n s') (hendF : LimitNotCaughtInThisCall env' n sF)
    (hv : (evalTop env' n s').1 = .ok v) (hw : (evalTop env' n sF).1 = .ok w) : v = w :=
  C01.order_independent env' (inpOf s') n s' sF h.good hF hend hendF v w hv hw

/-- **The model to which only the edits were applied has the same definitions and the same inputs
as the live model** – `noEvals ops` is the history with every evaluation removed – and holds
certificates for them. -/
theorem edits_only_same_definitions_and_inputs (lt : Node → Node → Prop) (ho : StrictOrder lt) (env0 : Env)
    (hw0 : WF env0 lt) (ops : List Op) (hadm : Admissible lt (env0, {}) ops) :
    (run (env0, {}) (noEvals ops)).1 = (run (env0, {}) ops).1 ∧
    inpOf (run (env0, {}) (noEvals ops)).2 = inpOf (run (env0, {}) ops).2 ∧
    Good (run (env0, {}) ops).1 (inpOf (run (env0, {}) ops).2) (run (env0, {}) (noEvals ops)).2 := by
  obtain ⟨h1, h2, h3, _, _⟩ := run_noEvals lt ho env0 hw0 ops hadm
  exact ⟨h1, h2, h2 ▸ h3.good⟩

/-- **The headline: whatever was evaluated in between, the value a later evaluation returns equals
the value returned by a model to which only the edits were applied.**  `ops` is ANY history of the
thirteen-operation language from the empty model (admissible: the edits stay in the regime `WF`);
the live model runs all of it, the other model runs `noEvals ops`; then both are asked for `n`.
If both return values, the values are equal.  No hypothesis about either run – in particular none
about the depth limit, in these two calls or in any evaluation of the history. -/
theorem live_answer_equals_edits_only_answer (lt : Node → Node → Prop) (ho : StrictOrder lt) (env0 : Env)
    (hw0 : WF env0 lt) (ops : List Op) (hadm : Admissible lt (env0, {}) ops) (n : Node) (v w : Val)
    (hv : (evalTop (run (env0, {}) ops).1 n (run (env0, {}) ops).2).1 = .ok v)
    (hw : (evalTop (run (env0, {}) (noEvals ops)).1 n (run (env0, {}) (noEvals ops)).2).1 = .ok w) :
    v = w := by
  obtain ⟨h1, h2, h3, h4, hwf⟩ := run_noEvals lt ho env0 hw0 ops hadm
  rw [h1] at hw
  have a := (C01.eval_value_is_denotation_nocatch_partial _ _ hwf.noCatch n _ h4.good).1 v hv
  have b := (C01.eval_value_is_denotation_nocatch_partial _ _ hwf.noCatch n _ h3.good).1 w hw
  rw [h2] at b
  have := Den_det _ _ n _ _ a b
  cases this; rfl

/-- …and when neither of the two calls hits the limit and the live one fails, the edits-only model
fails with the same original error. -/
theorem live_error_equals_edits_only_error_partial (lt : Node → Node → Prop) (ho : StrictOrder lt)
    (env0 : Env) (hw0 : WF env0 lt) (ops : List Op) (hadm : Admissible lt (env0, {}) ops) (n : Node)
    (e : Err) (tb : List Node)
    (hl1 : LimitNotCaughtInThisCall (run (env0, {}) ops).1 n (run (env0, {}) ops).2)
    (hl2 : LimitNotCaughtInThisCall (run (env0, {}) ops).1 n (run (env0, {}) (noEvals ops)).2)
    (hv : (evalTop (run (env0, {}) ops).1 n (run (env0, {}) ops).2).1 = .formulaError e tb) :
    ∃ tb', (evalTop (run (env0, {}) (noEvals ops)).1 n (run (env0, {}) (noEvals ops)).2).1 =
      .formulaError e tb' := by
  obtain ⟨h1, h2, h3, h4, hwf⟩ := run_noEvals lt ho env0 hw0 ops hadm
  rw [h1]
  have a := (C01.eval_value_is_denotation_partial _ _ n _ h4.good hl1).2.1 e tb hv
  have hg3 : Good (run (env0, {}) ops).1 (inpOf (run (env0, {}) ops).2) (run (env0, {}) (noEvals ops)).2 :=
    h2 ▸ h3.good
  have hb := C01.eval_value_is_denotation_partial _ _ n _ hg3 hl2
  cases hres : (evalTop (run (env0, {}) ops).1 n (run (env0, {}) (noEvals ops)).2).1 with
  | ok w => have := Den_det _ _ n _ _ a (hb.1 w hres); cases this
  | formulaError e' tb' =>
    have := Den_det _ _ n _ _ a (hb.2.1 e' tb' hres)
    cases this; exact ⟨tb', rfl⟩

/-- **a syntactic class in the regime** (`tableEnv`, `Proofs/ExecCertRunOps.lean`): bodies without a
handler that returns a value (`noCatch`; contains the `try`-free bodies, `noCatch_of_noTry`), cells
`i` calls cells `< i`, any placement in spaces, any set of missing cells. -/
theorem tableEnv_wf (cells : CellId → Option Expr) (ar : CellId → Option Nat) (ids : List CellId)
    (cached allowNone : CellId → Bool) (cspace : CellId → Nat) (rspace : RefId → Nat)
    (refs : RefId → Option Val) (maxdepth : Nat) (dead : CellId → CellId → Option Bool) (alive : CellId → Bool)
    (hids : ∀ i e, cells i = some e → i ∈ ids)
    (hbody : ∀ i e, cells i = some e → noCatch e = true ∧ callsBelowId i e = true) :
    WF (tableEnv cells ar ids cached allowNone cspace rspace refs maxdepth dead alive) idLt :=
  tableEnv_wf_aux cells ar ids cached allowNone cspace rspace refs maxdepth dead alive hids hbody

/-! Non-vacuity.  Space 0 holds `c0(x) = x + r0` (reference `r0` of space 0, by name), the
uncached `c1(x) = c0(x) + r1` (`r1` lives in space 1: attribute path) and `c3() = c2(1) + r0`
(by attribute path `_space.r0`); space 1 holds `c2(x) = c1(x) * r1` (`r1` by name).  A history
with evaluations, a change of `r1`, a change of `r0`, a deletion of `r1`, an assignment and its
re-creation is admissible (flag and formula edits: `zOps` below); the invariant holds at its end, and the values really changed.  (The example
programs are defined in `Proofs/ExecCertExamples.lean`.) -/
example : CI (run (xEnv, {}) xOps).1 idLt (run (xEnv, {}) xOps).2 :=
  (reachable_ci idLt idLt_strict xEnv xEnv_wf xOps
    (xOps_admissible xOps _ xEnv_wf (by intro op h; simp [xOps] at h; rcases h with rfl | rfl | rfl | rfl | rfl | rfl | rfl | rfl | rfl | rfl | rfl | rfl <;> trivial))).1

/-- the values the history really produces: `c3()` = 36 at first, 52 after `r1 := 3`, 92 after
`r0 := 20`, 329 after `c0(1) := 100`, a failure after `del r1`, 121 after `r1 := 1` -/
example : (evalTop xEnv (3, []) {}).1 = .ok (.int 36) ∧
    (evalTop (run (xEnv, {}) (xOps.take 3)).1 (3, []) (run (xEnv, {}) (xOps.take 3)).2).1 = .ok (.int 52) ∧
    (evalTop (run (xEnv, {}) (xOps.take 5)).1 (3, []) (run (xEnv, {}) (xOps.take 5)).2).1 = .ok (.int 92) ∧
    (evalTop (run (xEnv, {}) (xOps.take 7)).1 (3, []) (run (xEnv, {}) (xOps.take 7)).2).1 = .ok (.int 329) ∧
    (evalTop (run (xEnv, {}) xOps).1 (3, []) (run (xEnv, {}) xOps).2).1 = .ok (.int 121) := by
  decide

/-- after `r1 := 3` the value of `c0(5)` – which does not depend on `r1` – is still held, the
values computed from `r1` (by name in the other space, by attribute path through the uncached
`c1`) are gone, and so are the reference-graph edges of everything removed (the read of `r1` made
inside the uncached `c1` had been recorded for `c2(1)`, the nearest cached caller) -/
example : ((run (xEnv, {}) (xOps.take 3)).2.data.map (·.1)) = [(0, [.int 5]), (0, [.int 1])] ∧
    (run (xEnv, {}) (xOps.take 2)).2.rg = [(1, (2, [.int 1])), (0, (3, []))] ∧
    (run (xEnv, {}) (xOps.take 3)).2.rg = [] := by
  decide

/-! Non-vacuity with a FLAG edit and a FORMULA edit (`zOps`, `Proofs/ExecCertExamples.lean`): `c3()` is 36;
the uncached `c1` is switched to cached – `c3()` is recomputed, 36 again, now with an element node for
`c1(1)`; `c3` gets the formula `c0(1)` – 11; `r0 := 7` – 8.  The history is admissible, the invariant
holds at its end, and the model to which only the three edits were applied answers 8 as well
(`live_answer_equals_edits_only_answer` – here both sides computed). -/
example : CI (run (xEnv, {}) zOps).1 idLt (run (xEnv, {}) zOps).2 :=
  (reachable_ci idLt idLt_strict xEnv xEnv_wf zOps zOps_admissible).1

example : (evalTop xEnv (3, []) {}).1 = .ok (.int 36) ∧
    (evalTop (run (xEnv, {}) (zOps.take 2)).1 (3, []) (run (xEnv, {}) (zOps.take 2)).2).1 = .ok (.int 36) ∧
    (run (xEnv, {}) (zOps.take 3)).2.gn.contains (.elem (1, [.int 1])) = true ∧
    (evalTop (run (xEnv, {}) (zOps.take 4)).1 (3, []) (run (xEnv, {}) (zOps.take 4)).2).1 = .ok (.int 11) ∧
    (evalTop (run (xEnv, {}) zOps).1 (3, []) (run (xEnv, {}) zOps).2).1 = .ok (.int 8) ∧
    (evalTop (run (xEnv, {}) (noEvals zOps)).1 (3, []) (run (xEnv, {}) (noEvals zOps)).2).1 = .ok (.int 8) := by
  decide

example : noEvals zOps = [.setCached 1 true, .setFormula 3 zF, .setRef 0 (.int 7)] := rfl

example (v w : Val) (hv : (evalTop (run (xEnv, {}) zOps).1 (2, [.int 1]) (run (xEnv, {}) zOps).2).1 = .ok v)
    (hw : (evalTop (run (xEnv, {}) (noEvals zOps)).1 (2, [.int 1]) (run (xEnv, {}) (noEvals zOps)).2).1 = .ok w) :
    v = w :=
  live_answer_equals_edits_only_answer idLt idLt_strict xEnv xEnv_wf zOps zOps_admissible (2, [.int 1]) v w hv hw

/-! Non-vacuity for cells deleted and created.  In the same program: `c3()` and `c0(5)` are
evaluated, `c0(9)` is assigned; `c0` is deleted - nothing is held any more (the elements of `c0`,
input included, and everything computed from them through the uncached `c1` in the other space),
`c3()` now fails with the error of an unbound name; `c0` is created again as the constant 1 and
`c3()` is `((1 + r1) * r1) + r0 = 16`.  The history is admissible and the invariant holds. -/
example : CI (run (xEnv, {}) yOps).1 idLt (run (xEnv, {}) yOps).2 :=
  (reachable_ci idLt idLt_strict xEnv xEnv_wf yOps yOps_admissible).1

example : ((run (xEnv, {}) (yOps.take 3)).2.data.map (·.1)) =
      [(0, [.int 9]), (0, [.int 5]), (3, []), (2, [.int 1]), (0, [.int 1])] ∧
    (run (xEnv, {}) (yOps.take 4)).2.data = [] ∧ (run (xEnv, {}) (yOps.take 4)).2.gn = [] ∧
    (run (xEnv, {}) (yOps.take 4)).2.rg = [] ∧
    (evalTop (run (xEnv, {}) (yOps.take 4)).1 (3, []) (run (xEnv, {}) (yOps.take 4)).2).1 =
      .formulaError errDead [(3, []), (2, [.int 1]), (1, [.int 1])] ∧
    (evalTop (run (xEnv, {}) (yOps.take 6)).1 (3, []) (run (xEnv, {}) (yOps.take 6)).2).1 = .ok (.int 16) := by
  decide

/-! ### the fourteenth operation: the assignment with the recalculation option on

`mx.set_recalc(True)`: `cells[key] = v` recomputes the former leaf dependents at once (`St.setValueRecalc`,
`Exec/Mech.lean`; the statements about it alone are in `Props/C06.lean`).  The fourteen-operation language
`OpR` = `Op` + `setValueRecalc` (`Proofs/ExecCertRecalcOp.lean`) is an EXTENSION of the thirteen-operation
language with a SIMULATION: `stepR` / `runR` / `AdmissibleR` read it operationally; `expand` rewrites a
history with recalculating assignments into a history without. -/

/-- **The fourteenth operation keeps the certificate invariant** – whatever its outcome
`(s.setValueRecalc env n v).2`: `.ok` (every recomputation returned), `.failed t e tb` (the recomputation
of the former leaf dependent `t` raised out of the assignment; the assignment is made, the targets before
`t` are recomputed), `.refused e` (`None` where it is not allowed: nothing changed).  Second conjunct: as an
operation of the language (`stepR`: an assignment through the handle of a missing cells, or to an
uncached one, changes nothing). -/
theorem recalc_keeps_certificates (lt : Node → Node → Prop) (ho : StrictOrder lt) (env : Env) (hw : WF env lt)
    (s : St) (h : CI env lt s) (n : Node) (v : Val) :
    (env.cached n.1 = true → env.alive n.1 = true → CI env lt (s.setValueRecalc env n v).1) ∧
    CI (stepR (env, s) (.setValueRecalc n v)).1 lt (stepR (env, s) (.setValueRecalc n v)).2 :=
  ⟨fun hc hn => setValueRecalc_ci ho hw h n v hc hn, stepR_ci lt ho (env, s) (.setValueRecalc n v) hw h⟩

/-- **Every reachable quiescent state has the certificate invariant, the recalculation option included**:
after any finite interleaving of the thirteen operations of `reachable_ci` and of recalculating
assignments (returned, failed, refused), starting from the empty model. -/
theorem reachable_ci_with_recalc (lt : Node → Node → Prop) (ho : StrictOrder lt) (env0 : Env) (hw0 : WF env0 lt)
    (ops : List OpR) (hadm : AdmissibleR lt (env0, {}) ops) :
    CI (runR (env0, {}) ops).1 lt (runR (env0, {}) ops).2 ∧ WF (runR (env0, {}) ops).1 lt :=
  runR_ci lt ho ops (env0, {}) hw0 (CI.empty env0 lt) hadm

/-- … hence C02 for the value layer with the option on: in every state reachable with recalculating
assignments every held value is the denotation under the CURRENT definitions and inputs. -/
theorem no_stale_value_reachable_with_recalc (lt : Node → Node → Prop) (ho : StrictOrder lt) (env0 : Env)
    (hw0 : WF env0 lt) (ops : List OpR) (hadm : AdmissibleR lt (env0, {}) ops) :
    Good (runR (env0, {}) ops).1 (inpOf (runR (env0, {}) ops).2) (runR (env0, {}) ops).2 :=
  (reachable_ci_with_recalc lt ho env0 hw0 ops hadm).1.good

/-- **A history with recalculating assignments is a lazy history.**  Every pair (definitions, mechanism
state) reachable from the empty model by an admissible history of the fourteen-operation language is THE
pair – same definitions, same held values, inputs, graphs, log – reached by the history `expand … ops` of the
thirteen-operation language, which is admissible too.  `expand` (shape: `lazy_history_shape`) keeps every
operation of `Op` and replaces each recalculating assignment by the lazy assignment followed by the
evaluations of the former leaf dependents (those up to and including the first that fails).  Hence every
theorem about `run (env0, {}) ops'` for admissible `ops'` – `reachable_ci`, `no_stale_value_reachable`,
`live_answer_equals_edits_only_answer`, the statements of C01/C05/C06/C08/C09 about reachable states – holds
of every state reachable with the option on. -/
theorem recalc_history_is_a_lazy_history (lt : Node → Node → Prop) (ho : StrictOrder lt) (env0 : Env)
    (hw0 : WF env0 lt) (ops : List OpR) (hadm : AdmissibleR lt (env0, {}) ops) :
    runR (env0, {}) ops = run (env0, {}) (expand (env0, {}) ops) ∧
    Admissible lt (env0, {}) (expand (env0, {}) ops) :=
  runR_eq_run lt ho ops (env0, {}) hw0 (CI.empty env0 lt) hadm

/-- … as ONE statement: whatever holds of every pair (definitions, mechanism state) reachable by an
admissible history of the thirteen-operation language holds of every pair reachable by an admissible
history of the fourteen-operation language. -/
theorem every_lazy_theorem_holds_with_recalc (lt : Node → Node → Prop) (ho : StrictOrder lt) (env0 : Env)
    (hw0 : WF env0 lt) (P : Env × St → Prop)
    (hP : ∀ ops : List Op, Admissible lt (env0, {}) ops → P (run (env0, {}) ops))
    (ops : List OpR) (hadm : AdmissibleR lt (env0, {}) ops) : P (runR (env0, {}) ops) := by
  obtain ⟨e, a⟩ := recalc_history_is_a_lazy_history lt ho env0 hw0 ops hadm
  rw [e]; exact hP _ a

/-- **the shape of the lazy history**: nothing for the empty history; an operation of the thirteen is
kept; a recalculating assignment `n := v` becomes the lazy assignment `n := v` followed by evaluations of
former leaf dependents of `n` (`ts`: elements of `St.startNodesFrom` of the state BEFORE the assignment,
each at most as often as there – `ts` is a sublist; exactly which: `C06.recalc_state_is_lazy_run`) -/
theorem lazy_history_shape :
    (∀ st, expand st [] = []) ∧
    (∀ st op ops, expand st (.base op :: ops) = op :: expand (step st op) ops) ∧
    (∀ (env : Env) (s : St) (n : Node) (v : Val) (ops : List OpR), ∃ ts : List Node,
      (∀ t ∈ ts, t ∈ s.startNodesFrom n) ∧
      expand (env, s) (.setValueRecalc n v :: ops) =
        .setValue n v :: ts.map Op.eval ++ expand (stepR (env, s) (.setValueRecalc n v)) ops) := by
  refine ⟨fun _ => rfl, fun _ _ _ => rfl, ?_⟩
  intro env s n v ops
  by_cases hg : (env.cached n.1 && env.alive n.1) = true
  · cases hs : (s.setValue env n v).2 with
    | some e =>
      refine ⟨[], fun _ ht => absurd ht List.not_mem_nil, ?_⟩
      simp only [expand, expandOp, hg, if_true, hs, List.map_nil, List.cons_append, List.nil_append]
    | none =>
      refine ⟨evaluatedTargets env (s.startNodesFrom n) (s.setValue env n v).1,
        evaluatedTargets_sub env _ _, ?_⟩
      simp only [expand, expandOp, hg, if_true, hs, List.cons_append]
  · refine ⟨[], fun _ ht => absurd ht List.not_mem_nil, ?_⟩
    simp only [expand, expandOp, hg, Bool.false_eq_true, if_false, List.map_nil, List.cons_append,
      List.nil_append]

/-- **The headline with the option on**: whatever was evaluated or recomputed in between, the value a
later evaluation returns equals the value returned by a model to which only the edits were applied – with
the option OFF: `noEvals (expand … ops)` keeps of every recalculating assignment the lazy assignment only.
(`live_answer_equals_edits_only_answer` carried over by `recalc_history_is_a_lazy_history`.) -/
theorem live_answer_equals_edits_only_answer_with_recalc (lt : Node → Node → Prop) (ho : StrictOrder lt)
    (env0 : Env) (hw0 : WF env0 lt) (ops : List OpR) (hadm : AdmissibleR lt (env0, {}) ops) (n : Node) (v w : Val)
    (hv : (evalTop (runR (env0, {}) ops).1 n (runR (env0, {}) ops).2).1 = .ok v)
    (hw : (evalTop (run (env0, {}) (noEvals (expand (env0, {}) ops))).1 n
            (run (env0, {}) (noEvals (expand (env0, {}) ops))).2).1 = .ok w) :
    v = w := by
  obtain ⟨e, a⟩ := recalc_history_is_a_lazy_history lt ho env0 hw0 ops hadm
  rw [e] at hv
  exact live_answer_equals_edits_only_answer lt ho env0 hw0 _ a n v w hv hw

/-! Non-vacuity, on the program of C06 (`C06.kEnv`: `c0 = 1`, `c1 = c0() * 10`,
`c2 = c1() + 1 if c0() < 5 else 0`, `c3 = c1() + 100`, `c4 = 7`, `c5 = 1 if c0() < 5 else raise`).  The history
`kOpsR`: `c2()`, `c3()`, `c4()` evaluated; `c0 = 2` with the option on (returns: `c2()`, `c3()` recomputed); `c5()`
evaluated; `c0 = 9` with the option on (targets `c2()`, `c5()`, `c3()`: `c2()` is recomputed to 0, `c5()` FAILS,
`c3()` is not evaluated); `c0 = None` with the option on (REFUSED).  It is admissible; the invariant holds at
its end; its lazy history is the eleven operations below and reaches the same state (compared as whole
states); the values are those of the definitions in force. -/
def kOpsR : List OpR :=
  [.base (.eval (2, [])), .base (.eval (3, [])), .base (.eval (4, [])), .setValueRecalc (0, []) (.int 2),
   .base (.eval (5, [])), .setValueRecalc (0, []) (.int 9), .setValueRecalc (0, []) .none]

theorem kOpsR_admissible : AdmissibleR idLt (C06.kEnv, {}) kOpsR :=
  admissibleR_valueOnly kOpsR _ C06.kEnv_wf rfl

example : CI C06.kEnv idLt (C06.kS.setValueRecalc C06.kEnv (0, []) (.int 2)).1 :=
  (recalc_keeps_certificates idLt idLt_strict C06.kEnv C06.kEnv_wf C06.kS C06.kS_ci (0, []) (.int 2)).1 rfl rfl

-- a failing recomputation (`kU`: `c5()` fails) and a refused assignment
example : (C06.kU.setValueRecalc C06.kEnv (0, []) (.int 9)).2 = .failed (5, []) (.user kValue) [(5, [])] ∧
    CI C06.kEnv idLt (C06.kU.setValueRecalc C06.kEnv (0, []) (.int 9)).1 ∧
    (C06.kS.setValueRecalc C06.kEnv (0, []) .none).2 = .refused .noneNotAllowed ∧
    CI C06.kEnv idLt (C06.kS.setValueRecalc C06.kEnv (0, []) .none).1 :=
  ⟨by decide,
   (recalc_keeps_certificates idLt idLt_strict C06.kEnv C06.kEnv_wf C06.kU C06.kU_ci (0, []) (.int 9)).1 rfl rfl,
   by decide,
   (recalc_keeps_certificates idLt idLt_strict C06.kEnv C06.kEnv_wf C06.kS C06.kS_ci (0, []) .none).1 rfl rfl⟩

example : CI (runR (C06.kEnv, {}) kOpsR).1 idLt (runR (C06.kEnv, {}) kOpsR).2 :=
  (reachable_ci_with_recalc idLt idLt_strict C06.kEnv C06.kEnv_wf kOpsR kOpsR_admissible).1

example : expand (C06.kEnv, {}) kOpsR =
    [.eval (2, []), .eval (3, []), .eval (4, []),
     .setValue (0, []) (.int 2), .eval (2, []), .eval (3, []),
     .eval (5, []),
     .setValue (0, []) (.int 9), .eval (2, []), .eval (5, []),
     .setValue (0, []) .none] := by rfl

example : runR (C06.kEnv, {}) kOpsR = run (C06.kEnv, {}) (expand (C06.kEnv, {}) kOpsR) :=
  (recalc_history_is_a_lazy_history idLt idLt_strict C06.kEnv C06.kEnv_wf kOpsR kOpsR_admissible).1

/-- both sides computed: the states are equal as wholes; after `c0 = 2` (option on) `c1()`, `c2()`, `c3()` hold
20, 21, 120 at once; at the end `c0()` holds 9 as an input, `c2()` holds 0, `c4()` keeps 7, `c1()`, `c3()`, `c5()`
hold nothing, and `c3()` asked for afterwards is 190 – in the live model and in the model that saw only
the two accepted assignments, lazily -/
example : (runR (C06.kEnv, {}) kOpsR).2 =
      (run (C06.kEnv, {})
        [.eval (2, []), .eval (3, []), .eval (4, []), .setValue (0, []) (.int 2), .eval (2, []), .eval (3, []),
         .eval (5, []), .setValue (0, []) (.int 9), .eval (2, []), .eval (5, []), .setValue (0, []) .none]).2 ∧
    (runR (C06.kEnv, {}) (kOpsR.take 4)).2.data.map (·.1) = [(3, []), (2, []), (1, []), (0, []), (4, [])] ∧
    lookup (runR (C06.kEnv, {}) (kOpsR.take 4)).2.data (3, []) = some (.int 120) ∧
    (runR (C06.kEnv, {}) kOpsR).2.data = [((2, []), .int 0), ((0, []), .int 9), ((4, []), .int 7)] ∧
    (runR (C06.kEnv, {}) kOpsR).2.inputs = [(0, [])] ∧
    (evalTop C06.kEnv (3, []) (runR (C06.kEnv, {}) kOpsR).2).1 = .ok (.int 190) ∧
    (evalTop C06.kEnv (3, []) (run (C06.kEnv, {}) (noEvals (expand (C06.kEnv, {}) kOpsR))).2).1 = .ok (.int 190) := by
  decide

example (v w : Val) (hv : (evalTop (runR (C06.kEnv, {}) kOpsR).1 (3, []) (runR (C06.kEnv, {}) kOpsR).2).1 = .ok v)
    (hw : (evalTop (run (C06.kEnv, {}) (noEvals (expand (C06.kEnv, {}) kOpsR))).1 (3, [])
            (run (C06.kEnv, {}) (noEvals (expand (C06.kEnv, {}) kOpsR))).2).1 = .ok w) : v = w :=
  live_answer_equals_edits_only_answer_with_recalc idLt idLt_strict C06.kEnv C06.kEnv_wf kOpsR kOpsR_admissible
    (3, []) v w hv hw

-- `every_lazy_theorem_holds_with_recalc` used: C06's invariant "an input is not a reader of a reference"
-- style statements transfer; here with `P` = "the state has certificates"
example : CI (runR (C06.kEnv, {}) kOpsR).1 idLt (runR (C06.kEnv, {}) kOpsR).2 :=
  every_lazy_theorem_holds_with_recalc idLt idLt_strict C06.kEnv C06.kEnv_wf (fun st => CI st.1 idLt st.2)
    (fun ops hadm => (reachable_ci idLt idLt_strict C06.kEnv C06.kEnv_wf ops hadm).1) kOpsR kOpsR_admissible

/-! ### the hypothesis `NoCatchEnv` is needed

`c0() = raise if r0 < 1 else r0` in the space of `r0`, `c1() = try: c0() except: -1` in another space.
`c1` holds `-1`; after `r0 := 5` the live model still answers `-1`, a model that saw only the
edit answers `5`: the full statement (without `NoCatchEnv`) is false of the mechanism – and of
modelx (known finding C02-caught-failure-untracked, `corpus/C02/known-caught-failure.json`). -/
theorem full_statement_fails_catch :
    ¬ (∀ (env : Env) (s : St) (r : RefId) (v : Val), Good env (inpOf s) s →
        Good (env.withRef r (some v)) (inpOf (s.setRef env r)) (s.setRef env r)) := by
  intro h
  have hgood : Good cEnv (inpOf (evalTop cEnv (1, []) {}).2) (evalTop cEnv (1, []) {}).2 := by
    have hg0 : Good cEnv (fun _ => none) {} := ⟨by intro n v _ hl; simp at hl, by intro n v _ hi; cases hi⟩
    have hinp : inpOf (evalTop cEnv (1, []) {}).2 = fun _ => none := by
      funext n
      have : (evalTop cEnv (1, []) {}).2.inputs = [] := by decide
      simp [inpOf, this]
    rw [hinp]
    exact (C01.eval_value_is_denotation_partial cEnv (fun _ => none) (1, []) {} hg0
      (LimitNotCaughtInThisCall.of_flag rfl (by decide))).2.2
  have := (h cEnv _ 0 (.int 5) hgood).sound (1, []) (.int (-1)) rfl (by decide)
  have hspec : Den (cEnv.withRef 0 (some (.int 5)))
      (inpOf ((evalTop cEnv (1, []) {}).2.setRef cEnv 0)) (1, []) (.ok (.int 5)) := by
    have hinp : inpOf ((evalTop cEnv (1, []) {}).2.setRef cEnv 0) = fun _ => none := by
      funext n
      have : ((evalTop cEnv (1, []) {}).2.setRef cEnv 0).inputs = [] := by decide
      simp [inpOf, this]
    rw [hinp]
    exact ⟨3, by decide⟩
  have := Den_det _ _ _ _ _ this hspec
  cases this

/-! …also for the creation of a cells.  `c1() = try: S.c0() except: -1` lives in another space than
the cells `c0` it calls through an attribute path; `c0` does not exist.  `c1` holds `-1`; after `c0`
is created (as the constant 5) the namespace that changed is the one of `c0`'s space – `c1` is not
notified, and no edge records the failed call: the live model still answers `-1`, a model that saw
only the edits answers `5`.  (Replayed on modelx: `notes/EDIT-repro_caught_missing_cells.py`; a
variant of known finding C02-caught-failure-untracked.  A caller in `c0`'s OWN space is cleared by
the notification – that is what the notification is for.) -/
theorem cell_create_fails_catch :
    ¬ (∀ (env : Env) (s : St) (c : CellId) (f : Key → Prog) (b an : Bool), Good env (inpOf s) s →
        env.alive c = false →
        Good (env.withCell c f b an) (inpOf (s.newCell env c)) (s.newCell env c)) := by
  intro h
  have hgood : Good dEnv (inpOf (evalTop dEnv (1, []) {}).2) (evalTop dEnv (1, []) {}).2 := by
    have hg0 : Good dEnv (fun _ => none) {} := ⟨by intro n v _ hl; simp at hl, by intro n v _ hi; cases hi⟩
    have hinp : inpOf (evalTop dEnv (1, []) {}).2 = fun _ => none := by
      funext n
      have : (evalTop dEnv (1, []) {}).2.inputs = [] := by decide
      simp [inpOf, this]
    rw [hinp]
    exact (C01.eval_value_is_denotation_partial dEnv (fun _ => none) (1, []) {} hg0
      (LimitNotCaughtInThisCall.of_flag rfl (by decide))).2.2
  have := (h dEnv _ 0 (fun _ => .ret (.int 5)) true false hgood rfl).sound (1, []) (.int (-1)) rfl (by decide)
  have hspec : Den (dEnv.withCell 0 (fun _ => .ret (.int 5)) true false)
      (inpOf ((evalTop dEnv (1, []) {}).2.newCell dEnv 0)) (1, []) (.ok (.int 5)) := by
    have hinp : inpOf ((evalTop dEnv (1, []) {}).2.newCell dEnv 0) = fun _ => none := by
      funext n
      have : ((evalTop dEnv (1, []) {}).2.newCell dEnv 0).inputs = [] := by decide
      simp [inpOf, this]
    rw [hinp]
    exact ⟨3, by decide⟩
  have := Den_det _ _ _ _ _ this hspec
  cases this


/-! ## Structural edits: the combined machine (`Edit/Machine.lean`)

The state `Edit.W` is a structural state (`SM.St`, `Struct/Mech.lean`), an executor state and the
identities of the members.  The definitions the executor sees, `w.env P`, are read off the structure:
every cells member `(space, name)` – defined or derived – is a cells of its own whose formula is the
source its entry carries (for a derived member: its first definer's) RESOLVED IN THE NAMESPACE OF ITS
OWN SPACE, with the flags of that definition; every reference member a reference of its own.  A
structural operation applies `SM.St.apply` and then performs on the executor state the clearing
modelx performs (`Edit.clearing`: `clear_obj`, namespace notifications, `clear_attr_referrers`, read
off `SpaceManager` / `SpaceUpdater` / `UserSpaceImpl.on_inherit`), under the flags in force.

`Edit.CIW P lt w`: `SM.Inv` (C03's `run_inv`) ∧ every member has an identity ∧ the certificate
invariant `CI` for `w.env P`.  Regime: `WF (w.env P) lt` (`Ranked`, `NoCatchEnv`, `Scoped` for the
RESOLVED definitions) in every state of the history (`Edit.Admissible`); `structure_regime_from_sources`
says how it is guaranteed by the sources. -/

/-- **The clearing modelx performs reaches every definition the edit changes** – in the space of the
edit and in EVERY sub space.  `Edit.Covers t st st' cl`: a cells (own or derived, of any space)
whose namespace differs between `st` and `st'` is notified or cleared; a cells whose entry differs
(new definer, new formula, deleted) is cleared as an object; for a reference whose entry differs the
cells of its space are notified and, if it existed, `clear_attr_referrers` is performed.  From the
structural invariant alone, for EVERY structural operation: `new_space`, `del space`, `new_cells`,
`set_cells_property` (formula or cache flag), `del_cells`, `rename_cells`, `space.name = v` (new and
changed), `del_ref`, `add_bases`, `remove_bases`.  This is the premise `hL` of
`no_stale_in_sub_spaces_after_member_edit`, derived from the definition of the clearing instead of
assumed. -/
theorem clearing_covers_every_change (P : Edit.Params) (w : Edit.W) (o : SM.Op) (hi : SM.Inv w.sm)
    (hsup : Edit.supported o = true)
    (st' : SM.St) (hop : w.sm.apply P.kw o = some st') :
    Edit.Covers (w.tabs.grow st') w.sm st' (Edit.clearing P.kw (w.tabs.grow st') w.sm st' o) :=
  Edit.stepCovers_of_inv P w (.struct o) hi hsup st' hop

/-- **`machine_keeps_ci`: every operation of the combined machine keeps the invariant** – for the
definitions of the NEW structure.  No premise about which cells are notified. -/
theorem machine_keeps_ci (P : Edit.Params) (lt : Node → Node → Prop) (ho : StrictOrder lt) (w : Edit.W)
    (op : Edit.Op) (hw : WF (w.env P) lt) (h : Edit.CIW P lt w) :
    Edit.CIW P lt (Edit.step P w op) :=
  Edit.step_ciw ho w op hw h (Edit.stepCovers_of_inv P w op h.inv)

/-- the decidable form of the coverage premise (`Edit.stepCovered`, evaluated by the driver at every
step of every compared history as a cross-check of `clearing_covers_every_change`) suffices too -/
theorem machine_keeps_ci_of_check (P : Edit.Params) (lt : Node → Node → Prop) (ho : StrictOrder lt) (w : Edit.W)
    (o : SM.Op) (hs : Edit.supported o = true) (hc : Edit.stepCovered P w (.struct o) = true)
    (hw : WF (w.env P) lt) (h : Edit.CIW P lt w) : Edit.CIW P lt (Edit.step P w (.struct o)) :=
  Edit.step_ciw ho w _ hw h
    (Edit.stepCovers_of_check P w _ (fun o' e => by cases e; exact hs) hc)

/-- **Every state the combined machine reaches from the empty model has the invariant** – any finite
interleaving of structural edits (accepted or refused) and evaluations, assignments, clearings. -/
theorem machine_reachable_ci (P : Edit.Params) (lt : Node → Node → Prop) (ho : StrictOrder lt)
    (ops : List Edit.Op) (hadm : Edit.Admissible P lt {} ops) :
    Edit.CIW P lt (Edit.run P {} ops) ∧ WF ((Edit.run P {} ops).env P) lt :=
  Edit.run_ciw ho ops {} (Edit.wf_empty P lt) (Edit.ciw_empty P lt) hadm

/-- **C02 for structural histories: every value held in any reachable state is the denotation under
the CURRENT structure** – the formulas of derived cells resolved in their sub space, the current
reference values, the current inputs – whatever was evaluated before the edits. -/
theorem no_stale_value_after_any_structural_history (P : Edit.Params) (lt : Node → Node → Prop)
    (ho : StrictOrder lt) (ops : List Edit.Op) (hadm : Edit.Admissible P lt {} ops) :
    Good ((Edit.run P {} ops).env P) (inpOf (Edit.run P {} ops).ex) (Edit.run P {} ops).ex :=
  (machine_reachable_ci P lt ho ops hadm).1.ci.good

/-- the same, element by element: a value held for element `key` of the cells member `(q, n)` -/
theorem held_value_is_current_denotation (P : Edit.Params) (lt : Node → Node → Prop) (ho : StrictOrder lt)
    (ops : List Edit.Op) (hadm : Edit.Admissible P lt {} ops) (q : SM.Path) (n : String) (key : Key) (v : Val)
    (hl : lookup (Edit.run P {} ops).ex.data ((Edit.run P {} ops).tabs.cid q n, key) = some v) :
    Den ((Edit.run P {} ops).env P) (inpOf (Edit.run P {} ops).ex) ((Edit.run P {} ops).tabs.cid q n, key) (.ok v) := by
  have h := (machine_reachable_ci P lt ho ops hadm).1.ci
  exact h.good.sound _ v (h.gi.heldNodes _ (by rw [hl]; rfl)).2 hl

/-- **The headline for the combined operation language**: whatever was evaluated in between, the
value a later call returns equals the value returned by the model that ran the same history with
every evaluation removed.  Both models have the same structure, identities and inputs
(`Edit.run_sim`); no hypothesis about the second run, none about the depth limit. -/
theorem live_equals_edits_only (P : Edit.Params) (lt : Node → Node → Prop) (ho : StrictOrder lt)
    (ops : List Edit.Op) (hadm : Edit.Admissible P lt {} ops) (q : SM.Path) (n : String) (key : Key) (v v' : Val)
    (h1 : Edit.answer P (Edit.run P {} ops) q n key = some (.ok v))
    (h2 : Edit.answer P (Edit.run P {} (Edit.noEvals ops)) q n key = some (.ok v')) : v = v' := by
  have hr0 : RgNoInputs ({} : Edit.W).ex := fun e he => by simp at he
  obtain ⟨hs, c1, c2, hwf⟩ := Edit.run_sim ho ops {} {} (Edit.wf_empty P lt) (Edit.ciw_empty P lt)
    (Edit.ciw_empty P lt) hr0 hr0 ⟨rfl, rfl, rfl⟩ hadm
  have henv := hs.env_eq P
  unfold Edit.answer at h1 h2
  split at h1
  · split at h2
    · simp only [Option.some.injEq] at h1 h2
      rw [henv, hs.tabs] at h2
      have a := (C01.eval_value_is_denotation_nocatch_partial _ _ hwf.noCatch _ _ c1.ci.good).1 v h1
      have hg2 : Good ((Edit.run P {} ops).env P) (inpOf (Edit.run P {} ops).ex) (Edit.run P {} (Edit.noEvals ops)).ex := by
        have := c2.ci.good
        rw [henv, hs.inp] at this
        exact this
      have b := (C01.eval_value_is_denotation_nocatch_partial _ _ hwf.noCatch _ _ hg2).1 v' h2
      have := Den_det _ _ _ _ _ a b
      cases this; rfl
    · cases h2
  · cases h1

/-- **What a cells of the machine computes**: in every reachable state the formula of the cells member
`(q, n)` – defined in `q` or derived into it – is the source its entry carries (for a derived member the
payload of its FIRST definer, `C03.mech_derived_from_first_definer`) resolved in the namespace of `q`
itself; the machine has no model-level references, its namespace is `SM.nsOf`, and the formula is the one
`SM.structEnv` assigns (`C03.derived_cells_formula_is_definers_source_in_sub_space`). -/
theorem machine_formula_is_source_in_own_space (P : Edit.Params) (lt : Node → Node → Prop) (ho : StrictOrder lt)
    (ops : List Edit.Op) (hadm : Edit.Admissible P lt {} ops) (q : SM.Path) (n : String) (m : SM.Member)
    (hm : (Edit.run P {} ops).sm.mem .cells q n = some m) (key : Key) :
    ((Edit.run P {} ops).env P).formula ((Edit.run P {} ops).tabs.cid q n, key) =
      resolve (Edit.nsAt (Edit.run P {} ops).tabs (Edit.run P {} ops).sm q) (P.srcOf m.payload key) ∧
    (∀ gid, Edit.nsAt (Edit.run P {} ops).tabs (Edit.run P {} ops).sm q =
      SM.nsOf ⟨(Edit.run P {} ops).tabs.cid, (Edit.run P {} ops).tabs.rid, gid⟩ (Edit.run P {} ops).sm q) ∧
    (∀ (se : SEnv) (D : SM.Dec) (gid : String → RefId),
      D.cellOf ((Edit.run P {} ops).tabs.cid q n) = (q, n) → D.pathOf (D.num q) = q →
      ((Edit.run P {} ops).env P).formula ((Edit.run P {} ops).tabs.cid q n, key) =
        (SM.structEnv se ⟨(Edit.run P {} ops).tabs.cid, (Edit.run P {} ops).tabs.rid, gid⟩ D P.srcOf P.valOf
          (Edit.run P {} ops).sm).toEnv.formula ((Edit.run P {} ops).tabs.cid q n, key)) := by
  have h := (machine_reachable_ci P lt ho ops hadm).1
  have hg : (Edit.run P {} ops).sm.globals = [] := Edit.globals_run P ops {} SM.inv_empty rfl
  have hpl : ∀ x, Edit.qualOf (Edit.run P {} ops).tabs q x = none :=
    fun x => Edit.qualOf_none_of_no_slots _ (by rw [Edit.slots_run]) q x
  exact ⟨Edit.envOf_formula_member P _ _ h.alloc q n m hm key,
    fun gid => Edit.nsAt_eq_nsOf _ _ hg gid q hpl,
    fun se D gid hdec hnum => Edit.envOf_agrees_with_structEnv P _ _ h.alloc hg se D gid q n m hm key hdec hnum hpl⟩

/-- **The inputs after a structural edit** are the inputs before minus those of the cells the clearing
removed as objects (`clear_obj`, deletion of the space): notifications and
`clear_attr_referrers` keep every input. -/
theorem inputs_after_structural_clearing (env : Env) (lt : Node → Node → Prop) (hw : WF env lt) (s : St)
    (h : CI env lt s) (hr : RgNoInputs s) (cl : List Edit.Clear) (m : Node) :
    inpOf (Edit.doClears env s cl) m = if Edit.clearedBy cl m.1 = true then none else inpOf s m :=
  (Edit.inpOf_doClears hw.scoping hw.noCatch cl s h hr).1 m

/-- **How the regime is guaranteed**: for every structural state, `NoCatchEnv` and `Scoped` of the
resolved definitions follow from the SOURCES – `NsNoCatch`: resolved in any namespace the source
turns no failure into a value; `NsScoped`: its by-name reads are of what the namespace binds
(`SProg.readN` / `SProg.callN`: `LOAD_GLOBAL`, then use) – `Ranked` (termination) remains a
hypothesis about the structure, free for sources that call nothing (`Edit.ranked_envOf_noCalls`). -/
theorem structure_regime_from_sources (P : Edit.Params) (t : Edit.Tabs) (st : SM.St) (lt : Node → Node → Prop)
    (ha : Edit.AllocOK t st) (hs : t.slots = []) (hnc : ∀ v key, Edit.NsNoCatch (P.srcOf v key))
    (hsc : ∀ v key, Edit.NsScoped (P.srcOf v key)) (hr : Ranked (Edit.envOf P t st) lt) :
    WF (Edit.envOf P t st) lt :=
  Edit.wf_envOf P t st lt ha hs hnc hsc hr

/-- …and then EVERY history is admissible -/
theorem histories_admissible_from_sources (P : Edit.Params) (lt : Node → Node → Prop)
    (hnc : ∀ v key, Edit.NsNoCatch (P.srcOf v key)) (hsc : ∀ v key, Edit.NsScoped (P.srcOf v key))
    (hcalls : ∀ v key, Edit.NsNoCalls (P.srcOf v key)) (ops : List Edit.Op) : Edit.Admissible P lt {} ops :=
  Edit.admissible_of_sources P lt hnc hsc hcalls ops {} Edit.allocOK_empty rfl

/-! Non-vacuity (`Proofs/EditMachineExamples.lean`): `Base.f = y * 2`, `Base.y = 1`, `Sub(Base)` with
its own `y = 10`.  `Sub.f()` – the DERIVED cells, `y` resolved in `Sub` – is 20 and `Base.f()` is 2.
`Base.f` is redefined as `y * 3`: `set_cells_property` clears `Base.f` AND its derived copy `Sub.f`
(nothing is held any more); `Sub.f()` is 30.  The history is admissible, the invariant holds at
its end, the model that only saw the edits answers 30 too. -/
example : Edit.CIW Edit.eP idLt (Edit.run Edit.eP {} Edit.eOps) :=
  (machine_reachable_ci Edit.eP idLt idLt_strict Edit.eOps Edit.eOps_admissible).1

example : Edit.answer Edit.eP (Edit.run Edit.eP {} (Edit.eOps.take 5)) ["Sub"] "f" [] = some (.ok (.int 20)) ∧
    Edit.answer Edit.eP (Edit.run Edit.eP {} (Edit.eOps.take 5)) ["Base"] "f" [] = some (.ok (.int 2)) ∧
    (Edit.run Edit.eP {} (Edit.eOps.take 7)).ex.data = [((0, []), .int 2), ((1, []), .int 20)] ∧
    (Edit.run Edit.eP {} (Edit.eOps.take 8)).ex.data = [] ∧
    Edit.answer Edit.eP (Edit.run Edit.eP {} Edit.eOps) ["Sub"] "f" [] = some (.ok (.int 30)) ∧
    Edit.answer Edit.eP (Edit.run Edit.eP {} (Edit.noEvals Edit.eOps)) ["Sub"] "f" [] = some (.ok (.int 30)) := by
  decide

/-- what `set_cells_property` of `Base.f` clears in that state: the cells (identity 0) and its
derived copy in `Sub` (identity 1) – and the check agrees with the theorem -/
example : Edit.clearing [] (Edit.run Edit.eP {} (Edit.eOps.take 7)).tabs (Edit.run Edit.eP {} (Edit.eOps.take 7)).sm
      (Edit.run Edit.eP {} (Edit.eOps.take 8)).sm (.setFormula ["Base"] "f" 1) = [.obj 0, .obj 1] ∧
    Edit.stepCovered Edit.eP (Edit.run Edit.eP {} (Edit.eOps.take 7)) (.struct (.setFormula ["Base"] "f" 1)) = true := by
  decide

example (v v' : Val) (h1 : Edit.answer Edit.eP (Edit.run Edit.eP {} Edit.eOps) ["Base"] "f" [] = some (.ok v))
    (h2 : Edit.answer Edit.eP (Edit.run Edit.eP {} (Edit.noEvals Edit.eOps)) ["Base"] "f" [] = some (.ok v')) : v = v' :=
  live_equals_edits_only Edit.eP idLt idLt_strict Edit.eOps Edit.eOps_admissible ["Base"] "f" [] v v' h1 h2

example : Edit.noEvals Edit.eOps = [
    .struct (.newSpace [] "Base" [] []), .struct (.newCells ["Base"] "f" "f" 0), .struct (.setRef ["Base"] "y" 1),
    .struct (.newSpace [] "Sub" [["Base"]] []), .struct (.setRef ["Sub"] "y" 10),
    .struct (.setFormula ["Base"] "f" 1)] := rfl

/-- the reference a behaviour reads first by name, if that is what it starts with -/
def firstNameRead : Prog → Option RefId
  | .read false r _ => some r
  | _ => none

/-- the derived `Sub.f` (identity 1) reads the reference `y` OF `Sub` (identity 1), `Base.f` the one of `Base` -/
example : firstNameRead (((Edit.run Edit.eP {} (Edit.eOps.take 5)).env Edit.eP).formula (1, [])) = some 1 ∧
    firstNameRead (((Edit.run Edit.eP {} (Edit.eOps.take 5)).env Edit.eP).formula (0, [])) = some 0 ∧
    (Edit.run Edit.eP {} (Edit.eOps.take 5)).tabs.cid ["Sub"] "f" = 1 ∧
    (Edit.run Edit.eP {} (Edit.eOps.take 5)).tabs.rid ["Sub"] "y" = 1 ∧
    (Edit.run Edit.eP {} (Edit.eOps.take 5)).sm.mem .cells ["Sub"] "f" = some ⟨true, 0⟩ := by
  decide

/-- the sources of the example are in the regime, in every structure -/
example (ops : List Edit.Op) : Edit.Admissible Edit.eP idLt {} ops :=
  histories_admissible_from_sources Edit.eP idLt Edit.eP_noCatch Edit.eP_scoped Edit.eP_noCalls ops

/-- a reference edit in the base reaches the sub space that derives the reference: `Base.y := 5` in a
model where `Sub2(Base)` does NOT override `y`: `Sub2.f()` goes from 2 to 10 -/
example :
    let ops : List Edit.Op := [
      .struct (.newSpace [] "Base" [] []), .struct (.newCells ["Base"] "f" "f" 0), .struct (.setRef ["Base"] "y" 1),
      .struct (.newSpace [] "Sub2" [["Base"]] []), .eval ["Sub2"] "f" [], .struct (.setRef ["Base"] "y" 5)]
    Edit.answer Edit.eP (Edit.run Edit.eP {} (ops.take 5)) ["Sub2"] "f" [] = some (.ok (.int 2)) ∧
    (Edit.run Edit.eP {} (ops.take 5)).ex.data = [((1, []), .int 2)] ∧
    (Edit.run Edit.eP {} ops).ex.data = [] ∧
    Edit.answer Edit.eP (Edit.run Edit.eP {} ops) ["Sub2"] "f" [] = some (.ok (.int 10)) ∧
    Edit.stepCovered Edit.eP (Edit.run Edit.eP {} (ops.take 5)) (.struct (.setRef ["Base"] "y" 5)) = true := by
  decide

/-! ## Structural edits with MODEL-LEVEL REFERENCES (`Edit.OpG` / `Edit.stepG`)

The machine of the section above plus `model.x = v` / `del model.x` and the shadowing of model-level
references: a reference is identified by the ATTRIBUTE SLOT `(space, name)` it is reached through
(`Edit.refPay`: the own / derived reference of the space, otherwise – no cells of the name – the model-level
one); sources may read declared slots through attribute paths (`S.x`, `_space.x`: `Edit.Tabs.slots`).
`Edit.clearingG = clearing ++ shadowClears` (the `clear_attr_referrers(global_refs[name])` of
`on_create_ref` and of `UserSpaceImpl.on_inherit`, /repo 5b95fbf and cdc3def), `Edit.globalClearing`
(`ModelImpl.new_ref / change_ref / del_ref`).  `Edit.CIG` = `Edit.CIW` without "no model-level reference".

A slot `(S, x)` that shows the model-level `x` when the space `S` is DELETED: `BaseSpaceImpl.on_delete`
clears the attribute readers of every model-level reference the space does not hide (/repo 40cbe69:
`Edit.orphanClears`); before that repair this was the one obligation that failed (hypothesis
`NoOrphanReaders` of PROOF6's first round; now gone). -/

/-- **`model.x = v` / `del model.x`: the clearing covers** – every cells of every space is notified, every
slot through which the model-level reference was seen is reader-free.  No hypothesis. -/
theorem global_edit_clearing_covers (t : Edit.Tabs) (st : SM.St) (x : String) :
    Edit.CoversGlobal t st x (Edit.globalClearing t st x) :=
  Edit.coversGlobal_globalClearing t st x

/-- the Boolean `Edit.coveredGlobal` (evaluated by the driver at every `set_mref` / `del_mref`) says the same -/
theorem coveredGlobal_check_sound (t : Edit.Tabs) (st : SM.St) (x : String) (cl : List Edit.Clear)
    (h : Edit.coveredGlobal t st x cl = true) : Edit.CoversGlobal t st x cl :=
  Edit.coveredGlobal_sound t st x cl h

/-- **The clearing reaches every change, model-level references and declared slots present** – for all ten
structural operations, from the structural invariant alone.  `Edit.CoversG`: the clauses of `Edit.Covers`
(namespaces, entries of cells) and the SLOT clauses: a slot `(q, x)` that denotes another reference / value
than before – a reference or a cells `x` appears in or vanishes from `q` over a model-level `x`, a
reference entry changes, `q` is deleted – has the cells of `q` notified and, if it denoted something, its
recorded readers cleared (`clear_attr_referrers`). -/
theorem clearing_covers_every_change_with_globals (P : Edit.Params) (w : Edit.W) (o : SM.Op) (hi : SM.Inv w.sm)
    (ha : Edit.AllocOK w.tabs w.sm) (hsup : Edit.supported o = true)
    (st' : SM.St) (hop : w.sm.apply P.kw o = some st') :
    Edit.CoversG (w.tabs.grow st') w.sm st' (Edit.clearingG P.kw (w.tabs.grow st') w.sm st' o) := by
  refine Edit.coversG_clearingG P.kw _ o hi hsup hop (Edit.allocOK_grow w.tabs st' ha.slots) ?_
  intro q x hq hx
  obtain ⟨l, hl, _⟩ := (Edit.ext_grow w.tabs st').refs
  rw [hl]
  exact List.mem_append_left _ (ha.gslots q x hq hx)

/-- **`machineG_keeps_ci`: every operation of the machine with model-level references keeps the
invariant** – the ten structural operations with `clearingG`, `model.x = v`, `del model.x`, evaluations,
assignments, clearings – for the definitions of the NEW structure. -/
theorem machineG_keeps_ci (P : Edit.Params) (lt : Node → Node → Prop) (ho : StrictOrder lt) (w : Edit.W)
    (op : Edit.OpG) (hw : WF (w.env P) lt) (h : Edit.CIG P lt w) :
    Edit.CIG P lt (Edit.stepG P w op) :=
  Edit.stepG_cig ho w op hw h

/-- the two operations on model-level references need no hypothesis beyond the regime -/
theorem global_edits_keep_ci (P : Edit.Params) (lt : Node → Node → Prop) (w : Edit.W) (x : String) (v : Nat)
    (hw : WF (w.env P) lt) (h : Edit.CIG P lt w) :
    Edit.CIG P lt (Edit.stepG P w (.setGlobal x v)) ∧ Edit.CIG P lt (Edit.stepG P w (.delGlobal x)) :=
  ⟨Edit.stepG_setGlobal_cig w x v hw h, Edit.stepG_delGlobal_cig w x hw h⟩

/-- every state reached from the empty model with the declared slots `slots` -/
theorem machineG_reachable_ci (P : Edit.Params) (lt : Node → Node → Prop) (ho : StrictOrder lt)
    (slots : List (SM.Path × String)) (ops : List Edit.OpG) (hadm : Edit.AdmissibleG P lt (Edit.W.init slots) ops) :
    Edit.CIG P lt (Edit.runG P (Edit.W.init slots) ops) ∧ WF ((Edit.runG P (Edit.W.init slots) ops).env P) lt :=
  Edit.runG_cig ho ops _ (Edit.wf_init P lt slots) (Edit.cig_init P lt slots) hadm

/-- **C02 for histories with model-level references: every value held in any reachable state is the
denotation under the CURRENT structure and the CURRENT model-level references** – whatever was
evaluated before the edits, through whatever spelling (`x`, `_space.x`, `S.x`). -/
theorem no_stale_value_after_any_history_with_globals (P : Edit.Params) (lt : Node → Node → Prop)
    (ho : StrictOrder lt) (slots : List (SM.Path × String)) (ops : List Edit.OpG)
    (hadm : Edit.AdmissibleG P lt (Edit.W.init slots) ops) :
    Good ((Edit.runG P (Edit.W.init slots) ops).env P) (inpOf (Edit.runG P (Edit.W.init slots) ops).ex)
      (Edit.runG P (Edit.W.init slots) ops).ex :=
  (machineG_reachable_ci P lt ho slots ops hadm).1.ci.good

/-- **The headline with model-level references**: the value a later call returns equals the value
returned by the model that ran the same history with every evaluation removed.  Hypotheses about the live
run only. -/
theorem live_equals_edits_only_with_globals (P : Edit.Params) (lt : Node → Node → Prop) (ho : StrictOrder lt)
    (slots : List (SM.Path × String)) (ops : List Edit.OpG) (hadm : Edit.AdmissibleG P lt (Edit.W.init slots) ops)
    (q : SM.Path) (n : String) (key : Key) (v v' : Val)
    (h1 : Edit.answer P (Edit.runG P (Edit.W.init slots) ops) q n key = some (.ok v))
    (h2 : Edit.answer P (Edit.runG P (Edit.W.init slots) (Edit.noEvalsG ops)) q n key = some (.ok v')) : v = v' := by
  have hr0 : RgNoInputs (Edit.W.init slots).ex := fun e he => by simp [Edit.W.init] at he
  obtain ⟨hs, c1, c2, hwf⟩ := Edit.runG_sim ho ops _ _ (Edit.wf_init P lt slots) (Edit.cig_init P lt slots)
    (Edit.cig_init P lt slots) hr0 hr0 ⟨rfl, rfl, rfl⟩ hadm
  have henv := hs.env_eq P
  unfold Edit.answer at h1 h2
  split at h1
  · split at h2
    · simp only [Option.some.injEq] at h1 h2
      rw [henv, hs.tabs] at h2
      have a := (C01.eval_value_is_denotation_nocatch_partial _ _ hwf.noCatch _ _ c1.ci.good).1 v h1
      have hg2 : Good ((Edit.runG P (Edit.W.init slots) ops).env P) (inpOf (Edit.runG P (Edit.W.init slots) ops).ex)
          (Edit.runG P (Edit.W.init slots) (Edit.noEvalsG ops)).ex := by
        have := c2.ci.good
        rw [henv, hs.inp] at this
        exact this
      have b := (C01.eval_value_is_denotation_nocatch_partial _ _ hwf.noCatch _ _ hg2).1 v' h2
      have := Den_det _ _ _ _ _ a b
      cases this; rfl
    · cases h2
  · cases h1

/-- how the regime is guaranteed: for sources that read references through attribute paths only, call
nothing and catch nothing EVERY history is admissible -/
theorem histories_admissibleG_from_sources (P : Edit.Params) (lt : Node → Node → Prop)
    (hnc : ∀ v key, Edit.NsNoCatch (P.srcOf v key)) (hao : ∀ v key, Edit.NsAttrOnly (P.srcOf v key))
    (hcalls : ∀ v key, Edit.NsNoCalls (P.srcOf v key)) (slots : List (SM.Path × String)) (ops : List Edit.OpG) :
    Edit.AdmissibleG P lt (Edit.W.init slots) ops :=
  Edit.admissibleG_of_sources P lt hnc hao hcalls ops _

/-! Non-vacuity (`Proofs/EditMachineGlobalsExamples.lean`, `Edit.gOps`): `m.x = 1`; `B.x = 5`; `T.c` is
`lambda: S.x` (the declared slot `(S, x)`); `T.c()` is 1 and is held; `S.add_bases(B)`: `S.x` is now the
reference derived from `B` – `UserSpaceImpl.on_inherit` clears the readers of the model-level `x`
(`shadowClears`: identities 0 = slot `(S, x)` and 2 = slot `(T, x)`), nothing is held; `T.c()` is 5, and so
answers the model that only saw the edits.  The history is admissible, the invariant holds at its end. -/
example : Edit.CIG Edit.gP idLt (Edit.runG Edit.gP (Edit.W.init Edit.gSlots) Edit.gOps) :=
  (machineG_reachable_ci Edit.gP idLt idLt_strict Edit.gSlots Edit.gOps Edit.gOps_admissible).1

example : Good ((Edit.runG Edit.gP (Edit.W.init Edit.gSlots) Edit.gOps).env Edit.gP)
    (inpOf (Edit.runG Edit.gP (Edit.W.init Edit.gSlots) Edit.gOps).ex) (Edit.runG Edit.gP (Edit.W.init Edit.gSlots) Edit.gOps).ex :=
  no_stale_value_after_any_history_with_globals Edit.gP idLt idLt_strict Edit.gSlots Edit.gOps Edit.gOps_admissible

example : Edit.answer Edit.gP (Edit.runG Edit.gP (Edit.W.init Edit.gSlots) (Edit.gOps.take 6)) ["T"] "c" [] = some (.ok (.int 1)) ∧
    (Edit.runG Edit.gP (Edit.W.init Edit.gSlots) (Edit.gOps.take 7)).ex.data = [((0, []), .int 1)] ∧
    Edit.clearingG [] (Edit.runG Edit.gP (Edit.W.init Edit.gSlots) (Edit.gOps.take 8)).tabs
      (Edit.runG Edit.gP (Edit.W.init Edit.gSlots) (Edit.gOps.take 7)).sm
      (Edit.runG Edit.gP (Edit.W.init Edit.gSlots) (Edit.gOps.take 8)).sm (.addBases ["S"] [["B"]]) =
        [.ns [], .attr 0, .attr 2] ∧
    (Edit.runG Edit.gP (Edit.W.init Edit.gSlots) (Edit.gOps.take 8)).ex.data = [] ∧
    Edit.answer Edit.gP (Edit.runG Edit.gP (Edit.W.init Edit.gSlots) Edit.gOps) ["T"] "c" [] = some (.ok (.int 5)) ∧
    Edit.answer Edit.gP (Edit.runG Edit.gP (Edit.W.init Edit.gSlots) (Edit.noEvalsG Edit.gOps)) ["T"] "c" [] =
      some (.ok (.int 5)) := by
  decide

example (v v' : Val)
    (h1 : Edit.answer Edit.gP (Edit.runG Edit.gP (Edit.W.init Edit.gSlots) Edit.gOps) ["T"] "c" [] = some (.ok v))
    (h2 : Edit.answer Edit.gP (Edit.runG Edit.gP (Edit.W.init Edit.gSlots) (Edit.noEvalsG Edit.gOps)) ["T"] "c" [] =
      some (.ok v')) : v = v' :=
  live_equals_edits_only_with_globals Edit.gP idLt idLt_strict Edit.gSlots Edit.gOps Edit.gOps_admissible
    ["T"] "c" [] v v' h1 h2

/-- the decidable checks agree with the theorems on that history: `model.x = 1` and the `add_bases` step -/
example : Edit.stepCoveredG Edit.gP (Edit.W.init Edit.gSlots) (.setGlobal "x" 1) = true ∧
    Edit.stepCoveredG Edit.gP (Edit.runG Edit.gP (Edit.W.init Edit.gSlots) (Edit.gOps.take 7))
      (.op (.struct (.addBases ["S"] [["B"]]))) = true := by
  decide

/-- **The negative witness** (kernel-checked): WITHOUT the clearing `UserSpaceImpl.on_inherit` performs
since /repo 5b95fbf (`Edit.clearingPre`: only `on_create_ref` clears the readers of a shadowed model-level
reference) the coverage obligation FAILS on that history at the `add_bases` step – exactly where the
defect was – and the machine with that clearing keeps the stale 1 for `T.c()` although the slot `(S, x)`
now denotes 5. -/
theorem coverage_fails_without_on_inherit_shadow_clearing :
    Edit.stepCoveredPre Edit.gP (Edit.runG Edit.gP (Edit.W.init Edit.gSlots) (Edit.gOps.take 7))
      (.addBases ["S"] [["B"]]) = false ∧
    (Edit.stepPre Edit.gP (Edit.runG Edit.gP (Edit.W.init Edit.gSlots) (Edit.gOps.take 7))
      (.addBases ["S"] [["B"]])).ex.data = [((0, []), .int 1)] ∧
    Edit.answer Edit.gP (Edit.runG Edit.gP (Edit.W.init Edit.gSlots) Edit.gOps) ["T"] "c" [] = some (.ok (.int 5)) := by
  decide

/-! The deletion of a space through which a model-level reference was read (`Edit.hOps`): `m.x = 1`;
`T.c = lambda: S.x`; `T.c()` is 1 and held; `del m.S`: `on_delete` clears the readers of `x`
(`Edit.orphanClears`), nothing is held; `T.c()` fails (the slot denotes nothing), as in the model that only
saw the edits. -/
example : Edit.CIG Edit.gP idLt (Edit.runG Edit.gP (Edit.W.init Edit.gSlots) Edit.hOps) :=
  (machineG_reachable_ci Edit.gP idLt idLt_strict Edit.gSlots Edit.hOps Edit.hOps_admissible).1

example : Edit.answer Edit.gP (Edit.runG Edit.gP (Edit.W.init Edit.gSlots) (Edit.hOps.take 4)) ["T"] "c" [] = some (.ok (.int 1)) ∧
    (Edit.runG Edit.gP (Edit.W.init Edit.gSlots) (Edit.hOps.take 5)).ex.data = [((0, []), .int 1)] ∧
    (Edit.runG Edit.gP (Edit.W.init Edit.gSlots) (Edit.hOps.take 6)).ex.data = [] ∧
    Edit.stepCoveredG Edit.gP (Edit.runG Edit.gP (Edit.W.init Edit.gSlots) (Edit.hOps.take 5))
      (.op (.struct (.delSpace ["S"]))) = true ∧
    (Edit.runG Edit.gP (Edit.W.init Edit.gSlots) Edit.hOps).ex.data = [] := by
  decide

/-- **The negative witness for /repo 40cbe69** (kernel-checked): with the clearing of the code before it
(`Edit.clearingPre40`: `on_delete` clears the readers of the deleted space's OWN references only) the
coverage obligation FAILS at the `del m.S` step of that history, and the machine with that clearing keeps the
stale 1 for `T.c()` although the slot `(S, x)` denotes nothing any more. -/
theorem coverage_fails_without_on_delete_global_clearing :
    Edit.stepCoveredPre40 Edit.gP (Edit.runG Edit.gP (Edit.W.init Edit.gSlots) (Edit.hOps.take 5))
      (.delSpace ["S"]) = false ∧
    (Edit.stepPre40 Edit.gP (Edit.runG Edit.gP (Edit.W.init Edit.gSlots) (Edit.hOps.take 5))
      (.delSpace ["S"])).ex.data = [((0, []), .int 1)] := by
  decide

/-! ### a member that starts to hide a model-level reference (`Edit.shadowClears`; /repo 5b95fbf, cdc3def)

The
two concrete histories below are the regression inputs of the two repairs: the clearing WITH the
`clear_attr_referrers(global_refs[name])` of `UserSpaceImpl.on_inherit` covers what the edit changes (the
decidable `Edit.covered`, evaluated by the driver at every step), the clearing WITHOUT it (`Edit.clearing`
alone: the code before the repairs) does not – the slot `S.r` stops denoting the model-level reference and
its recorded readers keep their values. -/

/-- `B.r` a cells (`cells := true`) / a reference; THEN `model.r = 1`; `S`; the slot `S.r` is read from elsewhere -/
def shOps (cells : Bool) : List SM.Op :=
  [.newSpace [] "B" [] [], if cells then .newCells ["B"] "r" "r" 0 else .setRef ["B"] "r" 5, .setGlobal "r",
   .newSpace [] "S" [] [], .newSpace [] "T" [] []]
def shSt (cells : Bool) : SM.St := (shOps cells).foldl (fun st o => (st.apply [] o).getD st) {}
/-- `S.add_bases(B)`: `r` is derived into `S` -/
def shOp : SM.Op := .addBases ["S"] [["B"]]
def shSt' (cells : Bool) : SM.St := ((shSt cells).apply [] shOp).getD (shSt cells)
def shTabs (cells : Bool) : Edit.Tabs :=
  (({ rtab := [(["S"], "r")], slots := [(["S"], "r")], gv := [("r", 1)] } : Edit.Tabs).grow (shSt cells)).grow (shSt' cells)

/-- **a CELLS derived into `S` hides the model-level reference read as `S.r`** (cdc3def): before the edit the
slot denotes the model-level reference, afterwards nothing (the name is a cells); the machine's clearing
covers the step, the clearing without `shadowClears` does not -/
theorem derived_cells_hiding_a_global_is_covered_only_with_shadow_clears :
    Edit.refPay (shTabs true) (shSt true) ["S"] "r" = some 1 ∧ Edit.refPay (shTabs true) (shSt' true) ["S"] "r" = none ∧
    ((shSt' true).mem .cells ["S"] "r").isSome = true ∧
    Edit.covered (shTabs true) (shSt true) (shSt' true) (Edit.clearingG [] (shTabs true) (shSt true) (shSt' true) shOp) = true ∧
    Edit.covered (shTabs true) (shSt true) (shSt' true) (Edit.clearing [] (shTabs true) (shSt true) (shSt' true) shOp) = false := by
  decide

/-- the same for a derived REFERENCE (5b95fbf): the slot goes from the model-level value to the base's -/
theorem derived_ref_shadowing_a_global_is_covered_only_with_shadow_clears :
    Edit.refPay (shTabs false) (shSt false) ["S"] "r" = some 1 ∧ Edit.refPay (shTabs false) (shSt' false) ["S"] "r" = some 5 ∧
    Edit.covered (shTabs false) (shSt false) (shSt' false) (Edit.clearingG [] (shTabs false) (shSt false) (shSt' false) shOp) = true ∧
    Edit.covered (shTabs false) (shSt false) (shSt' false) (Edit.clearing [] (shTabs false) (shSt false) (shSt' false) shOp) = false := by
  decide

/-! ### `space.rename(new)` in the combined machine (`Edit/MachineRename.lean`: `OpR` / `stepR`)

`SpaceManager.rename_space` + `UserSpaceImpl.on_rename`: the structure is relabelled (`SM.St.renameSpace`), the
identities of the members follow (the cells OBJECTS survive a rename), and every cells of the renamed space and
of every space below it loses ALL values INCLUDING its inputs (`clear_all_cells(clear_input=True,
recursive=True)`; an uncached one is cleared as an object: /repo d7248bc), then the parent's namespace notifies.

What a rename changes, as far as `SProg` over `Ns` can express it: NOTHING (`rename_changes_no_definition`) – a
child space binds to no value in the parent's namespace before (old name) and after (new name, which was free:
`_can_add`), every other binding is an identity and identities are kept.  What a formula can read outside this
language is the NAME of its space (`_space.name`, `fullname`); the coverage demanded of the clearing is therefore
"every cells of every renamed space is cleared as an object, the parent's cells are notified" (`renameCovered`).

A DECLARED attribute slot keeps its spelling through the rename (`Edit.Tabs.spell`): a formula elsewhere that
spells `S.x` reaches the space through an object-valued reference, which follows the OBJECT; `_space.x` follows
the space.  So there is no side condition on slots. -/

/-- **An accepted rename changes no definition the executor sees**: formula of every cells (source resolved in
the namespace of its space), flags, value of every reference, observers – equal as `Env`s, for every identity. -/
theorem rename_changes_no_definition (P : Edit.Params) (t : Edit.Tabs) (st st' : SM.St) (h : SM.Inv st)
    (p : SM.Path) (new : String) (hop : st.renameSpace P.kw p new = .ok st') :
    Edit.envOf P (t.mapPaths (Edit.renameMap p new)) st' = Edit.envOf P t st :=
  Edit.envOf_renameSpace P t st st' h p new hop

/-- **Coverage for the rename**: the clearing the code performs clears every cells of the renamed space and of
every space below it as an object and notifies the cells of the parent (no hypothesis); and a clearing that does
leaves no node, no value computed through them and NO INPUT of those cells – the inputs of the renamed tree are
DISCARDED by the code, so the model discards them. -/
theorem rename_clearing_covers (t : Edit.Tabs) (st : SM.St) (p : SM.Path) :
    Edit.renameCovered t st p (Edit.renameClearing t st p) = true :=
  Edit.renameCovered_renameClearing t st p

theorem covered_rename_leaves_nothing_of_the_renamed_spaces (env : Env) (lt : Node → Node → Prop)
    (hsc : Scoped env) (hnc : NoCatchEnv env)
    (t : Edit.Tabs) (st : SM.St) (p : SM.Path) (cl : List Edit.Clear) (s : Exec.St) (hci : CI env lt s)
    (hr : RgNoInputs s) (hcov : Edit.renameCovered t st p cl = true) :
    (∀ r ∈ Edit.renamed st p, ∀ c ∈ Edit.cellsOf t st r, Edit.NoNodes (Edit.doClears env s cl) c ∧
      ∀ key, inpOf (Edit.doClears env s cl) (c, key) = none) ∧
    (∀ c ∈ Edit.cellsOf t st p.dropLast, Edit.Clean (Edit.doClears env s cl) c) :=
  Edit.renameCovered_sound env hsc hnc t st p cl s hci hr hcov

/-- **Every operation of the machine with renames keeps the invariant** – for the definitions of the NEW
structure under the NEW paths. -/
theorem machineR_keeps_ci (P : Edit.Params) (lt : Node → Node → Prop) (ho : StrictOrder lt) (w : Edit.W)
    (op : Edit.OpR) (hw : WF (w.env P) lt) (h : Edit.CIG P lt w) :
    Edit.CIG P lt (Edit.stepR P w op) :=
  Edit.stepR_cig ho w op hw h

theorem machineR_reachable_ci (P : Edit.Params) (lt : Node → Node → Prop) (ho : StrictOrder lt)
    (slots : List (SM.Path × String)) (ops : List Edit.OpR) (hadm : Edit.AdmissibleR P lt (Edit.W.init slots) ops) :
    Edit.CIG P lt (Edit.runR P (Edit.W.init slots) ops) ∧ WF ((Edit.runR P (Edit.W.init slots) ops).env P) lt :=
  Edit.runR_cig ho ops _ (Edit.wf_init P lt slots) (Edit.cig_init P lt slots) hadm

/-- after any history of structural edits, model-level references, value operations AND renames of spaces every
held value is the denotation under the current structure -/
theorem no_stale_value_after_any_history_with_renames (P : Edit.Params) (lt : Node → Node → Prop)
    (ho : StrictOrder lt) (slots : List (SM.Path × String)) (ops : List Edit.OpR)
    (hadm : Edit.AdmissibleR P lt (Edit.W.init slots) ops) :
    Good ((Edit.runR P (Edit.W.init slots) ops).env P) (inpOf (Edit.runR P (Edit.W.init slots) ops).ex)
      (Edit.runR P (Edit.W.init slots) ops).ex :=
  (machineR_reachable_ci P lt ho slots ops hadm).1.ci.good

/-- **The headline with renames**: the value a later call returns equals the value returned by the model that
ran the same history with every evaluation removed – "the same inputs" meaning: the edits-only model discards
the inputs of a renamed tree too, as the code does (`Edit.stepR`).  Hypotheses about the live run only. -/
theorem live_equals_edits_only_with_renames (P : Edit.Params) (lt : Node → Node → Prop) (ho : StrictOrder lt)
    (slots : List (SM.Path × String)) (ops : List Edit.OpR) (hadm : Edit.AdmissibleR P lt (Edit.W.init slots) ops)
    (q : SM.Path) (n : String) (key : Key) (v v' : Val)
    (h1 : Edit.answer P (Edit.runR P (Edit.W.init slots) ops) q n key = some (.ok v))
    (h2 : Edit.answer P (Edit.runR P (Edit.W.init slots) (Edit.noEvalsR ops)) q n key = some (.ok v')) : v = v' := by
  have hr0 : RgNoInputs (Edit.W.init slots).ex := fun e he => by simp [Edit.W.init] at he
  obtain ⟨hs, c1, c2, hwf⟩ := Edit.runR_sim ho ops _ _ (Edit.wf_init P lt slots) (Edit.cig_init P lt slots)
    (Edit.cig_init P lt slots) hr0 hr0 ⟨rfl, rfl, rfl⟩ hadm
  have henv := hs.env_eq P
  unfold Edit.answer at h1 h2
  split at h1
  · split at h2
    · simp only [Option.some.injEq] at h1 h2
      rw [henv, hs.tabs] at h2
      have a := (C01.eval_value_is_denotation_nocatch_partial _ _ hwf.noCatch _ _ c1.ci.good).1 v h1
      have hg2 : Good ((Edit.runR P (Edit.W.init slots) ops).env P) (inpOf (Edit.runR P (Edit.W.init slots) ops).ex)
          (Edit.runR P (Edit.W.init slots) (Edit.noEvalsR ops)).ex := by
        have := c2.ci.good
        rw [henv, hs.inp] at this
        exact this
      have b := (C01.eval_value_is_denotation_nocatch_partial _ _ hwf.noCatch _ _ hg2).1 v' h2
      have := Den_det _ _ _ _ _ a b
      cases this; rfl
    · cases h2
  · cases h1

/-- how the hypotheses are guaranteed: no declared slot, sources that catch nothing, read plain names and call
nothing ⇒ EVERY history with renames is admissible -/
theorem histories_admissibleR_from_sources (P : Edit.Params) (lt : Node → Node → Prop) (ho : StrictOrder lt)
    (hnc : ∀ v key, Edit.NsNoCatch (P.srcOf v key)) (hsc : ∀ v key, Edit.NsScoped (P.srcOf v key))
    (hcalls : ∀ v key, Edit.NsNoCalls (P.srcOf v key)) (ops : List Edit.OpR) :
    Edit.AdmissibleR P lt (Edit.W.init []) ops :=
  Edit.admissibleR_of_sources P lt ho hnc hsc hcalls ops _ (Edit.cig_init P lt []) (Edit.wf_init P lt []) rfl

/-- the same for sources that read references through attribute paths only (declared slots – in renamed spaces
too), call nothing and catch nothing -/
theorem histories_admissibleR_from_attr_sources (P : Edit.Params) (lt : Node → Node → Prop)
    (hnc : ∀ v key, Edit.NsNoCatch (P.srcOf v key)) (hao : ∀ v key, Edit.NsAttrOnly (P.srcOf v key))
    (hcalls : ∀ v key, Edit.NsNoCalls (P.srcOf v key)) (slots : List (SM.Path × String)) (ops : List Edit.OpR) :
    Edit.AdmissibleR P lt (Edit.W.init slots) ops :=
  Edit.admissibleR_of_attr_sources P lt hnc hao hcalls ops _

/-! A slot in a renamed space (`Edit.sOps`; every cells is `lambda: S.x`, slot `(S, x)`): `m.x = 1`; `T.c() = 1`;
`S.rename("Z")`: `T.c` keeps 1 (nothing it depends on changed), the slot is now `(Z, x)`, still spelled `S.x`;
`Z.x = 5` clears the reader through the same slot identity; `T.c() = 5`. -/
example : Edit.CIG Edit.gP idLt (Edit.runR Edit.gP (Edit.W.init Edit.gSlots) Edit.sOps) :=
  (machineR_reachable_ci Edit.gP idLt idLt_strict Edit.gSlots Edit.sOps Edit.sOps_admissible).1

example :
    (Edit.runR Edit.gP (Edit.W.init Edit.gSlots) (Edit.sOps.take 6)).ex.data = [((0, []), .int 1)] ∧
    (Edit.runR Edit.gP (Edit.W.init Edit.gSlots) (Edit.sOps.take 6)).tabs.slots = [(["Z"], "x")] ∧
    (Edit.runR Edit.gP (Edit.W.init Edit.gSlots) (Edit.sOps.take 6)).tabs.spell = [(["Z"], ["S"])] ∧
    (Edit.runR Edit.gP (Edit.W.init Edit.gSlots) (Edit.sOps.take 8)).ex.data = [] ∧
    Edit.answer Edit.gP (Edit.runR Edit.gP (Edit.W.init Edit.gSlots) Edit.sOps) ["T"] "c" [] = some (.ok (.int 5)) := by
  decide

/-! Non-vacuity (`Edit.rOps`, sources `y * 2`): `A` (`f`, `y = 1`) with child `A.Ch` (`g`, `y = 2`), `T(A)`;
`A.f() = 2`, `A.Ch.g() = 4`, `T.f() = 2`, `A.f[1] = 7` (an input); `A.rename("Z")` is covered, discards everything
`A` and `A.Ch` hold – the input too – and keeps what the sub space `T` holds; the identities now live under the
new paths; `Z.f() = 2`, `Z.Ch.g() = 4`, there is no `A.f`; the edits-only model answers the same. -/
example : Edit.CIG Edit.eP idLt (Edit.runR Edit.eP (Edit.W.init []) Edit.rOps) :=
  (machineR_reachable_ci Edit.eP idLt idLt_strict [] Edit.rOps Edit.rOps_admissible).1

example :
    (Edit.runR Edit.eP (Edit.W.init []) (Edit.rOps.take 11)).ex.data =
      [((0, [.int 1]), .int 7), ((2, []), .int 2), ((1, []), .int 4), ((0, []), .int 2)] ∧
    (Edit.runR Edit.eP (Edit.W.init []) (Edit.rOps.take 11)).ex.inputs = [(0, [.int 1])] ∧
    Edit.stepCoveredR Edit.eP (Edit.runR Edit.eP (Edit.W.init []) (Edit.rOps.take 11)) (.renameSpace ["A"] "Z") = true ∧
    (Edit.runR Edit.eP (Edit.W.init []) (Edit.rOps.take 12)).ex.data = [((2, []), .int 2)] ∧
    (Edit.runR Edit.eP (Edit.W.init []) (Edit.rOps.take 12)).ex.inputs = [] ∧
    (Edit.runR Edit.eP (Edit.W.init []) (Edit.rOps.take 12)).tabs.ctab = [(["Z"], "f"), (["Z", "Ch"], "g"), (["T"], "f")] ∧
    Edit.answer Edit.eP (Edit.runR Edit.eP (Edit.W.init []) Edit.rOps) ["Z"] "f" [] = some (.ok (.int 2)) ∧
    Edit.answer Edit.eP (Edit.runR Edit.eP (Edit.W.init []) Edit.rOps) ["Z", "Ch"] "g" [] = some (.ok (.int 4)) ∧
    Edit.answer Edit.eP (Edit.runR Edit.eP (Edit.W.init []) Edit.rOps) ["A"] "f" [] = none ∧
    Edit.answer Edit.eP (Edit.runR Edit.eP (Edit.W.init []) (Edit.noEvalsR Edit.rOps)) ["Z"] "f" [] = some (.ok (.int 2)) := by
  decide

example (v' : Val)
    (h2 : Edit.answer Edit.eP (Edit.runR Edit.eP (Edit.W.init []) (Edit.noEvalsR Edit.rOps)) ["Z"] "f" [] = some (.ok v')) :
    Val.int 2 = v' :=
  live_equals_edits_only_with_renames Edit.eP idLt idLt_strict [] Edit.rOps Edit.rOps_admissible ["Z"] "f" [] _ _
    (by decide) h2

/-- **The negative witness for /repo d7248bc** (kernel-checked).  `A.u` UNCACHED, `A.f = lambda: u()`, `A.f()`;
`A.rename("Z")`.  The clearing of the code covers the rename and leaves no node; with the clearing of the code
before d7248bc (`Edit.renameClearingPre`: `clear_all_values` only, which does nothing for an uncached cells) the
coverage check FAILS and the node of `u` – through which values elsewhere may have been computed – stays in the
trace graph. -/
theorem coverage_fails_without_clear_obj_of_uncached_cells_on_rename :
    (Edit.runR Edit.uP (Edit.W.init []) Edit.uOps).ex.data = [((1, []), .int 5)] ∧
    Edit.stepCoveredR Edit.uP (Edit.runR Edit.uP (Edit.W.init []) Edit.uOps) (.renameSpace ["A"] "Z") = true ∧
    (Edit.stepR Edit.uP (Edit.runR Edit.uP (Edit.W.init []) Edit.uOps) (.renameSpace ["A"] "Z")).ex.gn = [] ∧
    Edit.renameCovered (Edit.runR Edit.uP (Edit.W.init []) Edit.uOps).tabs (Edit.runR Edit.uP (Edit.W.init []) Edit.uOps).sm
      ["A"] (Edit.renameClearingPre Edit.uP (Edit.runR Edit.uP (Edit.W.init []) Edit.uOps).tabs
        (Edit.runR Edit.uP (Edit.W.init []) Edit.uOps).sm ["A"]) = false ∧
    (Edit.stepRPre Edit.uP (Edit.runR Edit.uP (Edit.W.init []) Edit.uOps) (.renameSpace ["A"] "Z")).ex.gn = [.obj 0] := by
  decide

end MxModel.C02
