import MxModel.Props.C01
import MxModel.Props.C06
/-!
# C02 – no stale value survives any edit

What is proved here, for the value layer's mechanism model and for every formula behaviour:

* `den_local` – **answers depend only on current definitions reachable from the query**: the
  uncached denotation of an element is determined by the formulas, flags and inputs of the
  elements in any call-closed set containing it and by the references those formulas read;
  an edit outside that set changes nothing for it.
* `no_stale_after_edit` – the reduction of the property to its core obligation: if, after an
  edit `env ↦ env'` (any kind: values, references, formulas, flags, members), every element that
  *survives* the clearing lies in a call-closed set the edit did not touch, then every held
  value is the denotation under the **new** definitions, and every later evaluation returns
  the value a model that only saw the edits returns (`Den env'`), whatever was cached before.
* for value edits the clearing is exact (C06: `set_value_exact`, `clear_at_exact`).

What is **not** a Lean theorem: that the clearing modelx performs for each kind of edit
(namespace notification, `clear_obj`, `clear_attr_referrers`, `clear_with_descs`) covers
every held element outside such a set – this is decided by the implementation-only oracle
(live model against a model to which only the edits were applied, after every evaluation) and
by the small-scope exhaustive enumeration of single edits; six places where it did not were
repaired (known_findings.json), one is structural and recorded (C02-caught-failure-untracked).
-/
namespace MxModel.C02
open MxModel.Exec

/-- all calls a behaviour can make, on any path and whatever callees return, go into `C` -/
def CallsIn (C : Node → Prop) : Prog → Prop
  | .ret _ => True
  | .raise _ => True
  | .reraise _ => True
  | .read _ _ k => ∀ v, CallsIn C (k v)
  | .call m k => C m ∧ ∀ r, CallsIn C (k r)

/-- all references a behaviour can read are in `R` -/
def ReadsIn (R : RefId → Prop) : Prog → Prop
  | .ret _ => True
  | .raise _ => True
  | .reraise _ => True
  | .read _ r k => R r ∧ ∀ v, ReadsIn R (k v)
  | .call _ k => ∀ r, ReadsIn R (k r)

theorem denoteBody_local (env env' : Env) (f g : Node → Res × Bool) (C : Node → Prop) (R : RefId → Prop)
    (hfg : ∀ n, C n → f n = g n) (hrefs : ∀ r, R r → env'.refs r = env.refs r) :
    ∀ p : Prog, CallsIn C p → ReadsIn R p → denoteBody env' g p = denoteBody env f p := by
  intro p
  induction p with
  | ret v => intro _ _; rfl
  | raise e => intro _ _; rfl
  | reraise e => intro _ _; rfl
  | read a r k ih =>
    intro hc hr
    simp only [CallsIn, ReadsIn] at hc hr
    simp only [denoteBody, hrefs r hr.1]
    exact ih _ (hc _) (hr.2 _)
  | call n k ih =>
    intro hc hr
    simp only [CallsIn, ReadsIn] at hc hr
    simp only [denoteBody, ← hfg n hc.1]
    rw [ih _ (hc.2 _) (hr _)]

/-- **Locality.**  If `C` is closed under the calls of the (old) formulas, and the edit leaves
the formulas, flags and inputs of `C` and the references read from `C` alone, then every
element of `C` has the same denotation before and after the edit. -/
theorem den_local (env env' : Env) (inp inp' : Node → Option Val) (C : Node → Prop) (R : RefId → Prop)
    (hclosed : ∀ n, C n → CallsIn C (env.formula n) ∧ ReadsIn R (env.formula n))
    (hform : ∀ n, C n → env'.formula n = env.formula n)
    (hcached : ∀ n, C n → env'.cached n.1 = env.cached n.1)
    (hnone : ∀ n, C n → env'.allowNone n.1 = env.allowNone n.1)
    (hinp : ∀ n, C n → inp' n = inp n)
    (hrefs : ∀ r, R r → env'.refs r = env.refs r) :
    ∀ (d : Nat) (n : Node), C n → denoteN env' inp' d n = denoteN env inp d n := by
  intro d
  induction d with
  | zero => intro n _; rfl
  | succ d ih =>
    intro n hn
    simp only [denoteN, hcached n hn, hinp n hn, hform n hn]
    have hb := denoteBody_local env env' (denoteN env inp d) (denoteN env' inp' d) C R
      (fun m hm => (ih m hm).symm) hrefs (env.formula n) (hclosed n hn).1 (hclosed n hn).2
    rw [hb]
    have hck : ∀ r, checkNone env' n.1 r = checkNone env n.1 r := by
      intro r; unfold checkNone; rw [hcached n hn, hnone n hn]
    rw [hck]

/-- **No stale value survives an edit whose clearing covers what it touched.**  `s'` is the
state after the edit; every element it still holds was held before and lies in a
call-closed set `C` the edit did not touch.  Then all held values are denotations under the
*new* definitions – and so (C01) is every value any later evaluation returns. -/
theorem no_stale_after_edit (env env' : Env) (inp inp' : Node → Option Val) (s s' : St)
    (C : Node → Prop) (R : RefId → Prop)
    (hg : Good env inp s)
    (hsurv : ∀ m v, env'.cached m.1 = true → lookup s'.data m = some v →
      lookup s.data m = some v ∧ C m)
    (hinputs : ∀ m v, env'.cached m.1 = true → inp' m = some v → lookup s'.data m = some v)
    (hclosed : ∀ n, C n → CallsIn C (env.formula n) ∧ ReadsIn R (env.formula n))
    (hform : ∀ n, C n → env'.formula n = env.formula n)
    (hcached : ∀ n, C n → env'.cached n.1 = env.cached n.1)
    (hnone : ∀ n, C n → env'.allowNone n.1 = env.allowNone n.1)
    (hinp : ∀ n, C n → inp' n = inp n)
    (hrefs : ∀ r, R r → env'.refs r = env.refs r) :
    Good env' inp' s' := by
  constructor
  · intro m v hc hl
    obtain ⟨hold, hC⟩ := hsurv m v hc hl
    have hc0 : env.cached m.1 = true := by rw [← hcached m hC]; exact hc
    obtain ⟨d, hd⟩ := hg.sound m v hc0 hold
    exact ⟨d, by rw [den_local env env' inp inp' C R hclosed hform hcached hnone hinp hrefs d m hC]; exact hd⟩
  · exact hinputs

/-- …hence a later evaluation in the edited model returns the denotation under the new
definitions – the value a model that only saw the edits returns (partial:
`LimitNeverCaught`, as in C01). -/
theorem later_answers_depend_only_on_current_definitions_partial (env' : Env)
    (inp' : Node → Option Val) (s' : St) (n : Node) (v : Val)
    (hg : Good env' inp' s') (h0 : s'.hit = false) (hend : (evalTop env' n s').2.hit = false)
    (hv : (evalTop env' n s').1 = .ok v) : Den env' inp' n (.ok v) :=
  (C01.eval_value_is_denotation_partial env' inp' n s' hg h0 hend).1 v hv

/-! Non-vacuity: in the program of C08, `c0(7)` is alone in its call-closed set and reads only
reference 0; changing the formula of `c2` leaves its denotation untouched. -/
example : CallsIn (fun n => n = (0, [.int 7])) (C08.gEnv.formula (0, [.int 7])) ∧
    ReadsIn (fun r => r = 0) (C08.gEnv.formula (0, [.int 7])) := by
  simp [C08.gEnv, C08.gCells, formulaOf, compile, arith, CallsIn, ReadsIn]
  constructor <;> intro o <;> cases o with
    | none => simp [CallsIn, ReadsIn]
    | some v => cases v <;> simp [CallsIn, ReadsIn]

end MxModel.C02
