import MxModel.Proofs.CalcAnc
import MxModel.Proofs.CalcValued
import MxModel.Proofs.CalcValues
/-!
# C16 – Memory-optimised runs: the plan made by `get_calcsteps`

Property theorems only (helper lemmas: `Proofs/CalcSteps.lean`; model: `Kernels/CalcSteps.lean`).
All theorems hold for every node list `ordered`, every successor function `succs`, every target
list and every step size `≥ 1`; the hypotheses `isTopo succs ordered` ("`ordered` is a topological
order of the sub graph": every successor of a member occurs later in the list) and
`ordered.Nodup` are named where they are needed – they are what `nx.topological_sort` of the traced
sub graph delivers, and the correspondence check tests them on every plan modelx returns.
-/
namespace MxModel.C16
open MxModel.CalcSteps

/-- **(1)** The calc blocks are consecutive slices of `ordered` and partition it: their
concatenation is `ordered` itself (every element in exactly one calc step, order preserved),
block `k` is `ordered[k*size : (k+1)*size]`, no block is empty or longer than `size`. -/
theorem calc_blocks_partition (ordered : List Node) (succs : Node → List Node)
    (targets : List Node) (size : Nat) (hz : 1 ≤ size) :
    (calcBlocks (calcSteps ordered succs targets size)).flatten = ordered ∧
    ∀ (k : Nat) (b : List Node), (calcBlocks (calcSteps ordered succs targets size))[k]? = some b →
      b = (ordered.drop (k * size)).take size ∧ b ≠ [] ∧ b.length ≤ size := by
  constructor
  · unfold calcSteps
    rw [calcBlocks_flatMap, planSteps_eq_map ordered succs targets size hz, List.map_map]
    have : ((fun o : StepOut => o.block) ∘ stepAt ordered succs targets size) =
        curBlock ordered size := by
      funext k; simp [stepAt, stepOut_block]
    rw [this, blocks_flatten]
    exact List.take_of_length_le (nSteps_covers ordered succs targets size hz)
  · intro k b hb
    rw [blocks_get ordered succs targets size hz k] at hb
    by_cases hc : k * size < ordered.length
    · rw [if_pos hc] at hb
      cases hb
      refine ⟨rfl, ?_, ?_⟩
      · intro h
        have hl := congrArg List.length h
        simp only [List.length_take, List.length_drop, List.length_nil] at hl
        omega
      · simp only [List.length_take]; omega
    · rw [if_neg hc] at hb; cases hb

/-- (1, for distinct nodes) every element lies in exactly one calc block -/
theorem calc_exactly_once (ordered : List Node) (succs : Node → List Node)
    (targets : List Node) (size : Nat) (hz : 1 ≤ size) (hd : ordered.Nodup) (n : Node)
    (hn : n ∈ ordered) :
    ∃ (k : Nat) (b : List Node), (calcBlocks (calcSteps ordered succs targets size))[k]? = some b ∧ n ∈ b ∧
      ∀ (k' : Nat) (b' : List Node), (calcBlocks (calcSteps ordered succs targets size))[k']? = some b' → n ∈ b' →
        k' = k := by
  have hp := calc_blocks_partition ordered succs targets size hz
  have hmem : n ∈ (calcBlocks (calcSteps ordered succs targets size)).flatten := by
    rw [hp.1]; exact hn
  obtain ⟨b, hb, hnb⟩ := List.mem_flatten.mp hmem
  obtain ⟨k, hget'⟩ := List.mem_iff_getElem?.mp hb
  refine ⟨k, b, hget', hnb, ?_⟩
  intro k' b' hget'' hnb'
  have e1 := (hp.2 k b hget').1
  have e2 := (hp.2 k' b' hget'').1
  have m1 : n ∈ curBlock ordered size k := by rw [e1] at hnb; exact hnb
  have m2 : n ∈ curBlock ordered size k' := by rw [e2] at hnb'; exact hnb'
  rcases Nat.lt_trichotomy k' k with h | h | h
  · have a := mem_take_mono (Nat.mul_le_mul_right size (show k' + 1 ≤ k from h))
      (block_sub_accum m2)
    exact (nodup_take_drop_disjoint hd _ a (block_sub_drop m1)).elim
  · exact h
  · have a := mem_take_mono (Nat.mul_le_mul_right size (show k + 1 ≤ k' from h))
      (block_sub_accum m1)
    exact (nodup_take_drop_disjoint hd _ a (block_sub_drop m2)).elim

/-- **(2)** Under a topological order of distinct nodes, every predecessor (a member `p` with
`n ∈ succs p`) of an element of calc block `k` is in the same or an earlier calc block. -/
theorem preds_in_same_or_earlier_block (ordered : List Node) (succs : Node → List Node)
    (targets : List Node) (size : Nat) (hz : 1 ≤ size)
    (ht : isTopo succs ordered = true) (hd : ordered.Nodup)
    (k : Nat) (b : List Node) (n p : Node)
    (hb : (calcBlocks (calcSteps ordered succs targets size))[k]? = some b) (hn : n ∈ b)
    (hp : p ∈ ordered) (hs : n ∈ succs p) :
    ∃ (k' : Nat) (b' : List Node), k' ≤ k ∧ (calcBlocks (calcSteps ordered succs targets size))[k']? = some b' ∧
      p ∈ b' := by
  have e := ((calc_blocks_partition ordered succs targets size hz).2 k b hb).1
  have m : n ∈ curBlock ordered size k := by rw [e] at hn; exact hn
  have hpt := isTopo_pred_before ht hd ((k + 1) * size) hp (block_sub_accum m) hs
  obtain ⟨j, hj, hpj⟩ := (mem_take_blocks (k + 1)).mp hpt
  refine ⟨j, curBlock ordered size j, by omega, ?_, hpj⟩
  rw [blocks_get ordered succs targets size hz j]
  have : j * size < ordered.length := by
    have := List.length_pos_of_mem (block_sub_drop hpj)
    simp only [List.length_drop] at this; omega
  simp [this, curBlock]

/-- **(3a)** Targets are never cleared (no hypothesis on the order). -/
theorem targets_never_cleared (ordered : List Node) (succs : Node → List Node)
    (targets : List Node) (size : Nat) (hz : 1 ≤ size) (n : Node) (hn : n ∈ targets) :
    n ∉ (clearLists (calcSteps ordered succs targets size)).flatten := by
  rw [clears_flatten ordered succs targets size hz]
  intro hm
  have hc := cleared_pasted_count ordered succs targets size (nSteps ordered succs targets size) n
  have h0 : ((ordered.take (nSteps ordered succs targets size * size)).filter
      (fun n => !decide (n ∈ targets))).count n = 0 := by
    rw [List.count_eq_zero]; intro h
    have := (List.mem_filter.mp h).2
    simp [hn] at this
  have := List.count_pos_iff.mpr hm
  omega

/-- **(3b)** Under a topological order the cleared nodes are, as a multiset, exactly the
non-target elements: every non-target element is cleared exactly as often as it occurs. -/
theorem cleared_are_the_nontargets (ordered : List Node) (succs : Node → List Node)
    (targets : List Node) (size : Nat) (hz : 1 ≤ size) (ht : isTopo succs ordered = true) :
    ((clearLists (calcSteps ordered succs targets size)).flatten).Perm
      (ordered.filter (fun n => !decide (n ∈ targets))) := by
  rw [List.perm_iff_count]
  intro a
  rw [clears_flatten ordered succs targets size hz]
  have hc := cleared_pasted_count ordered succs targets size (nSteps ordered succs targets size) a
  have hf := finalPasted_nil ordered succs targets size hz ht
  rw [finalPasted_eq] at hf
  rw [hf, List.take_of_length_le (nSteps_covers ordered succs targets size hz)] at hc
  simpa using hc

/-- (3b, for distinct nodes) every non-target element is cleared exactly once -/
theorem cleared_exactly_once (ordered : List Node) (succs : Node → List Node)
    (targets : List Node) (size : Nat) (hz : 1 ≤ size) (ht : isTopo succs ordered = true)
    (hd : ordered.Nodup) (n : Node) (hn : n ∈ ordered) (hnt : n ∉ targets) :
    ((clearLists (calcSteps ordered succs targets size)).flatten).count n = 1 := by
  rw [(cleared_are_the_nontargets ordered succs targets size hz ht).count_eq]
  have hmem : n ∈ ordered.filter (fun n => !decide (n ∈ targets)) := by
    simp [List.mem_filter, hn, hnt]
  have h1 := List.nodup_iff_count.mp (hd.filter (fun n => !decide (n ∈ targets))) n
  have h2 := List.count_pos_iff.mpr hmem
  omega

/-- **(3c)** A node is cleared only in or after the step whose calc block contains its last
successor: when it is in the clear list of step `k`, each of its successors is in a calc block
`≤ k` (no hypothesis on the order). -/
theorem cleared_after_last_successor (ordered : List Node) (succs : Node → List Node)
    (targets : List Node) (size : Nat) (hz : 1 ≤ size) (k : Nat) (c : List Node) (n s : Node)
    (hc : (clearLists (calcSteps ordered succs targets size))[k]? = some c) (hn : n ∈ c)
    (hs : s ∈ succs n) :
    ∃ (k' : Nat) (b' : List Node), k' ≤ k ∧ (calcBlocks (calcSteps ordered succs targets size))[k']? = some b' ∧
      s ∈ b' := by
  rw [clears_get ordered succs targets size hz k] at hc
  by_cases hk : k * size < ordered.length
  · rw [if_pos hk] at hc; cases hc
    have hacc := clear_succs_in_accum ordered succs targets size k _ hn hs
    rw [accum_eq_take_succ] at hacc
    obtain ⟨j, hj, hsj⟩ := (mem_take_blocks (k + 1)).mp hacc
    refine ⟨j, curBlock ordered size j, by omega, ?_, hsj⟩
    rw [blocks_get ordered succs targets size hz j]
    have : j * size < ordered.length := by
      have := List.length_pos_of_mem (block_sub_drop hsj)
      simp only [List.length_drop] at this; omega
    simp [this, curBlock]
  · rw [if_neg hk] at hc; cases hc

/-- **(3d)** The code's final `assert not pasted` holds under a topological order. -/
theorem final_pasted_empty (ordered : List Node) (succs : Node → List Node)
    (targets : List Node) (size : Nat) (hz : 1 ≤ size) (ht : isTopo succs ordered = true) :
    finalPasted ordered succs targets size = [] :=
  finalPasted_nil ordered succs targets size hz ht

/-- **plan_safe** Under a topological order of distinct nodes, when calc block `k` is computed,
every predecessor of each of its elements is in the same block, or was pasted in an earlier
step and has not been put into any clear list before step `k`. -/
theorem preds_pasted_until_needed (ordered : List Node) (succs : Node → List Node)
    (targets : List Node) (size : Nat) (hz : 1 ≤ size)
    (ht : isTopo succs ordered = true) (hd : ordered.Nodup)
    (k : Nat) (b : List Node) (n p : Node)
    (hb : (calcBlocks (calcSteps ordered succs targets size))[k]? = some b) (hn : n ∈ b)
    (hp : p ∈ ordered) (hs : n ∈ succs p) :
    p ∈ b ∨ ((∃ (j : Nat) (l : List Node), j < k ∧
        (pasteLists (calcSteps ordered succs targets size))[j]? = some l ∧ p ∈ l) ∧
      ∀ (i : Nat) (l : List Node), i < k →
        (clearLists (calcSteps ordered succs targets size))[i]? = some l → p ∉ l) := by
  have e := ((calc_blocks_partition ordered succs targets size hz).2 k b hb).1
  have m : n ∈ curBlock ordered size k := by rw [e] at hn; exact hn
  have hpt := isTopo_pred_before ht hd ((k + 1) * size) hp (block_sub_accum m) hs
  have eT := accum_succ ordered size k
  rw [accum_eq_take_succ] at eT
  rw [eT] at hpt
  rcases List.mem_append.mp hpt with hpT | hpB
  · right
    have hnT : n ∉ ordered.take (k * size) :=
      fun hc => nodup_take_drop_disjoint hd _ hc (block_sub_drop m)
    constructor
    · obtain ⟨j, hj, hpj⟩ := (mem_take_blocks k).mp hpT
      have hjlen : j * size < ordered.length := by
        have := List.length_pos_of_mem (block_sub_drop hpj)
        simp only [List.length_drop] at this; omega
      refine ⟨j, (stepAt ordered succs targets size j).paste, hj, ?_, ?_⟩
      · rw [pastes_get ordered succs targets size hz j]; simp [hjlen]
      unfold stepAt
      rw [stepOut_paste, List.mem_reverse, List.mem_filter]
      refine ⟨hpj, ?_⟩
      have hnj : n ∉ curBlock ordered size j := fun hc =>
        hnT (mem_take_mono (Nat.mul_le_mul_right size (show j + 1 ≤ k from hj)) (block_sub_accum hc))
      have : hasSuccOutside succs (curBlock ordered size j) p = true :=
        hasSuccOutside_true.mpr ⟨n, hs, hnj⟩
      simp [pasteHere, this]
    · intro i l hi hl hpl
      rw [clears_get ordered succs targets size hz i] at hl
      by_cases hc : i * size < ordered.length
      · rw [if_pos hc] at hl; cases hl
        have := clear_succs_in_accum ordered succs targets size i _ hpl hs
        rw [accum_eq_take_succ] at this
        exact hnT (mem_take_mono (Nat.mul_le_mul_right size (show i + 1 ≤ k from hi)) this)
      · rw [if_neg hc] at hl; cases hl
  · left; rw [e]; exact hpB

/-- **run_correct_from** Executing the plan on the abstract cache from ANY cache that holds user
inputs only, none of them a planned element (the cache `generate_actions` leaves, with whatever
input values the user assigned): for every program whose calls go to planned elements – recorded as
successor edges – or to those user inputs (calls through uncached cells are calls of the caller:
`preds` lists the cached elements a formula reaches), every topological order of distinct nodes,
every target list, step size `≥ 1` and call-depth bound `≥ 1`: at the end exactly the user inputs
and the targets are held, the targets value-pasted, the trace graph has no edge, and the formulas
that ran are exactly the planned elements, in the planned order – so each once: nothing is
recomputed because it was cleared too early, nothing outside the plan is computed, no user input is
touched. -/
theorem run_correct_from (ordered : List Node) (succs preds : Node → List Node) (targets : List Node)
    (size fuel : Nat) (c0 : Cache) (hz : 1 ≤ size) (ht : isTopo succs ordered = true) (hd : ordered.Nodup)
    (h0 : c0.WF) (h0i : ∀ x ∈ c0.held, x ∈ c0.inputs) (h0d : ∀ x ∈ c0.held, x ∉ ordered)
    (hp : ∀ n ∈ ordered, ∀ p ∈ preds n, (p ∈ ordered ∧ n ∈ succs p) ∨ p ∈ c0.held) :
    (∀ x, x ∈ (execute preds (fuel + 1) (calcSteps ordered succs targets size) c0).held ↔
        (x ∈ targets ∧ x ∈ ordered) ∨ x ∈ c0.held) ∧
    (∀ x, x ∈ (execute preds (fuel + 1) (calcSteps ordered succs targets size) c0).inputs ↔
        x ∈ (execute preds (fuel + 1) (calcSteps ordered succs targets size) c0).held) ∧
    (execute preds (fuel + 1) (calcSteps ordered succs targets size) c0).edges = [] ∧
    (execute preds (fuel + 1) (calcSteps ordered succs targets size) c0).log = c0.log ++ ordered :=
  run_from ordered succs preds targets size fuel c0 hz ht hd h0 h0i h0d hp

/-- **run_correct_from_any** The same from ANY well-formed cache – user inputs and calculated values
with their trace edges – as long as no value of the cache is a planned element and no trace edge of
it starts at one (what `generate_actions` leaves): everything the cache held is exactly as before,
inputs, values and edges; the targets are added, value-pasted; the planned elements ran once each. -/
theorem run_correct_from_any (ordered : List Node) (succs preds : Node → List Node) (targets : List Node)
    (size fuel : Nat) (c0 : Cache) (hz : 1 ≤ size) (ht : isTopo succs ordered = true) (hd : ordered.Nodup)
    (h0 : c0.WF) (h0d : ∀ x ∈ c0.held, x ∉ ordered) (h0e : ∀ e ∈ c0.edges, e.1 ∉ ordered)
    (hp : ∀ n ∈ ordered, ∀ p ∈ preds n, (p ∈ ordered ∧ n ∈ succs p) ∨ p ∈ c0.held) :
    (∀ x, x ∈ (execute preds (fuel + 1) (calcSteps ordered succs targets size) c0).held ↔
        (x ∈ targets ∧ x ∈ ordered) ∨ x ∈ c0.held) ∧
    (∀ x, x ∈ (execute preds (fuel + 1) (calcSteps ordered succs targets size) c0).inputs ↔
        (x ∈ targets ∧ x ∈ ordered) ∨ x ∈ c0.inputs) ∧
    (∀ e, e ∈ (execute preds (fuel + 1) (calcSteps ordered succs targets size) c0).edges ↔ e ∈ c0.edges) ∧
    (execute preds (fuel + 1) (calcSteps ordered succs targets size) c0).log = c0.log ++ ordered :=
  run_from_any ordered succs preds targets size fuel c0 hz ht hd h0 h0d h0e hp

/-- **run_correct** The same from the empty cache, for programs whose calls stay inside the plan. -/
theorem run_correct (ordered : List Node) (succs preds : Node → List Node) (targets : List Node)
    (size fuel : Nat) (hz : 1 ≤ size) (ht : isTopo succs ordered = true) (hd : ordered.Nodup)
    (hp : ∀ n ∈ ordered, ∀ p ∈ preds n, p ∈ ordered ∧ n ∈ succs p) :
    (∀ x, x ∈ (execute preds (fuel + 1) (calcSteps ordered succs targets size) {}).held ↔
        x ∈ targets ∧ x ∈ ordered) ∧
    (∀ x, x ∈ (execute preds (fuel + 1) (calcSteps ordered succs targets size) {}).inputs ↔
        x ∈ (execute preds (fuel + 1) (calcSteps ordered succs targets size) {}).held) ∧
    (execute preds (fuel + 1) (calcSteps ordered succs targets size) {}).edges = [] ∧
    (execute preds (fuel + 1) (calcSteps ordered succs targets size) {}).log = ordered := by
  obtain ⟨a, b, c, d⟩ := run_from ordered succs preds targets size fuel {} hz ht hd
    ⟨by simp, by simp⟩ (by simp) (by simp) (fun n hn p hpn => Or.inl (hp n hn p hpn))
  exact ⟨fun x => by simpa using a x, b, c, by simpa using d⟩

/-- **generate_leaves_nothing** (full strength since the repair 77e9cc3: ANY well-formed cache, user
inputs and calculated values alike).  After `generate_actions` – tracing the targets, adding from
the trace graph the values held before that the targets were calculated from, clearing all of
them – the user inputs are exactly those it found; every value that is left was there before and
is not a planned element; and no target that is not a user input, and nothing such a target was
calculated from (`withAncs`: backwards along the trace edges) unless it is a user input, has a
value.  For every program, target list and call-depth bound `≥ 1`. -/
theorem generate_leaves_nothing (preds : Node → List Node) (fuel : Nat) (targets : List Node)
    (c : Cache) (h : c.WF) :
    (∀ x, x ∈ (generateLeaves preds (fuel + 1) targets c).inputs ↔ x ∈ c.inputs) ∧
    (∀ x ∈ (generateLeaves preds (fuel + 1) targets c).held,
      x ∈ c.held ∧ x ∉ planned preds (fuel + 1) targets c) ∧
    (∀ t ∈ targets, t ∉ c.inputs →
      ∀ p ∈ withAncs (traceTargets preds (fuel + 1) targets c).edges t, p ∉ c.inputs →
        p ∉ (generateLeaves preds (fuel + 1) targets c).held) := by
  obtain ⟨_, hin, hheld, _, _⟩ := generateLeaves_general preds (fuel + 1) targets c h
  refine ⟨hin, hheld, ?_⟩
  intro t ht hti p hp hpi hph
  have hth := target_traced preds fuel targets c h t ht hti
  apply (hheld p hph).2
  by_cases hc : p ∈ calculated preds (fuel + 1) targets c
  · exact List.mem_append_left _ hc
  · exact List.mem_append_right _ (preHeld_of ht hti hth hp hc hpi)

/-- … in particular a cache that held user inputs only is left exactly as it was found: the same
held elements, the same input marks, no trace edge -/
theorem generate_restores_inputs_only_cache (preds : Node → List Node) (fuel : Nat) (targets : List Node)
    (c : Cache) (h : c.WF) (hc : ∀ x ∈ c.held, x ∈ c.inputs) :
    (∀ x, x ∈ (generateLeaves preds fuel targets c).held ↔ x ∈ c.held) ∧
    (∀ x, x ∈ (generateLeaves preds fuel targets c).inputs ↔ x ∈ c.inputs) ∧
    (generateLeaves preds fuel targets c).edges = [] :=
  generateLeaves_spec preds fuel targets c h hc

/-- **generate_plan_execute_correct** (full strength since the repair 77e9cc3: ANY well-formed
cache).  `generate_actions` composed with `execute_actions`: trace the targets, add what the model
held before that the targets were calculated from, plan ANY duplicate-free topological order (with
respect to the recorded trace edges) of exactly these elements for the targets that are not user
inputs, clear them, execute.  Well-formedness of the starting point: trace edges start at elements
that have a value (`hct`); when tracing ends every calculated value has its callees held and the
calls recorded (`hcomp`: the cache was complete, and tracing ran to completion – the depth bound was
not hit).  (That the planned elements are then closed under callees – the backward search over the
trace graph is complete, every traced element reaches a target – is proved: `planned_closed`.)  Then
the targets are held and value-pasted; whatever else is held was held before
`generate_actions` and is none of the planned elements – nothing a target was calculated from is
left behind; the user inputs are those of the start plus the targets; the trace edges are those
`generate_actions` left (none touches a planned element); and the execution ran exactly the
planned elements, each once, in the planned order.  `nx.topological_sort` is not modelled: the
theorem holds for every order with the stated properties (`hset`, `hd`, `ht`), which the
correspondence run tests on every plan modelx returns. -/
theorem generate_plan_execute_correct (preds : Node → List Node) (fuel fuel' : Nat)
    (targets ordered : List Node) (size : Nat) (c : Cache) (hz : 1 ≤ size) (h : c.WF)
    (hct : ∀ e ∈ c.edges, e.1 ∈ c.held)
    (hcomp : ∀ n ∈ (traceTargets preds (fuel + 1) targets c).held, n ∉ c.inputs → ∀ p ∈ preds n,
      p ∈ (traceTargets preds (fuel + 1) targets c).held ∧
      (p, n) ∈ (traceTargets preds (fuel + 1) targets c).edges)
    (hset : ∀ x, x ∈ ordered ↔ x ∈ planned preds (fuel + 1) targets c) (hd : ordered.Nodup)
    (ht : isTopo (succsOf (traceTargets preds (fuel + 1) targets c).edges) ordered = true) :
    (∀ x, x ∈ (execute preds (fuel' + 1)
        (calcSteps ordered (succsOf (traceTargets preds (fuel + 1) targets c).edges)
          (targets.filter (fun t => !decide (t ∈ c.inputs))) size)
        (generateLeaves preds (fuel + 1) targets c)).held ↔
      x ∈ targets ∨ x ∈ (generateLeaves preds (fuel + 1) targets c).held) ∧
    (∀ x ∈ (generateLeaves preds (fuel + 1) targets c).held,
      x ∈ c.held ∧ x ∉ planned preds (fuel + 1) targets c) ∧
    (∀ x, x ∈ (execute preds (fuel' + 1)
        (calcSteps ordered (succsOf (traceTargets preds (fuel + 1) targets c).edges)
          (targets.filter (fun t => !decide (t ∈ c.inputs))) size)
        (generateLeaves preds (fuel + 1) targets c)).inputs ↔ x ∈ targets ∨ x ∈ c.inputs) ∧
    (∀ e, e ∈ (execute preds (fuel' + 1)
        (calcSteps ordered (succsOf (traceTargets preds (fuel + 1) targets c).edges)
          (targets.filter (fun t => !decide (t ∈ c.inputs))) size)
        (generateLeaves preds (fuel + 1) targets c)).edges ↔
      e ∈ (generateLeaves preds (fuel + 1) targets c).edges) ∧
    (execute preds (fuel' + 1)
        (calcSteps ordered (succsOf (traceTargets preds (fuel + 1) targets c).edges)
          (targets.filter (fun t => !decide (t ∈ c.inputs))) size)
        (generateLeaves preds (fuel + 1) targets c)).log =
      (generateLeaves preds (fuel + 1) targets c).log ++ ordered :=
  generate_then_execute_full preds fuel fuel' targets ordered size c hz h hct hcomp hset hd ht

/-- **generate_plan_execute_inputs_only** the same from a cache that holds user inputs only: no
hypothesis about the graph is needed, only that tracing ran to completion (`hdone`); at the end
exactly the user inputs and the targets are held, all marked as inputs, no trace edge is left. -/
theorem generate_plan_execute_inputs_only (preds : Node → List Node) (fuel fuel' : Nat)
    (targets ordered : List Node) (size : Nat) (c : Cache) (hz : 1 ≤ size) (h : c.WF)
    (hc : ∀ x ∈ c.held, x ∈ c.inputs)
    (hdone : ∀ n ∈ calculated preds (fuel + 1) targets c, ∀ p ∈ preds n,
      p ∈ (traceTargets preds (fuel + 1) targets c).held)
    (hset : ∀ x, x ∈ ordered ↔ x ∈ planned preds (fuel + 1) targets c) (hd : ordered.Nodup)
    (ht : isTopo (succsOf (traceTargets preds (fuel + 1) targets c).edges) ordered = true) :
    (∀ x, x ∈ (execute preds (fuel' + 1)
        (calcSteps ordered (succsOf (traceTargets preds (fuel + 1) targets c).edges)
          (targets.filter (fun t => !decide (t ∈ c.inputs))) size)
        (generateLeaves preds (fuel + 1) targets c)).held ↔ x ∈ targets ∨ x ∈ c.held) ∧
    (∀ x, x ∈ (execute preds (fuel' + 1)
        (calcSteps ordered (succsOf (traceTargets preds (fuel + 1) targets c).edges)
          (targets.filter (fun t => !decide (t ∈ c.inputs))) size)
        (generateLeaves preds (fuel + 1) targets c)).inputs ↔
      x ∈ (execute preds (fuel' + 1)
        (calcSteps ordered (succsOf (traceTargets preds (fuel + 1) targets c).edges)
          (targets.filter (fun t => !decide (t ∈ c.inputs))) size)
        (generateLeaves preds (fuel + 1) targets c)).held) ∧
    (execute preds (fuel' + 1)
        (calcSteps ordered (succsOf (traceTargets preds (fuel + 1) targets c).edges)
          (targets.filter (fun t => !decide (t ∈ c.inputs))) size)
        (generateLeaves preds (fuel + 1) targets c)).edges = [] ∧
    (execute preds (fuel' + 1)
        (calcSteps ordered (succsOf (traceTargets preds (fuel + 1) targets c).edges)
          (targets.filter (fun t => !decide (t ∈ c.inputs))) size)
        (generateLeaves preds (fuel + 1) targets c)).log =
      (generateLeaves preds (fuel + 1) targets c).log ++ ordered :=
  generate_then_execute preds fuel fuel' targets ordered size c hz h hc hdone hset hd ht

/-! ## Non-vacuity: the model of modelx's own test (`tests/core/model/test_actions.py`)

`0 = Cells1()`, `1,2,3 = Cells2(0..2)`, `4 = Cells3(2)`; target `Cells3(2)`, step size 2.
The plan computed by the model is the literal the test expects. -/
def demoSuccs : Node → List Node
  | 0 => [1, 4]
  | 1 => [2]
  | 2 => [3]
  | 3 => [4]
  | _ => []

def demoOrder : List Node := [0, 1, 2, 3, 4]

example : calcSteps demoOrder demoSuccs [4] 2 =
    [.doCalc [0, 1], .doPaste [1, 0], .doClear [],
     .doCalc [2, 3], .doPaste [3], .doClear [2, 1],
     .doCalc [4], .doPaste [4], .doClear [0, 3]] := by decide

example : isTopo demoSuccs demoOrder = true ∧ demoOrder.Nodup := by decide

example : (calcBlocks (calcSteps demoOrder demoSuccs [4] 2)).flatten = demoOrder :=
  (calc_blocks_partition demoOrder demoSuccs [4] 2 (by decide)).1

example : ((clearLists (calcSteps demoOrder demoSuccs [4] 2)).flatten).Perm [0, 1, 2, 3] :=
  cleared_are_the_nontargets demoOrder demoSuccs [4] 2 (by decide) (by decide)

example : finalPasted demoOrder demoSuccs [4] 2 = [] := by decide

def demoPreds : Node → List Node
  | 1 => [0]
  | 2 => [1]
  | 3 => [2]
  | 4 => [0, 3]
  | _ => []

example : execute demoPreds 1 (calcSteps demoOrder demoSuccs [4] 2) {} =
    { held := [4], inputs := [4], edges := [], log := [0, 1, 2, 3, 4] } := by decide

/-- generating with a user input on `1` (`Cells2(0)`): the input is not recomputed, what was
calculated (`4 0 3 2`) is cleared again -/
example : calculated demoPreds 9 [4] { held := [1], inputs := [1] } = [4, 0, 3, 2] ∧
    generateLeaves demoPreds 9 [4] { held := [1], inputs := [1] } =
      { held := [1], inputs := [1], edges := [], log := [4, 0, 3, 2] } := by decide

/-! ### runs that start from a non-empty cache, programs that read user inputs -/

/-- `1` (`Cells2(0)`) is a user input: `Cells2(1)` reads it, it is not planned -/
def demoPredsIn : Node → List Node
  | 2 => [1]
  | 3 => [2]
  | 4 => [0, 3]
  | _ => []

def demoSuccsIn : Node → List Node
  | 0 => [4]
  | 2 => [3]
  | 3 => [4]
  | _ => []

def inCache : Cache := { held := [1, 7], inputs := [1, 7] }

example : inCache.WF := ⟨by decide, by decide⟩
example : isTopo demoSuccsIn [0, 2, 3, 4] = true ∧ [0, 2, 3, 4].Nodup := by decide
/-- the hypotheses of `run_correct_from` are met by a program that reads a user input -/
example : ∀ n ∈ [0, 2, 3, 4], ∀ p ∈ demoPredsIn n,
    (p ∈ [0, 2, 3, 4] ∧ n ∈ demoSuccsIn p) ∨ p ∈ inCache.held := by decide
example : execute demoPredsIn 1 (calcSteps [0, 2, 3, 4] demoSuccsIn [4] 2) inCache =
    { held := [1, 7, 4], inputs := [1, 7, 4], edges := [], log := [0, 2, 3, 4] } := by decide
example : ∀ x, x ∈ (execute demoPredsIn 1 (calcSteps [0, 2, 3, 4] demoSuccsIn [4] 2) inCache).held ↔
    (x ∈ [4] ∧ x ∈ [0, 2, 3, 4]) ∨ x ∈ inCache.held :=
  (run_correct_from [0, 2, 3, 4] demoSuccsIn demoPredsIn [4] 2 0 inCache (by decide) (by decide)
    (by decide) ⟨by decide, by decide⟩ (by decide) (by decide) (by decide)).1

/-- the composed theorem on the same program: tracing `4` and the user input `1` from `inCache`
runs `4 0 3 2`; `[0, 2, 3, 4]` is a topological order of the recorded edges -/
example : calculated demoPredsIn 9 [4, 1] inCache = [4, 0, 3, 2] ∧
    (traceTargets demoPredsIn 9 [4, 1] inCache).edges = [(0, 4), (1, 2), (2, 3), (3, 4)] ∧
    isTopo (succsOf (traceTargets demoPredsIn 9 [4, 1] inCache).edges) [0, 2, 3, 4] = true := by decide
example : ∀ x, x ∈ (execute demoPredsIn 1
      (calcSteps [0, 2, 3, 4] (succsOf (traceTargets demoPredsIn 9 [4, 1] inCache).edges)
        ([4, 1].filter (fun t => !decide (t ∈ inCache.inputs))) 2)
      (generateLeaves demoPredsIn 9 [4, 1] inCache)).held ↔ x ∈ [4, 1] ∨ x ∈ inCache.held :=
  (generate_plan_execute_inputs_only demoPredsIn 8 0 [4, 1] [0, 2, 3, 4] 2 inCache (by decide)
    ⟨by decide, by decide⟩ (by decide) (by decide)
    (fun x => by
      rw [show planned demoPredsIn (8 + 1) [4, 1] inCache = [4, 0, 3, 2] from by decide]
      simp only [List.mem_cons, List.not_mem_nil, or_false]
      constructor <;> (intro h; rcases h with h | h | h | h <;> simp [h]))
    (by decide) (by decide)).1

/-! ### a cache that already holds CALCULATED values (finding C16-precomputed-values, repaired by
77e9cc3): the full statements hold now; they were false of `generate_actions` as it was -/

/-- the cache after `Cells3(2)` was evaluated directly: everything held, nothing an input -/
def usedCache : Cache := evalNode demoPreds 9 4 {}

example : usedCache.WF ∧ usedCache.held = [0, 1, 2, 3, 4] ∧ usedCache.inputs = [] :=
  ⟨⟨by decide, by decide⟩, by decide, by decide⟩

/-- nothing is traced (the target has a value); everything the target was calculated from, and the
target, is taken from the graph, planned and cleared -/
example : calculated demoPreds 9 [4] usedCache = [] ∧
    planned demoPreds 9 [4] usedCache = [4, 0, 3, 2, 1] ∧
    generateLeaves demoPreds 9 [4] usedCache = { log := [4, 0, 3, 2, 1] } := by decide

/-- only `Cells2(1)` (= 2) and what it was calculated from have values, and an unrelated `7`
calculated from an unrelated `8`: the trace shows `4 3`, the graph adds `2 1 0`, `7` and `8` stay -/
def partCache : Cache := evalNode (fun n => if n = 7 then [8] else demoPreds n) 9 7 (evalNode demoPreds 9 2 {})

def partPreds : Node → List Node := fun n => if n = 7 then [8] else demoPreds n

example : partCache.held = [0, 1, 2, 8, 7] ∧ calculated partPreds 9 [4] partCache = [4, 3] ∧
    planned partPreds 9 [4] partCache = [4, 3, 0, 2, 1] ∧
    (generateLeaves partPreds 9 [4] partCache).held = [8, 7] ∧
    (generateLeaves partPreds 9 [4] partCache).edges = [(8, 7)] := by decide

/-- the hypotheses of the full composed theorem are met on `partCache`, and its conclusion: the
target is added, `7` and `8` are untouched, with their edge -/
example : ∀ x, x ∈ (execute partPreds 1
      (calcSteps [0, 1, 2, 3, 4] (succsOf (traceTargets partPreds 9 [4] partCache).edges)
        ([4].filter (fun t => !decide (t ∈ partCache.inputs))) 2)
      (generateLeaves partPreds 9 [4] partCache)).held ↔
    x ∈ [4] ∨ x ∈ (generateLeaves partPreds 9 [4] partCache).held :=
  (generate_plan_execute_correct partPreds 8 0 [4] [0, 1, 2, 3, 4] 2 partCache (by decide)
    ⟨by decide, by decide⟩ (by decide) (by decide)
    (fun x => by
      rw [show planned partPreds (8 + 1) [4] partCache = [4, 3, 0, 2, 1] from by decide]
      simp only [List.mem_cons, List.not_mem_nil, or_false]
      constructor <;> (intro h; rcases h with h | h | h | h | h <;> simp [h]))
    (by decide) (by decide)).1
example : execute partPreds 1
      (calcSteps [0, 1, 2, 3, 4] (succsOf (traceTargets partPreds 9 [4] partCache).edges) [4] 2)
      (generateLeaves partPreds 9 [4] partCache) =
    { held := [8, 7, 4], inputs := [4], edges := [(8, 7)], log := [2, 1, 0, 7, 8, 4, 3, 0, 1, 2, 3, 4] } := by decide

/-- BEFORE 77e9cc3 (`generateLeavesTraceOnly`: only what the trace shows is planned and cleared)
"generating the actions leaves no calculated values behind" was false for a model that holds
calculated values: nothing is traced, nothing is cleared, the target keeps its value -/
theorem generate_leaves_nothing_failed_before_77e9cc3 :
    ¬ ∀ (preds : Node → List Node) (fuel : Nat) (targets : List Node) (c : Cache), c.WF →
      ∀ t ∈ targets, t ∉ c.inputs → t ∉ (generateLeavesTraceOnly preds (fuel + 1) targets c).held := by
  intro h
  have := h demoPreds 8 [4] usedCache ⟨by decide, by decide⟩ 4 (by decide) (by decide)
  revert this; decide

/-- … and so was the composed statement: the target has a value, nothing is traced, the plan over the
traced elements is empty, the execution does nothing – the target is not value-pasted and the
values it was calculated from stay -/
theorem generate_plan_execute_failed_before_77e9cc3 :
    ¬ ∀ (preds : Node → List Node) (fuel fuel' : Nat) (targets ordered : List Node) (size : Nat)
      (c : Cache), 1 ≤ size → c.WF →
      (∀ x, x ∈ ordered ↔ x ∈ calculated preds (fuel + 1) targets c) → ordered.Nodup →
      isTopo (succsOf (traceTargets preds (fuel + 1) targets c).edges) ordered = true →
      ∀ t ∈ targets, t ∈ (execute preds (fuel' + 1)
        (calcSteps ordered (succsOf (traceTargets preds (fuel + 1) targets c).edges)
          (targets.filter (fun t => !decide (t ∈ c.inputs))) size)
        (generateLeavesTraceOnly preds (fuel + 1) targets c)).inputs := by
  intro h
  have := h demoPreds 8 0 [4] [] 2 usedCache (by decide) ⟨by decide, by decide⟩
    (fun x => by
      rw [show calculated demoPreds (8 + 1) [4] usedCache = [] from by decide])
    (by decide) (by decide) 4 (by decide)
  revert this; decide

/-! ## Values: the paste / clear discipline never looks at a value – a held `None` is a held value

`VCache V` (Kernels/CalcSteps.lean) is the cache with the cells' `data` dictionaries, element ↦ value, over
ANY value domain `V` – e.g. `Option Nat` with the distinguished `none` an element of a cells with
`allow_none=True` holds; `f n vs` is the value the formula of `n` returns when its callees returned `vs`.
`'paste'` reads the value of each node (`get_value_from_key`) and assigns it back (`set_value_from_key`)
whatever it is; `'clear'` clears.  Forgetting the values (`VCache.erase`) commutes with every action, so
the theorems above hold verbatim for models with values, whatever the values are. -/

/-- **value_agnostic_execute** For every value domain, every valuation of the formulas, every action
list (a plan or not), every call-depth bound and every valued cache: running the actions with values
and forgetting them afterwards is running them on the value-free cache.  Which elements are held, which
are marked as inputs, the trace graph and the order of formula executions never depend on a value. -/
theorem value_agnostic_execute {V : Type} [Inhabited V] (f : Node → List (Option V) → V)
    (preds : Node → List Node) (fuel : Nat) (actions : List Action) (c : VCache V) :
    (executeV f preds fuel actions c).erase = execute preds fuel actions c.erase :=
  erase_executeV f preds fuel actions c

/-- … in particular two programs with the same call structure but different values – say one in which
some elements evaluate to `None`, over `Option W`, and one in which none does – hold, paste, clear and
compute exactly the same elements at every point of the same action list. -/
theorem held_elements_independent_of_values {V W : Type} [Inhabited V] [Inhabited W]
    (f : Node → List (Option V) → V) (g : Node → List (Option W) → W)
    (preds : Node → List Node) (fuel : Nat) (actions : List Action) (c : VCache V) (d : VCache W)
    (h : c.erase = d.erase) :
    (executeV f preds fuel actions c).erase = (executeV g preds fuel actions d).erase := by
  rw [erase_executeV, erase_executeV, h]

/-- **run_correct_any_values** `run_correct` for models with values: every value domain (with or without
a distinguished `None`), every valuation; every topological order of distinct nodes, target list, step
size `≥ 1`, call-depth bound `≥ 1`, program whose calls stay inside the plan.  After the run the `data`
dictionaries have entries for exactly the targets – whatever their values –, all value-pasted; the trace
graph is empty; the formulas that ran are the planned elements, each once, in the planned order. -/
theorem run_correct_any_values {V : Type} [Inhabited V] (f : Node → List (Option V) → V)
    (ordered : List Node) (succs preds : Node → List Node) (targets : List Node)
    (size fuel : Nat) (hz : 1 ≤ size) (ht : isTopo succs ordered = true) (hd : ordered.Nodup)
    (hp : ∀ n ∈ ordered, ∀ p ∈ preds n, p ∈ ordered ∧ n ∈ succs p) :
    (∀ x, x ∈ (executeV f preds (fuel + 1) (calcSteps ordered succs targets size) {}).data.map (·.1) ↔
        x ∈ targets ∧ x ∈ ordered) ∧
    (∀ x, x ∈ (executeV f preds (fuel + 1) (calcSteps ordered succs targets size) {}).inputs ↔
        x ∈ (executeV f preds (fuel + 1) (calcSteps ordered succs targets size) {}).data.map (·.1)) ∧
    (executeV f preds (fuel + 1) (calcSteps ordered succs targets size) {}).edges = [] ∧
    (executeV f preds (fuel + 1) (calcSteps ordered succs targets size) {}).log = ordered := by
  have e : (executeV f preds (fuel + 1) (calcSteps ordered succs targets size) ({} : VCache V)).erase =
      execute preds (fuel + 1) (calcSteps ordered succs targets size) {} :=
    erase_executeV f preds (fuel + 1) _ {}
  have r := run_correct ordered succs preds targets size fuel hz ht hd hp
  rw [← e] at r
  exact r

/-- **run_correct_from_any_values** the same from ANY valued cache whose elements and trace edges are as in
`run_correct_from_any` (well-formed; no held element is planned, no trace edge starts at a planned element;
calls go to planned elements or to held ones) – user inputs and calculated values, `None` among them or
not: what was held stays held, the targets are added, value-pasted; the planned elements ran once each. -/
theorem run_correct_from_any_values {V : Type} [Inhabited V] (f : Node → List (Option V) → V)
    (ordered : List Node) (succs preds : Node → List Node) (targets : List Node)
    (size fuel : Nat) (c0 : VCache V) (hz : 1 ≤ size) (ht : isTopo succs ordered = true) (hd : ordered.Nodup)
    (h0 : c0.erase.WF) (h0d : ∀ x ∈ c0.data.map (·.1), x ∉ ordered) (h0e : ∀ e ∈ c0.edges, e.1 ∉ ordered)
    (hp : ∀ n ∈ ordered, ∀ p ∈ preds n, (p ∈ ordered ∧ n ∈ succs p) ∨ p ∈ c0.data.map (·.1)) :
    (∀ x, x ∈ (executeV f preds (fuel + 1) (calcSteps ordered succs targets size) c0).data.map (·.1) ↔
        (x ∈ targets ∧ x ∈ ordered) ∨ x ∈ c0.data.map (·.1)) ∧
    (∀ x, x ∈ (executeV f preds (fuel + 1) (calcSteps ordered succs targets size) c0).inputs ↔
        (x ∈ targets ∧ x ∈ ordered) ∨ x ∈ c0.inputs) ∧
    (∀ e, e ∈ (executeV f preds (fuel + 1) (calcSteps ordered succs targets size) c0).edges ↔ e ∈ c0.edges) ∧
    (executeV f preds (fuel + 1) (calcSteps ordered succs targets size) c0).log = c0.log ++ ordered := by
  have e := erase_executeV f preds (fuel + 1) (calcSteps ordered succs targets size) c0
  have r := run_correct_from_any ordered succs preds targets size fuel c0.erase hz ht hd h0 h0d h0e hp
  rw [← e] at r
  exact r

/-- **pasted_value_is_kept** value-pasting stores exactly the value it is given – every value, the
distinguished `None` included: afterwards the element has an entry, and the entry is that value. -/
theorem pasted_value_is_kept {V : Type} (n : Node) (v : V) (c : VCache V) :
    (setValueV n v c).value n = some v ∧ n ∈ (setValueV n v c).data.map (·.1) ∧ n ∈ (setValueV n v c).inputs := by
  refine ⟨setValueV_value n v c, ?_, ?_⟩ <;> simp [setValueV]

/-! Non-vacuity with `None`s: modelx's own test model, values in `Option Nat`.  `valNone3`: `Cells2(2)` (= 3),
an intermediate element that the LAST block reads and that has a precedent of its own, evaluates to `None`;
`valNone4`: the target `Cells3(2)` (= 4) does. -/
def valNone3 : Node → List (Option (Option Nat)) → Option Nat :=
  fun n vs => if n = 3 then none else some (n + 10 * vs.length)

def valNone4 : Node → List (Option (Option Nat)) → Option Nat :=
  fun n vs => if n = 4 then none else some (n + 10 * vs.length)

example : executeV valNone3 demoPreds 1 (calcSteps demoOrder demoSuccs [4] 2) {} =
    { data := [(4, some 24)], inputs := [4], edges := [], log := [0, 1, 2, 3, 4] } := by decide

/-- a target whose value is `None` HOLDS `None` at the end (an entry with value `none`, not no entry) -/
example : executeV valNone4 demoPreds 1 (calcSteps demoOrder demoSuccs [4] 2) {} =
      { data := [(4, none)], inputs := [4], edges := [], log := [0, 1, 2, 3, 4] } ∧
    (executeV valNone4 demoPreds 1 (calcSteps demoOrder demoSuccs [4] 2) {}).value 4 = some none := by decide

example : ∀ x, x ∈ (executeV valNone3 demoPreds 1 (calcSteps demoOrder demoSuccs [4] 2) {}).data.map (·.1) ↔
    x ∈ [4] ∧ x ∈ demoOrder :=
  (run_correct_any_values valNone3 demoOrder demoSuccs demoPreds [4] 2 0 (by decide) (by decide) (by decide)
    (by decide)).1

example : (executeV valNone3 demoPreds 1 (calcSteps demoOrder demoSuccs [4] 2) {}).erase =
    (executeV (fun n _ => n) demoPreds 1 (calcSteps demoOrder demoSuccs [4] 2) {}).erase :=
  held_elements_independent_of_values _ _ demoPreds 1 _ {} {} rfl

example : (setValueV 3 (none : Option Nat) { data := [(2, some 7), (3, some 1)], edges := [(2, 3)] }).value 3 =
    some none := (pasted_value_is_kept 3 none _).1

/-- **paste_must_not_inspect_values** A `'paste'` step that reads the cache and skips the elements whose value is
`None` ("nothing held, nothing to keep" – `executeSkipNone`, a model of a plausible optimisation, not of modelx)
breaks the statement: (a) with `valNone4` the target ends up holding nothing; (b) with `valNone3` the intermediate
`None` is cleared with its precedents in its own block and the last block computes it and its precedents a second
time (on modelx's test model the final clear of `Cells1()` sweeps them away again; in general they are left
behind – the harness' oracle sees both). -/
theorem paste_must_not_inspect_values :
    (¬ ∀ (f : Node → List (Option (Option Nat)) → Option Nat) (ordered : List Node) (succs preds : Node → List Node)
        (targets : List Node) (size fuel : Nat), 1 ≤ size → isTopo succs ordered = true → ordered.Nodup →
        (∀ n ∈ ordered, ∀ p ∈ preds n, p ∈ ordered ∧ n ∈ succs p) →
        ∀ t ∈ targets, t ∈ ordered →
          t ∈ (executeSkipNone Option.isNone f preds (fuel + 1) (calcSteps ordered succs targets size) {}).data.map (·.1)) ∧
    (¬ ∀ (f : Node → List (Option (Option Nat)) → Option Nat) (ordered : List Node) (succs preds : Node → List Node)
        (targets : List Node) (size fuel : Nat), 1 ≤ size → isTopo succs ordered = true → ordered.Nodup →
        (∀ n ∈ ordered, ∀ p ∈ preds n, p ∈ ordered ∧ n ∈ succs p) →
        (executeSkipNone Option.isNone f preds (fuel + 1) (calcSteps ordered succs targets size) {}).log = ordered) := by
  constructor
  · intro h
    have := h valNone4 demoOrder demoSuccs demoPreds [4] 2 4 (by decide) (by decide) (by decide) (by decide)
      4 (by decide) (by decide)
    revert this; decide
  · intro h
    have := h valNone3 demoOrder demoSuccs demoPreds [4] 2 4 (by decide) (by decide) (by decide) (by decide)
    revert this; decide

/-- what the skipping paste does on `valNone3`: `3` is recomputed in the last block, with `2` and `1` -/
example : executeSkipNone Option.isNone valNone3 demoPreds 5 (calcSteps demoOrder demoSuccs [4] 2) {} =
    { data := [(4, some 24)], inputs := [4], edges := [], log := [0, 1, 2, 3, 4, 3, 2, 1] } := by decide

/-! ## Values: what the targets hold is what direct evaluation gives

The model with values (Kernels/CalcSteps.lean): a finite DAG of elements, `preds n` the precedents the formula
of `n` reads, and a pure evaluation function `f n vs` – the value of `n` when its precedents have the values
`vs` (so `f` reads its precedents only; `none` in `vs`: a precedent had no value when it was read).  `'calc'`
stores `f n (the precedents' values in the current cache)`.  `direct f preds inp k n` is DIRECT evaluation of
`n` to depth `k` relative to the values `inp` the model holds and does not recompute (user inputs first of
all): the least fixed point of the evaluation equations along the DAG. -/

/-- **run_values_are_direct_evaluation** Executing the plan from the empty model: for every value domain
(`None` or not), every evaluation function, every topological order of distinct nodes, target list, step size
`≥ 1`, call-depth bound `≥ 1`, program whose calls stay inside the plan – the elements that hold a value at
the end are exactly the targets, and the value each of them holds is the one direct evaluation gives it, at
every depth `≥` the number of planned elements (the depth at which direct evaluation has settled). -/
theorem run_values_are_direct_evaluation {V : Type} [Inhabited V] (f : Node → List (Option V) → V)
    (ordered : List Node) (succs preds : Node → List Node) (targets : List Node)
    (size fuel : Nat) (hz : 1 ≤ size) (ht : isTopo succs ordered = true) (hd : ordered.Nodup)
    (hp : ∀ n ∈ ordered, ∀ p ∈ preds n, p ∈ ordered ∧ n ∈ succs p) :
    (∀ x, (∃ v, (executeV f preds (fuel + 1) (calcSteps ordered succs targets size) {}).value x = some v) ↔
      x ∈ targets ∧ x ∈ ordered) ∧
    (∀ x v, (executeV f preds (fuel + 1) (calcSteps ordered succs targets size) {}).value x = some v →
      ∀ k, ordered.length ≤ k → direct f preds (fun _ => none) k x = some v) := by
  have hrc := run_correct_any_values f ordered succs preds targets size fuel hz ht hd hp
  obtain ⟨hs, _, hk⟩ := direct_solves ordered succs preds ht hd f (fun _ => none) (fun _ _ => rfl)
    (fun n hn p hpm => Or.inl (hp n hn p hpm))
  have hc := run_cons ordered succs targets size preds {} ht hd ⟨by simp, by simp⟩ (by simp) (by simp)
    (fun n hn p hpm => Or.inl (hp n hn p hpm)) f _ hs fuel hz ({} : VCache V) rfl (by intro e he; cases he)
  constructor
  · intro x
    rw [← hrc.1 x]
    constructor
    · rintro ⟨v, hv⟩; exact held_of_value hv
    · intro hx
      obtain ⟨v, hv, _⟩ := value_of_held (c := executeV f preds (fuel + 1) (calcSteps ordered succs targets size) {}) hx
      exact ⟨v, hv⟩
  · intro x v hv k hk'
    have hx := ((hrc.1 x).mp (held_of_value hv)).2
    rw [hk x hx k hk', hc.value hv]

/-- **run_values_are_direct_evaluation_from_any_values** The same from ANY model state with values: `inp`
describes what the model holds when the run starts – user inputs (assigned values, NOT recomputed) and
calculated values it already holds that are not planned (since 77e9cc3 `generate_actions` plans and clears the
held values the targets depend on; whatever else is held is read as it is) – `hin`: every entry of the cache is
`inp`'s value, `hout`: no planned element has one.  Under the hypotheses of `run_correct_from_any` on the held
elements and trace edges: EVERY value held at the end – targets, user inputs, what was held before – is the
value direct evaluation relative to `inp` gives that element, at every depth `≥` the number of planned
elements.  (If the calculated values held before were themselves direct evaluations relative to the user
inputs, so is everything at the end: direct evaluation reads them as it would recompute them.) -/
theorem run_values_are_direct_evaluation_from_any_values {V : Type} [Inhabited V] (f : Node → List (Option V) → V)
    (ordered : List Node) (succs preds : Node → List Node) (targets : List Node)
    (size fuel : Nat) (c0 : VCache V) (inp : Node → Option V)
    (hz : 1 ≤ size) (ht : isTopo succs ordered = true) (hd : ordered.Nodup)
    (h0 : c0.erase.WF) (h0d : ∀ x ∈ c0.data.map (·.1), x ∉ ordered) (h0e : ∀ e ∈ c0.edges, e.1 ∉ ordered)
    (hp : ∀ n ∈ ordered, ∀ p ∈ preds n, (p ∈ ordered ∧ n ∈ succs p) ∨ p ∈ c0.data.map (·.1))
    (hin : ∀ e ∈ c0.data, inp e.1 = some e.2) (hout : ∀ n ∈ ordered, inp n = none) :
    ∀ x v, (executeV f preds (fuel + 1) (calcSteps ordered succs targets size) c0).value x = some v →
      ∀ k, ordered.length ≤ k → direct f preds inp k x = some v := by
  have hrc := run_correct_from_any_values f ordered succs preds targets size fuel c0 hz ht hd h0 h0d h0e hp
  have hp' : ∀ n ∈ ordered, ∀ p ∈ preds n, (p ∈ ordered ∧ n ∈ succs p) ∨ (inp p).isSome := by
    intro n hn p hpm
    rcases hp n hn p hpm with h | h
    · exact Or.inl h
    · obtain ⟨e, he, hep⟩ := List.mem_map.mp h
      right; rw [← hep, hin e he]; rfl
  obtain ⟨hs, hi, hk⟩ := direct_solves ordered succs preds ht hd f inp hout hp'
  have hc := run_cons ordered succs targets size preds c0.erase ht hd h0 h0d h0e hp f _ hs fuel hz c0 rfl
    (fun e he => (hi e.1 e.2 (hin e he)).symm)
  intro x v hv k hk'
  have hval := hc.value hv
  by_cases hx : x ∈ ordered
  · rw [hk x hx k hk', hval]
  · rcases (hrc.1 x).mp (held_of_value hv) with h | h
    · exact (hx h.2).elim
    · obtain ⟨e, he, hex⟩ := List.mem_map.mp h
      have h1 := hin e he
      rw [hex] at h1
      rw [direct_of_inp f preds inp k x e.2 h1, hval, hi x e.2 h1]

/-- the evaluation equations, solved by direct evaluation: on a topological order, depth `ordered.length`
determines every planned element, more depth changes nothing, and the value of each is `f` of its
precedents' values (so direct evaluation IS the fixed point the theorems above speak about) -/
theorem direct_evaluation_is_the_fixed_point {V : Type} [Inhabited V] (f : Node → List (Option V) → V)
    (ordered : List Node) (succs preds : Node → List Node) (inp : Node → Option V)
    (ht : isTopo succs ordered = true) (hd : ordered.Nodup) (hout : ∀ n ∈ ordered, inp n = none)
    (hp : ∀ n ∈ ordered, ∀ p ∈ preds n, (p ∈ ordered ∧ n ∈ succs p) ∨ (inp p).isSome) :
    ∀ n ∈ ordered, ∀ k, ordered.length ≤ k →
      direct f preds inp k n = some (f n ((preds n).map (direct f preds inp k))) := by
  intro n hn k hk
  obtain ⟨l, rfl⟩ : ∃ l, k = l + 1 := ⟨k - 1, by have := List.length_pos_of_mem hn; omega⟩
  have hst := direct_stable ordered succs preds ht hd f inp hout hp ordered.length (Nat.le_refl _)
  rw [direct_succ_of_none f preds inp l n (hout n hn)]
  congr 2
  apply List.map_congr_left
  intro p hpm
  rcases hp n hn p hpm with ⟨hpo, hs⟩ | hi
  · by_cases hl : ordered.length ≤ l
    · rw [hst p (by simpa using hpo) l hl, hst p (by simpa using hpo) (l + 1) (by omega)]
    · -- l + 1 = ordered.length: `p` comes strictly before `n`, so depth `l` determines it already
      have hlen : l + 1 = ordered.length := by omega
      obtain ⟨i, hi, hin⟩ := List.getElem_of_mem hn
      have eo : ordered = ordered.take i ++ n :: ordered.drop (i + 1) := by
        rw [← hin, ← List.drop_eq_getElem_cons hi, List.take_append_drop]
      have ht' := ht
      have hd' := hd
      have hpo' := hpo
      rw [eo] at ht' hd' hpo'
      have hpre := isTopo_pred_strict ht' hd' hpo' hs
      have hsi := direct_stable ordered succs preds ht hd f inp hout hp i (by omega) p hpre
      rw [hsi l (by omega), hsi (l + 1) (by omega)]
  · obtain ⟨v, hv⟩ := Option.isSome_iff_exists.mp hi
    rw [direct_of_inp f preds inp l p v hv, direct_of_inp f preds inp (l + 1) p v hv]

/-! Non-vacuity with numbers and `None`s.  `valSeen n vs = some (n + 10 · number of precedents that HAD a value)`,
`valNone3` as above (`Cells2(2)` is `None`). -/
def valSeen : Node → List (Option (Option Nat)) → Option Nat :=
  fun n vs => some (n + 10 * (vs.filter Option.isSome).length)

example : (executeV valSeen demoPreds 1 (calcSteps demoOrder demoSuccs [4] 2) {}).value 4 = some (some 24) ∧
    direct valSeen demoPreds (fun _ => none) 5 4 = some (some 24) ∧
    direct valSeen demoPreds (fun _ => none) 9 4 = some (some 24) := by decide

example : ∀ x v, (executeV valNone3 demoPreds 1 (calcSteps demoOrder demoSuccs [4, 3] 2) {}).value x = some v →
    ∀ k, demoOrder.length ≤ k → direct valNone3 demoPreds (fun _ => none) k x = some v :=
  (run_values_are_direct_evaluation valNone3 demoOrder demoSuccs demoPreds [4, 3] 2 0 (by decide) (by decide)
    (by decide) (by decide)).2

/-- the `None`-valued target `3` holds `None`, and that is its direct value -/
example : (executeV valNone3 demoPreds 1 (calcSteps demoOrder demoSuccs [4, 3] 2) {}).value 3 = some none ∧
    direct valNone3 demoPreds (fun _ => none) 5 3 = some none := by decide

/-- from a model with a user input on `1` (`Cells2(0) = 100`, not recomputed) and an unrelated value `7`:
`Cells2(1)` reads the input -/
def inVCache : VCache (Option Nat) := { data := [(1, some 100), (7, none)], inputs := [1, 7] }
def inVals : Node → Option (Option Nat) := fun n => if n = 1 then some (some 100) else if n = 7 then some none else none

example : (executeV valSeen demoPredsIn 1 (calcSteps [0, 2, 3, 4] demoSuccsIn [4] 2) inVCache).data =
    [(1, some 100), (7, none), (4, some 24)] ∧ direct valSeen demoPredsIn inVals 4 4 = some (some 24) ∧
    direct valSeen demoPredsIn inVals 4 1 = some (some 100) := by decide

example : ∀ x v, (executeV valSeen demoPredsIn 1 (calcSteps [0, 2, 3, 4] demoSuccsIn [4] 2) inVCache).value x = some v →
    ∀ k, [0, 2, 3, 4].length ≤ k → direct valSeen demoPredsIn inVals k x = some v :=
  run_values_are_direct_evaluation_from_any_values valSeen [0, 2, 3, 4] demoSuccsIn demoPredsIn [4] 2 0 inVCache inVals
    (by decide) (by decide) (by decide) ⟨by decide, by decide⟩ (by decide) (by decide) (by decide) (by decide) (by decide)

/-- **calc_needs_its_precedents_held** What the plan's order is for: a `'calc'` of an element whose precedents
hold no value, at call-depth bound 1 (the formula cannot evaluate them itself), computes from MISSING values
(`valSeen` sees none of its two precedents) – not the direct value.  So "every held value is the direct one" is
false of arbitrary action lists; it is the planned order (every `'calc'` with its precedents held,
`block_preds_held`) that makes it true for every call-depth bound `≥ 1`. -/
theorem calc_needs_its_precedents_held :
    ¬ ∀ (f : Node → List (Option (Option Nat)) → Option Nat) (preds : Node → List Node) (actions : List Action)
        (x : Node) (v : Option Nat), (executeV f preds 1 actions {}).value x = some v →
        direct f preds (fun _ => none) 5 x = some v := by
  intro h
  have := h valSeen demoPreds [.doCalc [4]] 4 (some 4) (by decide)
  revert this; decide

/-- a plan that clears too early is noticed by the cache model: the log shows the recomputation -/
example : (execute demoPreds 5 [.doCalc [0, 1], .doClear [0], .doCalc [4]] {}).log =
    [0, 1, 4, 0, 3, 2, 1] := by decide

/-- the topological hypothesis is needed for the final assertion: on an order that is not
topological the model (like the code) ends with a non-empty `pasted` -/
example : finalPasted [1, 0] demoSuccs [] 1 ≠ [] := by decide

end MxModel.C16
