import MxModel.Props.C08
import MxModel.Props.C01
/-!
# C09 – the cached flag never changes any result

The specification `Den` mentions the cached flag in two places only: user-assigned values
(inputs) are consulted for cached cells only, and `None` is rejected for cached cells only.
`flags_irrelevant_to_values`: apart from those two documented differences – i.e. when no
element has an input and `None` is allowed everywhere – the specification does not depend on
the flags at all; with C01 (the mechanism returns the specification's value under *every*
flag assignment) every assignment of the flags gives the same results.
That *invalidation* still reaches every value computed through uncached cells after edits is
not a Lean theorem here; it is decided by the implementation-only oracle (same history under
all flag assignments, random and small-scope exhaustive) – two defects found that way were
repaired (known_findings.json).
-/
namespace MxModel.C09
open MxModel.Exec

def withFlags (env : Env) (c : CellId → Bool) : Env := { env with cached := c }

theorem denoteBody_congr (env env' : Env) (f : Node → Res × Bool) (hr : env'.refs = env.refs)
    (ha : env'.alive = env.alive) :
    ∀ p : Prog, denoteBody env' f p = denoteBody env f p := by
  intro p
  induction p with
  | ret v => rfl
  | raise e => rfl
  | reraise e => rfl
  | read a r k ih => simp only [denoteBody, hr]; exact ih _
  | call n k ih => simp only [denoteBody, calleeAt, ha, ih]

/-- **Switching any subset of cells between cached and uncached changes no value**
(specification level; no inputs, `None` allowed). -/
theorem flags_irrelevant_to_values (env : Env) (c : CellId → Bool)
    (hnone : ∀ x, env.allowNone x = true) :
    ∀ (d : Nat) (n : Node),
      denoteN (withFlags env c) (fun _ => none) d n = denoteN env (fun _ => none) d n := by
  intro d
  induction d with
  | zero => intro n; rfl
  | succ d ih =>
    intro n
    have hf : denoteN (withFlags env c) (fun _ => none) d = denoteN env (fun _ => none) d := funext ih
    simp only [denoteN, hf]
    have h1 : (if (withFlags env c).cached n.1 = true then (none : Option Val) else none) = none := by split <;> rfl
    have h2 : (if env.cached n.1 = true then (none : Option Val) else none) = none := by split <;> rfl
    rw [h1, h2]
    simp only []
    rw [denoteBody_congr env (withFlags env c) _ rfl rfl]
    have hck : ∀ r, checkNone (withFlags env c) n.1 r = checkNone env n.1 r := by
      intro r
      unfold checkNone withFlags
      cases r with
      | err e => rfl
      | ok v => cases v <;> simp [hnone]
    rw [hck]
    rfl

/-- … hence the mechanism returns the same value under any two flag assignments
(each equals the specification's value, C01). -/
theorem mechanism_results_flag_independent (env : Env) (c : CellId → Bool)
    (hnone : ∀ x, env.allowNone x = true) (n : Node) (s s' : St) (v v' : Val)
    (hg : Good env (fun _ => none) s) (hg' : Good (withFlags env c) (fun _ => none) s')
    (h0 : s.hit = false) (h0' : s'.hit = false)
    (he : (evalTop env n s).2.hit = false) (he' : (evalTop (withFlags env c) n s').2.hit = false)
    (hv : (evalTop env n s).1 = .ok v) (hv' : (evalTop (withFlags env c) n s').1 = .ok v') : v = v' := by
  have a := (C01.eval_value_is_denotation_partial env _ n s hg h0 he).1 v hv
  have b := (C01.eval_value_is_denotation_partial (withFlags env c) _ n s' hg' h0' he').1 v' hv'
  obtain ⟨d, hd⟩ := b
  rw [flags_irrelevant_to_values env c hnone d n] at hd
  have := Den_det env _ n _ _ a ⟨d, hd⟩
  cases this; rfl

/-- **Uncached cells hold no values** (every reachable state of terminating programs). -/
theorem uncached_holds_nothing (env : Env) (lt : Node → Node → Prop) (ho : StrictOrder lt)
    (hr : Ranked env lt) (ops : List C08.Op) (m : Node) (hc : env.cached m.1 = false) :
    lookup (C08.run env {} ops).data m = none :=
  C08.uncached_holds_nothing env lt ho hr ops m hc

/-- **…and are re-executed on every call**: a call of an uncached cells always reaches the
formula evaluator, whatever the cache holds; its arguments are never looked up.  (`keepExc`: when
the call returns, the caller's exception identity is what it was – bookkeeping of C17 that no value,
graph or cache field depends on.  `ha`: the cells exists – the name of a deleted cells is not
bound, the call fails in the caller.) -/
theorem uncached_always_executes (env : Env) (ef : Node → St → Res × St) (n : Node) (s : St)
    (ha : env.alive n.1 = true) (hc : env.cached n.1 = false) :
    evalNode env ef n s = keepExc s (ef n s) ∧ (evalNode env ef n s).1 = (ef n s).1 ∧
    (evalNode env ef n s).2.data = (ef n s).2.data ∧ (evalNode env ef n s).2.log = (ef n s).2.log := by
  have : evalNode env ef n s = keepExc s (ef n s) := by unfold evalNode; simp [ha, hc]
  rw [this]
  exact ⟨rfl, keepExc_fst s _, (keepExc_excOnly s _).data, (keepExc_excOnly s _).log⟩

/-! ### The hypothesis `None is allowed everywhere` is needed: a known finding

`CellsImpl.on_eval_formula` checks the `None` rule only when it stores a value, i.e. for cached
cells; an uncached cells hands `None` to its caller unchecked.  So the flag DOES change a result
when a cells returns `None` where `None` is not allowed (known finding
C09-uncached-none-unchecked): cells 0 returns `None`, cells 1 returns `c0() ` or, when that fails
with `NoneReturnedError`, 7.  With cells 0 cached the answer is 7, with cells 0 uncached it is
`None` … and then cells 1 itself fails the rule. -/

def nCells : CellId → Option Expr
  | 0 => some .none
  | 1 => some (.try_ (.call 0 []) .noneRet (.lit 7))
  | _ => none

def nEnv : Env where
  formula := fun n => match nCells n.1 with
    | some e => formulaOf (fun c => (nCells c).map (fun _ => 0)) e n.2
    | none => .raise (.user kName)
  cached := fun _ => true
  allowNone := fun _ => false
  refs := fun _ => .none
  maxdepth := 10

/-- **The full statement is false of the code**: with `None` not allowed, switching cells 0 to
uncached changes what cells 1 returns – in the mechanism and in the specification alike. -/
theorem flags_full_statement_fails :
    ¬ ∀ (env : Env) (c : CellId → Bool) (n : Node),
        (evalTop (withFlags env c) n {}).1 = (evalTop env n {}).1 := by
  intro h
  have := h nEnv (fun x => x != 0) (1, [])
  revert this
  decide

example : (evalTop nEnv (1, []) {}).1 = .ok (.int 7) := by decide
example : (evalTop (withFlags nEnv (fun x => x != 0)) (1, []) {}).1 =
    .formulaError .noneRet [(1, [])] := by decide

/-! Non-vacuity: the program of C08 with `None` allowed, evaluated under two assignments. -/
example : (evalTop { C08.gEnv with allowNone := fun _ => true } (3, []) {}).1 =
    (evalTop (withFlags { C08.gEnv with allowNone := fun _ => true } (fun _ => true)) (3, []) {}).1 := by decide

end MxModel.C09
