import MxModel.Props.C08
import MxModel.Props.C01
import MxModel.Proofs.ExecFlagsRun
import MxModel.Props.C02
/-!
# C09 – the cached flag never changes any result

The specification `Den` mentions the cached flag in two places only: user-assigned values
(inputs) are consulted for cached cells only, and `None` is rejected for cached cells only.
`flags_irrelevant_to_values_partial`: two flag assignments give the same specification as soon as
(I) assigned values sit only on cells whose flag is the same in both (an uncached cells accepts no
assignment), and (II) no formula of a cells whose flag DIFFERS returns `None` where `None` is not
allowed – (II) excludes exactly the recorded finding C09-uncached-none-unchecked
(`flags_full_statement_fails`), nothing else; the default configuration `allow_none = False` is
covered.  `flags_irrelevant_when_none_never_returned`: the same with (II) stated on the all-cached
assignment alone ("no evaluation fails with `NoneReturnedError`").  With C01 (the mechanism returns
the specification's value under *every* flag assignment) every assignment gives the same results:
`mechanism_results_flag_independent_partial`; and after any history of evaluations and reference /
formula / flag edits (`results_flag_independent_after_history_partial`: both runs hold certificates
for their own definitions, C02, and the two specifications coincide).
-/
namespace MxModel.C09
open MxModel.Exec

def withFlags (env : Env) (c : CellId → Bool) : Env := { env with cached := c }

theorem denoteBody_congr (env env' : Env) (f : Node → Res × Bool) (hr : env'.refs = env.refs)
    (ha : env'.alive = env.alive) :
    ∀ p : Prog, denoteBody env' f p = denoteBody env f p := by
  intro p
  induction p with
  | ret v => rfl
  | raise e => rfl
  | reraise e => rfl
  | read a r k ih => simp only [denoteBody, hr]; exact ih _
  | call n k ih => simp only [denoteBody, calleeAt, ha, ih]

/-- **Two flag assignments give the same values** (specification level; partial: (I) and (II)).
(I) `hinp`: an element with an assigned value belongs to a cells whose flag is the same in both
assignments.  (II) `hnone`: no formula of a cells whose flag differs returns `None` where `None` is
not allowed (stated for the first assignment; by the theorem itself it is then true of the second). -/
theorem flags_irrelevant_to_values_partial (env : Env) (c1 c2 : CellId → Bool) (inp : Node → Option Val)
    (hinp : ∀ n, inp n ≠ none → c1 n.1 = c2 n.1)
    (hnone : ∀ d n, c1 n.1 ≠ c2 n.1 → env.allowNone n.1 = false →
      (denoteBody (withFlags env c1) (denoteN (withFlags env c1) inp d) (env.formula n)).1 ≠ .ok .none) :
    ∀ (d : Nat) (n : Node), denoteN (withFlags env c1) inp d n = denoteN (withFlags env c2) inp d n := by
  intro d
  induction d with
  | zero => intro n; rfl
  | succ d ih =>
    intro n
    have hf : denoteN (withFlags env c1) inp d = denoteN (withFlags env c2) inp d := funext ih
    have hb := hnone d n
    simp only [denoteN]
    rw [← hf, denoteBody_congr (withFlags env c1) (withFlags env c2) _ rfl rfl]
    have h1 : (if (withFlags env c1).cached n.1 = true then inp n else none) =
        (if (withFlags env c2).cached n.1 = true then inp n else none) := by
      show (if c1 n.1 = true then inp n else none) = (if c2 n.1 = true then inp n else none)
      cases hi : inp n with
      | none => split <;> split <;> rfl
      | some v => rw [hinp n (by rw [hi]; exact fun h => by cases h)]
    rw [h1]
    have hck : checkNone (withFlags env c1) n.1
          (denoteBody (withFlags env c1) (denoteN (withFlags env c1) inp d) ((withFlags env c1).formula n)).1 =
        checkNone (withFlags env c2) n.1
          (denoteBody (withFlags env c1) (denoteN (withFlags env c1) inp d) ((withFlags env c1).formula n)).1 := by
      generalize hB : (denoteBody (withFlags env c1) (denoteN (withFlags env c1) inp d)
        ((withFlags env c1).formula n)).1 = B
      have hb' : c1 n.1 ≠ c2 n.1 → env.allowNone n.1 = false → B ≠ .ok .none := by
        intro h1 h2; rw [← hB]; exact hb h1 h2
      unfold checkNone
      cases B with
      | err e => rfl
      | ok v =>
        cases v with
        | int i => rfl
        | none =>
          show (if (c1 n.1 && !env.allowNone n.1) = true then _ else _) =
            (if (c2 n.1 && !env.allowNone n.1) = true then _ else _)
          by_cases hc : c1 n.1 = c2 n.1
          · rw [hc]
          · cases ha : env.allowNone n.1 with
            | true => simp
            | false => exact absurd rfl (hb' hc ha)
    rw [hck]
    rfl

/-- no evaluation under the ALL-CACHED assignment fails with `NoneReturnedError`: no formula returns
`None` where it is not allowed (and none raises that error by hand) -/
def NoneNeverReturned (env : Env) (inp : Node → Option Val) : Prop :=
  ∀ d n, (denoteN (withFlags env (fun _ => true)) inp d n).1 ≠ .err .noneRet

/-- **Any flag assignment gives the values of the all-cached assignment** when no evaluation of the
all-cached model ends in `NoneReturnedError` and the assigned values sit on cached cells (partial:
these two; `allow_none` may be `False` everywhere – the default). -/
theorem flags_irrelevant_when_none_never_returned (env : Env) (c : CellId → Bool) (inp : Node → Option Val)
    (hinp : ∀ n, inp n ≠ none → c n.1 = true) (hnone : NoneNeverReturned env inp) :
    ∀ (d : Nat) (n : Node),
      denoteN (withFlags env c) inp d n = denoteN (withFlags env (fun _ => true)) inp d n := by
  intro d
  induction d with
  | zero => intro n; rfl
  | succ d ih =>
    intro n
    have hf : denoteN (withFlags env c) inp d = denoteN (withFlags env (fun _ => true)) inp d := funext ih
    have hb := hnone (d + 1) n
    have hbody : denoteBody (withFlags env c) (denoteN (withFlags env c) inp d) ((withFlags env c).formula n) =
        denoteBody (withFlags env (fun _ => true)) (denoteN (withFlags env (fun _ => true)) inp d)
          ((withFlags env (fun _ => true)).formula n) := by
      rw [hf]; exact denoteBody_congr (withFlags env (fun _ => true)) (withFlags env c) _ rfl rfl _
    have h1 : (if (withFlags env c).cached n.1 = true then inp n else none) = inp n := by
      show (if c n.1 = true then inp n else none) = inp n
      cases hi : inp n with
      | none => split <;> rfl
      | some v => rw [hinp n (by rw [hi]; exact fun h => by cases h)]; rfl
    have h2 : (if (withFlags env (fun _ => true)).cached n.1 = true then inp n else none) = inp n := rfl
    simp only [denoteN] at hb ⊢
    rw [hbody, h1, h2]
    rw [h2] at hb
    generalize (denoteBody (withFlags env (fun _ => true)) (denoteN (withFlags env (fun _ => true)) inp d)
      ((withFlags env (fun _ => true)).formula n)) = B at hb ⊢
    cases hi : inp n with
    | some v => rfl
    | none =>
      rw [hi] at hb
      simp only [] at hb ⊢
      have hck : checkNone (withFlags env c) n.1 B.1 = checkNone (withFlags env (fun _ => true)) n.1 B.1 := by
        unfold checkNone at hb ⊢
        cases hB : B.1 with
        | err e => rfl
        | ok v =>
          cases v with
          | int i => rfl
          | none =>
            rw [hB] at hb
            show (if (c n.1 && !env.allowNone n.1) = true then _ else _) =
              (if (true && !env.allowNone n.1) = true then _ else _)
            cases ha : env.allowNone n.1 with
            | true => simp
            | false =>
              exfalso
              apply hb
              show (if (true && !env.allowNone n.1) = true then Res.err .noneRet else _) = _
              rw [ha]; rfl
      rw [hck]

/-- …hence any TWO assignments under which the assigned values sit on cached cells agree. -/
theorem flags_irrelevant_between_assignments (env : Env) (c1 c2 : CellId → Bool) (inp : Node → Option Val)
    (hinp1 : ∀ n, inp n ≠ none → c1 n.1 = true) (hinp2 : ∀ n, inp n ≠ none → c2 n.1 = true)
    (hnone : NoneNeverReturned env inp) (d : Nat) (n : Node) :
    denoteN (withFlags env c1) inp d n = denoteN (withFlags env c2) inp d n := by
  rw [flags_irrelevant_when_none_never_returned env c1 inp hinp1 hnone,
    flags_irrelevant_when_none_never_returned env c2 inp hinp2 hnone]

/-- **Switching any subset of cells between cached and uncached changes no value**
(specification level; no inputs, `None` allowed) – corollary of the theorem above. -/
theorem flags_irrelevant_to_values (env : Env) (c : CellId → Bool)
    (hnone : ∀ x, env.allowNone x = true) :
    ∀ (d : Nat) (n : Node),
      denoteN (withFlags env c) (fun _ => none) d n = denoteN env (fun _ => none) d n := by
  intro d n
  exact flags_irrelevant_to_values_partial env c env.cached (fun _ => none) (fun n h => absurd rfl h)
    (fun d n _ ha => by rw [hnone] at ha; cases ha) d n

/-- … hence the mechanism returns the same value under any two flag assignments (each equals the
specification's value, C01; partial: (I), (II) as above and `LimitNotCaughtInThisCall` for the two
evaluations). -/
theorem mechanism_results_flag_independent_partial (env : Env) (c1 c2 : CellId → Bool)
    (inp : Node → Option Val)
    (hinp : ∀ n, inp n ≠ none → c1 n.1 = c2 n.1)
    (hnone : ∀ d n, c1 n.1 ≠ c2 n.1 → env.allowNone n.1 = false →
      (denoteBody (withFlags env c1) (denoteN (withFlags env c1) inp d) (env.formula n)).1 ≠ .ok .none)
    (n : Node) (s s' : St) (v v' : Val)
    (hg : Good (withFlags env c1) inp s) (hg' : Good (withFlags env c2) inp s')
    (he : LimitNotCaughtInThisCall (withFlags env c1) n s)
    (he' : LimitNotCaughtInThisCall (withFlags env c2) n s')
    (hv : (evalTop (withFlags env c1) n s).1 = .ok v)
    (hv' : (evalTop (withFlags env c2) n s').1 = .ok v') : v = v' := by
  have a := (C01.eval_value_is_denotation_partial _ _ n s hg he).1 v hv
  have b := (C01.eval_value_is_denotation_partial _ _ n s' hg' he').1 v' hv'
  obtain ⟨d, hd⟩ := b
  rw [← flags_irrelevant_to_values_partial env c1 c2 inp hinp hnone d n] at hd
  have := Den_det _ _ n _ _ a ⟨d, hd⟩
  cases this; rfl

/-- the instance stated before: `None` allowed everywhere, no inputs -/
theorem mechanism_results_flag_independent (env : Env) (c : CellId → Bool)
    (hnone : ∀ x, env.allowNone x = true) (n : Node) (s s' : St) (v v' : Val)
    (hg : Good env (fun _ => none) s) (hg' : Good (withFlags env c) (fun _ => none) s')
    (he : LimitNotCaughtInThisCall env n s) (he' : LimitNotCaughtInThisCall (withFlags env c) n s')
    (hv : (evalTop env n s).1 = .ok v) (hv' : (evalTop (withFlags env c) n s').1 = .ok v') : v = v' :=
  mechanism_results_flag_independent_partial env env.cached c (fun _ => none) (fun n h => absurd rfl h)
    (fun d n _ ha => by rw [hnone] at ha; cases ha) n s s' v v' hg hg' he he' hv hv'

/-! ### "now or after any further edits": the same history under two initial flag assignments -/

/-- **Two runs of one history that differ only in the initial assignment of the cached flag return
the same values** (partial: regime `C02.WF` – terminating, `NoCatch`, statically scoped –;
`NoneNeverReturned` for the definitions reached; the history makes no assignment – an uncached cells
accepts none, so an assignment to a cells whose flag differs is not the same operation in the two
runs).  `ops` is any admissible history of the thirteen-operation language: evaluations (returned,
failed, stopped by the limit), clears, reference edits, formula edits, FLAG edits at any point, cells
deleted and created, limit changes.  Both runs hold certificates for their own definitions (C02), so
both answers are the specification's (C01, no hypothesis about the limit), the two sets of
definitions differ in the flags only, and the two specifications coincide
(`flags_irrelevant_between_assignments`). -/
theorem results_flag_independent_after_history_partial (lt : Node → Node → Prop) (ho : StrictOrder lt)
    (env0 : Env) (c : CellId → Bool) (hw0 : C02.WF env0 lt) (ops : List C02.Op)
    (hadm : C02.Admissible lt (env0, {}) ops) (hna : ∀ op ∈ ops, C02.isAssign op = false)
    (hnone : NoneNeverReturned (C02.run (env0, {}) ops).1 (fun _ => none)) (n : Node) (v v' : Val)
    (hv : (evalTop (C02.run (env0, {}) ops).1 n (C02.run (env0, {}) ops).2).1 = .ok v)
    (hv' : (evalTop (C02.run (withFlags env0 c, {}) ops).1 n (C02.run (withFlags env0 c, {}) ops).2).1 = .ok v') :
    v = v' := by
  have hr0 : RgNoInputs ({} : St) := fun e he => by simp at he
  have hadm' : C02.Admissible lt (withFlags env0 c, {}) ops := C02.admissible_flags lt ops env0 c {} {} hadm
  have hw0' : C02.WF (withFlags env0 c) lt := C02.wf_setFlags hw0 c
  -- both runs hold certificates for their own definitions; neither has inputs
  obtain ⟨c1, w1⟩ := C02.run_ci lt ho ops (env0, {}) hw0 (CI.empty env0 lt) hadm
  obtain ⟨c2, w2⟩ := C02.run_ci lt ho ops (withFlags env0 c, {}) hw0' (CI.empty _ lt) hadm'
  have i1 : inpOf (C02.run (env0, {}) ops).2 = fun _ => none := by
    rw [C02.run_inp ho ops (env0, {}) hw0 (CI.empty env0 lt) hr0 hadm]
    exact C02.inpRun_none ops hna env0
  have i2 : inpOf (C02.run (withFlags env0 c, {}) ops).2 = fun _ => none := by
    rw [C02.run_inp ho ops (withFlags env0 c, {}) hw0' (CI.empty _ lt) hr0 hadm']
    exact C02.inpRun_none ops hna _
  have a := (C01.eval_value_is_denotation_nocatch_partial _ _ w1.noCatch n _ c1.good).1 v hv
  have b := (C01.eval_value_is_denotation_nocatch_partial _ _ w2.noCatch n _ c2.good).1 v' hv'
  rw [i1] at a; rw [i2] at b
  -- the definitions reached differ in the flags only
  have henv : (C02.run (withFlags env0 c, {}) ops).1 =
      withFlags (C02.run (env0, {}) ops).1 (C02.run (withFlags env0 c, {}) ops).1.cached := by
    rw [C02.run_env, C02.run_env]
    exact (C02.foldl_envStep_flags ops env0 c).symm
  obtain ⟨d, hd⟩ := b
  rw [henv, flags_irrelevant_between_assignments (C02.run (env0, {}) ops).1 _ (C02.run (env0, {}) ops).1.cached
    (fun _ => none) (fun n h => absurd rfl h) (fun n h => absurd rfl h) hnone d n] at hd
  have := Den_det _ _ n _ _ a ⟨d, hd⟩
  cases this; rfl

/-- **Uncached cells hold no values** (every reachable state of terminating programs). -/
theorem uncached_holds_nothing (env : Env) (lt : Node → Node → Prop) (ho : StrictOrder lt)
    (hr : Ranked env lt) (ops : List C08.Op) (m : Node) (hc : env.cached m.1 = false) :
    lookup (C08.run env {} ops).data m = none :=
  C08.uncached_holds_nothing env lt ho hr ops m hc

/-- …**in every state reachable by the full edit language** (`C02.Op`: also reference, formula and
flag edits – "flag changes at any point of a history" –, cells deleted and created): a cells that is
uncached NOW holds nothing, and the graph has an object node only for such a cells. -/
theorem uncached_holds_nothing_full (lt : Node → Node → Prop) (ho : StrictOrder lt) (env0 : Env)
    (hw0 : C02.WF env0 lt) (ops : List C02.Op) (hadm : C02.Admissible lt (env0, {}) ops) (m : Node)
    (hc : (C02.run (env0, {}) ops).1.cached m.1 = false) :
    lookup (C02.run (env0, {}) ops).2.data m = none ∧
    (∀ c, GNode.obj c ∈ (C02.run (env0, {}) ops).2.gn → (C02.run (env0, {}) ops).1.cached c = false) :=
  ⟨C08.uncached_holds_nothing_full lt ho env0 hw0 ops hadm m hc,
   fun c h => (C08.object_nodes_only_for_uncached_full lt ho env0 hw0 ops hadm c h).1⟩

/-- **…and are re-executed on every call**: a call of an uncached cells always reaches the
formula evaluator, whatever the cache holds; its arguments are never looked up.  (`keepExc`: when
the call returns, the caller's exception identity is what it was – bookkeeping of C17 that no value,
graph or cache field depends on.  `ha`: the cells exists – the name of a deleted cells is not
bound, the call fails in the caller.) -/
theorem uncached_always_executes (env : Env) (ef : Node → St → Res × St) (n : Node) (s : St)
    (ha : env.alive n.1 = true) (hc : env.cached n.1 = false) :
    evalNode env ef n s = keepExc s (ef n s) ∧ (evalNode env ef n s).1 = (ef n s).1 ∧
    (evalNode env ef n s).2.data = (ef n s).2.data ∧ (evalNode env ef n s).2.log = (ef n s).2.log := by
  have : evalNode env ef n s = keepExc s (ef n s) := by unfold evalNode; simp [ha, hc]
  rw [this]
  exact ⟨rfl, keepExc_fst s _, (keepExc_excOnly s _).data, (keepExc_excOnly s _).log⟩

/-! ### The hypothesis `None is allowed everywhere` is needed: a known finding

`CellsImpl.on_eval_formula` checks the `None` rule only when it stores a value, i.e. for cached
cells; an uncached cells hands `None` to its caller unchecked.  So the flag DOES change a result
when a cells returns `None` where `None` is not allowed (known finding
C09-uncached-none-unchecked): cells 0 returns `None`, cells 1 returns `c0() ` or, when that fails
with `NoneReturnedError`, 7.  With cells 0 cached the answer is 7, with cells 0 uncached it is
`None` … and then cells 1 itself fails the rule. -/

def nCells : CellId → Option Expr
  | 0 => some .none
  | 1 => some (.try_ (.call 0 []) .noneRet (.lit 7))
  | _ => none

def nEnv : Env where
  formula := fun n => match nCells n.1 with
    | some e => formulaOf (fun c => (nCells c).map (fun _ => 0)) e n.2
    | none => .raise (.user kName)
  cached := fun _ => true
  allowNone := fun _ => false
  refs := fun _ => .none
  maxdepth := 10

/-- **The full statement is false of the code**: with `None` not allowed, switching cells 0 to
uncached changes what cells 1 returns – in the mechanism and in the specification alike. -/
theorem flags_full_statement_fails :
    ¬ ∀ (env : Env) (c : CellId → Bool) (n : Node),
        (evalTop (withFlags env c) n {}).1 = (evalTop env n {}).1 := by
  intro h
  have := h nEnv (fun x => x != 0) (1, [])
  revert this
  decide

example : (evalTop nEnv (1, []) {}).1 = .ok (.int 7) := by decide
example : (evalTop (withFlags nEnv (fun x => x != 0)) (1, []) {}).1 =
    .formulaError .noneRet [(1, [])] := by decide

/-! Non-vacuity: the program of C08 with `None` allowed, evaluated under two assignments. -/
example : (evalTop { C08.gEnv with allowNone := fun _ => true } (3, []) {}).1 =
    (evalTop (withFlags { C08.gEnv with allowNone := fun _ => true } (fun _ => true)) (3, []) {}).1 := by decide

/-! Non-vacuity for the DEFAULT configuration (`allow_none = False` everywhere, where the theorems
stated before said nothing): `c0() = 3`, `c1() = c0() + 1`, an assigned value on the cached `c2`.
No evaluation ends in `NoneReturnedError`; the assignment that makes `c0` uncached gives the same
specification, and the mechanism the same answers. -/
def qK : Res → Prog
  | .ok (.int i) => .ret (.int (i + 1))
  | .ok .none => .ret (.int 0)
  | .err e => .reraise e

def qEnv : Env where
  formula := fun n => if n.1 = 0 then .ret (.int 3) else .call (0, []) qK
  cached := fun _ => true
  allowNone := fun _ => false
  refs := fun _ => none
  maxdepth := 10

def qInp : Node → Option Val := fun n => if n = (2, []) then some (.int 50) else none

theorem qEnv_none_never_returned (c0 : CellId → Bool) (inp : Node → Option Val) :
    NoneNeverReturned (withFlags qEnv c0) inp := by
  intro d
  induction d with
  | zero => intro n h; cases h
  | succ d ih =>
    intro n
    simp only [denoteN]
    split
    · intro h; cases h
    · by_cases hn : n.1 = 0
      · have : (withFlags (withFlags qEnv c0) (fun _ => true)).formula n = .ret (.int 3) := by
          simp [withFlags, qEnv, hn]
        rw [this]; intro h; cases h
      · have : (withFlags (withFlags qEnv c0) (fun _ => true)).formula n = .call (0, []) qK := by
          simp [withFlags, qEnv, hn]
        rw [this]
        have hcal : calleeAt (withFlags (withFlags qEnv c0) (fun _ => true))
            (denoteN (withFlags (withFlags qEnv c0) (fun _ => true)) inp d) (0, []) =
            denoteN (withFlags (withFlags qEnv c0) (fun _ => true)) inp d (0, []) := rfl
        simp only [denoteBody, hcal]
        have := ih (0, [])
        generalize (denoteN (withFlags (withFlags qEnv c0) (fun _ => true)) inp d (0, [])).1 = r at this
        match r, this with
        | .ok (.int i), _ => intro h; cases h
        | .ok .none, _ => intro h; cases h
        | .err e, hne =>
          intro h
          simp only [qK, denoteBody, checkNone] at h
          exact hne h

theorem qEnv_wf (c0 : CellId → Bool) : C02.WF (withFlags qEnv c0) idLt := by
  refine ⟨?_, ?_, ?_⟩
  · intro n
    show CallsBelow idLt n (if n.1 = 0 then .ret (.int 3) else .call (0, []) qK)
    split
    · trivial
    · rename_i hn
      exact ⟨Nat.pos_of_ne_zero hn, fun r => by
        match r with
        | .ok (.int i) => trivial
        | .ok .none => trivial
        | .err e => trivial⟩
  · intro n
    show NoCatch (if n.1 = 0 then .ret (.int 3) else .call (0, []) qK)
    split
    · trivial
    · exact ⟨fun e => trivial, fun r => by
        match r with
        | .ok (.int i) => trivial
        | .ok .none => trivial
        | .err e => trivial⟩
  · intro n
    show NameReadsIn _ (if n.1 = 0 then .ret (.int 3) else .call (0, []) qK)
    split
    · trivial
    · exact fun r => by
        match r with
        | .ok (.int i) => trivial
        | .ok .none => trivial
        | .err e => trivial

example (d : Nat) (n : Node) :
    denoteN (withFlags qEnv (fun c => c != 0)) qInp d n = denoteN (withFlags qEnv (fun _ => true)) qInp d n :=
  flags_irrelevant_when_none_never_returned qEnv _ qInp
    (by intro n h; by_cases hn : n = (2, []) <;> simp_all [qInp]) (qEnv_none_never_returned qEnv.cached qInp) d n

example : (evalTop (withFlags qEnv (fun c => c != 0)) (1, []) {}).1 = .ok (.int 4) ∧
    (evalTop (withFlags qEnv (fun _ => true)) (1, []) {}).1 = .ok (.int 4) := by decide

/-! …and over a history with a flag edit in the middle: `c1()` is evaluated, `c0` is switched to
uncached, `c1()` again – started with all cells cached, and started with `c1` uncached. -/
def qOps : List C02.Op := [.eval (1, []), .setCached 0 false, .eval (1, [])]

theorem qOps_admissible : C02.Admissible idLt (qEnv, {}) qOps :=
  ⟨qEnv_wf qEnv.cached, qEnv_wf _, qEnv_wf _, trivial⟩

example (n : Node) (v v' : Val)
    (hv : (evalTop (C02.run (qEnv, {}) qOps).1 n (C02.run (qEnv, {}) qOps).2).1 = .ok v)
    (hv' : (evalTop (C02.run (withFlags qEnv (fun x => x != 1), {}) qOps).1 n
      (C02.run (withFlags qEnv (fun x => x != 1), {}) qOps).2).1 = .ok v') : v = v' :=
  results_flag_independent_after_history_partial idLt idLt_strict qEnv _ (qEnv_wf qEnv.cached) qOps
    qOps_admissible (by intro op h; simp [qOps] at h; rcases h with rfl | rfl | rfl <;> rfl)
    (qEnv_none_never_returned _ _) n v v' hv hv'

example : (evalTop (C02.run (qEnv, {}) qOps).1 (1, []) (C02.run (qEnv, {}) qOps).2).1 = .ok (.int 4) ∧
    (evalTop (C02.run (withFlags qEnv (fun x => x != 1), {}) qOps).1 (1, [])
      (C02.run (withFlags qEnv (fun x => x != 1), {}) qOps).2).1 = .ok (.int 4) ∧
    (C02.run (qEnv, {}) qOps).2.gn = [.obj 0, .elem (1, [])] ∧
    (C02.run (withFlags qEnv (fun x => x != 1), {}) qOps).2.gn = [] := by decide


/-! ## The flag as part of a definition: structural histories

In the combined machine (`Edit/Machine.lean`) the cache flag belongs to the definition a member entry
carries (`Params.flagOf payload`; a derived cells takes the flag of its definer: `CellsImpl.on_inherit`
copies `is_cached`), and `cells.is_cached = b` is `set_cells_property`: the cells AND its derived copies in
the sub spaces are cleared as objects.  `C02.machine_keeps_ci` therefore covers flag edits in base
spaces: invalidation still reaches every held value computed through a cells that was or becomes
uncached, in the sub spaces too.  What does not lift: the two-run statement
`results_flag_independent_after_history_partial` (it needs the two-run induction over structural
histories). -/
section combined

/-- **uncached cells hold nothing** in every state of the combined machine with the invariant -/
theorem uncached_members_hold_nothing (P : Edit.Params) (lt : Node → Node → Prop) (w : Edit.W)
    (h : Edit.CIW P lt w) (c : CellId) (hc : (w.env P).cached c = false) (key : Key) :
    lookup w.ex.data (c, key) = none := by
  cases hl : lookup w.ex.data (c, key) with
  | none => rfl
  | some v =>
    have := (h.ci.gi.heldNodes (c, key) (by rw [hl]; rfl)).2
    rw [hc] at this; cases this

/-- **a flag edit in a base keeps the invariant** (it is `set_cells_property`: instance of
`C02.machine_keeps_ci`) – for the cells and for its derived copies in every sub space -/
theorem flag_edit_in_base_keeps_invariant (P : Edit.Params) (lt : Node → Node → Prop) (ho : StrictOrder lt)
    (w : Edit.W) (p : SM.Path) (name : String) (v : Nat) (hw : C02.WF (w.env P) lt) (h : Edit.CIW P lt w) :
    Edit.CIW P lt (Edit.step P w (.struct (.setFormula p name v))) :=
  C02.machine_keeps_ci P lt ho w _ hw h

/-- the example of C02 with payload 2 standing for the UNCACHED definition `y * 3` -/
def fP : Edit.Params := { Edit.eP with flagOf := fun v => v != 2 }

def fOps : List Edit.Op := [
  .struct (.newSpace [] "Base" [] []), .struct (.newCells ["Base"] "f" "f" 0), .struct (.setRef ["Base"] "y" 1),
  .struct (.newSpace [] "Sub" [["Base"]] []), .eval ["Sub"] "f" [],
  .struct (.setFormula ["Base"] "f" 2), .eval ["Sub"] "f" [],
  .struct (.setFormula ["Base"] "f" 1), .eval ["Sub"] "f" []]

/-! `Sub.f()` is 2 and held; `Base.f` becomes the uncached `y * 3`: the derived `Sub.f` is cleared and
uncached too – `Sub.f()` is 3 and NOTHING is held; `Base.f` becomes cached again: `Sub.f()` is 3 and
held.  The history is admissible and ends in a state with the invariant. -/
example : (Edit.run fP {} (fOps.take 5)).ex.data = [((1, []), .int 2)] ∧
    (Edit.run fP {} (fOps.take 6)).ex.data = [] ∧
    Edit.answer fP (Edit.run fP {} (fOps.take 6)) ["Sub"] "f" [] = some (.ok (.int 3)) ∧
    (Edit.run fP {} (fOps.take 7)).ex.data = [] ∧
    (fP.flagOf 2 = false) ∧
    (Edit.run fP {} fOps).ex.data = [((1, []), .int 3)] := by
  decide

theorem fOps_admissible : Edit.Admissible fP idLt {} fOps :=
  Edit.admissible_of_sources fP idLt Edit.eP_noCatch Edit.eP_scoped Edit.eP_noCalls fOps {} Edit.allocOK_empty rfl

example : Edit.CIW fP idLt (Edit.run fP {} fOps) :=
  (C02.machine_reachable_ci fP idLt idLt_strict fOps fOps_admissible).1

example (key : Key) : lookup (Edit.run fP {} (fOps.take 7)).ex.data (1, key) = none :=
  uncached_members_hold_nothing fP idLt _
    (C02.machine_reachable_ci fP idLt idLt_strict (fOps.take 7)
      (Edit.admissible_of_sources fP idLt Edit.eP_noCatch Edit.eP_scoped Edit.eP_noCalls _ {} Edit.allocOK_empty rfl)).1
    1 (by decide) key

end combined

end MxModel.C09
