import MxModel.Proofs.Export
/-!
# C15 – an exported package computes the same values as the model

C15 is claimed at the level of **translation validation**: for every generated model the
check exports it with modelx, imports the package in a process in which `import modelx`
raises, and compares every queried value with the model's.  The theorems below are a
supplement: they cover the two places of `modelx/export` where a *decision* is taken that
does not depend on the text of a formula (model: `Kernels/Export.lean`), instantiated with
the statement/branch orders extracted from the current sources
(`Generated.exportReplaceOrder`, `exportDummyFor`, `exportCallLoop`, `mxNamespaceOrder`,
`mxDynRefsOrder`, `mxAllargsOrder`) – a reordering in exporter.py / transformer.py / space.py
changes these definitions and the proofs below are re-checked against it.

The rewriting statement holds in full since the repair 77f6b99 (`rewrite_resolves_same`); the lookup
statement is false of the real code: the trigger is a named hypothesis (`CellsShadowed`), the witness
is `item_lookup_full_statement_fails` (known finding C15-cells-shadowed-by-attr).
-/
namespace MxModel.C15
open MxModel.Export MxModel

/-! ## 1. the rewriting decision of `FormulaTransformer.should_replace` -/

/-- **Rewritten names resolve to the same class of object.**  For every table of built-ins, every
space (any cells, references, child spaces, parameters) and every name that is global in the
formula: the exported method finds a member of the space where modelx finds one, the built-in
where modelx falls through to the built-ins, and nothing where modelx finds nothing.  (Full
statement since the repair 77f6b99; before it a built-in name borne only by a child space or a
parameter was excluded, see `refs_only_dummies_fail` below.) -/
theorem rewrite_resolves_same (builtins : List String) (t : SpaceNames) (n : String) :
    exportedResolve Generated.exportReplaceOrder Generated.exportDummyFor builtins t n =
      mxResolve builtins t n := by
  simp only [exportedResolve, mxResolve, shouldReplace_generated]
  rw [topNames_generated]
  exact resolve_table _ _

/-- With the dummy bindings of the code before 77f6b99 (references only) the statement is false: a
child space (or ItemSpace parameter) named like a built-in is not rewritten, so the exported method
reads the built-in (finding C15-builtin-named-space-or-param, repaired; witness in the corpus). -/
theorem refs_only_dummies_fail :
    ¬ ∀ (builtins : List String) (t : SpaceNames) (n : String),
      exportedResolve Generated.exportReplaceOrder ["refs"] builtins t n =
        mxResolve builtins t n := by
  intro h
  have := h ["list"] { spaces := ["list"] } "list"
  revert this
  decide

/-- **… also where parameters have no value.**  For every table of built-ins, every space, every set of
parameters that the ItemSpaces on the access path bind (none: `P.foo()`; some: `P[1].Q.foo()`; all: inside
the innermost ItemSpace) and every name that is global in the formula: the exported method finds what
modelx's namespace-then-built-ins rule finds.  (Full statement since the repair 28e12dc, which made a
parameter without value that is named like a built-in denote the built-in; `no_class_fallback_fails`
is the code before it.) -/
theorem static_access_resolves_same (builtins : List String) (t : SpaceNames) (bound : List String)
    (n : String) :
    exportedResolveAt Generated.exportReplaceOrder Generated.exportDummyFor
        Generated.exportStaticFallbackFor Generated.exportStaticFallbackUnless builtins t bound n =
      mxResolveAt builtins t bound n := by
  simp only [exportedResolveAt, mxResolveAt, shouldReplace_generated, classFallback,
    Generated.exportStaticFallbackFor, Generated.exportStaticFallbackUnless, container,
    List.flatMap_cons, List.flatMap_nil, List.append_nil, SpaceNames.hasValue]
  rw [topNames_generated]
  simp only [SpaceNames.isMember, List.contains_eq_mem, List.mem_append, String.reduceEq, ↓reduceIte]
  by_cases h1 : n ∈ t.cells <;> by_cases h2 : n ∈ t.refs <;> by_cases h3 : n ∈ t.spaces <;>
    by_cases h4 : n ∈ t.params <;> by_cases h5 : n ∈ bound <;> by_cases h6 : n ∈ builtins <;>
    simp [h1, h2, h3, h4, h5, h6]

/-- Without the class-level fall-backs (the code before 28e12dc) the statement is false: `P.foo()` with
`lambda: int` in a space whose parameter is named `int` - modelx reads the built-in, the exported method
finds no attribute (finding C15-static-access-builtin-named-param, repaired; witness in the corpus). -/
theorem no_class_fallback_fails :
    ¬ ∀ (builtins : List String) (t : SpaceNames) (bound : List String) (n : String),
      exportedResolveAt Generated.exportReplaceOrder Generated.exportDummyFor [] [] builtins t bound n =
        mxResolveAt builtins t bound n := by
  intro h
  have := h ["int"] { params := ["int"] } [] "int"
  revert this
  decide

/-- where every visible parameter is bound (inside the ItemSpace) this is `rewrite_resolves_same` -/
theorem all_bound_is_member_rule (builtins : List String) (t : SpaceNames) (n : String) :
    mxResolveAt builtins t t.params n = mxResolve builtins t n := by
  simp only [mxResolveAt, mxResolve, SpaceNames.hasValue, SpaceNames.isMember, Bool.and_self]
  rfl

/-- a cells or reference of the space wins over a built-in of the same name -/
theorem member_wins_over_builtin (builtins : List String) (t : SpaceNames) (n : String)
    (h : n ∈ t.cells ∨ n ∈ t.refs) :
    shouldReplace Generated.exportReplaceOrder Generated.exportDummyFor builtins t .global n = true := by
  rw [shouldReplace_generated, topNames_generated]
  rcases h with h | h <;> simp [SpaceNames.isMember, h]

/-- a built-in that no member shadows stays a bare name -/
theorem pure_builtin_stays (builtins : List String) (t : SpaceNames) (n : String)
    (hb : n ∈ builtins) (hm : t.isMember n = false) :
    shouldReplace Generated.exportReplaceOrder Generated.exportDummyFor builtins t .global n = false := by
  rw [shouldReplace_generated, topNames_generated]
  simp [hm, hb]

/-- every other global name (child space, ItemSpace parameter, `_space`, `_model`, unknown)
is read from `self` -/
theorem non_builtin_global_rewritten (builtins : List String) (t : SpaceNames) (n : String)
    (hb : n ∉ builtins) :
    shouldReplace Generated.exportReplaceOrder Generated.exportDummyFor builtins t .global n = true := by
  rw [shouldReplace_generated]
  cases ht : (topNames Generated.exportDummyFor t).contains n <;> simp [hb]

/-- names that are not global where they occur are never touched, whatever the tables -/
theorem local_names_untouched (order dummyFor builtins : List String) (t : SpaceNames) (n : String) :
    shouldReplace order dummyFor builtins t .localOrFree n = false ∧
    shouldReplace order dummyFor builtins t .absent n = false := ⟨rfl, rfl⟩

/-! ### which scope decides: inlined comprehensions (Python >= 3.12) -/

/-- **The climb computes Python's scoping.**  For every chain of scopes around an occurrence (innermost
first; any mixture of inlined comprehensions, generator expressions, lambdas, nested functions, any
names bound at any level) that ends in a scope with a symbol table - the formula's own function -, the
scope look-up of `should_replace` classifies the name exactly as Python does: local or free if some scope
around the occurrence binds it, global otherwise. -/
theorem climb_is_python_scoping (n : String) (ss : List PyScope) (m : PyScope) (hm : m.inlined = false) :
    classify n (view (ss ++ [m])) = pyKind n (ss ++ [m]) :=
  classify_view n ss m hm

/-- **A name means the same at every occurrence.**  For every table of built-ins, every space, every
chain of scopes as above and every name: after the rewriting the occurrence is the variable of an
enclosing scope where Python binds it in the formula, and otherwise resolves to the member of the space /
the built-in / nothing exactly as modelx's namespace does. -/
theorem occurrence_resolves_same (builtins : List String) (t : SpaceNames) (n : String)
    (ss : List PyScope) (m : PyScope) (hm : m.inlined = false) :
    exportedMeaning Generated.exportReplaceOrder Generated.exportDummyFor builtins t (ss ++ [m]) n =
      mxMeaning builtins t (ss ++ [m]) n := by
  simp only [exportedMeaning, mxMeaning, shouldReplaceAt, classify_view n ss m hm, pyKind]
  cases hb : pyBound n (ss ++ [m]) with
  | true => simp [shouldReplace]
  | false =>
    simp only [Bool.false_eq_true, if_false, shouldReplace_generated, topNames_generated, mxResolve]
    cases hmem : t.isMember n <;> cases hbi : builtins.contains n <;> simp

/-- Asking only the INNERMOST comprehension for its own variables (seeded change C15-mutD) is not
Python's rule: in `[[n * j for j in range(3)] for n in range(n)]` the `n` of the inner element is the
outer loop variable, but the nearest table (the function's, where `n` is also read as a global) calls
it global. -/
theorem innermost_only_fails :
    ¬ ∀ (n : String) (ss : List PyScope) (m : PyScope), m.inlined = false →
      classifyInnermostOnly n (view (ss ++ [m])) = pyKind n (ss ++ [m]) := by
  intro h
  have := h "n" [{ binds := ["j"], inlined := true }, { binds := ["n"], inlined := true }]
    { binds := [] } rfl
  revert this
  decide

/-- the two rules agree when the name occurs directly in the comprehension that binds it, or in no
inlined comprehension at all -/
theorem innermost_only_agrees_one_level (n : String) (b : List String) (ss : List PyScope) (m : PyScope)
    (hm : m.inlined = false) (hs : ∀ s ∈ ss, s.inlined = false) :
    classifyInnermostOnly n (view ({ binds := b, inlined := true } :: ss ++ [m])) =
      classify n (view ({ binds := b, inlined := true } :: ss ++ [m])) := by
  cases ss with
  | nil => simp [view, hm, classifyInnermostOnly, classify, skipToTable]
  | cons s rest =>
    have h1 : s.inlined = false := hs s (List.mem_cons_self ..)
    simp [view, h1, classifyInnermostOnly, classify, skipToTable]

/-- `[[n * j for j in range(3)] for n in range(n)]` in a space with the reference `n`: the `n` of the
first iterable is the reference, the `n` of the inner element is the loop variable; `j` and `n` inside
are never rewritten, a name bound nowhere (`k`) is, a built-in (`range`) is not. -/
example :
    let t : SpaceNames := { refs := ["n", "k"] }
    let fn : PyScope := { binds := [] }
    let outer : PyScope := { binds := ["n"], inlined := true }
    let inner : PyScope := { binds := ["j"], inlined := true }
    let b := ["range", "sum"]
    (exportedMeaning Generated.exportReplaceOrder Generated.exportDummyFor b t [fn] "n",
     exportedMeaning Generated.exportReplaceOrder Generated.exportDummyFor b t [inner, outer, fn] "n",
     exportedMeaning Generated.exportReplaceOrder Generated.exportDummyFor b t [inner, outer, fn] "j",
     exportedMeaning Generated.exportReplaceOrder Generated.exportDummyFor b t [inner, outer, fn] "k",
     exportedMeaning Generated.exportReplaceOrder Generated.exportDummyFor b t [inner, outer, fn] "range",
     classifyInnermostOnly "n" (view [inner, outer, fn]))
    = (.target .member, .localVar, .localVar, .target .member, .target .builtin, .global) := by decide

/-- a lambda inside the comprehension has a table of its own, in which the loop variable is free:
`[(lambda q: q + n)(j) for n in range(n)]` -/
example :
    classify "n" (view [{ binds := ["q"] }, { binds := ["n"], inlined := true }, { binds := [] }]) = .localOrFree ∧
    classify "k" (view [{ binds := ["q"] }, { binds := ["n"], inlined := true }, { binds := [] }]) = .global := by
  decide

/-! ## 2. arguments and references in (nested) ItemSpaces -/

/-- **`self.k` in an exported (nested) ItemSpace is what modelx's namespace gives (partial).**
For every model-level reference table, every path (any nesting depth, any mixture of
parametrised and static levels, any reuse of parameter names, any own references at every
level, any arguments) and every name: the attribute found on the exported instance is the
entry modelx's chain `cells > innermost arguments > … > outermost arguments > references of
the base space > model-level references` selects – unless a cells of that space bears the
name of a visible argument or reference. -/
theorem item_lookup_eq_modelx_partial (g : Env) (lv : List Level) (hwf : WF lv) (k : String)
    (h : ¬ CellsShadowed Generated.mxAllargsOrder g lv k) :
    exportedLookup Generated.exportCallLoop g lv k =
      mxLookup Generated.mxNamespaceOrder Generated.mxDynRefsOrder Generated.mxAllargsOrder g lv k := by
  cases lv with
  | nil => rfl
  | cons inner outer =>
    have hinv := (after_inv g (inner :: outer) hwf).1 inner.sp k
    simp only [exportedLookup, mxLookup, mxRefLookup, hinv, Generated.mxNamespaceOrder,
      Generated.mxDynRefsOrder, List.map_cons, List.map_nil]
    simp only [CellsShadowed, staticRefs, get_append] at h
    simp only [staticRefs, get_append]
    cases ha : argOf Generated.mxAllargsOrder (inner :: outer) k <;>
      cases ho : get inner.sp.ownRefs k <;> cases hg : get g k <;>
      cases hc : inner.sp.cells.contains k <;>
      simp_all [firstSome, Option.orElse]

/-- The full statement is false: in `P[x]` with a cells named `x`, modelx's namespace gives
the cells, the exported instance attribute `x` (the argument) shadows the method. -/
theorem item_lookup_full_statement_fails :
    ¬ ∀ (g : Env) (lv : List Level) (_ : WF lv) (k : String),
      exportedLookup Generated.exportCallLoop g lv k =
        mxLookup Generated.mxNamespaceOrder Generated.mxDynRefsOrder Generated.mxAllargsOrder g lv k := by
  intro h
  have := h [] [{ sp := { params := ["x"], cells := ["x"] }, args := some [1] }]
    (by simp [WF]) "x"
  revert this
  decide

/-- **Object-valued references in an item denote what they denote in modelx.**  For each of the four
modes a reference can have (`none`: model level) and either position of the target: the generated
`_mx_copy_refs` binds the base's object or the item's counterpart exactly as modelx re-binds the reference.
(Over the chain extracted from `ParentTranslator.ref_copies`; a re-ordered or merged chain changes
`Generated.exportRefCopyRule` and this is re-checked.) -/
theorem ref_copy_matches_modelx (mode : String) (hm : mode ∈ ["none", "absolute", "auto", "relative"])
    (inside : Bool) :
    copiedBinding Generated.exportRefCopyRule mode inside = some (mxBinding mode inside) := by
  simp only [List.mem_cons, List.mem_nil_iff, or_false] at hm
  rcases hm with h | h | h | h <;> subst h <;> cases inside <;> decide

/-- **Model-level references are never re-bound**: inside every item, also an item of the very tree the
target lies in, the name denotes the static object (the subject of seeded change C15-mutF). -/
theorem model_level_never_rebound (inside : Bool) :
    copiedBinding Generated.exportRefCopyRule "none" inside = some .baseObject := by
  cases inside <;> decide

/-- with the chain of C15-mutF (`absolute` -> base, everything else -> inside test) a model-level reference
to an object inside the tree is re-bound to the item's object -/
example : copiedBinding [("absolute", "base"), ("*", "inside")] "none" true = some .itemCounterpart ∧
    mxBinding "none" true = .baseObject := by decide

/-- **The innermost argument wins.**  In `…P[a]…C[b]` where both formulas have a parameter
`k`, code running in `C[b]` (or in a static space below it) sees `b`'s value. -/
theorem innermost_argument_wins (g : Env) (inner : Level) (outer : List Level)
    (hwf : WF (inner :: outer)) (a : List Int) (ha : inner.args = some a) (k : String)
    (hk : k ∈ inner.sp.params) :
    ∃ v, get (inner.sp.params.zip a) k = some v ∧
      exportedLookup Generated.exportCallLoop g (inner :: outer) k = .val v := by
  obtain ⟨v, hv⟩ := get_zip_some inner.sp.params a k hk (hwf.2.1 a ha)
  refine ⟨v, hv, ?_⟩
  have hinv := (after_inv g (inner :: outer) hwf).1 inner.sp k
  simp [exportedLookup, hinv, argOf_cons_some inner outer k a ha, hv, Option.orElse]

/-! ## 3. how a reference value is written (`ParentTranslator.ref_value`) -/

/-- **A source literal is written for exactly the values whose type IS a literal type** - and,
for a float, that are finite.  Instances of strict subclasses (whatever their bases) never take the
literal branch. -/
theorem literal_iff_exact_type (v : PyVal) :
    refValue Generated.exportLiteralTest Generated.exportLiteralTypes v Generated.exportRefValueOrder = .literal
      ↔ (v.iface = false ∧ Generated.exportLiteralTypes.contains v.ty = true ∧
          ¬ (v.ty = "float" ∧ v.finite = false)) := by
  rw [refValue_generated]
  cases v.iface <;> cases v.valid <;> cases Generated.exportLiteralTypes.contains v.ty <;>
    cases v.sysmod <;> cases v.iospec <;> cases v.finite <;> by_cases hf : v.ty = "float" <;> simp [hf]

/-- an instance of a subclass of a literal type (an enum member, a numpy scalar, a user-defined
`float`) that is neither a modelx object, a module nor IO data is pickled -/
theorem subclass_instance_is_pickled (v : PyVal)
    (hi : v.iface = false) (hm : v.sysmod = false) (ho : v.iospec = false)
    (ht : Generated.exportLiteralTypes.contains v.ty = false) :
    refValue Generated.exportLiteralTest Generated.exportLiteralTypes v Generated.exportRefValueOrder = .pickle := by
  rw [refValue_generated]
  simp only [hi, hm, ho, ht, Bool.false_eq_true, Bool.false_and, ↓reduceIte]

/-- `nan`, `inf` and `-inf` (whose `repr` is a name, not a literal) are pickled -/
theorem nonfinite_float_is_pickled (v : PyVal)
    (hi : v.iface = false) (hm : v.sysmod = false) (ho : v.iospec = false)
    (ht : v.ty = "float") (hf : v.finite = false) :
    refValue Generated.exportLiteralTest Generated.exportLiteralTypes v Generated.exportRefValueOrder = .pickle := by
  rw [refValue_generated]
  simp [hi, hm, ho, ht, hf]

/-- **The imported package binds a value of the same exact type and payload.**  For every value
that is not an invalidated modelx object, given what `ReprModel` assumes of CPython's `repr` of the
five exact literal types.  (Full statement since the repair 3bae90c; before it the hypothesis
`¬ LiteralReprNotExpr` was needed, see `exact_test_fails_on_nan` below.) -/
theorem ref_value_faithful (v : PyVal) (hv : v.iface = true → v.valid = true)
    (hr : ReprModel Generated.exportLiteralTypes v) :
    readBack Generated.exportLiteralTypes
      (refValue Generated.exportLiteralTest Generated.exportLiteralTypes v Generated.exportRefValueOrder) v
      = some (v.ty, v.payload) := by
  rw [refValue_generated]
  unfold ReprModel at hr
  cases hi : v.iface
  · cases hl : Generated.exportLiteralTypes.contains v.ty
    · cases v.sysmod <;> cases v.iospec <;> simp [readBack]
    · have hr' := hr hl
      cases hfin : (v.ty == "float" && !v.finite)
      · simp only [hfin] at hr'
        have hm : v.ty ∈ Generated.exportLiteralTypes := by simpa using hl
        simp [readBack, hm, hr']
      · cases v.sysmod <;> cases v.iospec <;> simp [readBack]
  · simp [hv hi, readBack]

/-- the hypothesis-free form for the values whose `repr` evaluates -/
theorem ref_value_faithful_partial (v : PyVal) (hv : v.iface = true → v.valid = true)
    (h : ¬ LiteralReprNotExpr Generated.exportLiteralTypes v)
    (hfin : v.ty = "float" → v.finite = true) :
    readBack Generated.exportLiteralTypes
      (refValue Generated.exportLiteralTest Generated.exportLiteralTypes v Generated.exportRefValueOrder) v
      = some (v.ty, v.payload) := by
  rw [refValue_generated]
  unfold LiteralReprNotExpr at h
  have hff : (v.ty == "float" && !v.finite) = false := by
    by_cases hf : v.ty = "float"
    · simp [hf, hfin hf]
    · simp [hf]
  cases hi : v.iface
  · cases hl : Generated.exportLiteralTypes.contains v.ty
    · cases v.sysmod <;> cases v.iospec <;> simp [readBack]
    · cases hr : v.reprEvaluates
      · exact absurd ⟨hl, hr⟩ h
      · have hm : v.ty ∈ Generated.exportLiteralTypes := by simpa using hl
        simp only [hl, hff, Bool.not_false, Bool.and_true, ↓reduceIte, Bool.false_eq_true]
        simp [readBack, hm, hr]
  · simp [hv hi, readBack]

/-- With the test of the code before 3bae90c (`"exact"`: every float is a literal) the statement is
false: `float('nan')` is written as the name `nan`, and the generated module does not import
(finding C15-nonfinite-float-ref, repaired; the witness stays in the corpus). -/
theorem exact_test_fails_on_nan :
    ¬ ∀ (v : PyVal), (v.iface = true → v.valid = true) → ReprModel Generated.exportLiteralTypes v →
      readBack Generated.exportLiteralTypes
        (refValue "exact" Generated.exportLiteralTypes v Generated.exportRefValueOrder) v
        = some (v.ty, v.payload) := by
  intro h
  have := h { ty := "float", bases := ["object"], reprEvaluates := false, finite := false } (by simp)
    (by simp [ReprModel])
  revert this
  decide

/-! ## Non-vacuity -/

/-- `True` is written as a literal although `bool` derives from `int` (its exact type is listed);
`HTTPStatus.NOT_FOUND` (an `int` through `IntEnum`), `numpy.float64(2.5)` (a `float`) and a user
`Percent(float)` are pickled; `numpy.int64(7)` (no literal base at all) is pickled; `math` is
imported. -/
example :
    ([ { ty := "bool", bases := ["int", "object"] },
       { ty := "http.HTTPStatus", bases := ["enum.IntEnum", "int", "enum.ReprEnum", "enum.Enum", "object"] },
       { ty := "numpy.float64", bases := ["numpy.floating", "numpy.inexact", "numpy.number", "numpy.generic", "float", "object"] },
       { ty := "c15_usertypes.Percent", bases := ["float", "object"] },
       { ty := "numpy.int64", bases := ["numpy.signedinteger", "numpy.integer", "numpy.number", "numpy.generic", "object"] },
       { ty := "module", bases := ["object"], sysmod := true } ] : List PyVal).map
      (fun v => refValue Generated.exportLiteralTest Generated.exportLiteralTypes v Generated.exportRefValueOrder)
    = [.literal, .pickle, .pickle, .pickle, .pickle, .importModule] := by decide

/-- `1.5` is written as a literal and read back; `nan` is pickled and read back; both meet `ReprModel` -/
example :
    let x : PyVal := { ty := "float", bases := ["object"], payload := 15 }
    let n : PyVal := { ty := "float", bases := ["object"], reprEvaluates := false, finite := false }
    (refValue Generated.exportLiteralTest Generated.exportLiteralTypes x Generated.exportRefValueOrder,
     refValue Generated.exportLiteralTest Generated.exportLiteralTypes n Generated.exportRefValueOrder)
      = (.literal, .pickle) ∧
    ReprModel Generated.exportLiteralTypes x ∧ ReprModel Generated.exportLiteralTypes n := by
  refine ⟨by decide, ?_, ?_⟩ <;> simp [ReprModel]

/-- with `isinstance` in place of the exact type test (seeded change C15-mutC) the enum member is
written as a literal, and what comes back is not the value: the module does not import when the
`repr` is not an expression, and a plain `float` replaces a `Percent` when it is inherited -/
example :
    let st : PyVal := { ty := "http.HTTPStatus", bases := ["enum.IntEnum", "int", "object"], reprInherited := false }
    let pc : PyVal := { ty := "c15_usertypes.Percent", bases := ["float", "object"], payload := 5 }
    (refValue "isinstance" Generated.exportLiteralTypes st Generated.exportRefValueOrder,
     readBack Generated.exportLiteralTypes .literal st,
     refValue "isinstance" Generated.exportLiteralTypes pc Generated.exportRefValueOrder,
     readBack Generated.exportLiteralTypes .literal pc)
    = (.literal, none, .literal, some ("float", 5)) := by decide


/-- `P[x, id].Q[y]`, a formula of `Q` reading `id`, `x`, `y`, `len`: on `P[1, 2].Q[3]` all are arguments; on
`P[1, 2].Q` (static) `y` has no value; on `P.Q` none has - `id` is then the built-in, `x` nothing. -/
example :
    let t : SpaceNames := { cells := ["foo"], params := ["y", "x", "id"] }
    let b := ["id", "len"]
    let r := fun bound n => exportedResolveAt Generated.exportReplaceOrder Generated.exportDummyFor
      Generated.exportStaticFallbackFor Generated.exportStaticFallbackUnless b t bound n
    (["id", "x", "y", "len"].map (r ["y", "x", "id"]), ["id", "x", "y", "len"].map (r ["x", "id"]),
     ["id", "x", "y", "len"].map (r []))
    = ([.member, .member, .member, .builtin], [.member, .member, .unbound, .builtin],
       [.builtin, .unbound, .unbound, .builtin]) := by decide

/-- `len` is a reference, `max` a cells, `sum` nothing: two rewritten, one kept. -/
example :
    let t : SpaceNames := { cells := ["max"], refs := ["len"], spaces := ["Ch"], params := ["x"] }
    (["len", "max", "sum", "Ch", "x", "nope"].map
      (shouldReplace Generated.exportReplaceOrder Generated.exportDummyFor ["len", "max", "sum"] t .global))
      = [true, true, false, true, true, true] := by decide

/-- `Parent[1].Child[2, 10].GrandChild`: `x` reused by both formulas, `y` only inner, `u` a
reference of `Parent`'s model, `x` also a model-level reference. -/
def demoPath : List Level :=
  [ { sp := { ownRefs := [("w", 5)] } },
    { sp := { params := ["x", "y"], ownRefs := [("y", 7)] }, args := some [2, 10] },
    { sp := { params := ["x"] }, args := some [1] } ]

example : (["x", "y", "w", "u", "zz"].map (exportedLookup Generated.exportCallLoop [("u", 3), ("x", 9)] demoPath))
    = [.val 2, .val 10, .val 5, .val 3, .unbound] := by decide

example : WF demoPath := by simp [WF, demoPath]

/-- with the two statements of the loop swapped (seeded change C15-mutB) the outer argument wins -/
example : exportedLookup ["copy_refs", "assign_params", "copy_params", "roots_extend", "roots_append"]
    [] demoPath "x" = .val 1 := by decide

/-! ## 6. the cache methods of the generated classes

`Generated.exportCacheNoParam` / `Generated.exportCacheParam` are the templates `SpaceTranslator.cache_method_noparam`
/ `cache_method` of exporter.py read as programs (tables.cache_method_tokens); the check also reads every cache
method of the generated classes back into the same form (`cm`) and compares.  The theorems are about the programs
as extracted; they depend on how the templates are written only through the decidable checker `cacheWF`
(`generated_cache_methods_wf`), which accepts every arrangement of the statements that behaves as the protocol
demands, so a rearrangement of the templates that keeps the behaviour keeps the proofs. -/

/-- **Every program the checker accepts follows the protocol** - in whatever arrangement its statements are
written (an `else` branch or the statements after a returning `if`, the test negated, the value stored through a
local or directly): for every type of values, every sequence of reads of one element and whatever the formula does
at each of them, the reads show what modelx shows (`specReads`) and the formula is evaluated as often as modelx
evaluates it.  (`Export.cacheOK_of_cacheWF`: the statements never inspect a value or the counter, so four test
reads over `Bool` decide; `Export.reads_eq_spec_of_ok`.) -/
theorem checked_cache_reads_eq_spec (V : Type) (p : CProg) (h : cacheWF p = true) (fs : List (Option V)) :
    CacheOK V p ∧ reads p fs {} = specReads fs none ∧ callsAfter p fs {} = specCalls fs none := by
  have ok := cacheOK_of_cacheWF V p h
  have := reads_eq_spec_of_ok ok fs {} none rfl
  exact ⟨ok, this.1, by rw [this.2]; simp⟩

/-- **The checker is exact**: it accepts a program iff the program follows the protocol for every type of values
(so a rearrangement of a template is accepted exactly when it keeps the behaviour). -/
theorem cache_checker_exact (p : CProg) : cacheWF p = true ↔ ∀ V : Type, CacheOK V p :=
  ⟨fun h V => cacheOK_of_cacheWF V p h, fun h => cacheWF_of_cacheOK p (h Bool)⟩

/-- **The per-run obligation**: the programs extracted from the templates of exporter.py as they are NOW parse and
pass the checker.  (Nothing else in this section depends on how the templates are written.) -/
theorem generated_cache_methods_wf :
    cacheTokensWF Generated.exportCacheNoParam = true ∧ cacheTokensWF Generated.exportCacheParam = true := by
  decide

/-- Both generated cache methods follow the protocol (`CacheOK`): read by read, from every state of the cache. -/
theorem generated_cache_methods_ok (V : Type) (toks : List String) (p : CProg)
    (hm : toks = Generated.exportCacheNoParam ∨ toks = Generated.exportCacheParam)
    (hp : CProg.ofTokens toks = some p) : CacheOK V p := by
  have hw := generated_cache_methods_wf
  apply cacheOK_of_cacheWF
  rcases hm with rfl | rfl
  · have := hw.1
    simp only [cacheTokensWF, hp] at this
    exact this
  · have := hw.2
    simp only [cacheTokensWF, hp] at this
    exact this

/-- not vacuous: the extracted programs parse -/
example : (CProg.ofTokens Generated.exportCacheNoParam).isSome ∧ (CProg.ofTokens Generated.exportCacheParam).isSome := by
  decide

/-- the same protocol written in other ways is accepted as well: the statements after a returning `if` instead of
an `else` branch (both templates), the test negated with the branches swapped, the value stored from the local
after the call -/
example : [["ifhas", "retSlot", "else", "end", "evalBoth", "setHas", "retTmp"],
           ["ifhas", "retItem", "else", "end", "evalTmp", "putTmp", "retTmp"],
           ["ifnothas", "evalTmp", "storeTmp", "setHas", "else", "end", "retSlot"],
           ["ifnothas", "evalItem", "else", "end", "retItem"],
           ["ifhas", "retSlot", "else", "evalBoth", "setHas", "retTmp", "end"]].map cacheTokensWF
    = [true, true, true, true, true] := by decide

/-- ... and what is not the protocol is rejected: the flag raised before the call (C15-mutG), a placeholder stored
before the call, the value never stored, the flag never raised, a stored value recomputed, no return -/
example : [["ifnothas", "setHas", "evalSlot", "else", "end", "retSlot"],
           ["ifhas", "retItem", "else", "putTmp", "evalTmp", "putTmp", "retTmp", "end"],
           ["ifhas", "retSlot", "else", "evalTmp", "setHas", "retTmp", "end"],
           ["ifhas", "retSlot", "else", "evalBoth", "retTmp", "end"],
           ["ifhas", "evalBoth", "retTmp", "else", "evalBoth", "setHas", "retTmp", "end"],
           ["ifhas", "retSlot", "else", "evalBoth", "setHas", "end"],
           ["ifhas", "retSlot", "evalBoth"]].map cacheTokensWF
    = [false, false, false, false, false, false, false] := by decide

/-- **A failed evaluation stores nothing: the next read evaluates again.**  For both generated cache methods, from
a cache without a value: a read at which the formula raises ends with that exception, leaves the cache without a
value, and the read after it calls the formula again and shows what the formula does THEN (the exception again, or
the value). -/
theorem failed_evaluation_stores_nothing (V : Type) (toks : List String) (p : CProg)
    (hm : toks = Generated.exportCacheNoParam ∨ toks = Generated.exportCacheParam)
    (hp : CProg.ofTokens toks = some p) (s : CSt V) (h : s.has = false) (next : Option V) :
    (runCache p none s).2.has = false ∧
    reads p [none, next] s = [.error, match next with | none => .error | some v => .value (some v)] ∧
    callsAfter p [none, next] s = s.calls + 2 := by
  have ok := generated_cache_methods_ok V toks p hm hp
  have := reads_eq_spec_of_ok ok [none, next] s none h
  refine ⟨(ok.fail s h).2.1, ?_, ?_⟩
  · rw [this.1]; cases next <;> rfl
  · rw [this.2]; cases next <;> rfl

/-- **A successful evaluation is returned unchanged thereafter**, whatever the formula would do if it were called
again (it is not called). -/
theorem stored_value_returned_thereafter (V : Type) (toks : List String) (p : CProg)
    (hm : toks = Generated.exportCacheNoParam ∨ toks = Generated.exportCacheParam)
    (hp : CProg.ofTokens toks = some p) (s : CSt V) (h : s.has = false) (v : V) (later : List (Option V)) :
    reads p (some v :: later) s = (some v :: later).map (fun _ => .value (some v)) ∧
    callsAfter p (some v :: later) s = s.calls + 1 := by
  have ok := generated_cache_methods_ok V toks p hm hp
  have := reads_eq_spec_of_ok ok (some v :: later) s none h
  refine ⟨?_, ?_⟩
  · rw [this.1]
    simp only [specReads, List.map_cons, List.cons.injEq, true_and]
    exact specReads_all_stored later v
  · rw [this.2]; rfl

/-- **The exported cache shows what modelx shows.**  For every sequence of reads of one cached element of an
exported package (without or with parameters: one argument tuple), whatever the formula does at each read
(raise or return): the reads show the exception until the first evaluation that returns and that value from then
on - `specReads`, which is what modelx's own cache does (Exec: `rolledback` leaves no value of a failed
evaluation) - and the formula is evaluated once per read up to that point and never after. -/
theorem exported_cache_reads_eq_spec (V : Type) (toks : List String) (p : CProg)
    (hm : toks = Generated.exportCacheNoParam ∨ toks = Generated.exportCacheParam)
    (hp : CProg.ofTokens toks = some p) (fs : List (Option V)) :
    reads p fs {} = specReads fs none ∧ callsAfter p fs {} = specCalls fs none := by
  have := reads_eq_spec_of_ok (generated_cache_methods_ok V toks p hm hp) fs {} none rfl
  exact ⟨this.1, by rw [this.2]; simp⟩

/-- not vacuous: fails, fails, returns 7, (would fail), (would return 9) -/
example : (CProg.ofTokens Generated.exportCacheNoParam).map
      (fun p => (reads p [none, none, some 7, none, some 9] ({} : CSt Nat),
                 callsAfter p [none, none, some 7, none, some 9] ({} : CSt Nat)))
    = some ([.error, .error, .value (some 7), .value (some 7), .value (some 7)], 3) := by decide

example : (CProg.ofTokens Generated.exportCacheParam).map
      (fun p => reads p [none, some 7, none] ({} : CSt Nat))
    = some [.error, .value (some 7), .value (some 7)] := by decide

/-- **Negative witness**: raising the flag BEFORE the formula is called (`if not has: has = True; slot = f()`
followed by `return slot`; seeded change C15-mutG) is not the protocol: after a failed evaluation the next read
returns `None` without evaluating. -/
theorem flag_before_evaluation_fails :
    ∃ p, CProg.ofTokens ["ifnothas", "setHas", "evalSlot", "else", "end", "retSlot"] = some p ∧
      reads p [none, none, some 7] ({} : CSt Nat) = [.error, .value none, .value none] ∧
      cacheWF p = false ∧ ¬ CacheOK Nat p := by
  refine ⟨{ neg := true, thn := [.setHas, .evalSlot], els := [], aft := [.retSlot] }, by decide, by decide,
    by decide, ?_⟩
  intro ok
  have := (ok.fail {} rfl).2.1
  revert this
  decide

/-- ... and so is storing a placeholder in the dict before the call (`self._v_x[key] = None` first) - here:
`putTmp` before `evalTmp` -/
example : (CProg.ofTokens ["ifhas", "retItem", "else", "putTmp", "evalTmp", "putTmp", "retTmp", "end"]).map
      (fun p => reads p [none, some 7] ({} : CSt Nat)) = some [.error, .value none] := by decide

end MxModel.C15
