import MxModel.Proofs.ExecSound
import MxModel.Proofs.ExecFrame
import MxModel.Proofs.ExecKeep
import MxModel.Props.C01
/-!
# C05 – a failed evaluation leaves a consistent, retryable state

Failure points are every `Prog.raise` of every formula behaviour, `None` returned where it is
not allowed (`_store_value`), and the depth limit (`CallStack.append`); all theorems are for
every environment, every element, every reachable state.
-/
namespace MxModel.C05
open MxModel.Exec

variable (env : Env) (inp : Node → Option Val)

/-- **No formula is left marked as executing**: after any top-level call – returned or
failed at any depth with any kind of error – the call stack, the index stack, the
reference stack and the roll-back list are empty again. -/
theorem failure_quiescent (n : Node) (s : St) (hq : Quiescent s) :
    Quiescent (evalTop env n s).2 :=
  evalTop_quiescent env n s hq

/-- **The top-level call raises an error carrying the original exception, and the state
stays correct**: the `FormulaError` carries exactly the error that pure evaluation of the
element ends in, and afterwards every held value is still the spec's
(partial: `LimitNeverCaught`, see C01). -/
theorem failure_consistent_partial (n : Node) (s : St) (e : Err) (tb : List Node)
    (hg : Good env inp s) (h0 : s.hit = false) (hend : (evalTop env n s).2.hit = false)
    (hfail : (evalTop env n s).1 = .formulaError e tb) :
    Den env inp n (.err e) ∧ Good env inp (evalTop env n s).2 :=
  ⟨(C01.eval_value_is_denotation_partial env inp n s hg h0 hend).2.1 e tb hfail,
   (C01.eval_value_is_denotation_partial env inp n s hg h0 hend).2.2⟩

/-- **Every later evaluation returns the same values as if the failure had not happened**:
the state after the failed call `m` answers any query `n` with the spec's value – which
does not mention the failure or the order of earlier calls. -/
theorem retry_unaffected_partial (m n : Node) (s : St) (v : Val)
    (hg : Good env inp s) (h0 : s.hit = false)
    (h1 : (evalTop env m s).2.hit = false)
    (h2 : (evalTop env n (evalTop env m s).2).2.hit = false)
    (hv : (evalTop env n (evalTop env m s).2).1 = .ok v) :
    Den env inp n (.ok v) :=
  (C01.eval_value_is_denotation_partial env inp n _
    (C01.eval_value_is_denotation_partial env inp m s hg h0 h1).2.2 h1 h2).1 v hv

/-- **No element on the failing chain acquires a value**: in a correct state no element
whose evaluation ends in an error holds a value – so after the failed call neither the
element called nor any element whose failure propagated holds one. -/
theorem failing_elements_hold_no_value (s : St) (hg : Good env inp s) (m : Node) (e : Err)
    (hc : env.cached m.1 = true) (hden : Den env inp m (.err e)) : lookup s.data m = none := by
  cases hl : lookup s.data m with
  | none => rfl
  | some v =>
    have := Den_det env inp m _ _ (hg.sound m v hc hl) hden
    cases this

/-- **Elements completed before the failure keep correct values**: an evaluation, failed or
not, never removes a held value nor changes it, and leaves the user inputs alone. -/
theorem held_values_kept_partial (n m : Node) (s : St) (v : Val)
    (hg : Good env inp s) (h0 : s.hit = false) (hend : (evalTop env n s).2.hit = false)
    (hc : env.cached m.1 = true) (hl : lookup s.data m = some v) :
    lookup (evalTop env n s).2.data m = some v ∧ (evalTop env n s).2.inputs = s.inputs := by
  have hk := evalTop_keeps env n s
  refine ⟨?_, hk.2⟩
  have hsome := hk.1 m (by rw [hl]; rfl)
  cases hl' : lookup (evalTop env n s).2.data m with
  | none => rw [hl'] at hsome; cases hsome
  | some w =>
    have hg' := (C01.eval_value_is_denotation_partial env inp n s hg h0 hend).2.2
    have := Den_det env inp m _ _ (hg'.sound m w hc hl') (hg.sound m v hc hl)
    cases this; rfl

/-- **Chains shorter than the configured limit never hit it**, whatever is cached. -/
theorem below_limit_no_deep (n : Node) (s : St) (r : Res)
    (hg : Good env inp s) (h0 : s.hit = false)
    (hd : denoteN env inp (env.maxdepth + 1) n = (r, false)) :
    (evalTop env n s).2.hit = false :=
  (C01.eval_returns_denotation env inp n s r hg h0 hd).1

/-! ### Where `None` is "not allowed": the `allow_none` look-up chain

`CellsImpl._store_value` fails with `NoneReturnedError` when the formula returned `None` and
`get_property("allow_none")` is false.  The setting is looked up cells → space → model and the
nearest one that is set decides – in particular an explicit `False` on a cells is not
overridden by a `True` further up, and nothing set below the model means the model's. -/

theorem allow_none_own_setting_decides (b : Bool) (space : Option Bool) (model : Bool) :
    resolveAllowNone (some b) space model = b := rfl

theorem allow_none_space_decides_when_cells_unset (b : Bool) (model : Bool) :
    resolveAllowNone none (some b) model = b := rfl

theorem allow_none_model_decides_when_unset_below (model : Bool) :
    resolveAllowNone none none model = model := rfl

/-- the look-up never answers "allowed" unless some level says so -/
theorem allow_none_only_if_some_level_allows (cell space : Option Bool) (model : Bool)
    (h : resolveAllowNone cell space model = true) : cell = some true ∨ space = some true ∨ model = true := by
  cases cell with
  | some b => left; simpa [resolveAllowNone] using h
  | none =>
    cases space with
    | some b => right; left; simpa [resolveAllowNone] using h
    | none => right; right; simpa [resolveAllowNone] using h

example : resolveAllowNone (some false) (some true) true = false := by decide
example : resolveAllowNone none (some false) true = false := by decide

/-! Non-vacuity: a concrete failure three frames deep (the element called, a callee that
catches nothing, a raise) from the empty state: quiescent afterwards, nothing held, the
error is the original `ValueError`, and a later call of the healthy element works. -/
def fCells : CellId → Option Expr
  | 0 => some (.add (.call 1 []) (.lit 1))
  | 1 => some (.add (.call 3 []) (.call 2 []))
  | 2 => some (.raise kValue)
  | 3 => some (.lit 7)
  | _ => none

def fEnv : Env where
  formula := fun n => match fCells n.1 with
    | some e => formulaOf (fun c => (fCells c).map (fun _ => 0)) e n.2
    | none => .raise (.user kName)
  cached := fun _ => true
  allowNone := fun _ => false
  refs := fun _ => .none
  maxdepth := 10

example : (evalTop fEnv (0, []) {}).1 = .formulaError (.user kValue) [(0, []), (1, []), (2, [])] ∧
    ((evalTop fEnv (0, []) {}).2.data.map (·.1)) = [(3, [])] ∧
    (evalTop fEnv (0, []) {}).2.stack = [] ∧
    (evalTop fEnv (3, []) (evalTop fEnv (0, []) {}).2).1 = .ok (.int 7) := by decide

end MxModel.C05
